
type __ = Obj.t

(** val negb : bool -> bool **)

let negb = function
| true -> false
| false -> true

type nat =
| O
| S of nat

(** val fst : ('a1 * 'a2) -> 'a1 **)

let fst = function
| (x, _) -> x

(** val length : 'a1 list -> nat **)

let rec length = function
| [] -> O
| _ :: l' -> S (length l')

type comparison =
| Eq
| Lt
| Gt

(** val compOpp : comparison -> comparison **)

let compOpp = function
| Eq -> Eq
| Lt -> Gt
| Gt -> Lt

(** val id : __ -> __ **)

let id x =
  x

module Coq__1 = struct
 (** val add : nat -> nat -> nat **)
 let rec add n0 m =
   match n0 with
   | O -> m
   | S p -> S (add p m)
end
include Coq__1

type positive =
| XI of positive
| XO of positive
| XH

type n =
| N0
| Npos of positive

type z =
| Z0
| Zpos of positive
| Zneg of positive

module Pos =
 struct
  type mask =
  | IsNul
  | IsPos of positive
  | IsNeg
 end

module Coq_Pos =
 struct
  (** val succ : positive -> positive **)

  let rec succ = function
  | XI p -> XO (succ p)
  | XO p -> XI p
  | XH -> XO XH

  (** val add : positive -> positive -> positive **)

  let rec add x y =
    match x with
    | XI p ->
      (match y with
       | XI q -> XO (add_carry p q)
       | XO q -> XI (add p q)
       | XH -> XO (succ p))
    | XO p ->
      (match y with
       | XI q -> XI (add p q)
       | XO q -> XO (add p q)
       | XH -> XI p)
    | XH -> (match y with
             | XI q -> XO (succ q)
             | XO q -> XI q
             | XH -> XO XH)

  (** val add_carry : positive -> positive -> positive **)

  and add_carry x y =
    match x with
    | XI p ->
      (match y with
       | XI q -> XI (add_carry p q)
       | XO q -> XO (add_carry p q)
       | XH -> XI (succ p))
    | XO p ->
      (match y with
       | XI q -> XO (add_carry p q)
       | XO q -> XI (add p q)
       | XH -> XO (succ p))
    | XH ->
      (match y with
       | XI q -> XI (succ q)
       | XO q -> XO (succ q)
       | XH -> XI XH)

  (** val pred_double : positive -> positive **)

  let rec pred_double = function
  | XI p -> XI (XO p)
  | XO p -> XI (pred_double p)
  | XH -> XH

  (** val pred_N : positive -> n **)

  let pred_N = function
  | XI p -> Npos (XO p)
  | XO p -> Npos (pred_double p)
  | XH -> N0

  type mask = Pos.mask =
  | IsNul
  | IsPos of positive
  | IsNeg

  (** val succ_double_mask : mask -> mask **)

  let succ_double_mask = function
  | IsNul -> IsPos XH
  | IsPos p -> IsPos (XI p)
  | IsNeg -> IsNeg

  (** val double_mask : mask -> mask **)

  let double_mask = function
  | IsPos p -> IsPos (XO p)
  | x0 -> x0

  (** val double_pred_mask : positive -> mask **)

  let double_pred_mask = function
  | XI p -> IsPos (XO (XO p))
  | XO p -> IsPos (XO (pred_double p))
  | XH -> IsNul

  (** val sub_mask : positive -> positive -> mask **)

  let rec sub_mask x y =
    match x with
    | XI p ->
      (match y with
       | XI q -> double_mask (sub_mask p q)
       | XO q -> succ_double_mask (sub_mask p q)
       | XH -> IsPos (XO p))
    | XO p ->
      (match y with
       | XI q -> succ_double_mask (sub_mask_carry p q)
       | XO q -> double_mask (sub_mask p q)
       | XH -> IsPos (pred_double p))
    | XH -> (match y with
             | XH -> IsNul
             | _ -> IsNeg)

  (** val sub_mask_carry : positive -> positive -> mask **)

  and sub_mask_carry x y =
    match x with
    | XI p ->
      (match y with
       | XI q -> succ_double_mask (sub_mask_carry p q)
       | XO q -> double_mask (sub_mask p q)
       | XH -> IsPos (pred_double p))
    | XO p ->
      (match y with
       | XI q -> double_mask (sub_mask_carry p q)
       | XO q -> succ_double_mask (sub_mask_carry p q)
       | XH -> double_pred_mask p)
    | XH -> IsNeg

  (** val mul : positive -> positive -> positive **)

  let rec mul x y =
    match x with
    | XI p -> add y (XO (mul p y))
    | XO p -> XO (mul p y)
    | XH -> y

  (** val iter : ('a1 -> 'a1) -> 'a1 -> positive -> 'a1 **)

  let rec iter f x = function
  | XI n' -> f (iter f (iter f x n') n')
  | XO n' -> iter f (iter f x n') n'
  | XH -> f x

  (** val div2 : positive -> positive **)

  let div2 = function
  | XI p0 -> p0
  | XO p0 -> p0
  | XH -> XH

  (** val div2_up : positive -> positive **)

  let div2_up = function
  | XI p0 -> succ p0
  | XO p0 -> p0
  | XH -> XH

  (** val compare_cont : comparison -> positive -> positive -> comparison **)

  let rec compare_cont r x y =
    match x with
    | XI p ->
      (match y with
       | XI q -> compare_cont r p q
       | XO q -> compare_cont Gt p q
       | XH -> Gt)
    | XO p ->
      (match y with
       | XI q -> compare_cont Lt p q
       | XO q -> compare_cont r p q
       | XH -> Gt)
    | XH -> (match y with
             | XH -> r
             | _ -> Lt)

  (** val compare : positive -> positive -> comparison **)

  let compare =
    compare_cont Eq

  (** val eqb : positive -> positive -> bool **)

  let rec eqb p q =
    match p with
    | XI p0 -> (match q with
                | XI q0 -> eqb p0 q0
                | _ -> false)
    | XO p0 -> (match q with
                | XO q0 -> eqb p0 q0
                | _ -> false)
    | XH -> (match q with
             | XH -> true
             | _ -> false)

  (** val coq_Nsucc_double : n -> n **)

  let coq_Nsucc_double = function
  | N0 -> Npos XH
  | Npos p -> Npos (XI p)

  (** val coq_Ndouble : n -> n **)

  let coq_Ndouble = function
  | N0 -> N0
  | Npos p -> Npos (XO p)

  (** val coq_lor : positive -> positive -> positive **)

  let rec coq_lor p q =
    match p with
    | XI p0 ->
      (match q with
       | XI q0 -> XI (coq_lor p0 q0)
       | XO q0 -> XI (coq_lor p0 q0)
       | XH -> p)
    | XO p0 ->
      (match q with
       | XI q0 -> XI (coq_lor p0 q0)
       | XO q0 -> XO (coq_lor p0 q0)
       | XH -> XI p0)
    | XH -> (match q with
             | XO q0 -> XI q0
             | _ -> q)

  (** val coq_land : positive -> positive -> n **)

  let rec coq_land p q =
    match p with
    | XI p0 ->
      (match q with
       | XI q0 -> coq_Nsucc_double (coq_land p0 q0)
       | XO q0 -> coq_Ndouble (coq_land p0 q0)
       | XH -> Npos XH)
    | XO p0 ->
      (match q with
       | XI q0 -> coq_Ndouble (coq_land p0 q0)
       | XO q0 -> coq_Ndouble (coq_land p0 q0)
       | XH -> N0)
    | XH -> (match q with
             | XO _ -> N0
             | _ -> Npos XH)

  (** val ldiff : positive -> positive -> n **)

  let rec ldiff p q =
    match p with
    | XI p0 ->
      (match q with
       | XI q0 -> coq_Ndouble (ldiff p0 q0)
       | XO q0 -> coq_Nsucc_double (ldiff p0 q0)
       | XH -> Npos (XO p0))
    | XO p0 ->
      (match q with
       | XI q0 -> coq_Ndouble (ldiff p0 q0)
       | XO q0 -> coq_Ndouble (ldiff p0 q0)
       | XH -> Npos p)
    | XH -> (match q with
             | XO _ -> Npos XH
             | _ -> N0)

  (** val coq_lxor : positive -> positive -> n **)

  let rec coq_lxor p q =
    match p with
    | XI p0 ->
      (match q with
       | XI q0 -> coq_Ndouble (coq_lxor p0 q0)
       | XO q0 -> coq_Nsucc_double (coq_lxor p0 q0)
       | XH -> Npos (XO p0))
    | XO p0 ->
      (match q with
       | XI q0 -> coq_Nsucc_double (coq_lxor p0 q0)
       | XO q0 -> coq_Ndouble (coq_lxor p0 q0)
       | XH -> Npos (XI p0))
    | XH ->
      (match q with
       | XI q0 -> Npos (XO q0)
       | XO q0 -> Npos (XI q0)
       | XH -> N0)

  (** val testbit : positive -> n -> bool **)

  let rec testbit p n0 =
    match p with
    | XI p0 -> (match n0 with
                | N0 -> true
                | Npos n1 -> testbit p0 (pred_N n1))
    | XO p0 -> (match n0 with
                | N0 -> false
                | Npos n1 -> testbit p0 (pred_N n1))
    | XH -> (match n0 with
             | N0 -> true
             | Npos _ -> false)

  (** val iter_op : ('a1 -> 'a1 -> 'a1) -> positive -> 'a1 -> 'a1 **)

  let rec iter_op op p a =
    match p with
    | XI p0 -> op a (iter_op op p0 (op a a))
    | XO p0 -> iter_op op p0 (op a a)
    | XH -> a

  (** val to_nat : positive -> nat **)

  let to_nat x =
    iter_op Coq__1.add x (S O)

  (** val of_succ_nat : nat -> positive **)

  let rec of_succ_nat = function
  | O -> XH
  | S x -> succ (of_succ_nat x)
 end

module N =
 struct
  (** val succ_double : n -> n **)

  let succ_double = function
  | N0 -> Npos XH
  | Npos p -> Npos (XI p)

  (** val double : n -> n **)

  let double = function
  | N0 -> N0
  | Npos p -> Npos (XO p)

  (** val succ_pos : n -> positive **)

  let succ_pos = function
  | N0 -> XH
  | Npos p -> Coq_Pos.succ p

  (** val sub : n -> n -> n **)

  let sub n0 m =
    match n0 with
    | N0 -> N0
    | Npos n' ->
      (match m with
       | N0 -> n0
       | Npos m' ->
         (match Coq_Pos.sub_mask n' m' with
          | Coq_Pos.IsPos p -> Npos p
          | _ -> N0))

  (** val compare : n -> n -> comparison **)

  let compare n0 m =
    match n0 with
    | N0 -> (match m with
             | N0 -> Eq
             | Npos _ -> Lt)
    | Npos n' -> (match m with
                  | N0 -> Gt
                  | Npos m' -> Coq_Pos.compare n' m')

  (** val leb : n -> n -> bool **)

  let leb x y =
    match compare x y with
    | Gt -> false
    | _ -> true

  (** val pos_div_eucl : positive -> n -> n * n **)

  let rec pos_div_eucl a b =
    match a with
    | XI a' ->
      let (q, r) = pos_div_eucl a' b in
      let r' = succ_double r in
      if leb b r' then ((succ_double q), (sub r' b)) else ((double q), r')
    | XO a' ->
      let (q, r) = pos_div_eucl a' b in
      let r' = double r in
      if leb b r' then ((succ_double q), (sub r' b)) else ((double q), r')
    | XH ->
      (match b with
       | N0 -> (N0, (Npos XH))
       | Npos p -> (match p with
                    | XH -> ((Npos XH), N0)
                    | _ -> (N0, (Npos XH))))

  (** val coq_lor : n -> n -> n **)

  let coq_lor n0 m =
    match n0 with
    | N0 -> m
    | Npos p -> (match m with
                 | N0 -> n0
                 | Npos q -> Npos (Coq_Pos.coq_lor p q))

  (** val coq_land : n -> n -> n **)

  let coq_land n0 m =
    match n0 with
    | N0 -> N0
    | Npos p -> (match m with
                 | N0 -> N0
                 | Npos q -> Coq_Pos.coq_land p q)

  (** val ldiff : n -> n -> n **)

  let ldiff n0 m =
    match n0 with
    | N0 -> N0
    | Npos p -> (match m with
                 | N0 -> n0
                 | Npos q -> Coq_Pos.ldiff p q)

  (** val coq_lxor : n -> n -> n **)

  let coq_lxor n0 m =
    match n0 with
    | N0 -> m
    | Npos p -> (match m with
                 | N0 -> n0
                 | Npos q -> Coq_Pos.coq_lxor p q)

  (** val testbit : n -> n -> bool **)

  let testbit a n0 =
    match a with
    | N0 -> false
    | Npos p -> Coq_Pos.testbit p n0
 end

module Z =
 struct
  (** val double : z -> z **)

  let double = function
  | Z0 -> Z0
  | Zpos p -> Zpos (XO p)
  | Zneg p -> Zneg (XO p)

  (** val succ_double : z -> z **)

  let succ_double = function
  | Z0 -> Zpos XH
  | Zpos p -> Zpos (XI p)
  | Zneg p -> Zneg (Coq_Pos.pred_double p)

  (** val pred_double : z -> z **)

  let pred_double = function
  | Z0 -> Zneg XH
  | Zpos p -> Zpos (Coq_Pos.pred_double p)
  | Zneg p -> Zneg (XI p)

  (** val pos_sub : positive -> positive -> z **)

  let rec pos_sub x y =
    match x with
    | XI p ->
      (match y with
       | XI q -> double (pos_sub p q)
       | XO q -> succ_double (pos_sub p q)
       | XH -> Zpos (XO p))
    | XO p ->
      (match y with
       | XI q -> pred_double (pos_sub p q)
       | XO q -> double (pos_sub p q)
       | XH -> Zpos (Coq_Pos.pred_double p))
    | XH ->
      (match y with
       | XI q -> Zneg (XO q)
       | XO q -> Zneg (Coq_Pos.pred_double q)
       | XH -> Z0)

  (** val add : z -> z -> z **)

  let add x y =
    match x with
    | Z0 -> y
    | Zpos x' ->
      (match y with
       | Z0 -> x
       | Zpos y' -> Zpos (Coq_Pos.add x' y')
       | Zneg y' -> pos_sub x' y')
    | Zneg x' ->
      (match y with
       | Z0 -> x
       | Zpos y' -> pos_sub y' x'
       | Zneg y' -> Zneg (Coq_Pos.add x' y'))

  (** val opp : z -> z **)

  let opp = function
  | Z0 -> Z0
  | Zpos x0 -> Zneg x0
  | Zneg x0 -> Zpos x0

  (** val sub : z -> z -> z **)

  let sub m n0 =
    add m (opp n0)

  (** val mul : z -> z -> z **)

  let mul x y =
    match x with
    | Z0 -> Z0
    | Zpos x' ->
      (match y with
       | Z0 -> Z0
       | Zpos y' -> Zpos (Coq_Pos.mul x' y')
       | Zneg y' -> Zneg (Coq_Pos.mul x' y'))
    | Zneg x' ->
      (match y with
       | Z0 -> Z0
       | Zpos y' -> Zneg (Coq_Pos.mul x' y')
       | Zneg y' -> Zpos (Coq_Pos.mul x' y'))

  (** val pow_pos : z -> positive -> z **)

  let pow_pos z0 =
    Coq_Pos.iter (mul z0) (Zpos XH)

  (** val pow : z -> z -> z **)

  let pow x = function
  | Z0 -> Zpos XH
  | Zpos p -> pow_pos x p
  | Zneg _ -> Z0

  (** val compare : z -> z -> comparison **)

  let compare x y =
    match x with
    | Z0 -> (match y with
             | Z0 -> Eq
             | Zpos _ -> Lt
             | Zneg _ -> Gt)
    | Zpos x' -> (match y with
                  | Zpos y' -> Coq_Pos.compare x' y'
                  | _ -> Gt)
    | Zneg x' ->
      (match y with
       | Zneg y' -> compOpp (Coq_Pos.compare x' y')
       | _ -> Lt)

  (** val leb : z -> z -> bool **)

  let leb x y =
    match compare x y with
    | Gt -> false
    | _ -> true

  (** val ltb : z -> z -> bool **)

  let ltb x y =
    match compare x y with
    | Lt -> true
    | _ -> false

  (** val geb : z -> z -> bool **)

  let geb x y =
    match compare x y with
    | Lt -> false
    | _ -> true

  (** val gtb : z -> z -> bool **)

  let gtb x y =
    match compare x y with
    | Gt -> true
    | _ -> false

  (** val eqb : z -> z -> bool **)

  let eqb x y =
    match x with
    | Z0 -> (match y with
             | Z0 -> true
             | _ -> false)
    | Zpos p -> (match y with
                 | Zpos q -> Coq_Pos.eqb p q
                 | _ -> false)
    | Zneg p -> (match y with
                 | Zneg q -> Coq_Pos.eqb p q
                 | _ -> false)

  (** val to_nat : z -> nat **)

  let to_nat = function
  | Zpos p -> Coq_Pos.to_nat p
  | _ -> O

  (** val of_nat : nat -> z **)

  let of_nat = function
  | O -> Z0
  | S n1 -> Zpos (Coq_Pos.of_succ_nat n1)

  (** val of_N : n -> z **)

  let of_N = function
  | N0 -> Z0
  | Npos p -> Zpos p

  (** val pos_div_eucl : positive -> z -> z * z **)

  let rec pos_div_eucl a b =
    match a with
    | XI a' ->
      let (q, r) = pos_div_eucl a' b in
      let r' = add (mul (Zpos (XO XH)) r) (Zpos XH) in
      if ltb r' b
      then ((mul (Zpos (XO XH)) q), r')
      else ((add (mul (Zpos (XO XH)) q) (Zpos XH)), (sub r' b))
    | XO a' ->
      let (q, r) = pos_div_eucl a' b in
      let r' = mul (Zpos (XO XH)) r in
      if ltb r' b
      then ((mul (Zpos (XO XH)) q), r')
      else ((add (mul (Zpos (XO XH)) q) (Zpos XH)), (sub r' b))
    | XH -> if leb (Zpos (XO XH)) b then (Z0, (Zpos XH)) else ((Zpos XH), Z0)

  (** val div_eucl : z -> z -> z * z **)

  let div_eucl a b =
    match a with
    | Z0 -> (Z0, Z0)
    | Zpos a' ->
      (match b with
       | Z0 -> (Z0, a)
       | Zpos _ -> pos_div_eucl a' b
       | Zneg b' ->
         let (q, r) = pos_div_eucl a' (Zpos b') in
         (match r with
          | Z0 -> ((opp q), Z0)
          | _ -> ((opp (add q (Zpos XH))), (add b r))))
    | Zneg a' ->
      (match b with
       | Z0 -> (Z0, a)
       | Zpos _ ->
         let (q, r) = pos_div_eucl a' b in
         (match r with
          | Z0 -> ((opp q), Z0)
          | _ -> ((opp (add q (Zpos XH))), (sub b r)))
       | Zneg b' -> let (q, r) = pos_div_eucl a' (Zpos b') in (q, (opp r)))

  (** val div : z -> z -> z **)

  let div a b =
    let (q, _) = div_eucl a b in q

  (** val modulo : z -> z -> z **)

  let modulo a b =
    let (_, r) = div_eucl a b in r

  (** val quotrem : z -> z -> z * z **)

  let quotrem a b =
    match a with
    | Z0 -> (Z0, Z0)
    | Zpos a0 ->
      (match b with
       | Z0 -> (Z0, a)
       | Zpos b0 ->
         let (q, r) = N.pos_div_eucl a0 (Npos b0) in ((of_N q), (of_N r))
       | Zneg b0 ->
         let (q, r) = N.pos_div_eucl a0 (Npos b0) in
         ((opp (of_N q)), (of_N r)))
    | Zneg a0 ->
      (match b with
       | Z0 -> (Z0, a)
       | Zpos b0 ->
         let (q, r) = N.pos_div_eucl a0 (Npos b0) in
         ((opp (of_N q)), (opp (of_N r)))
       | Zneg b0 ->
         let (q, r) = N.pos_div_eucl a0 (Npos b0) in
         ((of_N q), (opp (of_N r))))

  (** val quot : z -> z -> z **)

  let quot a b =
    fst (quotrem a b)

  (** val odd : z -> bool **)

  let odd = function
  | Z0 -> false
  | Zpos p -> (match p with
               | XO _ -> false
               | _ -> true)
  | Zneg p -> (match p with
               | XO _ -> false
               | _ -> true)

  (** val div2 : z -> z **)

  let div2 = function
  | Z0 -> Z0
  | Zpos p -> (match p with
               | XH -> Z0
               | _ -> Zpos (Coq_Pos.div2 p))
  | Zneg p -> Zneg (Coq_Pos.div2_up p)

  (** val testbit : z -> z -> bool **)

  let testbit a = function
  | Z0 -> odd a
  | Zpos p ->
    (match a with
     | Z0 -> false
     | Zpos a0 -> Coq_Pos.testbit a0 (Npos p)
     | Zneg a0 -> negb (N.testbit (Coq_Pos.pred_N a0) (Npos p)))
  | Zneg _ -> false

  (** val shiftl : z -> z -> z **)

  let shiftl a = function
  | Z0 -> a
  | Zpos p -> Coq_Pos.iter (mul (Zpos (XO XH))) a p
  | Zneg p -> Coq_Pos.iter div2 a p

  (** val coq_lor : z -> z -> z **)

  let coq_lor a b =
    match a with
    | Z0 -> b
    | Zpos a0 ->
      (match b with
       | Z0 -> a
       | Zpos b0 -> Zpos (Coq_Pos.coq_lor a0 b0)
       | Zneg b0 -> Zneg (N.succ_pos (N.ldiff (Coq_Pos.pred_N b0) (Npos a0))))
    | Zneg a0 ->
      (match b with
       | Z0 -> a
       | Zpos b0 -> Zneg (N.succ_pos (N.ldiff (Coq_Pos.pred_N a0) (Npos b0)))
       | Zneg b0 ->
         Zneg
           (N.succ_pos (N.coq_land (Coq_Pos.pred_N a0) (Coq_Pos.pred_N b0))))

  (** val coq_land : z -> z -> z **)

  let coq_land a b =
    match a with
    | Z0 -> Z0
    | Zpos a0 ->
      (match b with
       | Z0 -> Z0
       | Zpos b0 -> of_N (Coq_Pos.coq_land a0 b0)
       | Zneg b0 -> of_N (N.ldiff (Npos a0) (Coq_Pos.pred_N b0)))
    | Zneg a0 ->
      (match b with
       | Z0 -> Z0
       | Zpos b0 -> of_N (N.ldiff (Npos b0) (Coq_Pos.pred_N a0))
       | Zneg b0 ->
         Zneg (N.succ_pos (N.coq_lor (Coq_Pos.pred_N a0) (Coq_Pos.pred_N b0))))

  (** val coq_lxor : z -> z -> z **)

  let coq_lxor a b =
    match a with
    | Z0 -> b
    | Zpos a0 ->
      (match b with
       | Z0 -> a
       | Zpos b0 -> of_N (Coq_Pos.coq_lxor a0 b0)
       | Zneg b0 ->
         Zneg (N.succ_pos (N.coq_lxor (Npos a0) (Coq_Pos.pred_N b0))))
    | Zneg a0 ->
      (match b with
       | Z0 -> a
       | Zpos b0 ->
         Zneg (N.succ_pos (N.coq_lxor (Coq_Pos.pred_N a0) (Npos b0)))
       | Zneg b0 -> of_N (N.coq_lxor (Coq_Pos.pred_N a0) (Coq_Pos.pred_N b0)))
 end

(** val nth : nat -> 'a1 list -> 'a1 -> 'a1 **)

let rec nth n0 l default =
  match n0 with
  | O -> (match l with
          | [] -> default
          | x :: _ -> x)
  | S m -> (match l with
            | [] -> default
            | _ :: t -> nth m t default)

(** val existsb : ('a1 -> bool) -> 'a1 list -> bool **)

let rec existsb f = function
| [] -> false
| a :: l0 -> (||) (f a) (existsb f l0)

(** val forallb : ('a1 -> bool) -> 'a1 list -> bool **)

let rec forallb f = function
| [] -> true
| a :: l0 -> (&&) (f a) (forallb f l0)

(** val firstn : nat -> 'a1 list -> 'a1 list **)

let rec firstn n0 l =
  match n0 with
  | O -> []
  | S n1 -> (match l with
             | [] -> []
             | a :: l0 -> a :: (firstn n1 l0))

(** val skipn : nat -> 'a1 list -> 'a1 list **)

let rec skipn n0 l =
  match n0 with
  | O -> l
  | S n1 -> (match l with
             | [] -> []
             | _ :: l0 -> skipn n1 l0)

(** val w8 : z -> z **)

let w8 x =
  Z.modulo x (Z.pow (Zpos (XO XH)) (Zpos (XO (XO (XO XH)))))

(** val w32 : z -> z **)

let w32 x =
  Z.modulo x (Z.pow (Zpos (XO XH)) (Zpos (XO (XO (XO (XO (XO XH)))))))

(** val w64 : z -> z **)

let w64 x =
  Z.modulo x (Z.pow (Zpos (XO XH)) (Zpos (XO (XO (XO (XO (XO (XO XH))))))))

(** val s32 : z -> z **)

let s32 x =
  let y = w32 x in
  if Z.ltb y (Z.pow (Zpos (XO XH)) (Zpos (XI (XI (XI (XI XH))))))
  then y
  else Z.sub y (Z.pow (Zpos (XO XH)) (Zpos (XO (XO (XO (XO (XO XH)))))))

(** val s64 : z -> z **)

let s64 x =
  let y = w64 x in
  if Z.ltb y (Z.pow (Zpos (XO XH)) (Zpos (XI (XI (XI (XI (XI XH)))))))
  then y
  else Z.sub y (Z.pow (Zpos (XO XH)) (Zpos (XO (XO (XO (XO (XO (XO XH))))))))

(** val add64 : z -> z -> z **)

let add64 a b =
  w64 (Z.add a b)

(** val sub64 : z -> z -> z **)

let sub64 a b =
  w64 (Z.sub a b)

(** val mul64 : z -> z -> z **)

let mul64 a b =
  w64 (Z.mul a b)

(** val div64 : z -> z -> z **)

let div64 =
  Z.div

(** val and64 : z -> z -> z **)

let and64 =
  Z.coq_land

(** val or64 : z -> z -> z **)

let or64 =
  Z.coq_lor

(** val xor64 : z -> z -> z **)

let xor64 =
  Z.coq_lxor

(** val not64 : z -> z **)

let not64 a =
  Z.sub
    (Z.sub (Z.pow (Zpos (XO XH)) (Zpos (XO (XO (XO (XO (XO (XO XH))))))))
      (Zpos XH)) a

(** val add32 : z -> z -> z **)

let add32 a b =
  w32 (Z.add a b)

(** val sub32 : z -> z -> z **)

let sub32 a b =
  w32 (Z.sub a b)

(** val mul32 : z -> z -> z **)

let mul32 a b =
  w32 (Z.mul a b)

(** val and32 : z -> z -> z **)

let and32 =
  Z.coq_land

(** val or32 : z -> z -> z **)

let or32 =
  Z.coq_lor

(** val not32 : z -> z **)

let not32 a =
  Z.sub
    (Z.sub (Z.pow (Zpos (XO XH)) (Zpos (XO (XO (XO (XO (XO XH))))))) (Zpos
      XH)) a

(** val shl32 : z -> z -> z **)

let shl32 a n0 =
  if Z.ltb n0 (Zpos (XO (XO (XO (XO (XO XH))))))
  then w32 (Z.shiftl a n0)
  else Z0

(** val sub8 : z -> z -> z **)

let sub8 a b =
  w8 (Z.sub a b)

(** val addi64 : z -> z -> z **)

let addi64 a b =
  s64 (Z.add a b)

(** val subi64 : z -> z -> z **)

let subi64 a b =
  s64 (Z.sub a b)

(** val muli64 : z -> z -> z **)

let muli64 a b =
  s64 (Z.mul a b)

(** val divi64 : z -> z -> z **)

let divi64 a b =
  s64 (Z.quot a b)

type bytes = z list

(** val len : 'a1 list -> z **)

let len l =
  Z.of_nat (length l)

(** val at_ : bytes -> z -> z **)

let at_ b i =
  nth (Z.to_nat i) b Z0

(** val slice_from : 'a1 list -> z -> 'a1 list **)

let slice_from b i =
  skipn (Z.to_nat i) b

(** val slice_to : 'a1 list -> z -> 'a1 list **)

let slice_to b j =
  firstn (Z.to_nat j) b

(** val slice : 'a1 list -> z -> z -> 'a1 list **)

let slice b i j =
  firstn (Z.to_nat (Z.sub j i)) (skipn (Z.to_nat i) b)

(** val le_load : nat -> bytes -> z **)

let rec le_load n0 b =
  match n0 with
  | O -> Z0
  | S n' ->
    (match b with
     | [] -> Z0
     | x :: r ->
       Z.add x
         (Z.mul (Zpos (XO (XO (XO (XO (XO (XO (XO (XO XH)))))))))
           (le_load n' r)))

(** val le64 : bytes -> z **)

let le64 b =
  le_load (S (S (S (S (S (S (S (S O)))))))) b

(** val le32 : bytes -> z **)

let le32 b =
  le_load (S (S (S (S O)))) b

(** val le16 : bytes -> z **)

let le16 b =
  le_load (S (S O)) b

(** val isnil : 'a1 option -> bool **)

let isnil = function
| Some _ -> false
| None -> true

(** val bytes_eqb : bytes -> bytes -> bool **)

let rec bytes_eqb a b =
  match a with
  | [] -> (match b with
           | [] -> true
           | _ :: _ -> false)
  | x :: a' ->
    (match b with
     | [] -> false
     | y :: b' -> (&&) (Z.eqb x y) (bytes_eqb a' b'))

(** val obind : 'a1 option -> ('a1 -> 'a2 option) -> 'a2 option **)

let obind o f =
  match o with
  | Some a -> f a
  | None -> None

(** val ctz_pos : positive -> z **)

let rec ctz_pos = function
| XO p' -> Z.add (Zpos XH) (ctz_pos p')
| _ -> Z0

(** val ctz : z -> z -> z **)

let ctz dflt = function
| Z0 -> dflt
| Zpos p -> ctz_pos p
| Zneg _ -> Z0

type json_err =
| JErrSyntax
| JErrUnexpectedEOF
| JErrType
| JErrOverflow
| JErrOther

(** val index_byte_from : z -> bytes -> z -> z **)

let rec index_byte_from i b c =
  match b with
  | [] -> Zneg XH
  | x :: r -> if Z.eqb x c then i else index_byte_from (Z.add i (Zpos XH)) r c

(** val index_byte : bytes -> z -> z **)

let index_byte b c =
  index_byte_from Z0 b c

(** val ctz64 : z -> z **)

let ctz64 x =
  ctz (Zpos (XO (XO (XO (XO (XO (XO XH))))))) x

(** val asm_hasLessConstL64 : z **)

let asm_hasLessConstL64 =
  Zpos (XI (XO (XO (XO (XO (XO (XO (XO (XI (XO (XO (XO (XO (XO (XO (XO (XI
    (XO (XO (XO (XO (XO (XO (XO (XI (XO (XO (XO (XO (XO (XO (XO (XI (XO (XO
    (XO (XO (XO (XO (XO (XI (XO (XO (XO (XO (XO (XO (XO (XI (XO (XO (XO (XO
    (XO (XO (XO XH))))))))))))))))))))))))))))))))))))))))))))))))))))))))

(** val asm_hasLessConstR64 : z **)

let asm_hasLessConstR64 =
  Zpos (XO (XO (XO (XO (XO (XO (XO (XI (XO (XO (XO (XO (XO (XO (XO (XI (XO
    (XO (XO (XO (XO (XO (XO (XI (XO (XO (XO (XO (XO (XO (XO (XI (XO (XO (XO
    (XO (XO (XO (XO (XI (XO (XO (XO (XO (XO (XO (XO (XI (XO (XO (XO (XO (XO
    (XO (XO (XI (XO (XO (XO (XO (XO (XO (XO
    XH)))))))))))))))))))))))))))))))))))))))))))))))))))))))))))))))

(** val asm_hasLessConstL32 : z **)

let asm_hasLessConstL32 =
  Zpos (XI (XO (XO (XO (XO (XO (XO (XO (XI (XO (XO (XO (XO (XO (XO (XO (XI
    (XO (XO (XO (XO (XO (XO (XO XH))))))))))))))))))))))))

(** val asm_hasLessConstR32 : z **)

let asm_hasLessConstR32 =
  Zpos (XO (XO (XO (XO (XO (XO (XO (XI (XO (XO (XO (XO (XO (XO (XO (XI (XO
    (XO (XO (XO (XO (XO (XO (XI (XO (XO (XO (XO (XO (XO (XO
    XH)))))))))))))))))))))))))))))))

(** val asm_hasMoreConstL64 : z **)

let asm_hasMoreConstL64 =
  Zpos (XI (XO (XO (XO (XO (XO (XO (XO (XI (XO (XO (XO (XO (XO (XO (XO (XI
    (XO (XO (XO (XO (XO (XO (XO (XI (XO (XO (XO (XO (XO (XO (XO (XI (XO (XO
    (XO (XO (XO (XO (XO (XI (XO (XO (XO (XO (XO (XO (XO (XI (XO (XO (XO (XO
    (XO (XO (XO XH))))))))))))))))))))))))))))))))))))))))))))))))))))))))

(** val asm_hasMoreConstR64 : z **)

let asm_hasMoreConstR64 =
  Zpos (XO (XO (XO (XO (XO (XO (XO (XI (XO (XO (XO (XO (XO (XO (XO (XI (XO
    (XO (XO (XO (XO (XO (XO (XI (XO (XO (XO (XO (XO (XO (XO (XI (XO (XO (XO
    (XO (XO (XO (XO (XI (XO (XO (XO (XO (XO (XO (XO (XI (XO (XO (XO (XO (XO
    (XO (XO (XI (XO (XO (XO (XO (XO (XO (XO
    XH)))))))))))))))))))))))))))))))))))))))))))))))))))))))))))))))

(** val asm_hasMoreConstL32 : z **)

let asm_hasMoreConstL32 =
  Zpos (XI (XO (XO (XO (XO (XO (XO (XO (XI (XO (XO (XO (XO (XO (XO (XO (XI
    (XO (XO (XO (XO (XO (XO (XO XH))))))))))))))))))))))))

(** val asm_hasMoreConstR32 : z **)

let asm_hasMoreConstR32 =
  Zpos (XO (XO (XO (XO (XO (XO (XO (XI (XO (XO (XO (XO (XO (XO (XO (XI (XO
    (XO (XO (XO (XO (XO (XO (XI (XO (XO (XO (XO (XO (XO (XO
    XH)))))))))))))))))))))))))))))))

(** val asm_hasLess64 : z -> z -> bool **)

let asm_hasLess64 x n0 =
  negb
    (Z.eqb
      (and64 (and64 (sub64 x (mul64 asm_hasLessConstL64 n0)) (not64 x))
        asm_hasLessConstR64) Z0)

(** val asm_hasLess32 : z -> z -> bool **)

let asm_hasLess32 x n0 =
  negb
    (Z.eqb
      (and32 (and32 (sub32 x (mul32 asm_hasLessConstL32 n0)) (not32 x))
        asm_hasLessConstR32) Z0)

(** val asm_hasMore64 : z -> z -> bool **)

let asm_hasMore64 x n0 =
  negb
    (Z.eqb
      (and64
        (or64
          (add64 x
            (mul64 asm_hasMoreConstL64
              (sub64 (Zpos (XI (XI (XI (XI (XI (XI XH))))))) n0))) x)
        asm_hasMoreConstR64) Z0)

(** val asm_hasMore32 : z -> z -> bool **)

let asm_hasMore32 x n0 =
  negb
    (Z.eqb
      (and32
        (or32
          (add32 x
            (mul32 asm_hasMoreConstL32
              (sub32 (Zpos (XI (XI (XI (XI (XI (XI XH))))))) n0))) x)
        asm_hasMoreConstR32) Z0)

(** val asm_ValidPrintString : nat -> bytes -> bool option **)

let asm_ValidPrintString fuel s =
  let i = Z0 in
  let n0 = w64 (len s) in
  let k4_ = fun i0 ->
    let k3_ = fun i1 ->
      if Z.eqb i1 n0
      then Some true
      else let p = slice_from s i1 in
           let k1_ = fun x -> Some
             (negb
               ((||) (asm_hasLess32 x (Zpos (XO (XO (XO (XO (XO XH)))))))
                 (asm_hasMore32 x (Zpos (XO (XI (XI (XI (XI (XI XH))))))))))
           in
           let tag2_ = sub64 n0 i1 in
           if Z.eqb tag2_ (Zpos (XI XH))
           then let x =
                  or32
                    (or32 (Zpos (XO (XO (XO (XO (XO (XO (XO (XO (XO (XO (XO
                      (XO (XO (XO (XO (XO (XO (XO (XO (XO (XO (XO (XO (XO (XO
                      (XO (XO (XO (XO XH))))))))))))))))))))))))))))))
                      (le16 p))
                    (shl32 (at_ p (Zpos (XO XH))) (Zpos (XO (XO (XO (XO
                      XH))))))
                in
                k1_ x
           else if Z.eqb tag2_ (Zpos (XO XH))
                then let x =
                       or32 (Zpos (XO (XO (XO (XO (XO (XO (XO (XO (XO (XO (XO
                         (XO (XO (XO (XO (XO (XO (XO (XO (XO (XO (XI (XO (XO
                         (XO (XO (XO (XO (XO XH))))))))))))))))))))))))))))))
                         (le16 p)
                     in
                     k1_ x
                else if Z.eqb tag2_ (Zpos XH)
                     then let x =
                            or32 (Zpos (XO (XO (XO (XO (XO (XO (XO (XO (XO
                              (XO (XO (XO (XO (XI (XO (XO (XO (XO (XO (XO (XO
                              (XI (XO (XO (XO (XO (XO (XO (XO
                              XH)))))))))))))))))))))))))))))) (at_ p Z0)
                          in
                          k1_ x
                     else Some true
    in
    if Z.leb (add64 i0 (Zpos (XO (XO XH)))) n0
    then if (||)
              (asm_hasLess32 (le32 (slice_from s i0)) (Zpos (XO (XO (XO (XO
                (XO XH)))))))
              (asm_hasMore32 (le32 (slice_from s i0)) (Zpos (XO (XI (XI (XI
                (XI (XI XH))))))))
         then Some false
         else let i1 = add64 i0 (Zpos (XO (XO XH))) in k3_ i1
    else k3_ i0
  in
  let rec loop5_ f6_ i0 =
    match f6_ with
    | O -> None
    | S f7_ ->
      if Z.leb (add64 i0 (Zpos (XO (XO (XO XH))))) n0
      then if (||)
                (asm_hasLess64 (le64 (slice_from s i0)) (Zpos (XO (XO (XO (XO
                  (XO XH)))))))
                (asm_hasMore64 (le64 (slice_from s i0)) (Zpos (XO (XI (XI (XI
                  (XI (XI XH))))))))
           then Some false
           else let i1 = add64 i0 (Zpos (XO (XO (XO XH)))) in loop5_ f7_ i1
      else k4_ i0
  in loop5_ fuel i

(** val asm_ValidPrint : nat -> bytes -> bool option **)

let asm_ValidPrint fuel b =
  obind (asm_ValidPrintString fuel (Obj.magic id b)) (fun r1_ -> Some r1_)

(** val run_fuel : bool option -> bool **)

let run_fuel = function
| Some r -> r
| None -> false

(** val asmt_ValidPrint : bytes -> bool **)

let asmt_ValidPrint b =
  run_fuel (asm_ValidPrint (S (length b)) b)

(** val ascii_ValidPrint : bytes -> bool **)

let ascii_ValidPrint =
  asmt_ValidPrint

(** val json_UseNumber : z **)

let json_UseNumber =
  Zpos (XO XH)

(** val json_UseBigInt : z **)

let json_UseBigInt =
  Zpos (XO (XO (XO (XO (XO (XO XH))))))

(** val json_UseInt64 : z **)

let json_UseInt64 =
  Zpos (XO (XO (XO (XO (XO (XO (XO XH)))))))

(** val json_UseUint64 : z **)

let json_UseUint64 =
  Zpos (XO (XO (XO (XO (XO (XO (XO (XO XH))))))))

(** val json_validAsciiPrint : z **)

let json_validAsciiPrint =
  Zpos (XO (XO (XO (XO (XO (XO (XO (XO (XO (XO (XO (XO (XO (XO (XO (XO (XO
    (XO (XO (XO (XO (XO (XO (XO (XO (XO (XO (XO XH))))))))))))))))))))))))))))

(** val json_noBackslash : z **)

let json_noBackslash =
  Zpos (XO (XO (XO (XO (XO (XO (XO (XO (XO (XO (XO (XO (XO (XO (XO (XO (XO
    (XO (XO (XO (XO (XO (XO (XO (XO (XO (XO (XO (XO
    XH)))))))))))))))))))))))))))))

(** val json_Undefined : z **)

let json_Undefined =
  Z0

(** val json_Null : z **)

let json_Null =
  Zpos XH

(** val json_False : z **)

let json_False =
  Zpos (XO XH)

(** val json_True : z **)

let json_True =
  Zpos (XI XH)

(** val json_Uint : z **)

let json_Uint =
  Zpos (XI (XO XH))

(** val json_Int : z **)

let json_Int =
  Zpos (XO (XI XH))

(** val json_Float : z **)

let json_Float =
  Zpos (XI (XI XH))

(** val json_String : z **)

let json_String =
  Zpos (XO (XO (XO XH)))

(** val json_Unescaped : z **)

let json_Unescaped =
  Zpos (XI (XO (XO XH)))

(** val json_Array : z **)

let json_Array =
  Zpos (XO (XO (XO (XO XH))))

(** val json_Object : z **)

let json_Object =
  Zpos (XO (XO (XO (XO (XO XH)))))

(** val json_sp : z **)

let json_sp =
  Zpos (XO (XO (XO (XO (XO XH)))))

(** val json_ht : z **)

let json_ht =
  Zpos (XI (XO (XO XH)))

(** val json_nl : z **)

let json_nl =
  Zpos (XO (XI (XO XH)))

(** val json_cr : z **)

let json_cr =
  Zpos (XI (XO (XI XH)))

(** val json_ParseFlags_has : z -> z -> bool **)

let json_ParseFlags_has flags f =
  negb (Z.eqb (and32 flags f) Z0)

(** val json_skipSpacesN : bytes -> bytes * z **)

let json_skipSpacesN b =
  let k1_ = fun _ -> ((slice_from b (len b)), (len b)) in
  let rec loop2_ l3_ i4_ =
    match l3_ with
    | [] -> k1_ ()
    | _ :: t6_ ->
      let tag7_ = at_ b i4_ in
      if (||)
           ((||) ((||) (Z.eqb tag7_ json_sp) (Z.eqb tag7_ json_ht))
             (Z.eqb tag7_ json_nl)) (Z.eqb tag7_ json_cr)
      then loop2_ t6_ (Z.add i4_ (Zpos XH))
      else ((slice_from b i4_), i4_)
  in loop2_ b Z0

(** val json_skipSpaces : bytes -> bytes **)

let json_skipSpaces b =
  let k1_ = fun b0 -> b0 in
  if (&&) (Z.gtb (len b) Z0)
       (Z.leb (at_ b Z0) (Zpos (XO (XO (XO (XO (XO XH)))))))
  then let (b0, _) = json_skipSpacesN b in k1_ b0
  else k1_ b

(** val json_hasNullPrefix : bytes -> bool **)

let json_hasNullPrefix b =
  (&&) (Z.geb (len b) (Zpos (XO (XO XH))))
    (bytes_eqb (slice_to b (Zpos (XO (XO XH)))) ((Zpos (XO (XI (XI (XI (XO
      (XI XH))))))) :: ((Zpos (XI (XO (XI (XO (XI (XI XH))))))) :: ((Zpos (XO
      (XO (XI (XI (XO (XI XH))))))) :: ((Zpos (XO (XO (XI (XI (XO (XI
      XH))))))) :: [])))))

(** val json_hasTruePrefix : bytes -> bool **)

let json_hasTruePrefix b =
  (&&) (Z.geb (len b) (Zpos (XO (XO XH))))
    (bytes_eqb (slice_to b (Zpos (XO (XO XH)))) ((Zpos (XO (XO (XI (XO (XI
      (XI XH))))))) :: ((Zpos (XO (XI (XO (XO (XI (XI XH))))))) :: ((Zpos (XI
      (XO (XI (XO (XI (XI XH))))))) :: ((Zpos (XI (XO (XI (XO (XO (XI
      XH))))))) :: [])))))

(** val json_hasFalsePrefix : bytes -> bool **)

let json_hasFalsePrefix b =
  (&&) (Z.geb (len b) (Zpos (XI (XO XH))))
    (bytes_eqb (slice_to b (Zpos (XI (XO XH)))) ((Zpos (XO (XI (XI (XO (XO
      (XI XH))))))) :: ((Zpos (XI (XO (XO (XO (XO (XI XH))))))) :: ((Zpos (XO
      (XO (XI (XI (XO (XI XH))))))) :: ((Zpos (XI (XI (XO (XO (XI (XI
      XH))))))) :: ((Zpos (XI (XO (XI (XO (XO (XI XH))))))) :: []))))))

(** val json_decoder_parseFalse :
    z -> bytes -> ((bytes * bytes) * z) * json_err option **)

let json_decoder_parseFalse _ b =
  if json_hasFalsePrefix b
  then ((((slice_to b (Zpos (XI (XO XH)))),
         (slice_from b (Zpos (XI (XO XH))))), json_False), None)
  else if Z.ltb (len b) (Zpos (XI (XO XH)))
       then ((([], (slice_from b (len b))), json_Undefined), (Some
              JErrUnexpectedEOF))
       else ((([], b), json_Undefined), (Some JErrSyntax))

(** val json_decoder_parseNull :
    z -> bytes -> ((bytes * bytes) * z) * json_err option **)

let json_decoder_parseNull _ b =
  if json_hasNullPrefix b
  then ((((slice_to b (Zpos (XO (XO XH)))),
         (slice_from b (Zpos (XO (XO XH))))), json_Null), None)
  else if Z.ltb (len b) (Zpos (XO (XO XH)))
       then ((([], (slice_from b (len b))), json_Undefined), (Some
              JErrUnexpectedEOF))
       else ((([], b), json_Undefined), (Some JErrSyntax))

(** val json_decoder_parseNumber :
    nat -> z -> bytes -> (((bytes * bytes) * z) * json_err option) option **)

let json_decoder_parseNumber fuel _ b =
  let v = [] in
  let r = [] in
  let kind = Z0 in
  let err = None in
  if Z.eqb (len b) Z0
  then let err0 = Some JErrUnexpectedEOF in Some (((v, b), kind), err0)
  else let i = Z0 in
       let k17_ = fun kind0 i0 ->
         if Z.eqb i0 (len b)
         then let r0 = slice_from b i0 in
              let err0 = Some JErrSyntax in Some (((v, r0), kind0), err0)
         else if (||) (Z.ltb (at_ b i0) (Zpos (XO (XO (XO (XO (XI XH)))))))
                   (Z.gtb (at_ b i0) (Zpos (XI (XO (XO (XI (XI XH)))))))
              then let r0 = slice_from b i0 in
                   let err0 = Some JErrSyntax in Some (((v, r0), kind0), err0)
              else let k16_ = fun v0 r0 err0 i1 ->
                     let k12_ = fun i2 ->
                       let k7_ = fun r1 kind1 err1 i3 ->
                         let k1_ = fun _ kind2 err2 i4 ->
                           let v1 = slice_to b i4 in
                           let r2 = slice_from b i4 in
                           Some (((v1, r2), kind2), err2)
                         in
                         if (&&) (Z.ltb i3 (len b))
                              ((||)
                                (Z.eqb (at_ b i3) (Zpos (XI (XO (XI (XO (XO
                                  (XI XH))))))))
                                (Z.eqb (at_ b i3) (Zpos (XI (XO (XI (XO (XO
                                  (XO XH)))))))))
                         then let i4 = addi64 i3 (Zpos XH) in
                              let k6_ = fun i5 ->
                                if Z.eqb i5 (len b)
                                then let r2 = slice_from b i5 in
                                     let err2 = Some JErrSyntax in
                                     Some (((v0, r2), json_Float), err2)
                                else let k2_ = fun err2 i6 ->
                                       k1_ r1 json_Float err2 i6
                                     in
                                     let rec loop3_ f4_ err2 i6 =
                                       match f4_ with
                                       | O -> None
                                       | S f5_ ->
                                         if Z.ltb i6 (len b)
                                         then let c = at_ b i6 in
                                              if (||)
                                                   (Z.gtb (Zpos (XO (XO (XO
                                                     (XO (XI XH)))))) c)
                                                   (Z.gtb c (Zpos (XI (XO (XO
                                                     (XI (XI XH)))))))
                                              then if Z.eqb i6 i5
                                                   then let err3 = Some
                                                          JErrSyntax
                                                        in
                                                        Some (((v0, r1),
                                                        json_Float), err3)
                                                   else k2_ err2 i6
                                              else let i7 =
                                                     addi64 i6 (Zpos XH)
                                                   in
                                                   loop3_ f5_ err2 i7
                                         else k2_ err2 i6
                                     in loop3_ fuel err1 i5
                              in
                              if Z.ltb i4 (len b)
                              then let c_1 = at_ b i4 in
                                   if (||)
                                        (Z.eqb c_1 (Zpos (XI (XI (XO (XI (XO
                                          XH)))))))
                                        (Z.eqb c_1 (Zpos (XI (XO (XI (XI (XO
                                          XH)))))))
                                   then let i5 = addi64 i4 (Zpos XH) in k6_ i5
                                   else k6_ i4
                              else k6_ i4
                         else k1_ r1 kind1 err1 i3
                       in
                       if (&&) (Z.ltb i2 (len b))
                            (Z.eqb (at_ b i2) (Zpos (XO (XI (XI (XI (XO
                              XH)))))))
                       then let i3 = addi64 i2 (Zpos XH) in
                            let k8_ = fun r1 err1 i4 ->
                              if Z.eqb i4 i3
                              then let r2 = slice_from b i4 in
                                   let err2 = Some JErrSyntax in
                                   Some (((v0, r2), json_Float), err2)
                              else k7_ r1 json_Float err1 i4
                            in
                            let rec loop9_ f10_ r1 err1 i4 =
                              match f10_ with
                              | O -> None
                              | S f11_ ->
                                if Z.ltb i4 (len b)
                                then let c_2 = at_ b i4 in
                                     if (||)
                                          (Z.gtb (Zpos (XO (XO (XO (XO (XI
                                            XH)))))) c_2)
                                          (Z.gtb c_2 (Zpos (XI (XO (XO (XI
                                            (XI XH)))))))
                                     then if Z.eqb i4 i3
                                          then let r2 = slice_from b i4 in
                                               let err2 = Some JErrSyntax in
                                               Some (((v0, r2), json_Float),
                                               err2)
                                          else k8_ r1 err1 i4
                                     else let i5 = addi64 i4 (Zpos XH) in
                                          loop9_ f11_ r1 err1 i5
                                else k8_ r1 err1 i4
                            in loop9_ fuel r0 err0 i3
                       else k7_ r0 kind0 err0 i2
                     in
                     let rec loop13_ f14_ i2 =
                       match f14_ with
                       | O -> None
                       | S f15_ ->
                         if (&&)
                              ((&&) (Z.ltb i2 (len b))
                                (Z.leb (Zpos (XO (XO (XO (XO (XI XH))))))
                                  (at_ b i2)))
                              (Z.leb (at_ b i2) (Zpos (XI (XO (XO (XI (XI
                                XH)))))))
                         then let i3 = addi64 i2 (Zpos XH) in loop13_ f15_ i3
                         else k12_ i2
                     in loop13_ fuel i1
                   in
                   if Z.eqb (at_ b i0) (Zpos (XO (XO (XO (XO (XI XH))))))
                   then let i1 = addi64 i0 (Zpos XH) in
                        if (||) (Z.eqb i1 (len b))
                             ((&&)
                               ((&&)
                                 (negb
                                   (Z.eqb (at_ b i1) (Zpos (XO (XI (XI (XI
                                     (XO XH))))))))
                                 (negb
                                   (Z.eqb (at_ b i1) (Zpos (XI (XO (XI (XO
                                     (XO (XI XH))))))))))
                               (negb
                                 (Z.eqb (at_ b i1) (Zpos (XI (XO (XI (XO (XO
                                   (XO XH))))))))))
                        then let v0 = slice_to b i1 in
                             let r0 = slice_from b i1 in
                             Some (((v0, r0), kind0), err)
                        else if (&&)
                                  (Z.leb (Zpos (XO (XO (XO (XO (XI XH))))))
                                    (at_ b i1))
                                  (Z.leb (at_ b i1) (Zpos (XI (XO (XO (XI (XI
                                    XH)))))))
                             then let r0 = slice_from b i1 in
                                  let err0 = Some JErrSyntax in
                                  Some (((v, r0), kind0), err0)
                             else k16_ v r err i1
                   else k16_ v r err i0
       in
       if Z.eqb (at_ b i) (Zpos (XI (XO (XI (XI (XO XH))))))
       then let i0 = addi64 i (Zpos XH) in k17_ json_Int i0
       else k17_ json_Uint i

(** val json_decoder_parseUintHex :
    z -> bytes -> (z * bytes) * json_err option **)

let json_decoder_parseUintHex _ b =
  let value = Z0 in
  let count = Z0 in
  if Z.eqb (len b) Z0
  then ((Z0, b), (Some JErrSyntax))
  else let k1_ = fun value0 count0 -> ((value0, (slice_from b count0)), None)
       in
       let rec loop2_ l3_ i4_ value0 count0 =
         match l3_ with
         | [] -> k1_ value0 count0
         | h5_ :: t6_ ->
           let k7_ = fun x ->
             if Z.gtb value0 (Zpos (XI (XI (XI (XI (XI (XI (XI (XI (XI (XI
                  (XI (XI (XI (XI (XI (XI (XI (XI (XI (XI (XI (XI (XI (XI (XI
                  (XI (XI (XI (XI (XI (XI (XI (XI (XI (XI (XI (XI (XI (XI (XI
                  (XI (XI (XI (XI (XI (XI (XI (XI (XI (XI (XI (XI (XI (XI (XI
                  (XI (XI (XI (XI
                  XH))))))))))))))))))))))))))))))))))))))))))))))))))))))))))))
             then ((Z0, b), (Some JErrSyntax))
             else let value1 = mul64 value0 (Zpos (XO (XO (XO (XO XH))))) in
                  if Z.gtb value1
                       (sub64 (Zpos (XI (XI (XI (XI (XI (XI (XI (XI (XI (XI
                         (XI (XI (XI (XI (XI (XI (XI (XI (XI (XI (XI (XI (XI
                         (XI (XI (XI (XI (XI (XI (XI (XI (XI (XI (XI (XI (XI
                         (XI (XI (XI (XI (XI (XI (XI (XI (XI (XI (XI (XI (XI
                         (XI (XI (XI (XI (XI (XI (XI (XI (XI (XI (XI (XI (XI
                         (XI
                         XH))))))))))))))))))))))))))))))))))))))))))))))))))))))))))))))))
                         x)
                  then ((Z0, b), (Some JErrSyntax))
                  else let value2 = add64 value1 x in
                       let count1 = addi64 count0 (Zpos XH) in
                       loop2_ t6_ (Z.add i4_ (Zpos XH)) value2 count1
           in
           if (&&) (Z.geb h5_ (Zpos (XO (XO (XO (XO (XI XH)))))))
                (Z.leb h5_ (Zpos (XI (XO (XO (XI (XI XH)))))))
           then let x = sub8 h5_ (Zpos (XO (XO (XO (XO (XI XH)))))) in k7_ x
           else if (&&) (Z.geb h5_ (Zpos (XI (XO (XO (XO (XO (XO XH))))))))
                     (Z.leb h5_ (Zpos (XO (XI (XI (XO (XO (XO XH))))))))
                then let x =
                       add64
                         (sub8 h5_ (Zpos (XI (XO (XO (XO (XO (XO XH))))))))
                         (Zpos (XO (XI (XO XH))))
                     in
                     k7_ x
                else if (&&)
                          (Z.geb h5_ (Zpos (XI (XO (XO (XO (XO (XI XH))))))))
                          (Z.leb h5_ (Zpos (XO (XI (XI (XO (XO (XI XH))))))))
                     then let x =
                            add64
                              (sub8 h5_ (Zpos (XI (XO (XO (XO (XO (XI
                                XH)))))))) (Zpos (XO (XI (XO XH))))
                          in
                          k7_ x
                     else if Z.eqb i4_ Z0
                          then ((Z0, b), (Some JErrSyntax))
                          else k1_ value0 count0
       in loop2_ b Z0 value count

(** val json_decoder_parseUnicode :
    z -> bytes -> (z * z) * json_err option **)

let json_decoder_parseUnicode d b =
  if Z.ltb (len b) (Zpos (XO (XO XH)))
  then ((Z0, (len b)), (Some JErrSyntax))
  else let (p, err) =
         json_decoder_parseUintHex d (slice_to b (Zpos (XO (XO XH))))
       in
       let (u, r) = p in
       if negb (isnil err)
       then ((Z0, (Zpos (XO (XO XH)))), (Some JErrSyntax))
       else if negb (Z.eqb (len r) Z0)
            then ((Z0, (Zpos (XO (XO XH)))), (Some JErrSyntax))
            else (((s32 u), (Zpos (XO (XO XH)))), None)

(** val json_decoder_parseString :
    nat -> z -> bytes -> (((bytes * bytes) * z) * json_err option) option **)

let json_decoder_parseString fuel d b =
  let k8_ = fun n_1 ->
    if (&&)
         ((||) (json_ParseFlags_has (Obj.magic id d) json_noBackslash)
           (Z.ltb
             (index_byte (slice b (Zpos XH) n_1) (Zpos (XO (XO (XI (XI (XI
               (XO XH)))))))) Z0))
         ((||) (json_ParseFlags_has (Obj.magic id d) json_validAsciiPrint)
           (ascii_ValidPrint (slice b (Zpos XH) n_1)))
    then Some ((((slice_to b n_1), (slice_from b n_1)), json_Unescaped), None)
    else let i = Zpos XH in
         let k1_ = fun _ -> Some ((([], (slice_from b (len b))),
           json_Undefined), (Some JErrSyntax))
         in
         let rec loop2_ f3_ i0 =
           match f3_ with
           | O -> None
           | S f4_ ->
             if Z.ltb i0 (len b)
             then let k5_ = fun i1 ->
                    let i2 = addi64 i1 (Zpos XH) in loop2_ f4_ i2
                  in
                  let tag6_ = at_ b i0 in
                  if Z.eqb tag6_ (Zpos (XO (XO (XI (XI (XI (XO XH)))))))
                  then let i1 = addi64 i0 (Zpos XH) in
                       if Z.ltb i1 (len b)
                       then let tag7_ = at_ b i1 in
                            if (||)
                                 ((||)
                                   ((||)
                                     ((||)
                                       ((||)
                                         ((||)
                                           ((||)
                                             (Z.eqb tag7_ (Zpos (XO (XI (XO
                                               (XO (XO XH)))))))
                                             (Z.eqb tag7_ (Zpos (XO (XO (XI
                                               (XI (XI (XO XH)))))))))
                                           (Z.eqb tag7_ (Zpos (XI (XI (XI (XI
                                             (XO XH))))))))
                                         (Z.eqb tag7_ (Zpos (XO (XI (XI (XI
                                           (XO (XI XH)))))))))
                                       (Z.eqb tag7_ (Zpos (XO (XI (XO (XO (XI
                                         (XI XH)))))))))
                                     (Z.eqb tag7_ (Zpos (XO (XO (XI (XO (XI
                                       (XI XH)))))))))
                                   (Z.eqb tag7_ (Zpos (XO (XI (XI (XO (XO (XI
                                     XH)))))))))
                                 (Z.eqb tag7_ (Zpos (XO (XI (XO (XO (XO (XI
                                   XH))))))))
                            then k5_ i1
                            else if Z.eqb tag7_ (Zpos (XI (XO (XI (XO (XI (XI
                                      XH)))))))
                                 then let (p, err) =
                                        json_decoder_parseUnicode d
                                          (slice_from b (addi64 i1 (Zpos XH)))
                                      in
                                      let (_, n0) = p in
                                      if negb (isnil err)
                                      then Some ((([],
                                             (slice_from b
                                               (addi64 (addi64 i1 (Zpos XH))
                                                 n0))), json_Undefined), err)
                                      else let i2 = addi64 i1 n0 in k5_ i2
                                 else Some ((([], b), json_Undefined), (Some
                                        JErrSyntax))
                       else k5_ i1
                  else if Z.eqb tag6_ (Zpos (XO (XI (XO (XO (XO XH))))))
                       then Some ((((slice_to b (addi64 i0 (Zpos XH))),
                              (slice_from b (addi64 i0 (Zpos XH)))),
                              json_String), None)
                       else if Z.ltb (at_ b i0) (Zpos (XO (XO (XO (XO (XO
                                 XH))))))
                            then Some ((([], b), json_Undefined), (Some
                                   JErrSyntax))
                            else k5_ i0
             else k1_ i0
         in loop2_ fuel i
  in
  if Z.ltb (len b) (Zpos (XO XH))
  then Some ((([], (slice_from b (len b))), json_Undefined), (Some
         JErrUnexpectedEOF))
  else if negb (Z.eqb (at_ b Z0) (Zpos (XO (XI (XO (XO (XO XH)))))))
       then Some ((([], b), json_Undefined), (Some JErrSyntax))
       else let n_1 = Z0 in
            let k9_ = fun _ ->
              let n_2 =
                addi64
                  (index_byte (slice_from b (Zpos XH)) (Zpos (XO (XI (XO (XO
                    (XO XH))))))) (Zpos (XO XH))
              in
              if Z.leb n_2 (Zpos XH)
              then Some ((([], (slice_from b (len b))), json_Undefined),
                     (Some JErrSyntax))
              else k8_ n_2
            in
            if Z.geb (len b) (Zpos (XI (XO (XO XH))))
            then let u =
                   xor64 (le64 (slice_from b (Zpos XH))) (Zpos (XO (XI (XO
                     (XO (XO (XI (XO (XO (XO (XI (XO (XO (XO (XI (XO (XO (XO
                     (XI (XO (XO (XO (XI (XO (XO (XO (XI (XO (XO (XO (XI (XO
                     (XO (XO (XI (XO (XO (XO (XI (XO (XO (XO (XI (XO (XO (XO
                     (XI (XO (XO (XO (XI (XO (XO (XO (XI (XO (XO (XO (XI (XO
                     (XO (XO
                     XH))))))))))))))))))))))))))))))))))))))))))))))))))))))))))))))
                 in
                 let mask_1 =
                   and64
                     (and64
                       (sub64 u (Zpos (XI (XO (XO (XO (XO (XO (XO (XO (XI (XO
                         (XO (XO (XO (XO (XO (XO (XI (XO (XO (XO (XO (XO (XO
                         (XO (XI (XO (XO (XO (XO (XO (XO (XO (XI (XO (XO (XO
                         (XO (XO (XO (XO (XI (XO (XO (XO (XO (XO (XO (XO (XI
                         (XO (XO (XO (XO (XO (XO (XO
                         XH))))))))))))))))))))))))))))))))))))))))))))))))))))))))))
                       (not64 u)) (Zpos (XO (XO (XO (XO (XO (XO (XO (XI (XO
                     (XO (XO (XO (XO (XO (XO (XI (XO (XO (XO (XO (XO (XO (XO
                     (XI (XO (XO (XO (XO (XO (XO (XO (XI (XO (XO (XO (XO (XO
                     (XO (XO (XI (XO (XO (XO (XO (XO (XO (XO (XI (XO (XO (XO
                     (XO (XO (XO (XO (XI (XO (XO (XO (XO (XO (XO (XO
                     XH))))))))))))))))))))))))))))))))))))))))))))))))))))))))))))))))
                 in
                 if negb (Z.eqb mask_1 Z0)
                 then let n_2 =
                        addi64
                          (divi64 (ctz64 mask_1) (Zpos (XO (XO (XO XH)))))
                          (Zpos (XO XH))
                      in
                      k8_ n_2
                 else if Z.geb (len b) (Zpos (XI (XO (XO (XO XH)))))
                      then let u0 =
                             xor64
                               (le64 (slice_from b (Zpos (XI (XO (XO XH))))))
                               (Zpos (XO (XI (XO (XO (XO (XI (XO (XO (XO (XI
                               (XO (XO (XO (XI (XO (XO (XO (XI (XO (XO (XO
                               (XI (XO (XO (XO (XI (XO (XO (XO (XI (XO (XO
                               (XO (XI (XO (XO (XO (XI (XO (XO (XO (XI (XO
                               (XO (XO (XI (XO (XO (XO (XI (XO (XO (XO (XI
                               (XO (XO (XO (XI (XO (XO (XO
                               XH))))))))))))))))))))))))))))))))))))))))))))))))))))))))))))))
                           in
                           let mask0 =
                             and64
                               (and64
                                 (sub64 u0 (Zpos (XI (XO (XO (XO (XO (XO (XO
                                   (XO (XI (XO (XO (XO (XO (XO (XO (XO (XI
                                   (XO (XO (XO (XO (XO (XO (XO (XI (XO (XO
                                   (XO (XO (XO (XO (XO (XI (XO (XO (XO (XO
                                   (XO (XO (XO (XI (XO (XO (XO (XO (XO (XO
                                   (XO (XI (XO (XO (XO (XO (XO (XO (XO
                                   XH))))))))))))))))))))))))))))))))))))))))))))))))))))))))))
                                 (not64 u0)) (Zpos (XO (XO (XO (XO (XO (XO
                               (XO (XI (XO (XO (XO (XO (XO (XO (XO (XI (XO
                               (XO (XO (XO (XO (XO (XO (XI (XO (XO (XO (XO
                               (XO (XO (XO (XI (XO (XO (XO (XO (XO (XO (XO
                               (XI (XO (XO (XO (XO (XO (XO (XO (XI (XO (XO
                               (XO (XO (XO (XO (XO (XI (XO (XO (XO (XO (XO
                               (XO (XO
                               XH))))))))))))))))))))))))))))))))))))))))))))))))))))))))))))))))
                           in
                           if negb (Z.eqb mask0 Z0)
                           then let n_2 =
                                  addi64
                                    (divi64 (ctz64 mask0) (Zpos (XO (XO (XO
                                      XH))))) (Zpos (XO (XI (XO XH))))
                                in
                                k8_ n_2
                           else k9_ n_1
                      else k9_ n_1
            else k9_ n_1

(** val json_decoder_parseTrue :
    z -> bytes -> ((bytes * bytes) * z) * json_err option **)

let json_decoder_parseTrue _ b =
  if json_hasTruePrefix b
  then ((((slice_to b (Zpos (XO (XO XH)))),
         (slice_from b (Zpos (XO (XO XH))))), json_True), None)
  else if Z.ltb (len b) (Zpos (XO (XO XH)))
       then ((([], (slice_from b (len b))), json_Undefined), (Some
              JErrUnexpectedEOF))
       else ((([], b), json_Undefined), (Some JErrSyntax))

(** val json_decoder_parseArray :
    nat -> z -> bytes -> (((bytes * bytes) * z) * json_err option) option **)

let rec json_decoder_parseArray fuel d b =
  match fuel with
  | O -> None
  | S fuel' ->
    if Z.ltb (len b) (Zpos (XO XH))
    then Some ((([], (slice_from b (len b))), json_Undefined), (Some
           JErrUnexpectedEOF))
    else if negb (Z.eqb (at_ b Z0) (Zpos (XI (XI (XO (XI (XI (XO XH))))))))
         then Some ((([], b), json_Undefined), (Some JErrSyntax))
         else let err = None in
              let n0 = len b in
              let i = Z0 in
              let b0 = slice_from b (Zpos XH) in
              let rec loop2_ f3_ b1 _ i0 =
                match f3_ with
                | O -> None
                | S f4_ ->
                  let b2 = json_skipSpaces b1 in
                  if Z.eqb (len b2) Z0
                  then Some ((([], b2), json_Undefined), (Some JErrSyntax))
                  else if Z.eqb (at_ b2 Z0) (Zpos (XI (XO (XI (XI (XI (XO
                            XH)))))))
                       then let j = addi64 (subi64 n0 (len b2)) (Zpos XH) in
                            Some ((((slice_to b j), (slice_from b j)),
                            json_Array), None)
                       else let k5_ = fun b3 ->
                              obind (json_decoder_parseValue fuel' d b3)
                                (fun pat ->
                                let (p, err0) = pat in
                                let (p0, _) = p in
                                let (_, b4) = p0 in
                                if negb (isnil err0)
                                then Some ((([], b4), json_Undefined), err0)
                                else let i1 = addi64 i0 (Zpos XH) in
                                     loop2_ f4_ b4 err0 i1)
                            in
                            if negb (Z.eqb i0 Z0)
                            then if Z.eqb (len b2) Z0
                                 then Some ((([], b2), json_Undefined), (Some
                                        JErrSyntax))
                                 else if negb
                                           (Z.eqb (at_ b2 Z0) (Zpos (XO (XO
                                             (XI (XI (XO XH)))))))
                                      then Some ((([], b2), json_Undefined),
                                             (Some JErrSyntax))
                                      else let b3 =
                                             json_skipSpaces
                                               (slice_from b2 (Zpos XH))
                                           in
                                           if Z.eqb (len b3) Z0
                                           then Some ((([], b3),
                                                  json_Undefined), (Some
                                                  JErrUnexpectedEOF))
                                           else if Z.eqb (at_ b3 Z0) (Zpos
                                                     (XI (XO (XI (XI (XI (XO
                                                     XH)))))))
                                                then Some ((([], b3),
                                                       json_Undefined), (Some
                                                       JErrSyntax))
                                                else k5_ b3
                            else k5_ b2
              in loop2_ fuel' b0 err i

(** val json_decoder_parseObject :
    nat -> z -> bytes -> (((bytes * bytes) * z) * json_err option) option **)

and json_decoder_parseObject fuel d b =
  match fuel with
  | O -> None
  | S fuel' ->
    if Z.ltb (len b) (Zpos (XO XH))
    then Some ((([], (slice_from b (len b))), json_Undefined), (Some
           JErrUnexpectedEOF))
    else if negb (Z.eqb (at_ b Z0) (Zpos (XI (XI (XO (XI (XI (XI XH))))))))
         then Some ((([], b), json_Undefined), (Some JErrSyntax))
         else let err = None in
              let n0 = len b in
              let i = Z0 in
              let b0 = slice_from b (Zpos XH) in
              let rec loop2_ f3_ b1 _ i0 =
                match f3_ with
                | O -> None
                | S f4_ ->
                  let b2 = json_skipSpaces b1 in
                  if Z.eqb (len b2) Z0
                  then Some ((([], b2), json_Undefined), (Some JErrSyntax))
                  else if Z.eqb (at_ b2 Z0) (Zpos (XI (XO (XI (XI (XI (XI
                            XH)))))))
                       then let j = addi64 (subi64 n0 (len b2)) (Zpos XH) in
                            Some ((((slice_to b j), (slice_from b j)),
                            json_Object), None)
                       else let k5_ = fun b3 ->
                              obind (json_decoder_parseString fuel' d b3)
                                (fun pat ->
                                let (p, err0) = pat in
                                let (p0, _) = p in
                                let (_, b4) = p0 in
                                if negb (isnil err0)
                                then Some ((([], b4), json_Undefined), err0)
                                else let b5 = json_skipSpaces b4 in
                                     if Z.eqb (len b5) Z0
                                     then Some ((([], b5), json_Undefined),
                                            (Some JErrSyntax))
                                     else if negb
                                               (Z.eqb (at_ b5 Z0) (Zpos (XO
                                                 (XI (XO (XI (XI XH)))))))
                                          then Some ((([], b5),
                                                 json_Undefined), (Some
                                                 JErrSyntax))
                                          else let b6 =
                                                 json_skipSpaces
                                                   (slice_from b5 (Zpos XH))
                                               in
                                               obind
                                                 (json_decoder_parseValue
                                                   fuel' d b6) (fun pat0 ->
                                                 let (p1, err1) = pat0 in
                                                 let (p2, _) = p1 in
                                                 let (_, b7) = p2 in
                                                 if negb (isnil err1)
                                                 then Some ((([], b7),
                                                        json_Undefined), err1)
                                                 else let i1 =
                                                        addi64 i0 (Zpos XH)
                                                      in
                                                      loop2_ f4_ b7 err1 i1))
                            in
                            if negb (Z.eqb i0 Z0)
                            then if Z.eqb (len b2) Z0
                                 then Some ((([], b2), json_Undefined), (Some
                                        JErrSyntax))
                                 else if negb
                                           (Z.eqb (at_ b2 Z0) (Zpos (XO (XO
                                             (XI (XI (XO XH)))))))
                                      then Some ((([], b2), json_Undefined),
                                             (Some JErrSyntax))
                                      else let b3 =
                                             json_skipSpaces
                                               (slice_from b2 (Zpos XH))
                                           in
                                           if Z.eqb (len b3) Z0
                                           then Some ((([], b3),
                                                  json_Undefined), (Some
                                                  JErrUnexpectedEOF))
                                           else if Z.eqb (at_ b3 Z0) (Zpos
                                                     (XI (XO (XI (XI (XI (XI
                                                     XH)))))))
                                                then Some ((([], b3),
                                                       json_Undefined), (Some
                                                       JErrSyntax))
                                                else k5_ b3
                            else k5_ b2
              in loop2_ fuel' b0 err i

(** val json_decoder_parseValue :
    nat -> z -> bytes -> (((bytes * bytes) * z) * json_err option) option **)

and json_decoder_parseValue fuel d b =
  match fuel with
  | O -> None
  | S fuel' ->
    if Z.eqb (len b) Z0
    then Some ((([], b), json_Undefined), (Some JErrSyntax))
    else let v = [] in
         let k = Z0 in
         let k1_ = fun b0 v0 k0 err -> Some (((v0, b0), k0), err) in
         let tag2_ = at_ b Z0 in
         if Z.eqb tag2_ (Zpos (XI (XI (XO (XI (XI (XI XH)))))))
         then obind (json_decoder_parseObject fuel' d b) (fun pat ->
                let (p, err) = pat in
                let (p0, k0) = p in let (v0, b0) = p0 in k1_ b0 v0 k0 err)
         else if Z.eqb tag2_ (Zpos (XI (XI (XO (XI (XI (XO XH)))))))
              then obind (json_decoder_parseArray fuel' d b) (fun pat ->
                     let (p, err) = pat in
                     let (p0, k0) = p in let (v0, b0) = p0 in k1_ b0 v0 k0 err)
              else if Z.eqb tag2_ (Zpos (XO (XI (XO (XO (XO XH))))))
                   then obind (json_decoder_parseString fuel' d b)
                          (fun pat ->
                          let (p, err) = pat in
                          let (p0, k0) = p in
                          let (v0, b0) = p0 in k1_ b0 v0 k0 err)
                   else if Z.eqb tag2_ (Zpos (XO (XI (XI (XI (XO (XI XH)))))))
                        then let (p, err) = json_decoder_parseNull d b in
                             let (p0, k0) = p in
                             let (v0, b0) = p0 in k1_ b0 v0 k0 err
                        else if Z.eqb tag2_ (Zpos (XO (XO (XI (XO (XI (XI
                                  XH)))))))
                             then let (p, err) = json_decoder_parseTrue d b in
                                  let (p0, k0) = p in
                                  let (v0, b0) = p0 in k1_ b0 v0 k0 err
                             else if Z.eqb tag2_ (Zpos (XO (XI (XI (XO (XO
                                       (XI XH)))))))
                                  then let (p, err) =
                                         json_decoder_parseFalse d b
                                       in
                                       let (p0, k0) = p in
                                       let (v0, b0) = p0 in k1_ b0 v0 k0 err
                                  else if (||)
                                            ((||)
                                              ((||)
                                                ((||)
                                                  ((||)
                                                    ((||)
                                                      ((||)
                                                        ((||)
                                                          ((||)
                                                            ((||)
                                                              (Z.eqb tag2_
                                                                (Zpos (XI (XO
                                                                (XI (XI (XO
                                                                XH)))))))
                                                              (Z.eqb tag2_
                                                                (Zpos (XO (XO
                                                                (XO (XO (XI
                                                                XH))))))))
                                                            (Z.eqb tag2_
                                                              (Zpos (XI (XO
                                                              (XO (XO (XI
                                                              XH))))))))
                                                          (Z.eqb tag2_ (Zpos
                                                            (XO (XI (XO (XO
                                                            (XI XH))))))))
                                                        (Z.eqb tag2_ (Zpos
                                                          (XI (XI (XO (XO (XI
                                                          XH))))))))
                                                      (Z.eqb tag2_ (Zpos (XO
                                                        (XO (XI (XO (XI
                                                        XH))))))))
                                                    (Z.eqb tag2_ (Zpos (XI
                                                      (XO (XI (XO (XI
                                                      XH))))))))
                                                  (Z.eqb tag2_ (Zpos (XO (XI
                                                    (XI (XO (XI XH))))))))
                                                (Z.eqb tag2_ (Zpos (XI (XI
                                                  (XI (XO (XI XH))))))))
                                              (Z.eqb tag2_ (Zpos (XO (XO (XO
                                                (XI (XI XH))))))))
                                            (Z.eqb tag2_ (Zpos (XI (XO (XO
                                              (XI (XI XH)))))))
                                       then obind
                                              (json_decoder_parseNumber fuel'
                                                d b) (fun pat ->
                                              let (p, err) = pat in
                                              let (p0, k0) = p in
                                              let (v0, b0) = p0 in
                                              k1_ b0 v0 k0 err)
                                       else let err = Some JErrSyntax in
                                            k1_ b v k err

(** val json_decoder_inputError :
    nat -> z -> bytes -> unit -> (bytes * json_err option) option **)

let json_decoder_inputError fuel d b _ =
  if Z.eqb (len b) Z0
  then Some ([], (Some JErrUnexpectedEOF))
  else obind (json_decoder_parseValue fuel d b) (fun pat ->
         let (p, err) = pat in
         let (p0, _) = p in
         let (_, r) = p0 in
         if negb (isnil err)
         then Some (r, err)
         else Some ((json_skipSpaces r), (Some JErrType)))

(** val json_decoder_parseInt :
    nat -> z -> bytes -> unit -> ((z * bytes) * json_err option) option **)

let json_decoder_parseInt fuel d b t =
  let value = Z0 in
  let count = Z0 in
  if Z.eqb (len b) Z0
  then Some ((Z0, b), (Some JErrSyntax))
  else let k4_ = fun value0 count0 ->
         let k1_ = fun _ -> Some ((value0, (slice_from b count0)), None) in
         if Z.ltb count0 (len b)
         then let tag2_ = at_ b count0 in
              if (||)
                   ((||) (Z.eqb tag2_ (Zpos (XO (XI (XI (XI (XO XH)))))))
                     (Z.eqb tag2_ (Zpos (XI (XO (XI (XO (XO (XI XH)))))))))
                   (Z.eqb tag2_ (Zpos (XI (XO (XI (XO (XO (XO XH))))))))
              then obind (json_decoder_parseNumber fuel d b) (fun pat ->
                     let (p, err) = pat in
                     let (p0, _) = p in
                     let (v, r) = p0 in
                     let k3_ = fun _ r0 -> Some ((Z0, r0), (Some JErrType)) in
                     if negb (isnil err)
                     then k3_ (slice_to b (addi64 count0 (Zpos XH)))
                            (slice_from b (addi64 count0 (Zpos XH)))
                     else k3_ v r)
              else k1_ ()
         else k1_ ()
       in
       if Z.eqb (at_ b Z0) (Zpos (XI (XO (XI (XI (XO XH))))))
       then if Z.eqb (len b) (Zpos XH)
            then Some ((Z0, b), (Some JErrSyntax))
            else if (&&)
                      ((&&)
                        ((&&) (Z.gtb (len b) (Zpos (XO XH)))
                          (Z.eqb (at_ b (Zpos XH)) (Zpos (XO (XO (XO (XO (XI
                            XH))))))))
                        (Z.leb (Zpos (XO (XO (XO (XO (XI XH))))))
                          (at_ b (Zpos (XO XH)))))
                      (Z.leb (at_ b (Zpos (XO XH))) (Zpos (XI (XO (XO (XI (XI
                        XH)))))))
                 then Some ((Z0, b), (Some JErrSyntax))
                 else let k5_ = fun value0 count0 ->
                        let count1 = addi64 count0 (Zpos XH) in
                        k4_ value0 count1
                      in
                      let rec loop6_ l7_ i8_ value0 count0 =
                        match l7_ with
                        | [] -> k5_ value0 count0
                        | h9_ :: t10_ ->
                          if (||)
                               (Z.ltb h9_ (Zpos (XO (XO (XO (XO (XI XH)))))))
                               (Z.gtb h9_ (Zpos (XI (XO (XO (XI (XI XH)))))))
                          then if Z.eqb count0 Z0
                               then obind
                                      (json_decoder_inputError fuel d b t)
                                      (fun pat ->
                                      let (b_1, err_1) = pat in
                                      Some ((Z0, b_1), err_1))
                               else k5_ value0 count0
                          else if Z.ltb value0 (Zneg (XO (XO (XI (XI (XO (XO
                                    (XI (XI (XO (XO (XI (XI (XO (XO (XI (XI
                                    (XO (XO (XI (XI (XO (XO (XI (XI (XO (XO
                                    (XI (XI (XO (XO (XI (XI (XO (XO (XI (XI
                                    (XO (XO (XI (XI (XO (XO (XI (XI (XO (XO
                                    (XI (XI (XO (XO (XI (XI (XO (XO (XI (XI
                                    (XO (XO (XI
                                    XH))))))))))))))))))))))))))))))))))))))))))))))))))))))))))))
                               then Some ((Z0, b), (Some JErrOverflow))
                               else let value1 =
                                      muli64 value0 (Zpos (XO (XI (XO XH))))
                                    in
                                    let x =
                                      sub8 h9_ (Zpos (XO (XO (XO (XO (XI
                                        XH))))))
                                    in
                                    if Z.ltb value1
                                         (addi64 (Zneg (XO (XO (XO (XO (XO
                                           (XO (XO (XO (XO (XO (XO (XO (XO
                                           (XO (XO (XO (XO (XO (XO (XO (XO
                                           (XO (XO (XO (XO (XO (XO (XO (XO
                                           (XO (XO (XO (XO (XO (XO (XO (XO
                                           (XO (XO (XO (XO (XO (XO (XO (XO
                                           (XO (XO (XO (XO (XO (XO (XO (XO
                                           (XO (XO (XO (XO (XO (XO (XO (XO
                                           (XO (XO
                                           XH))))))))))))))))))))))))))))))))))))))))))))))))))))))))))))))))
                                           x)
                                    then Some ((Z0, b), (Some JErrOverflow))
                                    else let value2 = subi64 value1 x in
                                         let count1 = addi64 count0 (Zpos XH)
                                         in
                                         loop6_ t10_ (Z.add i8_ (Zpos XH))
                                           value2 count1
                      in loop6_ (slice_from b (Zpos XH)) Z0 value count
       else if (&&)
                 ((&&)
                   ((&&) (Z.gtb (len b) (Zpos XH))
                     (Z.eqb (at_ b Z0) (Zpos (XO (XO (XO (XO (XI XH))))))))
                   (Z.leb (Zpos (XO (XO (XO (XO (XI XH))))))
                     (at_ b (Zpos XH))))
                 (Z.leb (at_ b (Zpos XH)) (Zpos (XI (XO (XO (XI (XI XH)))))))
            then Some ((Z0, b), (Some JErrSyntax))
            else let k11_ = fun value0 count0 ->
                   if Z.eqb count0 Z0
                   then obind (json_decoder_inputError fuel d b t)
                          (fun pat ->
                          let (b_2, err_2) = pat in Some ((Z0, b_2), err_2))
                   else k4_ value0 count0
                 in
                 let rec loop12_ f13_ value0 count0 =
                   match f13_ with
                   | O -> None
                   | S f14_ ->
                     if (&&)
                          ((&&) (Z.ltb count0 (len b))
                            (Z.geb (at_ b count0) (Zpos (XO (XO (XO (XO (XI
                              XH))))))))
                          (Z.leb (at_ b count0) (Zpos (XI (XO (XO (XI (XI
                            XH)))))))
                     then let x_1 =
                            sub8 (at_ b count0) (Zpos (XO (XO (XO (XO (XI
                              XH))))))
                          in
                          if Z.gtb value0
                               (divi64
                                 (subi64 (Zpos (XI (XI (XI (XI (XI (XI (XI
                                   (XI (XI (XI (XI (XI (XI (XI (XI (XI (XI
                                   (XI (XI (XI (XI (XI (XI (XI (XI (XI (XI
                                   (XI (XI (XI (XI (XI (XI (XI (XI (XI (XI
                                   (XI (XI (XI (XI (XI (XI (XI (XI (XI (XI
                                   (XI (XI (XI (XI (XI (XI (XI (XI (XI (XI
                                   (XI (XI (XI (XI (XI
                                   XH)))))))))))))))))))))))))))))))))))))))))))))))))))))))))))))))
                                   x_1) (Zpos (XO (XI (XO XH)))))
                          then Some ((Z0, b), (Some JErrOverflow))
                          else let value1 =
                                 addi64
                                   (muli64 value0 (Zpos (XO (XI (XO XH)))))
                                   x_1
                               in
                               let count1 = addi64 count0 (Zpos XH) in
                               loop12_ f14_ value1 count1
                     else k11_ value0 count0
                 in loop12_ fuel value count

(** val json_decoder_parseUint :
    nat -> z -> bytes -> unit -> ((z * bytes) * json_err option) option **)

let json_decoder_parseUint fuel d b t =
  let value = Z0 in
  let count = Z0 in
  if Z.eqb (len b) Z0
  then Some ((Z0, b), (Some JErrSyntax))
  else if (&&)
            ((&&)
              ((&&) (Z.gtb (len b) (Zpos XH))
                (Z.eqb (at_ b Z0) (Zpos (XO (XO (XO (XO (XI XH))))))))
              (Z.leb (Zpos (XO (XO (XO (XO (XI XH)))))) (at_ b (Zpos XH))))
            (Z.leb (at_ b (Zpos XH)) (Zpos (XI (XO (XO (XI (XI XH)))))))
       then Some ((Z0, b), (Some JErrSyntax))
       else let k4_ = fun value0 count0 ->
              if Z.eqb count0 Z0
              then obind (json_decoder_inputError fuel d b t) (fun pat ->
                     let (b_1, err_1) = pat in Some ((Z0, b_1), err_1))
              else let k1_ = fun _ -> Some ((value0, (slice_from b count0)),
                     None)
                   in
                   if Z.ltb count0 (len b)
                   then let tag2_ = at_ b count0 in
                        if (||)
                             ((||)
                               (Z.eqb tag2_ (Zpos (XO (XI (XI (XI (XO
                                 XH)))))))
                               (Z.eqb tag2_ (Zpos (XI (XO (XI (XO (XO (XI
                                 XH)))))))))
                             (Z.eqb tag2_ (Zpos (XI (XO (XI (XO (XO (XO
                               XH))))))))
                        then obind (json_decoder_parseNumber fuel d b)
                               (fun pat ->
                               let (p, err) = pat in
                               let (p0, _) = p in
                               let (v, r) = p0 in
                               let k3_ = fun _ r0 -> Some ((Z0, r0), (Some
                                 JErrType))
                               in
                               if negb (isnil err)
                               then k3_
                                      (slice_to b (addi64 count0 (Zpos XH)))
                                      (slice_from b (addi64 count0 (Zpos XH)))
                               else k3_ v r)
                        else k1_ ()
                   else k1_ ()
            in
            let rec loop5_ f6_ value0 count0 =
              match f6_ with
              | O -> None
              | S f7_ ->
                if (&&)
                     ((&&) (Z.ltb count0 (len b))
                       (Z.geb (at_ b count0) (Zpos (XO (XO (XO (XO (XI
                         XH))))))))
                     (Z.leb (at_ b count0) (Zpos (XI (XO (XO (XI (XI XH)))))))
                then let x =
                       sub8 (at_ b count0) (Zpos (XO (XO (XO (XO (XI XH))))))
                     in
                     if Z.gtb value0
                          (div64
                            (sub64 (Zpos (XI (XI (XI (XI (XI (XI (XI (XI (XI
                              (XI (XI (XI (XI (XI (XI (XI (XI (XI (XI (XI (XI
                              (XI (XI (XI (XI (XI (XI (XI (XI (XI (XI (XI (XI
                              (XI (XI (XI (XI (XI (XI (XI (XI (XI (XI (XI (XI
                              (XI (XI (XI (XI (XI (XI (XI (XI (XI (XI (XI (XI
                              (XI (XI (XI (XI (XI (XI
                              XH))))))))))))))))))))))))))))))))))))))))))))))))))))))))))))))))
                              x) (Zpos (XO (XI (XO XH)))))
                     then Some ((Z0, b), (Some JErrOverflow))
                     else let value1 =
                            add64 (mul64 value0 (Zpos (XO (XI (XO XH))))) x
                          in
                          let count1 = addi64 count0 (Zpos XH) in
                          loop5_ f7_ value1 count1
                else k4_ value0 count0
            in loop5_ fuel value count

(** val is_digit : z -> bool **)

let is_digit c =
  (&&) (Z.leb (Zpos (XO (XO (XO (XO (XI XH)))))) c)
    (Z.leb c (Zpos (XI (XO (XO (XI (XI XH)))))))

(** val skip_digits : bytes -> bytes **)

let rec skip_digits b = match b with
| [] -> []
| c :: r -> if is_digit c then skip_digits r else b

(** val g_frac : bytes -> bytes option **)

let g_frac b = match b with
| [] -> Some b
| z0 :: l ->
  (match z0 with
   | Zpos p ->
     (match p with
      | XO p0 ->
        (match p0 with
         | XI p1 ->
           (match p1 with
            | XI p2 ->
              (match p2 with
               | XI p3 ->
                 (match p3 with
                  | XO p4 ->
                    (match p4 with
                     | XH ->
                       (match l with
                        | [] -> None
                        | d :: r ->
                          if is_digit d then Some (skip_digits r) else None)
                     | _ -> Some b)
                  | _ -> Some b)
               | _ -> Some b)
            | _ -> Some b)
         | _ -> Some b)
      | _ -> Some b)
   | _ -> Some b)

(** val g_exp : bytes -> bytes option **)

let g_exp b = match b with
| [] -> Some b
| e :: r ->
  if (||) (Z.eqb e (Zpos (XI (XO (XI (XO (XO (XI XH))))))))
       (Z.eqb e (Zpos (XI (XO (XI (XO (XO (XO XH))))))))
  then let r0 =
         match r with
         | [] -> r
         | s :: r' ->
           if (||) (Z.eqb s (Zpos (XI (XI (XO (XI (XO XH)))))))
                (Z.eqb s (Zpos (XI (XO (XI (XI (XO XH)))))))
           then r'
           else r
       in
       (match r0 with
        | [] -> None
        | d :: r' -> if is_digit d then Some (skip_digits r') else None)
  else Some b

(** val g_number : bytes -> bytes option **)

let g_number b =
  let b0 =
    match b with
    | [] -> b
    | z0 :: r ->
      (match z0 with
       | Zpos p ->
         (match p with
          | XI p0 ->
            (match p0 with
             | XO p1 ->
               (match p1 with
                | XI p2 ->
                  (match p2 with
                   | XI p3 ->
                     (match p3 with
                      | XO p4 -> (match p4 with
                                  | XH -> r
                                  | _ -> b)
                      | _ -> b)
                   | _ -> b)
                | _ -> b)
             | _ -> b)
          | _ -> b)
       | _ -> b)
  in
  (match b0 with
   | [] -> None
   | c :: r ->
     (match c with
      | Zpos p ->
        (match p with
         | XO p0 ->
           (match p0 with
            | XO p1 ->
              (match p1 with
               | XO p2 ->
                 (match p2 with
                  | XO p3 ->
                    (match p3 with
                     | XI p4 ->
                       (match p4 with
                        | XH ->
                          (match g_frac r with
                           | Some r0 -> g_exp r0
                           | None -> None)
                        | _ ->
                          if is_digit c
                          then (match g_frac (skip_digits r) with
                                | Some r0 -> g_exp r0
                                | None -> None)
                          else None)
                     | _ ->
                       if is_digit c
                       then (match g_frac (skip_digits r) with
                             | Some r0 -> g_exp r0
                             | None -> None)
                       else None)
                  | _ ->
                    if is_digit c
                    then (match g_frac (skip_digits r) with
                          | Some r0 -> g_exp r0
                          | None -> None)
                    else None)
               | _ ->
                 if is_digit c
                 then (match g_frac (skip_digits r) with
                       | Some r0 -> g_exp r0
                       | None -> None)
                 else None)
            | _ ->
              if is_digit c
              then (match g_frac (skip_digits r) with
                    | Some r0 -> g_exp r0
                    | None -> None)
              else None)
         | _ ->
           if is_digit c
           then (match g_frac (skip_digits r) with
                 | Some r0 -> g_exp r0
                 | None -> None)
           else None)
      | _ ->
        if is_digit c
        then (match g_frac (skip_digits r) with
              | Some r0 -> g_exp r0
              | None -> None)
        else None))

type numres =
| RUint64 of z
| RInt64 of z
| RBigInt of z
| RNumber of bytes
| RFloat64 of z
| RErr
| RFuel

type 'a dres =
| DOk of 'a * bytes
| DErr
| DFuel

(** val any_flags_set : z -> z -> bool **)

let any_flags_set d mask0 =
  negb (Z.eqb (Z.coq_land d mask0) Z0)

(** val digits_value_from : z -> bytes -> z **)

let rec digits_value_from acc = function
| [] -> acc
| c :: r ->
  digits_value_from
    (Z.add (Z.mul acc (Zpos (XO (XI (XO XH)))))
      (Z.sub c (Zpos (XO (XO (XO (XO (XI XH)))))))) r

(** val digits_value : bytes -> z **)

let digits_value b =
  digits_value_from Z0 b

(** val all_digits : bytes -> bool **)

let all_digits b =
  forallb (fun c ->
    (&&) (Z.leb (Zpos (XO (XO (XO (XO (XI XH)))))) c)
      (Z.leb c (Zpos (XI (XO (XO (XI (XI XH)))))))) b

(** val big_unmarshal : bytes -> z option **)

let big_unmarshal v =
  if bytes_eqb v ((Zpos (XO (XI (XI (XI (XO (XI XH))))))) :: ((Zpos (XI (XO
       (XI (XO (XI (XI XH))))))) :: ((Zpos (XO (XO (XI (XI (XO (XI
       XH))))))) :: ((Zpos (XO (XO (XI (XI (XO (XI XH))))))) :: []))))
  then Some Z0
  else (match v with
        | [] ->
          let neg = false in
          (match v with
           | [] -> None
           | z0 :: l ->
             (match z0 with
              | Zpos p ->
                (match p with
                 | XO p0 ->
                   (match p0 with
                    | XO p1 ->
                      (match p1 with
                       | XO p2 ->
                         (match p2 with
                          | XO p3 ->
                            (match p3 with
                             | XI p4 ->
                               (match p4 with
                                | XH ->
                                  (match l with
                                   | [] ->
                                     if all_digits v
                                     then Some
                                            (if neg
                                             then Z.opp (digits_value v)
                                             else digits_value v)
                                     else None
                                   | _ :: _ -> None)
                                | _ ->
                                  if all_digits v
                                  then Some
                                         (if neg
                                          then Z.opp (digits_value v)
                                          else digits_value v)
                                  else None)
                             | _ ->
                               if all_digits v
                               then Some
                                      (if neg
                                       then Z.opp (digits_value v)
                                       else digits_value v)
                               else None)
                          | _ ->
                            if all_digits v
                            then Some
                                   (if neg
                                    then Z.opp (digits_value v)
                                    else digits_value v)
                            else None)
                       | _ ->
                         if all_digits v
                         then Some
                                (if neg
                                 then Z.opp (digits_value v)
                                 else digits_value v)
                         else None)
                    | _ ->
                      if all_digits v
                      then Some
                             (if neg
                              then Z.opp (digits_value v)
                              else digits_value v)
                      else None)
                 | _ ->
                   if all_digits v
                   then Some
                          (if neg
                           then Z.opp (digits_value v)
                           else digits_value v)
                   else None)
              | _ ->
                if all_digits v
                then Some
                       (if neg then Z.opp (digits_value v) else digits_value v)
                else None))
        | z0 :: r ->
          (match z0 with
           | Zpos p ->
             (match p with
              | XI p0 ->
                (match p0 with
                 | XO p1 ->
                   (match p1 with
                    | XI p2 ->
                      (match p2 with
                       | XI p3 ->
                         (match p3 with
                          | XO p4 ->
                            (match p4 with
                             | XH ->
                               let neg = true in
                               (match r with
                                | [] -> None
                                | z1 :: l ->
                                  (match z1 with
                                   | Zpos p5 ->
                                     (match p5 with
                                      | XO p6 ->
                                        (match p6 with
                                         | XO p7 ->
                                           (match p7 with
                                            | XO p8 ->
                                              (match p8 with
                                               | XO p9 ->
                                                 (match p9 with
                                                  | XI p10 ->
                                                    (match p10 with
                                                     | XH ->
                                                       (match l with
                                                        | [] ->
                                                          if all_digits r
                                                          then Some
                                                                 (if neg
                                                                  then 
                                                                    Z.opp
                                                                    (digits_value
                                                                    r)
                                                                  else 
                                                                    digits_value
                                                                    r)
                                                          else None
                                                        | _ :: _ -> None)
                                                     | _ ->
                                                       if all_digits r
                                                       then Some
                                                              (if neg
                                                               then Z.opp
                                                                    (digits_value
                                                                    r)
                                                               else digits_value
                                                                    r)
                                                       else None)
                                                  | _ ->
                                                    if all_digits r
                                                    then Some
                                                           (if neg
                                                            then Z.opp
                                                                   (digits_value
                                                                    r)
                                                            else digits_value
                                                                   r)
                                                    else None)
                                               | _ ->
                                                 if all_digits r
                                                 then Some
                                                        (if neg
                                                         then Z.opp
                                                                (digits_value
                                                                  r)
                                                         else digits_value r)
                                                 else None)
                                            | _ ->
                                              if all_digits r
                                              then Some
                                                     (if neg
                                                      then Z.opp
                                                             (digits_value r)
                                                      else digits_value r)
                                              else None)
                                         | _ ->
                                           if all_digits r
                                           then Some
                                                  (if neg
                                                   then Z.opp (digits_value r)
                                                   else digits_value r)
                                           else None)
                                      | _ ->
                                        if all_digits r
                                        then Some
                                               (if neg
                                                then Z.opp (digits_value r)
                                                else digits_value r)
                                        else None)
                                   | _ ->
                                     if all_digits r
                                     then Some
                                            (if neg
                                             then Z.opp (digits_value r)
                                             else digits_value r)
                                     else None))
                             | _ ->
                               let neg = false in
                               (match v with
                                | [] -> None
                                | z1 :: l ->
                                  (match z1 with
                                   | Zpos p5 ->
                                     (match p5 with
                                      | XO p6 ->
                                        (match p6 with
                                         | XO p7 ->
                                           (match p7 with
                                            | XO p8 ->
                                              (match p8 with
                                               | XO p9 ->
                                                 (match p9 with
                                                  | XI p10 ->
                                                    (match p10 with
                                                     | XH ->
                                                       (match l with
                                                        | [] ->
                                                          if all_digits v
                                                          then Some
                                                                 (if neg
                                                                  then 
                                                                    Z.opp
                                                                    (digits_value
                                                                    v)
                                                                  else 
                                                                    digits_value
                                                                    v)
                                                          else None
                                                        | _ :: _ -> None)
                                                     | _ ->
                                                       if all_digits v
                                                       then Some
                                                              (if neg
                                                               then Z.opp
                                                                    (digits_value
                                                                    v)
                                                               else digits_value
                                                                    v)
                                                       else None)
                                                  | _ ->
                                                    if all_digits v
                                                    then Some
                                                           (if neg
                                                            then Z.opp
                                                                   (digits_value
                                                                    v)
                                                            else digits_value
                                                                   v)
                                                    else None)
                                               | _ ->
                                                 if all_digits v
                                                 then Some
                                                        (if neg
                                                         then Z.opp
                                                                (digits_value
                                                                  v)
                                                         else digits_value v)
                                                 else None)
                                            | _ ->
                                              if all_digits v
                                              then Some
                                                     (if neg
                                                      then Z.opp
                                                             (digits_value v)
                                                      else digits_value v)
                                              else None)
                                         | _ ->
                                           if all_digits v
                                           then Some
                                                  (if neg
                                                   then Z.opp (digits_value v)
                                                   else digits_value v)
                                           else None)
                                      | _ ->
                                        if all_digits v
                                        then Some
                                               (if neg
                                                then Z.opp (digits_value v)
                                                else digits_value v)
                                        else None)
                                   | _ ->
                                     if all_digits v
                                     then Some
                                            (if neg
                                             then Z.opp (digits_value v)
                                             else digits_value v)
                                     else None)))
                          | _ ->
                            let neg = false in
                            (match v with
                             | [] -> None
                             | z1 :: l ->
                               (match z1 with
                                | Zpos p4 ->
                                  (match p4 with
                                   | XO p5 ->
                                     (match p5 with
                                      | XO p6 ->
                                        (match p6 with
                                         | XO p7 ->
                                           (match p7 with
                                            | XO p8 ->
                                              (match p8 with
                                               | XI p9 ->
                                                 (match p9 with
                                                  | XH ->
                                                    (match l with
                                                     | [] ->
                                                       if all_digits v
                                                       then Some
                                                              (if neg
                                                               then Z.opp
                                                                    (digits_value
                                                                    v)
                                                               else digits_value
                                                                    v)
                                                       else None
                                                     | _ :: _ -> None)
                                                  | _ ->
                                                    if all_digits v
                                                    then Some
                                                           (if neg
                                                            then Z.opp
                                                                   (digits_value
                                                                    v)
                                                            else digits_value
                                                                   v)
                                                    else None)
                                               | _ ->
                                                 if all_digits v
                                                 then Some
                                                        (if neg
                                                         then Z.opp
                                                                (digits_value
                                                                  v)
                                                         else digits_value v)
                                                 else None)
                                            | _ ->
                                              if all_digits v
                                              then Some
                                                     (if neg
                                                      then Z.opp
                                                             (digits_value v)
                                                      else digits_value v)
                                              else None)
                                         | _ ->
                                           if all_digits v
                                           then Some
                                                  (if neg
                                                   then Z.opp (digits_value v)
                                                   else digits_value v)
                                           else None)
                                      | _ ->
                                        if all_digits v
                                        then Some
                                               (if neg
                                                then Z.opp (digits_value v)
                                                else digits_value v)
                                        else None)
                                   | _ ->
                                     if all_digits v
                                     then Some
                                            (if neg
                                             then Z.opp (digits_value v)
                                             else digits_value v)
                                     else None)
                                | _ ->
                                  if all_digits v
                                  then Some
                                         (if neg
                                          then Z.opp (digits_value v)
                                          else digits_value v)
                                  else None)))
                       | _ ->
                         let neg = false in
                         (match v with
                          | [] -> None
                          | z1 :: l ->
                            (match z1 with
                             | Zpos p3 ->
                               (match p3 with
                                | XO p4 ->
                                  (match p4 with
                                   | XO p5 ->
                                     (match p5 with
                                      | XO p6 ->
                                        (match p6 with
                                         | XO p7 ->
                                           (match p7 with
                                            | XI p8 ->
                                              (match p8 with
                                               | XH ->
                                                 (match l with
                                                  | [] ->
                                                    if all_digits v
                                                    then Some
                                                           (if neg
                                                            then Z.opp
                                                                   (digits_value
                                                                    v)
                                                            else digits_value
                                                                   v)
                                                    else None
                                                  | _ :: _ -> None)
                                               | _ ->
                                                 if all_digits v
                                                 then Some
                                                        (if neg
                                                         then Z.opp
                                                                (digits_value
                                                                  v)
                                                         else digits_value v)
                                                 else None)
                                            | _ ->
                                              if all_digits v
                                              then Some
                                                     (if neg
                                                      then Z.opp
                                                             (digits_value v)
                                                      else digits_value v)
                                              else None)
                                         | _ ->
                                           if all_digits v
                                           then Some
                                                  (if neg
                                                   then Z.opp (digits_value v)
                                                   else digits_value v)
                                           else None)
                                      | _ ->
                                        if all_digits v
                                        then Some
                                               (if neg
                                                then Z.opp (digits_value v)
                                                else digits_value v)
                                        else None)
                                   | _ ->
                                     if all_digits v
                                     then Some
                                            (if neg
                                             then Z.opp (digits_value v)
                                             else digits_value v)
                                     else None)
                                | _ ->
                                  if all_digits v
                                  then Some
                                         (if neg
                                          then Z.opp (digits_value v)
                                          else digits_value v)
                                  else None)
                             | _ ->
                               if all_digits v
                               then Some
                                      (if neg
                                       then Z.opp (digits_value v)
                                       else digits_value v)
                               else None)))
                    | _ ->
                      let neg = false in
                      (match v with
                       | [] -> None
                       | z1 :: l ->
                         (match z1 with
                          | Zpos p2 ->
                            (match p2 with
                             | XO p3 ->
                               (match p3 with
                                | XO p4 ->
                                  (match p4 with
                                   | XO p5 ->
                                     (match p5 with
                                      | XO p6 ->
                                        (match p6 with
                                         | XI p7 ->
                                           (match p7 with
                                            | XH ->
                                              (match l with
                                               | [] ->
                                                 if all_digits v
                                                 then Some
                                                        (if neg
                                                         then Z.opp
                                                                (digits_value
                                                                  v)
                                                         else digits_value v)
                                                 else None
                                               | _ :: _ -> None)
                                            | _ ->
                                              if all_digits v
                                              then Some
                                                     (if neg
                                                      then Z.opp
                                                             (digits_value v)
                                                      else digits_value v)
                                              else None)
                                         | _ ->
                                           if all_digits v
                                           then Some
                                                  (if neg
                                                   then Z.opp (digits_value v)
                                                   else digits_value v)
                                           else None)
                                      | _ ->
                                        if all_digits v
                                        then Some
                                               (if neg
                                                then Z.opp (digits_value v)
                                                else digits_value v)
                                        else None)
                                   | _ ->
                                     if all_digits v
                                     then Some
                                            (if neg
                                             then Z.opp (digits_value v)
                                             else digits_value v)
                                     else None)
                                | _ ->
                                  if all_digits v
                                  then Some
                                         (if neg
                                          then Z.opp (digits_value v)
                                          else digits_value v)
                                  else None)
                             | _ ->
                               if all_digits v
                               then Some
                                      (if neg
                                       then Z.opp (digits_value v)
                                       else digits_value v)
                               else None)
                          | _ ->
                            if all_digits v
                            then Some
                                   (if neg
                                    then Z.opp (digits_value v)
                                    else digits_value v)
                            else None)))
                 | _ ->
                   let neg = false in
                   (match v with
                    | [] -> None
                    | z1 :: l ->
                      (match z1 with
                       | Zpos p1 ->
                         (match p1 with
                          | XO p2 ->
                            (match p2 with
                             | XO p3 ->
                               (match p3 with
                                | XO p4 ->
                                  (match p4 with
                                   | XO p5 ->
                                     (match p5 with
                                      | XI p6 ->
                                        (match p6 with
                                         | XH ->
                                           (match l with
                                            | [] ->
                                              if all_digits v
                                              then Some
                                                     (if neg
                                                      then Z.opp
                                                             (digits_value v)
                                                      else digits_value v)
                                              else None
                                            | _ :: _ -> None)
                                         | _ ->
                                           if all_digits v
                                           then Some
                                                  (if neg
                                                   then Z.opp (digits_value v)
                                                   else digits_value v)
                                           else None)
                                      | _ ->
                                        if all_digits v
                                        then Some
                                               (if neg
                                                then Z.opp (digits_value v)
                                                else digits_value v)
                                        else None)
                                   | _ ->
                                     if all_digits v
                                     then Some
                                            (if neg
                                             then Z.opp (digits_value v)
                                             else digits_value v)
                                     else None)
                                | _ ->
                                  if all_digits v
                                  then Some
                                         (if neg
                                          then Z.opp (digits_value v)
                                          else digits_value v)
                                  else None)
                             | _ ->
                               if all_digits v
                               then Some
                                      (if neg
                                       then Z.opp (digits_value v)
                                       else digits_value v)
                               else None)
                          | _ ->
                            if all_digits v
                            then Some
                                   (if neg
                                    then Z.opp (digits_value v)
                                    else digits_value v)
                            else None)
                       | _ ->
                         if all_digits v
                         then Some
                                (if neg
                                 then Z.opp (digits_value v)
                                 else digits_value v)
                         else None)))
              | _ ->
                let neg = false in
                (match v with
                 | [] -> None
                 | z1 :: l ->
                   (match z1 with
                    | Zpos p0 ->
                      (match p0 with
                       | XO p1 ->
                         (match p1 with
                          | XO p2 ->
                            (match p2 with
                             | XO p3 ->
                               (match p3 with
                                | XO p4 ->
                                  (match p4 with
                                   | XI p5 ->
                                     (match p5 with
                                      | XH ->
                                        (match l with
                                         | [] ->
                                           if all_digits v
                                           then Some
                                                  (if neg
                                                   then Z.opp (digits_value v)
                                                   else digits_value v)
                                           else None
                                         | _ :: _ -> None)
                                      | _ ->
                                        if all_digits v
                                        then Some
                                               (if neg
                                                then Z.opp (digits_value v)
                                                else digits_value v)
                                        else None)
                                   | _ ->
                                     if all_digits v
                                     then Some
                                            (if neg
                                             then Z.opp (digits_value v)
                                             else digits_value v)
                                     else None)
                                | _ ->
                                  if all_digits v
                                  then Some
                                         (if neg
                                          then Z.opp (digits_value v)
                                          else digits_value v)
                                  else None)
                             | _ ->
                               if all_digits v
                               then Some
                                      (if neg
                                       then Z.opp (digits_value v)
                                       else digits_value v)
                               else None)
                          | _ ->
                            if all_digits v
                            then Some
                                   (if neg
                                    then Z.opp (digits_value v)
                                    else digits_value v)
                            else None)
                       | _ ->
                         if all_digits v
                         then Some
                                (if neg
                                 then Z.opp (digits_value v)
                                 else digits_value v)
                         else None)
                    | _ ->
                      if all_digits v
                      then Some
                             (if neg
                              then Z.opp (digits_value v)
                              else digits_value v)
                      else None)))
           | _ ->
             let neg = false in
             (match v with
              | [] -> None
              | z1 :: l ->
                (match z1 with
                 | Zpos p ->
                   (match p with
                    | XO p0 ->
                      (match p0 with
                       | XO p1 ->
                         (match p1 with
                          | XO p2 ->
                            (match p2 with
                             | XO p3 ->
                               (match p3 with
                                | XI p4 ->
                                  (match p4 with
                                   | XH ->
                                     (match l with
                                      | [] ->
                                        if all_digits v
                                        then Some
                                               (if neg
                                                then Z.opp (digits_value v)
                                                else digits_value v)
                                        else None
                                      | _ :: _ -> None)
                                   | _ ->
                                     if all_digits v
                                     then Some
                                            (if neg
                                             then Z.opp (digits_value v)
                                             else digits_value v)
                                     else None)
                                | _ ->
                                  if all_digits v
                                  then Some
                                         (if neg
                                          then Z.opp (digits_value v)
                                          else digits_value v)
                                  else None)
                             | _ ->
                               if all_digits v
                               then Some
                                      (if neg
                                       then Z.opp (digits_value v)
                                       else digits_value v)
                               else None)
                          | _ ->
                            if all_digits v
                            then Some
                                   (if neg
                                    then Z.opp (digits_value v)
                                    else digits_value v)
                            else None)
                       | _ ->
                         if all_digits v
                         then Some
                                (if neg
                                 then Z.opp (digits_value v)
                                 else digits_value v)
                         else None)
                    | _ ->
                      if all_digits v
                      then Some
                             (if neg
                              then Z.opp (digits_value v)
                              else digits_value v)
                      else None)
                 | _ ->
                   if all_digits v
                   then Some
                          (if neg
                           then Z.opp (digits_value v)
                           else digits_value v)
                   else None))))

(** val decode_uint64 : nat -> z -> bytes -> z dres **)

let decode_uint64 fuel d b =
  if json_hasNullPrefix b
  then DOk (Z0, (slice_from b (Zpos (XO (XO XH)))))
  else (match json_decoder_parseUint fuel d b () with
        | Some p ->
          let (p0, o) = p in
          let (v, r) = p0 in
          (match o with
           | Some _ -> DErr
           | None -> DOk (v, r))
        | None -> DFuel)

(** val decode_int64 : nat -> z -> bytes -> z dres **)

let decode_int64 fuel d b =
  if json_hasNullPrefix b
  then DOk (Z0, (slice_from b (Zpos (XO (XO XH)))))
  else (match json_decoder_parseInt fuel d b () with
        | Some p ->
          let (p0, o) = p in
          let (v, r) = p0 in
          (match o with
           | Some _ -> DErr
           | None -> DOk (v, r))
        | None -> DFuel)

(** val decode_number : nat -> z -> bytes -> bytes dres **)

let decode_number fuel d b =
  if json_hasNullPrefix b
  then DOk ([], (slice_from b (Zpos (XO (XO XH)))))
  else (match json_decoder_parseNumber fuel d b with
        | Some p ->
          let (p0, o) = p in
          let (p1, _) = p0 in
          let (v, r) = p1 in
          (match o with
           | Some _ -> DErr
           | None -> DOk (v, r))
        | None -> DFuel)

(** val decode_float64 :
    (bytes -> z option) -> nat -> z -> bytes -> z dres **)

let decode_float64 parse_float fuel d b =
  if json_hasNullPrefix b
  then DOk (Z0, (slice_from b (Zpos (XO (XO XH)))))
  else (match json_decoder_parseNumber fuel d b with
        | Some p ->
          let (p0, o) = p in
          let (p1, _) = p0 in
          let (v, r) = p1 in
          (match o with
           | Some _ -> DErr
           | None ->
             (match parse_float v with
              | Some f -> DOk (f, r)
              | None -> DErr))
        | None -> DFuel)

(** val decode_bigint : nat -> z -> bytes -> z dres **)

let decode_bigint fuel d b =
  match json_decoder_parseValue fuel d b with
  | Some p ->
    let (p0, o) = p in
    let (p1, _) = p0 in
    let (v, r) = p1 in
    (match o with
     | Some _ -> DErr
     | None ->
       (match big_unmarshal v with
        | Some z0 -> DOk (z0, r)
        | None -> DErr))
  | None -> DFuel

(** val three_flags : z **)

let three_flags =
  Z.coq_lor json_UseBigInt (Z.coq_lor json_UseInt64 json_UseUint64)

(** val decode_dynamic_number :
    (bytes -> z option) -> nat -> z -> bytes -> numres dres **)

let decode_dynamic_number parse_float fuel d b =
  let kind_r =
    if any_flags_set d three_flags
    then (match json_decoder_parseNumber fuel d b with
          | Some p ->
            let (p0, o) = p in
            let (_, kind) = p0 in
            (match o with
             | Some _ -> DErr
             | None -> DOk (kind, []))
          | None -> DFuel)
    else DOk (json_Float, [])
  in
  (match kind_r with
   | DOk (kind, _) ->
     let fallback = fun _ ->
       if (||) ((&&) (Z.eqb kind json_Uint) (any_flags_set d json_UseBigInt))
            ((&&) (Z.eqb kind json_Int) (any_flags_set d json_UseBigInt))
       then (match decode_bigint fuel d b with
             | DOk (z0, r) -> DOk ((RBigInt z0), r)
             | DErr -> DErr
             | DFuel -> DFuel)
       else if any_flags_set d json_UseNumber
            then (match decode_number fuel d b with
                  | DOk (s, r) -> DOk ((RNumber s), r)
                  | DErr -> DErr
                  | DFuel -> DFuel)
            else (match decode_float64 parse_float fuel d b with
                  | DOk (f, r) -> DOk ((RFloat64 f), r)
                  | DErr -> DErr
                  | DFuel -> DFuel)
     in
     if (&&) (Z.eqb kind json_Uint) (any_flags_set d json_UseUint64)
     then (match decode_uint64 fuel d b with
           | DOk (v, r) -> DOk ((RUint64 v), r)
           | DErr -> fallback ()
           | DFuel -> DFuel)
     else if (||)
               ((&&) (Z.eqb kind json_Uint) (any_flags_set d json_UseInt64))
               ((&&) (Z.eqb kind json_Int) (any_flags_set d json_UseInt64))
          then (match decode_int64 fuel d b with
                | DOk (v, r) -> DOk ((RInt64 v), r)
                | DErr -> fallback ()
                | DFuel -> DFuel)
          else fallback ()
   | DErr -> DErr
   | DFuel -> DFuel)

(** val decode_interface_number :
    (bytes -> z option) -> nat -> z -> bytes -> numres **)

let decode_interface_number parse_float fuel d v =
  match decode_dynamic_number parse_float fuel d v with
  | DOk (res, rem) ->
    if Z.eqb (len (json_skipSpaces rem)) Z0 then res else RErr
  | DErr -> RErr
  | DFuel -> RFuel

(** val num_fuel : bytes -> nat **)

let num_fuel v =
  add (length v) (S (S (S O)))

(** val decode_number_literal :
    (bytes -> z option) -> z -> bytes -> numres **)

let decode_number_literal parse_float d v =
  decode_interface_number parse_float (num_fuel v) d v

(** val is_int_literal : bytes -> bool **)

let is_int_literal b =
  negb
    (existsb (fun c ->
      (||)
        ((||) (Z.eqb c (Zpos (XO (XI (XI (XI (XO XH)))))))
          (Z.eqb c (Zpos (XI (XO (XI (XO (XO (XI XH)))))))))
        (Z.eqb c (Zpos (XI (XO (XI (XO (XO (XO XH))))))))) b)

(** val is_neg_literal : bytes -> bool **)

let is_neg_literal = function
| [] -> false
| z0 :: _ ->
  (match z0 with
   | Zpos p ->
     (match p with
      | XI p0 ->
        (match p0 with
         | XO p1 ->
           (match p1 with
            | XI p2 ->
              (match p2 with
               | XI p3 ->
                 (match p3 with
                  | XO p4 -> (match p4 with
                              | XH -> true
                              | _ -> false)
                  | _ -> false)
               | _ -> false)
            | _ -> false)
         | _ -> false)
      | _ -> false)
   | _ -> false)

(** val int_value : bytes -> z **)

let int_value b = match b with
| [] -> digits_value b
| z0 :: r ->
  (match z0 with
   | Zpos p ->
     (match p with
      | XI p0 ->
        (match p0 with
         | XO p1 ->
           (match p1 with
            | XI p2 ->
              (match p2 with
               | XI p3 ->
                 (match p3 with
                  | XO p4 ->
                    (match p4 with
                     | XH -> Z.opp (digits_value r)
                     | _ -> digits_value b)
                  | _ -> digits_value b)
               | _ -> digits_value b)
            | _ -> digits_value b)
         | _ -> digits_value b)
      | _ -> digits_value b)
   | _ -> digits_value b)

(** val max_uint64 : z **)

let max_uint64 =
  Z.sub (Z.pow (Zpos (XO XH)) (Zpos (XO (XO (XO (XO (XO (XO XH)))))))) (Zpos
    XH)

(** val max_int64 : z **)

let max_int64 =
  Z.sub (Z.pow (Zpos (XO XH)) (Zpos (XI (XI (XI (XI (XI XH))))))) (Zpos XH)

(** val min_int64 : z **)

let min_int64 =
  Z.opp (Z.pow (Zpos (XO XH)) (Zpos (XI (XI (XI (XI (XI XH)))))))

(** val use_number : z -> bool **)

let use_number d =
  Z.testbit d (Zpos XH)

(** val use_bigint : z -> bool **)

let use_bigint d =
  Z.testbit d (Zpos (XO (XI XH)))

(** val use_int64 : z -> bool **)

let use_int64 d =
  Z.testbit d (Zpos (XI (XI XH)))

(** val use_uint64 : z -> bool **)

let use_uint64 d =
  Z.testbit d (Zpos (XO (XO (XO XH))))

(** val generic_number : (bytes -> z option) -> z -> bytes -> numres **)

let generic_number parse_float d b =
  if use_number d
  then RNumber b
  else (match parse_float b with
        | Some f -> RFloat64 f
        | None -> RErr)

(** val num_spec : (bytes -> z option) -> z -> bytes -> numres **)

let num_spec parse_float d b =
  if is_int_literal b
  then let v = int_value b in
       if (&&) ((&&) (use_uint64 d) (negb (is_neg_literal b)))
            (Z.leb v max_uint64)
       then RUint64 v
       else if (&&) ((&&) (use_int64 d) (Z.leb min_int64 v))
                 (Z.leb v max_int64)
            then RInt64 v
            else if use_bigint d
                 then RBigInt v
                 else generic_number parse_float d b
  else generic_number parse_float d b
