
(** val negb : bool -> bool **)

let negb = function
| true -> false
| false -> true

type nat =
| O
| S of nat

(** val fst : ('a1 * 'a2) -> 'a1 **)

let fst = function
| (x, _) -> x

(** val snd : ('a1 * 'a2) -> 'a2 **)

let snd = function
| (_, y) -> y

(** val length : 'a1 list -> nat **)

let rec length = function
| [] -> O
| _ :: l' -> S (length l')

(** val app : 'a1 list -> 'a1 list -> 'a1 list **)

let rec app l m =
  match l with
  | [] -> m
  | a :: l1 -> a :: (app l1 m)

type comparison =
| Eq
| Lt
| Gt

(** val compOpp : comparison -> comparison **)

let compOpp = function
| Eq -> Eq
| Lt -> Gt
| Gt -> Lt

module Coq__1 = struct
 (** val add : nat -> nat -> nat **)
 let rec add n0 m =
   match n0 with
   | O -> m
   | S p -> S (add p m)
end
include Coq__1

type positive =
| XI of positive
| XO of positive
| XH

type n =
| N0
| Npos of positive

type z =
| Z0
| Zpos of positive
| Zneg of positive

module Nat =
 struct
  (** val max : nat -> nat -> nat **)

  let rec max n0 m =
    match n0 with
    | O -> m
    | S n' -> (match m with
               | O -> n0
               | S m' -> S (max n' m'))
 end

module Pos =
 struct
  type mask =
  | IsNul
  | IsPos of positive
  | IsNeg
 end

module Coq_Pos =
 struct
  (** val succ : positive -> positive **)

  let rec succ = function
  | XI p -> XO (succ p)
  | XO p -> XI p
  | XH -> XO XH

  (** val add : positive -> positive -> positive **)

  let rec add x y =
    match x with
    | XI p ->
      (match y with
       | XI q -> XO (add_carry p q)
       | XO q -> XI (add p q)
       | XH -> XO (succ p))
    | XO p ->
      (match y with
       | XI q -> XI (add p q)
       | XO q -> XO (add p q)
       | XH -> XI p)
    | XH -> (match y with
             | XI q -> XO (succ q)
             | XO q -> XI q
             | XH -> XO XH)

  (** val add_carry : positive -> positive -> positive **)

  and add_carry x y =
    match x with
    | XI p ->
      (match y with
       | XI q -> XI (add_carry p q)
       | XO q -> XO (add_carry p q)
       | XH -> XI (succ p))
    | XO p ->
      (match y with
       | XI q -> XO (add_carry p q)
       | XO q -> XI (add p q)
       | XH -> XO (succ p))
    | XH ->
      (match y with
       | XI q -> XI (succ q)
       | XO q -> XO (succ q)
       | XH -> XI XH)

  (** val pred_double : positive -> positive **)

  let rec pred_double = function
  | XI p -> XI (XO p)
  | XO p -> XI (pred_double p)
  | XH -> XH

  (** val pred_N : positive -> n **)

  let pred_N = function
  | XI p -> Npos (XO p)
  | XO p -> Npos (pred_double p)
  | XH -> N0

  type mask = Pos.mask =
  | IsNul
  | IsPos of positive
  | IsNeg

  (** val succ_double_mask : mask -> mask **)

  let succ_double_mask = function
  | IsNul -> IsPos XH
  | IsPos p -> IsPos (XI p)
  | IsNeg -> IsNeg

  (** val double_mask : mask -> mask **)

  let double_mask = function
  | IsPos p -> IsPos (XO p)
  | x0 -> x0

  (** val double_pred_mask : positive -> mask **)

  let double_pred_mask = function
  | XI p -> IsPos (XO (XO p))
  | XO p -> IsPos (XO (pred_double p))
  | XH -> IsNul

  (** val sub_mask : positive -> positive -> mask **)

  let rec sub_mask x y =
    match x with
    | XI p ->
      (match y with
       | XI q -> double_mask (sub_mask p q)
       | XO q -> succ_double_mask (sub_mask p q)
       | XH -> IsPos (XO p))
    | XO p ->
      (match y with
       | XI q -> succ_double_mask (sub_mask_carry p q)
       | XO q -> double_mask (sub_mask p q)
       | XH -> IsPos (pred_double p))
    | XH -> (match y with
             | XH -> IsNul
             | _ -> IsNeg)

  (** val sub_mask_carry : positive -> positive -> mask **)

  and sub_mask_carry x y =
    match x with
    | XI p ->
      (match y with
       | XI q -> succ_double_mask (sub_mask_carry p q)
       | XO q -> double_mask (sub_mask p q)
       | XH -> IsPos (pred_double p))
    | XO p ->
      (match y with
       | XI q -> double_mask (sub_mask_carry p q)
       | XO q -> succ_double_mask (sub_mask_carry p q)
       | XH -> double_pred_mask p)
    | XH -> IsNeg

  (** val mul : positive -> positive -> positive **)

  let rec mul x y =
    match x with
    | XI p -> add y (XO (mul p y))
    | XO p -> XO (mul p y)
    | XH -> y

  (** val iter : ('a1 -> 'a1) -> 'a1 -> positive -> 'a1 **)

  let rec iter f x = function
  | XI n' -> f (iter f (iter f x n') n')
  | XO n' -> iter f (iter f x n') n'
  | XH -> f x

  (** val div2 : positive -> positive **)

  let div2 = function
  | XI p0 -> p0
  | XO p0 -> p0
  | XH -> XH

  (** val div2_up : positive -> positive **)

  let div2_up = function
  | XI p0 -> succ p0
  | XO p0 -> p0
  | XH -> XH

  (** val size : positive -> positive **)

  let rec size = function
  | XI p0 -> succ (size p0)
  | XO p0 -> succ (size p0)
  | XH -> XH

  (** val compare_cont : comparison -> positive -> positive -> comparison **)

  let rec compare_cont r x y =
    match x with
    | XI p ->
      (match y with
       | XI q -> compare_cont r p q
       | XO q -> compare_cont Gt p q
       | XH -> Gt)
    | XO p ->
      (match y with
       | XI q -> compare_cont Lt p q
       | XO q -> compare_cont r p q
       | XH -> Gt)
    | XH -> (match y with
             | XH -> r
             | _ -> Lt)

  (** val compare : positive -> positive -> comparison **)

  let compare =
    compare_cont Eq

  (** val eqb : positive -> positive -> bool **)

  let rec eqb p q =
    match p with
    | XI p0 -> (match q with
                | XI q0 -> eqb p0 q0
                | _ -> false)
    | XO p0 -> (match q with
                | XO q0 -> eqb p0 q0
                | _ -> false)
    | XH -> (match q with
             | XH -> true
             | _ -> false)

  (** val coq_Nsucc_double : n -> n **)

  let coq_Nsucc_double = function
  | N0 -> Npos XH
  | Npos p -> Npos (XI p)

  (** val coq_Ndouble : n -> n **)

  let coq_Ndouble = function
  | N0 -> N0
  | Npos p -> Npos (XO p)

  (** val coq_lor : positive -> positive -> positive **)

  let rec coq_lor p q =
    match p with
    | XI p0 ->
      (match q with
       | XI q0 -> XI (coq_lor p0 q0)
       | XO q0 -> XI (coq_lor p0 q0)
       | XH -> p)
    | XO p0 ->
      (match q with
       | XI q0 -> XI (coq_lor p0 q0)
       | XO q0 -> XO (coq_lor p0 q0)
       | XH -> XI p0)
    | XH -> (match q with
             | XO q0 -> XI q0
             | _ -> q)

  (** val coq_land : positive -> positive -> n **)

  let rec coq_land p q =
    match p with
    | XI p0 ->
      (match q with
       | XI q0 -> coq_Nsucc_double (coq_land p0 q0)
       | XO q0 -> coq_Ndouble (coq_land p0 q0)
       | XH -> Npos XH)
    | XO p0 ->
      (match q with
       | XI q0 -> coq_Ndouble (coq_land p0 q0)
       | XO q0 -> coq_Ndouble (coq_land p0 q0)
       | XH -> N0)
    | XH -> (match q with
             | XO _ -> N0
             | _ -> Npos XH)

  (** val ldiff : positive -> positive -> n **)

  let rec ldiff p q =
    match p with
    | XI p0 ->
      (match q with
       | XI q0 -> coq_Ndouble (ldiff p0 q0)
       | XO q0 -> coq_Nsucc_double (ldiff p0 q0)
       | XH -> Npos (XO p0))
    | XO p0 ->
      (match q with
       | XI q0 -> coq_Ndouble (ldiff p0 q0)
       | XO q0 -> coq_Ndouble (ldiff p0 q0)
       | XH -> Npos p)
    | XH -> (match q with
             | XO _ -> Npos XH
             | _ -> N0)

  (** val coq_lxor : positive -> positive -> n **)

  let rec coq_lxor p q =
    match p with
    | XI p0 ->
      (match q with
       | XI q0 -> coq_Ndouble (coq_lxor p0 q0)
       | XO q0 -> coq_Nsucc_double (coq_lxor p0 q0)
       | XH -> Npos (XO p0))
    | XO p0 ->
      (match q with
       | XI q0 -> coq_Nsucc_double (coq_lxor p0 q0)
       | XO q0 -> coq_Ndouble (coq_lxor p0 q0)
       | XH -> Npos (XI p0))
    | XH ->
      (match q with
       | XI q0 -> Npos (XO q0)
       | XO q0 -> Npos (XI q0)
       | XH -> N0)

  (** val iter_op : ('a1 -> 'a1 -> 'a1) -> positive -> 'a1 -> 'a1 **)

  let rec iter_op op p a =
    match p with
    | XI p0 -> op a (iter_op op p0 (op a a))
    | XO p0 -> iter_op op p0 (op a a)
    | XH -> a

  (** val to_nat : positive -> nat **)

  let to_nat x =
    iter_op Coq__1.add x (S O)

  (** val of_succ_nat : nat -> positive **)

  let rec of_succ_nat = function
  | O -> XH
  | S x -> succ (of_succ_nat x)
 end

module N =
 struct
  (** val succ_double : n -> n **)

  let succ_double = function
  | N0 -> Npos XH
  | Npos p -> Npos (XI p)

  (** val double : n -> n **)

  let double = function
  | N0 -> N0
  | Npos p -> Npos (XO p)

  (** val succ_pos : n -> positive **)

  let succ_pos = function
  | N0 -> XH
  | Npos p -> Coq_Pos.succ p

  (** val sub : n -> n -> n **)

  let sub n0 m =
    match n0 with
    | N0 -> N0
    | Npos n' ->
      (match m with
       | N0 -> n0
       | Npos m' ->
         (match Coq_Pos.sub_mask n' m' with
          | Coq_Pos.IsPos p -> Npos p
          | _ -> N0))

  (** val compare : n -> n -> comparison **)

  let compare n0 m =
    match n0 with
    | N0 -> (match m with
             | N0 -> Eq
             | Npos _ -> Lt)
    | Npos n' -> (match m with
                  | N0 -> Gt
                  | Npos m' -> Coq_Pos.compare n' m')

  (** val leb : n -> n -> bool **)

  let leb x y =
    match compare x y with
    | Gt -> false
    | _ -> true

  (** val pos_div_eucl : positive -> n -> n * n **)

  let rec pos_div_eucl a b =
    match a with
    | XI a' ->
      let (q, r) = pos_div_eucl a' b in
      let r' = succ_double r in
      if leb b r' then ((succ_double q), (sub r' b)) else ((double q), r')
    | XO a' ->
      let (q, r) = pos_div_eucl a' b in
      let r' = double r in
      if leb b r' then ((succ_double q), (sub r' b)) else ((double q), r')
    | XH ->
      (match b with
       | N0 -> (N0, (Npos XH))
       | Npos p -> (match p with
                    | XH -> ((Npos XH), N0)
                    | _ -> (N0, (Npos XH))))

  (** val coq_lor : n -> n -> n **)

  let coq_lor n0 m =
    match n0 with
    | N0 -> m
    | Npos p -> (match m with
                 | N0 -> n0
                 | Npos q -> Npos (Coq_Pos.coq_lor p q))

  (** val coq_land : n -> n -> n **)

  let coq_land n0 m =
    match n0 with
    | N0 -> N0
    | Npos p -> (match m with
                 | N0 -> N0
                 | Npos q -> Coq_Pos.coq_land p q)

  (** val ldiff : n -> n -> n **)

  let ldiff n0 m =
    match n0 with
    | N0 -> N0
    | Npos p -> (match m with
                 | N0 -> n0
                 | Npos q -> Coq_Pos.ldiff p q)

  (** val coq_lxor : n -> n -> n **)

  let coq_lxor n0 m =
    match n0 with
    | N0 -> m
    | Npos p -> (match m with
                 | N0 -> n0
                 | Npos q -> Coq_Pos.coq_lxor p q)
 end

module Z =
 struct
  (** val double : z -> z **)

  let double = function
  | Z0 -> Z0
  | Zpos p -> Zpos (XO p)
  | Zneg p -> Zneg (XO p)

  (** val succ_double : z -> z **)

  let succ_double = function
  | Z0 -> Zpos XH
  | Zpos p -> Zpos (XI p)
  | Zneg p -> Zneg (Coq_Pos.pred_double p)

  (** val pred_double : z -> z **)

  let pred_double = function
  | Z0 -> Zneg XH
  | Zpos p -> Zpos (Coq_Pos.pred_double p)
  | Zneg p -> Zneg (XI p)

  (** val pos_sub : positive -> positive -> z **)

  let rec pos_sub x y =
    match x with
    | XI p ->
      (match y with
       | XI q -> double (pos_sub p q)
       | XO q -> succ_double (pos_sub p q)
       | XH -> Zpos (XO p))
    | XO p ->
      (match y with
       | XI q -> pred_double (pos_sub p q)
       | XO q -> double (pos_sub p q)
       | XH -> Zpos (Coq_Pos.pred_double p))
    | XH ->
      (match y with
       | XI q -> Zneg (XO q)
       | XO q -> Zneg (Coq_Pos.pred_double q)
       | XH -> Z0)

  (** val add : z -> z -> z **)

  let add x y =
    match x with
    | Z0 -> y
    | Zpos x' ->
      (match y with
       | Z0 -> x
       | Zpos y' -> Zpos (Coq_Pos.add x' y')
       | Zneg y' -> pos_sub x' y')
    | Zneg x' ->
      (match y with
       | Z0 -> x
       | Zpos y' -> pos_sub y' x'
       | Zneg y' -> Zneg (Coq_Pos.add x' y'))

  (** val opp : z -> z **)

  let opp = function
  | Z0 -> Z0
  | Zpos x0 -> Zneg x0
  | Zneg x0 -> Zpos x0

  (** val sub : z -> z -> z **)

  let sub m n0 =
    add m (opp n0)

  (** val mul : z -> z -> z **)

  let mul x y =
    match x with
    | Z0 -> Z0
    | Zpos x' ->
      (match y with
       | Z0 -> Z0
       | Zpos y' -> Zpos (Coq_Pos.mul x' y')
       | Zneg y' -> Zneg (Coq_Pos.mul x' y'))
    | Zneg x' ->
      (match y with
       | Z0 -> Z0
       | Zpos y' -> Zneg (Coq_Pos.mul x' y')
       | Zneg y' -> Zpos (Coq_Pos.mul x' y'))

  (** val pow_pos : z -> positive -> z **)

  let pow_pos z0 =
    Coq_Pos.iter (mul z0) (Zpos XH)

  (** val pow : z -> z -> z **)

  let pow x = function
  | Z0 -> Zpos XH
  | Zpos p -> pow_pos x p
  | Zneg _ -> Z0

  (** val compare : z -> z -> comparison **)

  let compare x y =
    match x with
    | Z0 -> (match y with
             | Z0 -> Eq
             | Zpos _ -> Lt
             | Zneg _ -> Gt)
    | Zpos x' -> (match y with
                  | Zpos y' -> Coq_Pos.compare x' y'
                  | _ -> Gt)
    | Zneg x' ->
      (match y with
       | Zneg y' -> compOpp (Coq_Pos.compare x' y')
       | _ -> Lt)

  (** val leb : z -> z -> bool **)

  let leb x y =
    match compare x y with
    | Gt -> false
    | _ -> true

  (** val ltb : z -> z -> bool **)

  let ltb x y =
    match compare x y with
    | Lt -> true
    | _ -> false

  (** val geb : z -> z -> bool **)

  let geb x y =
    match compare x y with
    | Lt -> false
    | _ -> true

  (** val gtb : z -> z -> bool **)

  let gtb x y =
    match compare x y with
    | Gt -> true
    | _ -> false

  (** val eqb : z -> z -> bool **)

  let eqb x y =
    match x with
    | Z0 -> (match y with
             | Z0 -> true
             | _ -> false)
    | Zpos p -> (match y with
                 | Zpos q -> Coq_Pos.eqb p q
                 | _ -> false)
    | Zneg p -> (match y with
                 | Zneg q -> Coq_Pos.eqb p q
                 | _ -> false)

  (** val min : z -> z -> z **)

  let min n0 m =
    match compare n0 m with
    | Gt -> m
    | _ -> n0

  (** val to_nat : z -> nat **)

  let to_nat = function
  | Zpos p -> Coq_Pos.to_nat p
  | _ -> O

  (** val of_nat : nat -> z **)

  let of_nat = function
  | O -> Z0
  | S n1 -> Zpos (Coq_Pos.of_succ_nat n1)

  (** val of_N : n -> z **)

  let of_N = function
  | N0 -> Z0
  | Npos p -> Zpos p

  (** val pos_div_eucl : positive -> z -> z * z **)

  let rec pos_div_eucl a b =
    match a with
    | XI a' ->
      let (q, r) = pos_div_eucl a' b in
      let r' = add (mul (Zpos (XO XH)) r) (Zpos XH) in
      if ltb r' b
      then ((mul (Zpos (XO XH)) q), r')
      else ((add (mul (Zpos (XO XH)) q) (Zpos XH)), (sub r' b))
    | XO a' ->
      let (q, r) = pos_div_eucl a' b in
      let r' = mul (Zpos (XO XH)) r in
      if ltb r' b
      then ((mul (Zpos (XO XH)) q), r')
      else ((add (mul (Zpos (XO XH)) q) (Zpos XH)), (sub r' b))
    | XH -> if leb (Zpos (XO XH)) b then (Z0, (Zpos XH)) else ((Zpos XH), Z0)

  (** val div_eucl : z -> z -> z * z **)

  let div_eucl a b =
    match a with
    | Z0 -> (Z0, Z0)
    | Zpos a' ->
      (match b with
       | Z0 -> (Z0, a)
       | Zpos _ -> pos_div_eucl a' b
       | Zneg b' ->
         let (q, r) = pos_div_eucl a' (Zpos b') in
         (match r with
          | Z0 -> ((opp q), Z0)
          | _ -> ((opp (add q (Zpos XH))), (add b r))))
    | Zneg a' ->
      (match b with
       | Z0 -> (Z0, a)
       | Zpos _ ->
         let (q, r) = pos_div_eucl a' b in
         (match r with
          | Z0 -> ((opp q), Z0)
          | _ -> ((opp (add q (Zpos XH))), (sub b r)))
       | Zneg b' -> let (q, r) = pos_div_eucl a' (Zpos b') in (q, (opp r)))

  (** val div : z -> z -> z **)

  let div a b =
    let (q, _) = div_eucl a b in q

  (** val modulo : z -> z -> z **)

  let modulo a b =
    let (_, r) = div_eucl a b in r

  (** val quotrem : z -> z -> z * z **)

  let quotrem a b =
    match a with
    | Z0 -> (Z0, Z0)
    | Zpos a0 ->
      (match b with
       | Z0 -> (Z0, a)
       | Zpos b0 ->
         let (q, r) = N.pos_div_eucl a0 (Npos b0) in ((of_N q), (of_N r))
       | Zneg b0 ->
         let (q, r) = N.pos_div_eucl a0 (Npos b0) in
         ((opp (of_N q)), (of_N r)))
    | Zneg a0 ->
      (match b with
       | Z0 -> (Z0, a)
       | Zpos b0 ->
         let (q, r) = N.pos_div_eucl a0 (Npos b0) in
         ((opp (of_N q)), (opp (of_N r)))
       | Zneg b0 ->
         let (q, r) = N.pos_div_eucl a0 (Npos b0) in
         ((of_N q), (opp (of_N r))))

  (** val quot : z -> z -> z **)

  let quot a b =
    fst (quotrem a b)

  (** val rem : z -> z -> z **)

  let rem a b =
    snd (quotrem a b)

  (** val div2 : z -> z **)

  let div2 = function
  | Z0 -> Z0
  | Zpos p -> (match p with
               | XH -> Z0
               | _ -> Zpos (Coq_Pos.div2 p))
  | Zneg p -> Zneg (Coq_Pos.div2_up p)

  (** val log2 : z -> z **)

  let log2 = function
  | Zpos p0 ->
    (match p0 with
     | XI p -> Zpos (Coq_Pos.size p)
     | XO p -> Zpos (Coq_Pos.size p)
     | XH -> Z0)
  | _ -> Z0

  (** val shiftl : z -> z -> z **)

  let shiftl a = function
  | Z0 -> a
  | Zpos p -> Coq_Pos.iter (mul (Zpos (XO XH))) a p
  | Zneg p -> Coq_Pos.iter div2 a p

  (** val shiftr : z -> z -> z **)

  let shiftr a n0 =
    shiftl a (opp n0)

  (** val coq_lor : z -> z -> z **)

  let coq_lor a b =
    match a with
    | Z0 -> b
    | Zpos a0 ->
      (match b with
       | Z0 -> a
       | Zpos b0 -> Zpos (Coq_Pos.coq_lor a0 b0)
       | Zneg b0 -> Zneg (N.succ_pos (N.ldiff (Coq_Pos.pred_N b0) (Npos a0))))
    | Zneg a0 ->
      (match b with
       | Z0 -> a
       | Zpos b0 -> Zneg (N.succ_pos (N.ldiff (Coq_Pos.pred_N a0) (Npos b0)))
       | Zneg b0 ->
         Zneg
           (N.succ_pos (N.coq_land (Coq_Pos.pred_N a0) (Coq_Pos.pred_N b0))))

  (** val coq_land : z -> z -> z **)

  let coq_land a b =
    match a with
    | Z0 -> Z0
    | Zpos a0 ->
      (match b with
       | Z0 -> Z0
       | Zpos b0 -> of_N (Coq_Pos.coq_land a0 b0)
       | Zneg b0 -> of_N (N.ldiff (Npos a0) (Coq_Pos.pred_N b0)))
    | Zneg a0 ->
      (match b with
       | Z0 -> Z0
       | Zpos b0 -> of_N (N.ldiff (Npos b0) (Coq_Pos.pred_N a0))
       | Zneg b0 ->
         Zneg (N.succ_pos (N.coq_lor (Coq_Pos.pred_N a0) (Coq_Pos.pred_N b0))))

  (** val coq_lxor : z -> z -> z **)

  let coq_lxor a b =
    match a with
    | Z0 -> b
    | Zpos a0 ->
      (match b with
       | Z0 -> a
       | Zpos b0 -> of_N (Coq_Pos.coq_lxor a0 b0)
       | Zneg b0 ->
         Zneg (N.succ_pos (N.coq_lxor (Npos a0) (Coq_Pos.pred_N b0))))
    | Zneg a0 ->
      (match b with
       | Z0 -> a
       | Zpos b0 ->
         Zneg (N.succ_pos (N.coq_lxor (Coq_Pos.pred_N a0) (Npos b0)))
       | Zneg b0 -> of_N (N.coq_lxor (Coq_Pos.pred_N a0) (Coq_Pos.pred_N b0)))
 end

(** val nth : nat -> 'a1 list -> 'a1 -> 'a1 **)

let rec nth n0 l default =
  match n0 with
  | O -> (match l with
          | [] -> default
          | x :: _ -> x)
  | S m -> (match l with
            | [] -> default
            | _ :: t -> nth m t default)

(** val fold_right : ('a2 -> 'a1 -> 'a1) -> 'a1 -> 'a2 list -> 'a1 **)

let rec fold_right f a0 = function
| [] -> a0
| b :: t -> f b (fold_right f a0 t)

(** val firstn : nat -> 'a1 list -> 'a1 list **)

let rec firstn n0 l =
  match n0 with
  | O -> []
  | S n1 -> (match l with
             | [] -> []
             | a :: l0 -> a :: (firstn n1 l0))

(** val skipn : nat -> 'a1 list -> 'a1 list **)

let rec skipn n0 l =
  match n0 with
  | O -> l
  | S n1 -> (match l with
             | [] -> []
             | _ :: l0 -> skipn n1 l0)

(** val repeat : 'a1 -> nat -> 'a1 list **)

let rec repeat x = function
| O -> []
| S k -> x :: (repeat x k)

(** val w8 : z -> z **)

let w8 x =
  Z.modulo x (Z.pow (Zpos (XO XH)) (Zpos (XO (XO (XO XH)))))

(** val w32 : z -> z **)

let w32 x =
  Z.modulo x (Z.pow (Zpos (XO XH)) (Zpos (XO (XO (XO (XO (XO XH)))))))

(** val w64 : z -> z **)

let w64 x =
  Z.modulo x (Z.pow (Zpos (XO XH)) (Zpos (XO (XO (XO (XO (XO (XO XH))))))))

(** val s32 : z -> z **)

let s32 x =
  let y = w32 x in
  if Z.ltb y (Z.pow (Zpos (XO XH)) (Zpos (XI (XI (XI (XI XH))))))
  then y
  else Z.sub y (Z.pow (Zpos (XO XH)) (Zpos (XO (XO (XO (XO (XO XH)))))))

(** val s64 : z -> z **)

let s64 x =
  let y = w64 x in
  if Z.ltb y (Z.pow (Zpos (XO XH)) (Zpos (XI (XI (XI (XI (XI XH)))))))
  then y
  else Z.sub y (Z.pow (Zpos (XO XH)) (Zpos (XO (XO (XO (XO (XO (XO XH))))))))

(** val add64 : z -> z -> z **)

let add64 a b =
  w64 (Z.add a b)

(** val and64 : z -> z -> z **)

let and64 =
  Z.coq_land

(** val or64 : z -> z -> z **)

let or64 =
  Z.coq_lor

(** val xor64 : z -> z -> z **)

let xor64 =
  Z.coq_lxor

(** val shl64 : z -> z -> z **)

let shl64 a n0 =
  if Z.ltb n0 (Zpos (XO (XO (XO (XO (XO (XO XH)))))))
  then w64 (Z.shiftl a n0)
  else Z0

(** val shr64 : z -> z -> z **)

let shr64 a n0 =
  if Z.ltb n0 (Zpos (XO (XO (XO (XO (XO (XO XH)))))))
  then Z.shiftr a n0
  else Z0

(** val xor32 : z -> z -> z **)

let xor32 =
  Z.coq_lxor

(** val shl32 : z -> z -> z **)

let shl32 a n0 =
  if Z.ltb n0 (Zpos (XO (XO (XO (XO (XO XH))))))
  then w32 (Z.shiftl a n0)
  else Z0

(** val shr32 : z -> z -> z **)

let shr32 a n0 =
  if Z.ltb n0 (Zpos (XO (XO (XO (XO (XO XH)))))) then Z.shiftr a n0 else Z0

(** val and8 : z -> z -> z **)

let and8 =
  Z.coq_land

(** val or8 : z -> z -> z **)

let or8 =
  Z.coq_lor

(** val addi64 : z -> z -> z **)

let addi64 a b =
  s64 (Z.add a b)

(** val divi64 : z -> z -> z **)

let divi64 a b =
  s64 (Z.quot a b)

(** val andi64 : z -> z -> z **)

let andi64 a b =
  s64 (Z.coq_land a b)

(** val xori64 : z -> z -> z **)

let xori64 a b =
  s64 (Z.coq_lxor a b)

(** val shri64 : z -> z -> z **)

let shri64 a n0 =
  if Z.ltb n0 (Zpos (XO (XO (XO (XO (XO (XO XH)))))))
  then Z.shiftr a n0
  else if Z.ltb a Z0 then Zneg XH else Z0

(** val negi64 : z -> z **)

let negi64 a =
  s64 (Z.opp a)

(** val andi32 : z -> z -> z **)

let andi32 a b =
  s32 (Z.coq_land a b)

(** val xori32 : z -> z -> z **)

let xori32 a b =
  s32 (Z.coq_lxor a b)

(** val shri32 : z -> z -> z **)

let shri32 a n0 =
  if Z.ltb n0 (Zpos (XO (XO (XO (XO (XO XH))))))
  then Z.shiftr a n0
  else if Z.ltb a Z0 then Zneg XH else Z0

(** val negi32 : z -> z **)

let negi32 a =
  s32 (Z.opp a)

type bytes = z list

(** val len : 'a1 list -> z **)

let len l =
  Z.of_nat (length l)

(** val at_ : bytes -> z -> z **)

let at_ b i =
  nth (Z.to_nat i) b Z0

(** val slice_from : 'a1 list -> z -> 'a1 list **)

let slice_from b i =
  skipn (Z.to_nat i) b

(** val slice_to : 'a1 list -> z -> 'a1 list **)

let slice_to b j =
  firstn (Z.to_nat j) b

(** val slice : 'a1 list -> z -> z -> 'a1 list **)

let slice b i j =
  firstn (Z.to_nat (Z.sub j i)) (skipn (Z.to_nat i) b)

(** val le_load : nat -> bytes -> z **)

let rec le_load n0 b =
  match n0 with
  | O -> Z0
  | S n' ->
    (match b with
     | [] -> Z0
     | x :: r ->
       Z.add x
         (Z.mul (Zpos (XO (XO (XO (XO (XO (XO (XO (XO XH)))))))))
           (le_load n' r)))

(** val le64 : bytes -> z **)

let le64 b =
  le_load (S (S (S (S (S (S (S (S O)))))))) b

(** val le32 : bytes -> z **)

let le32 b =
  le_load (S (S (S (S O)))) b

(** val upd : bytes -> z -> z -> bytes **)

let upd b i v =
  app (firstn (Z.to_nat i) b)
    (match skipn (Z.to_nat i) b with
     | [] -> []
     | _ :: r -> v :: r)

(** val splice : bytes -> z -> bytes -> bytes **)

let splice b i w =
  app (firstn (Z.to_nat i) b) (app w (skipn (add (Z.to_nat i) (length w)) b))

(** val bitlen64 : z -> z **)

let bitlen64 = function
| Zpos p -> Z.add (Z.log2 (Zpos p)) (Zpos XH)
| _ -> Z0

(** val le_bytes : nat -> z -> bytes **)

let rec le_bytes n0 v =
  match n0 with
  | O -> []
  | S n' ->
    (Z.modulo v (Zpos (XO (XO (XO (XO (XO (XO (XO (XO XH)))))))))) :: 
      (le_bytes n'
        (Z.div v (Zpos (XO (XO (XO (XO (XO (XO (XO (XO XH)))))))))))

(** val put_le32 : bytes -> z -> bytes **)

let put_le32 b v =
  splice b Z0 (le_bytes (S (S (S (S O)))) v)

(** val put_le64 : bytes -> z -> bytes **)

let put_le64 b v =
  splice b Z0 (le_bytes (S (S (S (S (S (S (S (S O)))))))) v)

(** val proto_varint : z **)

let proto_varint =
  Z0

(** val proto_fixed64 : z **)

let proto_fixed64 =
  Zpos XH

(** val proto_varlen : z **)

let proto_varlen =
  Zpos (XO XH)

(** val proto_fixed32 : z **)

let proto_fixed32 =
  Zpos (XI (XO XH))

type proto_error =
| Proto_errVarintOverflow
| Proto_ErrWireTypeUnknown
| Proto_ErrShortBuffer
| Proto_ErrUnexpectedEOF

(** val proto_EncodeTag : z -> z -> z **)

let proto_EncodeTag f t =
  or64 (shl64 f (Zpos (XI XH))) t

(** val proto_encodeZigZag64 : z -> z **)

let proto_encodeZigZag64 v =
  xor64 (shl64 (w64 v) (Zpos XH))
    (w64 (shri64 v (Zpos (XI (XI (XI (XI (XI XH))))))))

(** val proto_encodeZigZag32 : z -> z **)

let proto_encodeZigZag32 v =
  xor32 (shl32 (w32 v) (Zpos XH))
    (w32 (shri32 v (Zpos (XI (XI (XI (XI XH)))))))

(** val proto_decodeZigZag64 : z -> z **)

let proto_decodeZigZag64 v =
  xori64 (s64 (shr64 v (Zpos XH))) (negi64 (andi64 (s64 v) (Zpos XH)))

(** val proto_decodeZigZag32 : z -> z **)

let proto_decodeZigZag32 v =
  xori32 (s32 (shr32 v (Zpos XH))) (negi32 (andi32 (s32 v) (Zpos XH)))

(** val proto_sizeOfVarint : z -> z **)

let proto_sizeOfVarint v =
  divi64 (addi64 (bitlen64 (or64 v (Zpos XH))) (Zpos (XO (XI XH)))) (Zpos (XI
    (XI XH)))

(** val proto_encodeVarint :
    bytes -> z -> (z * proto_error option) * bytes **)

let proto_encodeVarint b v =
  let n0 = proto_sizeOfVarint v in
  if Z.ltb (len b) n0
  then ((Z0, (Some Proto_ErrShortBuffer)), b)
  else let k1_ = fun b0 -> ((n0, None), b0) in
       if Z.eqb n0 (Zpos XH)
       then let b0 = upd b Z0 (w8 v) in k1_ b0
       else if Z.eqb n0 (Zpos (XO XH))
            then let b0 =
                   upd b Z0
                     (or8 (w8 v) (Zpos (XO (XO (XO (XO (XO (XO (XO XH)))))))))
                 in
                 let b1 = upd b0 (Zpos XH) (w8 (shr64 v (Zpos (XI (XI XH)))))
                 in
                 k1_ b1
            else if Z.eqb n0 (Zpos (XI XH))
                 then let b0 =
                        upd b Z0
                          (or8 (w8 v) (Zpos (XO (XO (XO (XO (XO (XO (XO
                            XH)))))))))
                      in
                      let b1 =
                        upd b0 (Zpos XH)
                          (or8 (w8 (shr64 v (Zpos (XI (XI XH))))) (Zpos (XO
                            (XO (XO (XO (XO (XO (XO XH)))))))))
                      in
                      let b2 =
                        upd b1 (Zpos (XO XH))
                          (w8 (shr64 v (Zpos (XO (XI (XI XH))))))
                      in
                      k1_ b2
                 else if Z.eqb n0 (Zpos (XO (XO XH)))
                      then let b0 =
                             upd b Z0
                               (or8 (w8 v) (Zpos (XO (XO (XO (XO (XO (XO (XO
                                 XH)))))))))
                           in
                           let b1 =
                             upd b0 (Zpos XH)
                               (or8 (w8 (shr64 v (Zpos (XI (XI XH))))) (Zpos
                                 (XO (XO (XO (XO (XO (XO (XO XH)))))))))
                           in
                           let b2 =
                             upd b1 (Zpos (XO XH))
                               (or8 (w8 (shr64 v (Zpos (XO (XI (XI XH))))))
                                 (Zpos (XO (XO (XO (XO (XO (XO (XO XH)))))))))
                           in
                           let b3 =
                             upd b2 (Zpos (XI XH))
                               (w8 (shr64 v (Zpos (XI (XO (XI (XO XH)))))))
                           in
                           k1_ b3
                      else if Z.eqb n0 (Zpos (XI (XO XH)))
                           then let b0 =
                                  upd b Z0
                                    (or8 (w8 v) (Zpos (XO (XO (XO (XO (XO (XO
                                      (XO XH)))))))))
                                in
                                let b1 =
                                  upd b0 (Zpos XH)
                                    (or8 (w8 (shr64 v (Zpos (XI (XI XH)))))
                                      (Zpos (XO (XO (XO (XO (XO (XO (XO
                                      XH)))))))))
                                in
                                let b2 =
                                  upd b1 (Zpos (XO XH))
                                    (or8
                                      (w8 (shr64 v (Zpos (XO (XI (XI XH))))))
                                      (Zpos (XO (XO (XO (XO (XO (XO (XO
                                      XH)))))))))
                                in
                                let b3 =
                                  upd b2 (Zpos (XI XH))
                                    (or8
                                      (w8
                                        (shr64 v (Zpos (XI (XO (XI (XO
                                          XH))))))) (Zpos (XO (XO (XO (XO (XO
                                      (XO (XO XH)))))))))
                                in
                                let b4 =
                                  upd b3 (Zpos (XO (XO XH)))
                                    (w8
                                      (shr64 v (Zpos (XO (XO (XI (XI XH)))))))
                                in
                                k1_ b4
                           else if Z.eqb n0 (Zpos (XO (XI XH)))
                                then let b0 =
                                       upd b Z0
                                         (or8 (w8 v) (Zpos (XO (XO (XO (XO
                                           (XO (XO (XO XH)))))))))
                                     in
                                     let b1 =
                                       upd b0 (Zpos XH)
                                         (or8
                                           (w8 (shr64 v (Zpos (XI (XI XH)))))
                                           (Zpos (XO (XO (XO (XO (XO (XO (XO
                                           XH)))))))))
                                     in
                                     let b2 =
                                       upd b1 (Zpos (XO XH))
                                         (or8
                                           (w8
                                             (shr64 v (Zpos (XO (XI (XI
                                               XH)))))) (Zpos (XO (XO (XO (XO
                                           (XO (XO (XO XH)))))))))
                                     in
                                     let b3 =
                                       upd b2 (Zpos (XI XH))
                                         (or8
                                           (w8
                                             (shr64 v (Zpos (XI (XO (XI (XO
                                               XH))))))) (Zpos (XO (XO (XO
                                           (XO (XO (XO (XO XH)))))))))
                                     in
                                     let b4 =
                                       upd b3 (Zpos (XO (XO XH)))
                                         (or8
                                           (w8
                                             (shr64 v (Zpos (XO (XO (XI (XI
                                               XH))))))) (Zpos (XO (XO (XO
                                           (XO (XO (XO (XO XH)))))))))
                                     in
                                     let b5 =
                                       upd b4 (Zpos (XI (XO XH)))
                                         (w8
                                           (shr64 v (Zpos (XI (XI (XO (XO (XO
                                             XH))))))))
                                     in
                                     k1_ b5
                                else if Z.eqb n0 (Zpos (XI (XI XH)))
                                     then let b0 =
                                            upd b Z0
                                              (or8 (w8 v) (Zpos (XO (XO (XO
                                                (XO (XO (XO (XO XH)))))))))
                                          in
                                          let b1 =
                                            upd b0 (Zpos XH)
                                              (or8
                                                (w8
                                                  (shr64 v (Zpos (XI (XI
                                                    XH))))) (Zpos (XO (XO (XO
                                                (XO (XO (XO (XO XH)))))))))
                                          in
                                          let b2 =
                                            upd b1 (Zpos (XO XH))
                                              (or8
                                                (w8
                                                  (shr64 v (Zpos (XO (XI (XI
                                                    XH)))))) (Zpos (XO (XO
                                                (XO (XO (XO (XO (XO
                                                XH)))))))))
                                          in
                                          let b3 =
                                            upd b2 (Zpos (XI XH))
                                              (or8
                                                (w8
                                                  (shr64 v (Zpos (XI (XO (XI
                                                    (XO XH))))))) (Zpos (XO
                                                (XO (XO (XO (XO (XO (XO
                                                XH)))))))))
                                          in
                                          let b4 =
                                            upd b3 (Zpos (XO (XO XH)))
                                              (or8
                                                (w8
                                                  (shr64 v (Zpos (XO (XO (XI
                                                    (XI XH))))))) (Zpos (XO
                                                (XO (XO (XO (XO (XO (XO
                                                XH)))))))))
                                          in
                                          let b5 =
                                            upd b4 (Zpos (XI (XO XH)))
                                              (or8
                                                (w8
                                                  (shr64 v (Zpos (XI (XI (XO
                                                    (XO (XO XH)))))))) (Zpos
                                                (XO (XO (XO (XO (XO (XO (XO
                                                XH)))))))))
                                          in
                                          let b6 =
                                            upd b5 (Zpos (XO (XI XH)))
                                              (w8
                                                (shr64 v (Zpos (XO (XI (XO
                                                  (XI (XO XH))))))))
                                          in
                                          k1_ b6
                                     else if Z.eqb n0 (Zpos (XO (XO (XO XH))))
                                          then let b0 =
                                                 upd b Z0
                                                   (or8 (w8 v) (Zpos (XO (XO
                                                     (XO (XO (XO (XO (XO
                                                     XH)))))))))
                                               in
                                               let b1 =
                                                 upd b0 (Zpos XH)
                                                   (or8
                                                     (w8
                                                       (shr64 v (Zpos (XI (XI
                                                         XH))))) (Zpos (XO
                                                     (XO (XO (XO (XO (XO (XO
                                                     XH)))))))))
                                               in
                                               let b2 =
                                                 upd b1 (Zpos (XO XH))
                                                   (or8
                                                     (w8
                                                       (shr64 v (Zpos (XO (XI
                                                         (XI XH)))))) (Zpos
                                                     (XO (XO (XO (XO (XO (XO
                                                     (XO XH)))))))))
                                               in
                                               let b3 =
                                                 upd b2 (Zpos (XI XH))
                                                   (or8
                                                     (w8
                                                       (shr64 v (Zpos (XI (XO
                                                         (XI (XO XH)))))))
                                                     (Zpos (XO (XO (XO (XO
                                                     (XO (XO (XO XH)))))))))
                                               in
                                               let b4 =
                                                 upd b3 (Zpos (XO (XO XH)))
                                                   (or8
                                                     (w8
                                                       (shr64 v (Zpos (XO (XO
                                                         (XI (XI XH)))))))
                                                     (Zpos (XO (XO (XO (XO
                                                     (XO (XO (XO XH)))))))))
                                               in
                                               let b5 =
                                                 upd b4 (Zpos (XI (XO XH)))
                                                   (or8
                                                     (w8
                                                       (shr64 v (Zpos (XI (XI
                                                         (XO (XO (XO XH))))))))
                                                     (Zpos (XO (XO (XO (XO
                                                     (XO (XO (XO XH)))))))))
                                               in
                                               let b6 =
                                                 upd b5 (Zpos (XO (XI XH)))
                                                   (or8
                                                     (w8
                                                       (shr64 v (Zpos (XO (XI
                                                         (XO (XI (XO XH))))))))
                                                     (Zpos (XO (XO (XO (XO
                                                     (XO (XO (XO XH)))))))))
                                               in
                                               let b7 =
                                                 upd b6 (Zpos (XI (XI XH)))
                                                   (w8
                                                     (shr64 v (Zpos (XI (XO
                                                       (XO (XO (XI XH))))))))
                                               in
                                               k1_ b7
                                          else if Z.eqb n0 (Zpos (XI (XO (XO
                                                    XH))))
                                               then let b0 =
                                                      upd b Z0
                                                        (or8 (w8 v) (Zpos (XO
                                                          (XO (XO (XO (XO (XO
                                                          (XO XH)))))))))
                                                    in
                                                    let b1 =
                                                      upd b0 (Zpos XH)
                                                        (or8
                                                          (w8
                                                            (shr64 v (Zpos
                                                              (XI (XI XH)))))
                                                          (Zpos (XO (XO (XO
                                                          (XO (XO (XO (XO
                                                          XH)))))))))
                                                    in
                                                    let b2 =
                                                      upd b1 (Zpos (XO XH))
                                                        (or8
                                                          (w8
                                                            (shr64 v (Zpos
                                                              (XO (XI (XI
                                                              XH)))))) (Zpos
                                                          (XO (XO (XO (XO (XO
                                                          (XO (XO XH)))))))))
                                                    in
                                                    let b3 =
                                                      upd b2 (Zpos (XI XH))
                                                        (or8
                                                          (w8
                                                            (shr64 v (Zpos
                                                              (XI (XO (XI (XO
                                                              XH))))))) (Zpos
                                                          (XO (XO (XO (XO (XO
                                                          (XO (XO XH)))))))))
                                                    in
                                                    let b4 =
                                                      upd b3 (Zpos (XO (XO
                                                        XH)))
                                                        (or8
                                                          (w8
                                                            (shr64 v (Zpos
                                                              (XO (XO (XI (XI
                                                              XH))))))) (Zpos
                                                          (XO (XO (XO (XO (XO
                                                          (XO (XO XH)))))))))
                                                    in
                                                    let b5 =
                                                      upd b4 (Zpos (XI (XO
                                                        XH)))
                                                        (or8
                                                          (w8
                                                            (shr64 v (Zpos
                                                              (XI (XI (XO (XO
                                                              (XO XH))))))))
                                                          (Zpos (XO (XO (XO
                                                          (XO (XO (XO (XO
                                                          XH)))))))))
                                                    in
                                                    let b6 =
                                                      upd b5 (Zpos (XO (XI
                                                        XH)))
                                                        (or8
                                                          (w8
                                                            (shr64 v (Zpos
                                                              (XO (XI (XO (XI
                                                              (XO XH))))))))
                                                          (Zpos (XO (XO (XO
                                                          (XO (XO (XO (XO
                                                          XH)))))))))
                                                    in
                                                    let b7 =
                                                      upd b6 (Zpos (XI (XI
                                                        XH)))
                                                        (or8
                                                          (w8
                                                            (shr64 v (Zpos
                                                              (XI (XO (XO (XO
                                                              (XI XH))))))))
                                                          (Zpos (XO (XO (XO
                                                          (XO (XO (XO (XO
                                                          XH)))))))))
                                                    in
                                                    let b8 =
                                                      upd b7 (Zpos (XO (XO
                                                        (XO XH))))
                                                        (w8
                                                          (shr64 v (Zpos (XO
                                                            (XO (XO (XI (XI
                                                            XH))))))))
                                                    in
                                                    k1_ b8
                                               else if Z.eqb n0 (Zpos (XO (XI
                                                         (XO XH))))
                                                    then let b0 =
                                                           upd b Z0
                                                             (or8 (w8 v)
                                                               (Zpos (XO (XO
                                                               (XO (XO (XO
                                                               (XO (XO
                                                               XH)))))))))
                                                         in
                                                         let b1 =
                                                           upd b0 (Zpos XH)
                                                             (or8
                                                               (w8
                                                                 (shr64 v
                                                                   (Zpos (XI
                                                                   (XI XH)))))
                                                               (Zpos (XO (XO
                                                               (XO (XO (XO
                                                               (XO (XO
                                                               XH)))))))))
                                                         in
                                                         let b2 =
                                                           upd b1 (Zpos (XO
                                                             XH))
                                                             (or8
                                                               (w8
                                                                 (shr64 v
                                                                   (Zpos (XO
                                                                   (XI (XI
                                                                   XH))))))
                                                               (Zpos (XO (XO
                                                               (XO (XO (XO
                                                               (XO (XO
                                                               XH)))))))))
                                                         in
                                                         let b3 =
                                                           upd b2 (Zpos (XI
                                                             XH))
                                                             (or8
                                                               (w8
                                                                 (shr64 v
                                                                   (Zpos (XI
                                                                   (XO (XI
                                                                   (XO
                                                                   XH)))))))
                                                               (Zpos (XO (XO
                                                               (XO (XO (XO
                                                               (XO (XO
                                                               XH)))))))))
                                                         in
                                                         let b4 =
                                                           upd b3 (Zpos (XO
                                                             (XO XH)))
                                                             (or8
                                                               (w8
                                                                 (shr64 v
                                                                   (Zpos (XO
                                                                   (XO (XI
                                                                   (XI
                                                                   XH)))))))
                                                               (Zpos (XO (XO
                                                               (XO (XO (XO
                                                               (XO (XO
                                                               XH)))))))))
                                                         in
                                                         let b5 =
                                                           upd b4 (Zpos (XI
                                                             (XO XH)))
                                                             (or8
                                                               (w8
                                                                 (shr64 v
                                                                   (Zpos (XI
                                                                   (XI (XO
                                                                   (XO (XO
                                                                   XH))))))))
                                                               (Zpos (XO (XO
                                                               (XO (XO (XO
                                                               (XO (XO
                                                               XH)))))))))
                                                         in
                                                         let b6 =
                                                           upd b5 (Zpos (XO
                                                             (XI XH)))
                                                             (or8
                                                               (w8
                                                                 (shr64 v
                                                                   (Zpos (XO
                                                                   (XI (XO
                                                                   (XI (XO
                                                                   XH))))))))
                                                               (Zpos (XO (XO
                                                               (XO (XO (XO
                                                               (XO (XO
                                                               XH)))))))))
                                                         in
                                                         let b7 =
                                                           upd b6 (Zpos (XI
                                                             (XI XH)))
                                                             (or8
                                                               (w8
                                                                 (shr64 v
                                                                   (Zpos (XI
                                                                   (XO (XO
                                                                   (XO (XI
                                                                   XH))))))))
                                                               (Zpos (XO (XO
                                                               (XO (XO (XO
                                                               (XO (XO
                                                               XH)))))))))
                                                         in
                                                         let b8 =
                                                           upd b7 (Zpos (XO
                                                             (XO (XO XH))))
                                                             (or8
                                                               (w8
                                                                 (shr64 v
                                                                   (Zpos (XO
                                                                   (XO (XO
                                                                   (XI (XI
                                                                   XH))))))))
                                                               (Zpos (XO (XO
                                                               (XO (XO (XO
                                                               (XO (XO
                                                               XH)))))))))
                                                         in
                                                         let b9 =
                                                           upd b8 (Zpos (XI
                                                             (XO (XO XH))))
                                                             (w8
                                                               (shr64 v (Zpos
                                                                 (XI (XI (XI
                                                                 (XI (XI
                                                                 XH))))))))
                                                         in
                                                         k1_ b9
                                                    else k1_ b

(** val proto_decodeVarint : bytes -> (z * z) * proto_error option **)

let proto_decodeVarint b =
  if (&&) (negb (Z.eqb (len b) Z0))
       (Z.ltb (at_ b Z0) (Zpos (XO (XO (XO (XO (XO (XO (XO XH)))))))))
  then (((at_ b Z0), (Zpos XH)), None)
  else let x = Z0 in
       let s = Z0 in
       let k1_ = fun x0 _ -> ((x0, (len b)), (Some Proto_ErrUnexpectedEOF)) in
       let rec loop2_ l3_ i4_ x0 s0 =
         match l3_ with
         | [] -> k1_ x0 s0
         | h5_ :: t6_ ->
           if Z.ltb h5_ (Zpos (XO (XO (XO (XO (XO (XO (XO XH))))))))
           then if (||) (Z.gtb i4_ (Zpos (XI (XO (XO XH)))))
                     ((&&) (Z.eqb i4_ (Zpos (XI (XO (XO XH)))))
                       (Z.gtb h5_ (Zpos XH)))
                then ((Z0, i4_), (Some Proto_errVarintOverflow))
                else (((or64 x0 (shl64 h5_ s0)), (addi64 i4_ (Zpos XH))),
                       None)
           else let x1 =
                  or64 x0
                    (shl64 (and8 h5_ (Zpos (XI (XI (XI (XI (XI (XI XH))))))))
                      s0)
                in
                let s1 = add64 s0 (Zpos (XI (XI XH))) in
                loop2_ t6_ (Z.add i4_ (Zpos XH)) x1 s1
       in loop2_ b Z0 x s

(** val proto_decodeLE32 : bytes -> (z * z) * proto_error option **)

let proto_decodeLE32 b =
  if Z.ltb (len b) (Zpos (XO (XO XH)))
  then ((Z0, Z0), (Some Proto_ErrUnexpectedEOF))
  else (((le32 b), (Zpos (XO (XO XH)))), None)

(** val proto_decodeLE64 : bytes -> (z * z) * proto_error option **)

let proto_decodeLE64 b =
  if Z.ltb (len b) (Zpos (XO (XO (XO XH))))
  then ((Z0, Z0), (Some Proto_ErrUnexpectedEOF))
  else (((le64 b), (Zpos (XO (XO (XO XH))))), None)

type rerr =
| EEof
| EVarintOverflow
| EWireType
| ETrailing

type 'a rres =
| ROk of 'a
| RErr of rerr
| RPanic
| RFuel

(** val rrbind : 'a1 rres -> ('a1 -> 'a2 rres) -> 'a2 rres **)

let rrbind r f =
  match r with
  | ROk a -> f a
  | RErr e -> RErr e
  | RPanic -> RPanic
  | RFuel -> RFuel

(** val err_of : proto_error -> rerr **)

let err_of = function
| Proto_errVarintOverflow -> EVarintOverflow
| Proto_ErrWireTypeUnknown -> EWireType
| _ -> EEof

(** val rfrom : bytes -> z -> bytes rres **)

let rfrom b i =
  if (&&) (Z.leb Z0 i) (Z.leb i (len b)) then ROk (slice_from b i) else RPanic

(** val rslice : bytes -> z -> z -> bytes rres **)

let rslice b i j =
  if (&&) ((&&) (Z.leb Z0 i) (Z.leb i j)) (Z.leb j (len b))
  then ROk (slice b i j)
  else RPanic

(** val decodeTag : z -> z * z **)

let decodeTag tag =
  ((shr64 tag (Zpos (XI XH))), (and64 tag (Zpos (XI (XI XH)))))

(** val parse : bytes -> (((z * z) * bytes) * bytes) rres **)

let parse m =
  let (p, err) = proto_decodeVarint m in
  let (tag, n0) = p in
  (match err with
   | Some e -> RErr (err_of e)
   | None ->
     rrbind (rfrom m n0) (fun m0 ->
       let (f, t) = decodeTag tag in
       if Z.eqb t proto_varint
       then let (p0, err0) = proto_decodeVarint m0 in
            let (_, n1) = p0 in
            (match err0 with
             | Some e -> RErr (err_of e)
             | None ->
               if Z.ltb (len m0) n1
               then RErr EEof
               else rrbind (rslice m0 Z0 n1) (fun v ->
                      rrbind (rfrom m0 n1) (fun r -> ROk (((f, t), v), r))))
       else if Z.eqb t proto_varlen
            then let (p0, err0) = proto_decodeVarint m0 in
                 let (l, n1) = p0 in
                 (match err0 with
                  | Some e -> RErr (err_of e)
                  | None ->
                    if Z.ltb (w64 (Z.sub (len m0) n1)) l
                    then RErr EEof
                    else rrbind (rslice m0 n1 (Z.add n1 (s64 l))) (fun v ->
                           rrbind (rfrom m0 (Z.add n1 (s64 l))) (fun r -> ROk
                             (((f, t), v), r))))
            else if Z.eqb t proto_fixed32
                 then if Z.ltb (len m0) (Zpos (XO (XO XH)))
                      then RErr EEof
                      else rrbind (rslice m0 Z0 (Zpos (XO (XO XH))))
                             (fun v ->
                             rrbind (rfrom m0 (Zpos (XO (XO XH)))) (fun r ->
                               ROk (((f, t), v), r)))
                 else if Z.eqb t proto_fixed64
                      then if Z.ltb (len m0) (Zpos (XO (XO (XO XH))))
                           then RErr EEof
                           else rrbind
                                  (rslice m0 Z0 (Zpos (XO (XO (XO XH)))))
                                  (fun v ->
                                  rrbind (rfrom m0 (Zpos (XO (XO (XO XH)))))
                                    (fun r -> ROk (((f, t), v), r)))
                      else RErr EWireType))

(** val append : bytes -> z -> z -> bytes -> bytes rres **)

let append m f t v =
  let b =
    repeat Z0 (S (S (S (S (S (S (S (S (S (S (S (S (S (S (S (S (S (S (S (S
      O))))))))))))))))))))
  in
  let (p, b0) = proto_encodeVarint b (proto_EncodeTag f t) in
  let (n0, _) = p in
  rrbind
    (if Z.eqb t proto_varlen
     then rrbind (rfrom b0 n0) (fun w ->
            let (p0, w') = proto_encodeVarint w (w64 (len v)) in
            let (n1, _) = p0 in ROk ((Z.add n0 n1), (splice b0 n0 w')))
     else ROk (n0, b0)) (fun pat ->
    let (n1, b1) = pat in
    rrbind (rslice b1 Z0 n1) (fun hd -> ROk (app m (app hd v))))

(** val appendVarint : bytes -> z -> z -> bytes rres **)

let appendVarint m f v =
  let b = repeat Z0 (S (S (S (S (S (S (S (S (S (S O)))))))))) in
  let (p, b0) = proto_encodeVarint b v in
  let (n0, _) = p in
  rrbind (rslice b0 Z0 n0) (fun hd -> append m f proto_varint hd)

type fieldset = z list

(** val makeFieldset_words : z -> z **)

let makeFieldset_words n0 =
  Z.quot (Z.add n0 (Zpos (XI (XI (XI (XI (XI XH))))))) (Zpos (XO (XO (XO (XO
    (XO (XO XH)))))))

(** val zero_words : z -> fieldset **)

let zero_words k =
  let rec go = function
  | O -> []
  | S p' -> Z0 :: (go p')
  in go (Z.to_nat k)

(** val makeFieldset : z -> fieldset rres **)

let makeFieldset n0 =
  let k = makeFieldset_words n0 in
  if Z.ltb k Z0 then RPanic else ROk (zero_words k)

(** val fs_len : fieldset -> z **)

let fs_len f =
  Z.mul (len f) (Zpos (XO (XO (XO (XO (XO (XO XH)))))))

(** val fs_index : z -> z * z **)

let fs_index i =
  ((Z.quot i (Zpos (XO (XO (XO (XO (XO (XO XH)))))))),
    (Z.rem i (Zpos (XO (XO (XO (XO (XO (XO XH)))))))))

(** val fs_has : fieldset -> z -> bool rres **)

let fs_has f i =
  let (x, y) = fs_index i in
  if (&&) (Z.leb Z0 x) (Z.ltb x (len f))
  then ROk
         (negb (Z.eqb (and64 (shr64 (nth (Z.to_nat x) f Z0) y) (Zpos XH)) Z0))
  else RPanic

(** val set_word : fieldset -> nat -> z -> fieldset **)

let rec set_word f x w =
  match f with
  | [] -> []
  | a :: r -> (match x with
               | O -> w :: r
               | S x' -> a :: (set_word r x' w))

(** val fs_set : fieldset -> z -> fieldset rres **)

let fs_set f i =
  let (x, y) = fs_index i in
  if (&&) (Z.leb Z0 x) (Z.ltb x (len f))
  then ROk
         (set_word f (Z.to_nat x)
           (or64 (nth (Z.to_nat x) f Z0) (shl64 (Zpos XH) y)))
  else RPanic

type gokind =
| GInt
| GInt32
| GInt64
| GUint
| GUint32
| GUint64

type pbkind =
| KInt32
| KInt64
| KSint32
| KSint64
| KUint32
| KUint64
| KFix32
| KFix64
| KSfix32
| KSfix64

type rewriter =
| RwRaw of bytes
| RwMulti of rewriter list
| RwMessage of z * (z * rewriter) list
| RwEmbedded of z * z * (z * rewriter) list
| RwBitOr of gokind * pbkind * z * z

(** val lookup : (z * rewriter) list -> z -> rewriter option **)

let rec lookup es i =
  match es with
  | [] -> None
  | p :: es' -> let (j, r) = p in if Z.eqb j i then Some r else lookup es' i

(** val tlookup : z -> (z * rewriter) list -> z -> rewriter option **)

let tlookup n0 es i =
  if (&&) (Z.leb Z0 i) (Z.ltb i n0) then lookup es i else None

type rwfun = rewriter -> bytes -> bytes -> bytes rres

(** val msg_loop :
    rwfun -> nat -> z -> (z * rewriter) list -> fieldset -> bytes -> bytes ->
    (fieldset * bytes) rres **)

let rec msg_loop rw k n0 es seen out inp =
  match k with
  | O -> RFuel
  | S k' ->
    if Z.eqb (len inp) Z0
    then ROk (seen, out)
    else rrbind (parse inp) (fun pat ->
           let (p, m) = pat in
           let (p0, v) = p in
           let (f, t) = p0 in
           (match tlookup n0 es f with
            | Some r ->
              rrbind (fs_has seen f) (fun h ->
                if h
                then msg_loop rw k' n0 es seen out m
                else rrbind (fs_set seen f) (fun seen0 ->
                       rrbind (rw r out v) (fun out0 ->
                         msg_loop rw k' n0 es seen0 out0 m)))
            | None ->
              rrbind (append out f t v) (fun out0 ->
                msg_loop rw k' n0 es seen out0 m)))

(** val msg_tail :
    rwfun -> (z * rewriter) list -> fieldset -> bytes -> bytes rres **)

let rec msg_tail rw es seen out =
  match es with
  | [] -> ROk out
  | p :: es' ->
    let (i, r) = p in
    rrbind (fs_has seen i) (fun h ->
      if h
      then msg_tail rw es' seen out
      else rrbind (rw r out []) (fun out0 -> msg_tail rw es' seen out0))

(** val msg_rewrite :
    rwfun -> z -> (z * rewriter) list -> bytes -> bytes -> bytes rres **)

let msg_rewrite rw n0 es out inp =
  rrbind
    (if Z.geb n0 (fs_len (zero_words (Zpos (XO (XO XH)))))
     then makeFieldset (Z.add n0 (Zpos XH))
     else ROk (zero_words (Zpos (XO (XO XH))))) (fun seen ->
    rrbind (msg_loop rw (S (length inp)) n0 es seen out inp) (fun pat ->
      let (seen0, out0) = pat in msg_tail rw es seen0 out0))

(** val embed_splice : z -> z -> bytes -> bytes rres **)

let embed_splice number prefix out =
  let b =
    repeat Z0 (S (S (S (S (S (S (S (S (S (S (S (S (S (S (S (S (S (S (S (S (S
      (S (S (S O))))))))))))))))))))))))
  in
  let (p, b0) = proto_encodeVarint b (proto_EncodeTag number proto_varlen) in
  let (n1, _) = p in
  rrbind (rfrom b0 n1) (fun w ->
    let (p0, w') = proto_encodeVarint w (w64 (Z.sub (len out) prefix)) in
    let (n2, _) = p0 in
    let b1 = splice b0 n1 w' in
    let tagAndLen = Z.add n1 n2 in
    rrbind (rslice b1 Z0 tagAndLen) (fun hd ->
      let out0 = app out hd in
      rrbind (rfrom out0 (Z.add prefix tagAndLen)) (fun dst ->
        rrbind (rfrom out0 prefix) (fun src ->
          let c = Z.min (len dst) (len src) in
          let out1 = splice out0 (Z.add prefix tagAndLen) (slice_to src c) in
          rrbind (rfrom out1 prefix) (fun dst0 ->
            let c0 = Z.min (len dst0) (len hd) in
            ROk (splice out1 prefix (slice_to hd c0)))))))

(** val kind_wire : pbkind -> z **)

let kind_wire = function
| KFix32 -> proto_fixed32
| KFix64 -> proto_fixed64
| KSfix32 -> proto_fixed32
| KSfix64 -> proto_fixed64
| _ -> proto_varint

(** val bitor_decode : pbkind -> bytes -> z rres **)

let bitor_decode k inp =
  if Z.eqb (len inp) Z0
  then ROk Z0
  else let (p, err) =
         if Z.eqb (kind_wire k) proto_fixed32
         then proto_decodeLE32 inp
         else if Z.eqb (kind_wire k) proto_fixed64
              then proto_decodeLE64 inp
              else proto_decodeVarint inp
       in
       let (u, n0) = p in
       (match err with
        | Some e -> RErr (err_of e)
        | None -> if Z.ltb n0 (len inp) then RErr ETrailing else ROk u)

(** val conv : gokind -> z -> z **)

let conv g x =
  match g with
  | GInt -> s64 x
  | GInt32 -> s32 x
  | GInt64 -> s64 x
  | GUint32 -> w32 x
  | _ -> w64 x

(** val bitor_in : gokind -> pbkind -> z -> z **)

let bitor_in g k u =
  match k with
  | KSint32 -> conv g (proto_decodeZigZag32 (w32 u))
  | KSint64 -> conv g (proto_decodeZigZag64 u)
  | KSfix32 -> conv g (proto_decodeZigZag32 (w32 u))
  | KSfix64 -> conv g (proto_decodeZigZag64 u)
  | _ -> conv g u

(** val bitor_value : pbkind -> z -> z **)

let bitor_value k v =
  match k with
  | KInt32 -> w64 (s32 v)
  | KInt64 -> w64 (s64 v)
  | KSint32 -> proto_encodeZigZag32 (s32 v)
  | KSint64 -> proto_encodeZigZag64 (s64 v)
  | KFix32 -> w32 v
  | KSfix32 -> proto_encodeZigZag32 (s32 v)
  | KSfix64 -> proto_encodeZigZag64 (s64 v)
  | _ -> w64 v

(** val appendFixed32 : bytes -> z -> z -> bytes rres **)

let appendFixed32 m f v =
  append m f proto_fixed32 (put_le32 (repeat Z0 (S (S (S (S O))))) v)

(** val appendFixed64 : bytes -> z -> z -> bytes rres **)

let appendFixed64 m f v =
  append m f proto_fixed64
    (put_le64 (repeat Z0 (S (S (S (S (S (S (S (S O))))))))) v)

(** val bitor_field : pbkind -> z -> z -> bytes rres **)

let bitor_field k number x =
  if Z.eqb (kind_wire k) proto_fixed32
  then appendFixed32 [] number x
  else if Z.eqb (kind_wire k) proto_fixed64
       then appendFixed64 [] number x
       else appendVarint [] number x

(** val rewrite : nat -> rewriter -> bytes -> bytes -> bytes rres **)

let rec rewrite fuel r out inp =
  match fuel with
  | O -> RFuel
  | S fuel' ->
    (match r with
     | RwRaw m -> ROk (app out m)
     | RwMulti rs ->
       let rec go rs0 out0 =
         match rs0 with
         | [] -> ROk out0
         | r0 :: rs' ->
           rrbind (rewrite fuel' r0 out0 inp) (fun out1 -> go rs' out1)
       in go rs out
     | RwMessage (n0, es) -> msg_rewrite (rewrite fuel') n0 es out inp
     | RwEmbedded (number, n0, es) ->
       let prefix = len out in
       rrbind (msg_rewrite (rewrite fuel') n0 es out inp) (fun out0 ->
         if Z.eqb (len out0) prefix
         then ROk out0
         else embed_splice number prefix out0)
     | RwBitOr (g, k, mask0, number) ->
       rrbind (bitor_decode k inp) (fun u ->
         rrbind
           (bitor_field k number
             (bitor_value k (Z.coq_lor (bitor_in g k u) mask0))) (fun m ->
           ROk (app out m))))

(** val depth : rewriter -> nat **)

let rec depth = function
| RwMulti rs -> S (fold_right (fun r0 d -> Nat.max (depth r0) d) O rs)
| RwMessage (_, es) ->
  S (fold_right (fun e d -> Nat.max (depth (snd e)) d) O es)
| RwEmbedded (_, _, es) ->
  S (fold_right (fun e d -> Nat.max (depth (snd e)) d) O es)
| _ -> S O

(** val rewrite0 : rewriter -> bytes -> bytes -> bytes rres **)

let rewrite0 r out inp =
  rewrite (depth r) r out inp
