(* C08 -- thrift decoding is total, classifies truncation, reports trailing bytes.
   Model: Thrift/Model.v; the struct decoder's bitset index check is a [TPanic] branch of the model. *)
From Verif Require Import Base.GoInt Thrift.Model Thrift.Spec Thrift.ProofsA Thrift.ProofsB.

(* EVERY byte string, either protocol, any supported target: a value or an error -- never a panic (bitset indices,
   negative sizes), within fuel linear in the input (collection loops are bounded by the bytes available) *)
Theorem t_decode_total : t_decode_total_statement.
Proof. exact ProofsA.t_decode_total. Qed.

(* input truncated at ANY offset of a valid encoding: io.EOF for the empty input, unexpected-EOF class otherwise *)
Theorem t_prefix_eof : t_prefix_eof_statement.
Proof. exact ProofsB.t_prefix_eof. Qed.

(* Unmarshal reports trailing bytes *)
Theorem t_trailing : t_trailing_statement.
Proof. exact ProofsB.t_trailing. Qed.

(* ---- unknown fields, missing required fields (Thrift/SpecC.v, proofs in Thrift/ProofsC.v) ---- *)
From Verif Require Import Thrift.SpecC Thrift.ProofsC.

(* fields the target does not declare -- any ids, any supported type and value, any number, at every field boundary
   (the bytes are Marshal's for a wider struct; compact delta ids are re-encoded by construction) -- are skipped:
   Unmarshal into the narrow type gives exactly the result of the narrow encoding, the declared values up to tnorm *)
Theorem t_unknown_fields : t_unknown_fields_statement.
Proof. exact ProofsC.t_unknown_fields. Qed.

(* a required field absent from the input, at any position among the fields, either protocol: MissingField
   (that it is not reported when present is part of C04 t_roundtrip) *)
Theorem t_missing_field : t_missing_field_statement.
Proof. exact ProofsC.t_missing_field. Qed.

(* a field of the target absent from the input and not required: not reported, the field keeps its zero value *)
Theorem t_absent_optional : t_absent_optional_statement.
Proof. exact ProofsC.t_absent_optional. Qed.

(* a declared field arriving with another wire type (the bytes are Marshal's for a conflicting schema; any position;
   either protocol), strict mode (Decoder.SetStrict): TypeMismatch whenever the field is on the wire *)
Theorem t_mismatch_strict : t_mismatch_strict_statement.
Proof. exact ProofsC.t_mismatch_strict. Qed.

(* ... non-strict mode: the value is skipped like an unknown field (consumed entirely), the declared field keeps its
   zero value, all other fields decode as usual, and the field counts as seen for the required check
   (true of the package since the fix of structDecoder.decode; the unfixed code did not consume the value) *)
Theorem t_mismatch_skipped : t_mismatch_skipped_statement.
Proof. exact ProofsC.t_mismatch_skipped. Qed.

(* a list whose item type differs from the declared one: TypeMismatch in strict mode; otherwise consumed entirely,
   the previous value kept, decoding continues with what follows (true since the fix of decodeFuncSliceOf) *)
Theorem t_mismatch_list : t_mismatch_list_statement.
Proof. exact ProofsC.t_mismatch_list. Qed.

(* ---------------------------------------------------------------------------------------------------------------
   Further theorems (statements Thrift/SpecD.v, proofs Thrift/ProofsD*.v): collections of another item type (sets and
   maps, also inside a struct), unknown fields at ANY nesting depth through the relation widens, truncation and trailing
   bytes of alternative and of widened encodings, sizes read from the wire (negative and oversized counts).
   --------------------------------------------------------------------------------------------------------------- *)
From Verif Require Import Thrift.SpecD.
From Verif Require Thrift.ProofsD.


(* the wire format of a set is that of a list *)
Theorem t_set_wire_is_list : t_set_wire_is_list_statement. Proof. exact ProofsD.t_set_wire_is_list. Qed.
(* a declared set whose wire items are of another type (any supported item type, at least one item): TypeMismatch in strict mode, otherwise all items skipped, empty set, decoding continues; both protocols *)
Theorem t_mismatch_set_items : t_mismatch_set_items_statement. Proof. exact ProofsD.t_mismatch_set_items. Qed.
(* the instance where the bytes are Marshal's for a set of another key type *)
Theorem t_mismatch_set : t_mismatch_set_statement. Proof. exact ProofsD.t_mismatch_set. Qed.
(* an empty set is accepted before the item type is checked, even in strict mode *)
Theorem t_mismatch_set_empty : t_mismatch_set_empty_statement. Proof. exact ProofsD.t_mismatch_set_empty. Qed.
(* in contrast an empty list of another item type is a TypeMismatch in strict mode and keeps the previous value otherwise *)
Theorem t_mismatch_list_empty : t_mismatch_list_empty_statement. Proof. exact ProofsD.t_mismatch_list_empty. Qed.
(* a declared map whose wire key or value type differs (at least one entry): TypeMismatch in strict mode, otherwise all entries skipped, empty map; both protocols *)
Theorem t_mismatch_map : t_mismatch_map_statement. Proof. exact ProofsD.t_mismatch_map. Qed.
(* an empty map is accepted before the types are checked, even in strict mode *)
Theorem t_mismatch_map_empty : t_mismatch_map_empty_statement. Proof. exact ProofsD.t_mismatch_map_empty. Qed.

(* unknown fields at ANY nesting depth (through struct fields, list items, map values, pointers; relation widens): Unmarshal of the wide encoding into the narrow type gives, up to tnorm, what the narrow encoding gives; both protocols *)
Theorem t_unknown_nested : t_unknown_nested_statement. Proof. exact ProofsD.t_unknown_nested. Qed.
(* the same for EVERY conformant encoding (any long / short header forms) of the wide pair: generalises t_alt_accept and t_unknown_fields *)
Theorem t_widen_accept : t_widen_accept_statement. Proof. exact ProofsD.t_widen_accept. Qed.

(* every proper prefix of every conformant encoding (any header forms) of a wide pair: io.EOF when empty, unexpected-EOF class otherwise *)
Theorem t_widen_alt_prefix_eof : t_widen_alt_prefix_eof_statement. Proof. exact ProofsD.t_widen_alt_prefix_eof. Qed.
(* instance: every proper prefix of every ALTERNATIVE compact encoding of a value *)
Theorem t_alt_prefix_eof : t_alt_prefix_eof_statement. Proof. exact ProofsD.t_alt_prefix_eof. Qed.
(* instance: every proper prefix of the bytes Marshal writes for a WIDENED pair, both protocols *)
Theorem t_widen_prefix_eof : t_widen_prefix_eof_statement. Proof. exact ProofsD.t_widen_prefix_eof. Qed.
(* trailing bytes after any conformant encoding of a wide pair are reported *)
Theorem t_widen_alt_trailing : t_widen_alt_trailing_statement. Proof. exact ProofsD.t_widen_alt_trailing. Qed.

(* a declared collection FIELD (list, set or map, any position in the struct) whose wire item / key / value type differs, non-strict mode: the collection is consumed entirely, the field left empty, every other field decoded as usual, no MissingField; both protocols *)
Theorem t_mismatch_coll_field_skipped : t_mismatch_coll_field_skipped_statement. Proof. exact ProofsD.t_mismatch_coll_field_skipped. Qed.
(* ... every proper prefix of such bytes is an EOF-class error *)
Theorem t_mismatch_coll_field_prefix : t_mismatch_coll_field_prefix_statement. Proof. exact ProofsD.t_mismatch_coll_field_prefix. Qed.
(* ... strict mode: TypeMismatch whenever the field is on the wire (sets and maps: with at least one entry) *)
Theorem t_mismatch_coll_field_strict : t_mismatch_coll_field_strict_statement. Proof. exact ProofsD.t_mismatch_coll_field_strict. Qed.

(* ---- sizes read from the wire ---- *)
(* EVERY size a list / set / map header reader returns is non-negative, both protocols, any well-formed bytes: no accepted input has a negative announced count (true since the repair of binary.go ReadList / ReadMap, found by this development) *)
Theorem t_header_size_nonneg : t_header_size_nonneg_statement. Proof. exact ProofsD.t_header_size_nonneg. Qed.
(* binary protocol: a complete list / set / map header whose size has the sign bit set is refused by the reader *)
Theorem t_negative_header : t_negative_header_statement. Proof. exact ProofsD.t_negative_header. Qed.
(* ... hence by the list decoder, whatever the item type byte, strict or not *)
Theorem t_negative_list : t_negative_list_statement. Proof. exact ProofsD.t_negative_list. Qed.
(* ... the set decoder *)
Theorem t_negative_set : t_negative_set_statement. Proof. exact ProofsD.t_negative_set. Qed.
(* ... the map decoder *)
Theorem t_negative_map : t_negative_map_statement. Proof. exact ProofsD.t_negative_map. Qed.
(* ... and when a list, set or map is skipped (unknown fields, items of skipped collections) *)
Theorem t_negative_skip_rejected : t_negative_skip_rejected_statement. Proof. exact ProofsD.t_negative_skip_rejected. Qed.
(* string / binary lengths above 2^31 - 1 are refused, both protocols *)
Theorem t_negative_length : t_negative_length_statement. Proof. exact ProofsD.t_negative_length. Qed.
(* compact protocol: a list / set size above 2^31 - 1 is refused when the header is read *)
Theorem t_compact_huge_list : t_compact_huge_list_statement. Proof. exact ProofsD.t_compact_huge_list. Qed.
(* a count larger than the number of bytes after the header makes the list decoder fail, whatever the bytes; both protocols, strict or not *)
Theorem t_oversized_list : t_oversized_list_statement. Proof. exact ProofsD.t_oversized_list. Qed.
(* the same for sets *)
Theorem t_oversized_set : t_oversized_set_statement. Proof. exact ProofsD.t_oversized_set. Qed.
(* the same for maps *)
Theorem t_oversized_map : t_oversized_map_statement. Proof. exact ProofsD.t_oversized_map. Qed.

(* unknown fields at any depth through Decoder.Decode in strict or non-strict mode, any header forms: accepted with the narrow value up to tnorm, and every proper prefix is an EOF-class error *)
Theorem t_widen_decode : t_widen_decode_statement. Proof. exact ProofsD.t_widen_decode. Qed.
