(* C08 -- thrift decoding is total, classifies truncation, reports trailing bytes.
   Model: Thrift/Model.v; the struct decoder's bitset index check is a [TPanic] branch of the model. *)
From Verif Require Import Base.GoInt Thrift.Model Thrift.Spec Thrift.ProofsA Thrift.ProofsB.

(* EVERY byte string, either protocol, any supported target: a value or an error -- never a panic (bitset indices,
   negative sizes), within fuel linear in the input (collection loops are bounded by the bytes available) *)
Theorem t_decode_total : t_decode_total_statement.
Proof. exact ProofsA.t_decode_total. Qed.

(* input truncated at ANY offset of a valid encoding: io.EOF for the empty input, unexpected-EOF class otherwise *)
Theorem t_prefix_eof : t_prefix_eof_statement.
Proof. exact ProofsB.t_prefix_eof. Qed.

(* Unmarshal reports trailing bytes *)
Theorem t_trailing : t_trailing_statement.
Proof. exact ProofsB.t_trailing. Qed.

(* ---- unknown fields, missing required fields (Thrift/SpecC.v, proofs in Thrift/ProofsC.v) ---- *)
From Verif Require Import Thrift.SpecC Thrift.ProofsC.

(* fields the target does not declare -- any ids, any supported type and value, any number, at every field boundary
   (the bytes are Marshal's for a wider struct; compact delta ids are re-encoded by construction) -- are skipped:
   Unmarshal into the narrow type gives exactly the result of the narrow encoding, the declared values up to tnorm *)
Theorem t_unknown_fields : t_unknown_fields_statement.
Proof. exact ProofsC.t_unknown_fields. Qed.

(* a required field absent from the input, at any position among the fields, either protocol: MissingField
   (that it is not reported when present is part of C04 t_roundtrip) *)
Theorem t_missing_field : t_missing_field_statement.
Proof. exact ProofsC.t_missing_field. Qed.

(* a field of the target absent from the input and not required: not reported, the field keeps its zero value *)
Theorem t_absent_optional : t_absent_optional_statement.
Proof. exact ProofsC.t_absent_optional. Qed.

(* a declared field arriving with another wire type (the bytes are Marshal's for a conflicting schema; any position;
   either protocol), strict mode (Decoder.SetStrict): TypeMismatch whenever the field is on the wire *)
Theorem t_mismatch_strict : t_mismatch_strict_statement.
Proof. exact ProofsC.t_mismatch_strict. Qed.

(* ... non-strict mode: the value is skipped like an unknown field (consumed entirely), the declared field keeps its
   zero value, all other fields decode as usual, and the field counts as seen for the required check
   (true of the package since the fix of structDecoder.decode; the unfixed code did not consume the value) *)
Theorem t_mismatch_skipped : t_mismatch_skipped_statement.
Proof. exact ProofsC.t_mismatch_skipped. Qed.

(* a list whose item type differs from the declared one: TypeMismatch in strict mode; otherwise consumed entirely,
   the previous value kept, decoding continues with what follows (true since the fix of decodeFuncSliceOf) *)
Theorem t_mismatch_list : t_mismatch_list_statement.
Proof. exact ProofsC.t_mismatch_list. Qed.
