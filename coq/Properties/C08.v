(* C08 -- thrift decoding is total, classifies truncation, reports trailing bytes.
   Model: Thrift/Model.v; the struct decoder's bitset index check is a [TPanic] branch of the model. *)
From Verif Require Import Base.GoInt Thrift.Model Thrift.Spec Thrift.ProofsA Thrift.ProofsB.

(* EVERY byte string, either protocol, any supported target: a value or an error -- never a panic (bitset indices,
   negative sizes), within fuel linear in the input (collection loops are bounded by the bytes available) *)
Theorem t_decode_total : t_decode_total_statement.
Proof. exact ProofsA.t_decode_total. Qed.

(* input truncated at ANY offset of a valid encoding: io.EOF for the empty input, unexpected-EOF class otherwise *)
Theorem t_prefix_eof : t_prefix_eof_statement.
Proof. exact ProofsB.t_prefix_eof. Qed.

(* Unmarshal reports trailing bytes *)
Theorem t_trailing : t_trailing_statement.
Proof. exact ProofsB.t_trailing. Qed.
