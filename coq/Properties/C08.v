(* C08 -- thrift decoding is total, classifies truncation, reports trailing bytes.
   Model: Thrift/Model.v; the struct decoder's bitset index check is a [TPanic] branch of the model. *)
From Verif Require Import Base.GoInt Thrift.Model Thrift.Spec Thrift.ProofsA Thrift.ProofsB.

(* EVERY byte string, either protocol, any supported target: a value or an error -- never a panic (bitset indices,
   negative sizes), within fuel linear in the input (collection loops are bounded by the bytes available) *)
Theorem t_decode_total : t_decode_total_statement.
Proof. exact ProofsA.t_decode_total. Qed.

(* input truncated at ANY offset of a valid encoding: io.EOF for the empty input, unexpected-EOF class otherwise *)
Theorem t_prefix_eof : t_prefix_eof_statement.
Proof. exact ProofsB.t_prefix_eof. Qed.

(* Unmarshal reports trailing bytes *)
Theorem t_trailing : t_trailing_statement.
Proof. exact ProofsB.t_trailing. Qed.

(* ---- unknown fields, missing required fields (Thrift/SpecC.v, proofs in Thrift/ProofsC.v) ---- *)
From Verif Require Import Thrift.SpecC Thrift.ProofsC.

(* fields the target does not declare -- any ids, any supported type and value, any number, at every field boundary
   (the bytes are Marshal's for a wider struct; compact delta ids are re-encoded by construction) -- are skipped:
   Unmarshal into the narrow type gives exactly the result of the narrow encoding, the declared values up to tnorm *)
Theorem t_unknown_fields : t_unknown_fields_statement.
Proof. exact ProofsC.t_unknown_fields. Qed.

(* a required field absent from the input, at any position among the fields, either protocol: MissingField
   (that it is not reported when present is part of C04 t_roundtrip) *)
Theorem t_missing_field : t_missing_field_statement.
Proof. exact ProofsC.t_missing_field. Qed.
