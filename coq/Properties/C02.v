(* C02 (partial, proof level): json.Unmarshal accepts, rejects and decodes like encoding/json.
   First the scalar core: proved for EVERY input are the scanners and the string / integer decoders that every decoder
   path ends in. Then (second half of this file) the structural decoder over a typed value tree. Outside that type
   universe the reflection-driven decoder is decided by differential execution only. *)
From Verif Require Import Base.GoInt Json.Spec Json.FlagsSpec Json.FlagsIntProofs Json.FlagsKindProofs
  Json.StrSpec Json.NumSpec Json.StrSpecProofs Json.StrDecProofs Json.StrLinkProofs Json.NumProofs.

(* decoder.parseUint / parseInt (json/parse.go, machine-translated): the exact value of every (signed) digit string
   followed by any terminator, overflow exactly outside uint64 / int64 (proved for C14) *)
Theorem c02_parse_uint_exact : parse_uint_exact_statement.
Proof. exact FlagsIntProofs.parse_uint_exact. Qed.
Theorem c02_parse_int_exact : parse_int_exact_statement.
Proof. exact FlagsIntProofs.parse_int_exact. Qed.

(* decodeInt, decodeInt8/16/32/64, decodeUint, decodeUint8/16/32/64, decodeUintptr (json/decode.go; HAND model
   Json/NumModel.v decode_int around the translated parseInt / parseUint, tied by the s.int.dec cases): the value when
   it is in the range of the Go type, an error otherwise (a minus sign is an error for unsigned types) *)
Theorem c02_decode_int_exact : decode_int_statement.
Proof. exact NumProofs.decode_int_exact. Qed.

(* decoder.parseNumber (machine-translated) consumes every valid number literal and classifies it Int / Uint / Float
   (proved for C14) *)
Theorem c02_parse_number_kind : parse_number_kind_statement.
Proof. exact FlagsKindProofs.parse_number_kind. Qed.

(* about the specification itself: the standard unquoting (transcription of encoding/json, tied by the s.unq cases)
   accepts exactly the string literals of the RFC 8259 grammar and leaves the same rest *)
Theorem c02_unquote_grammar : unquote_grammar_statement.
Proof. exact StrSpecProofs.unquote_grammar. Qed.

(* decoder.parseStringUnquote (json/parse.go), MACHINE-TRANSLATED on every run (Generated/JsonStringGen.v, over the
   translated parseString / parseUnicode / parseUintHex; appendRune and appendCoerceInvalidUTF8 are hand models in
   Json/StrExt.v over the models of unicode/utf8 and unicode/utf16): for every input and every sound flags word it
   fails exactly when the input does not start with a string literal, and otherwise returns the standard unquoting
   (escapes, surrogate pairs, lone surrogates and ill-formed UTF-8 as U+FFFD) and the rest of the input *)
Theorem c02_parse_string_unquote : parse_string_unquote_statement.
Proof. exact StrDecProofs.parse_string_unquote_spec. Qed.

(* json.Unmarshal into a string (json.go Parse/Unmarshal and decode.go decodeString: hand-written glue in
   Json/StrModel.v around the translated internalParseFlags, skipSpaces, hasNullPrefix, parseStringUnquote; tied by the
   s.unq cases) equals the standard behaviour on every input: white space, null, literal, trailing bytes *)
Theorem c02_unmarshal_string : unmarshal_string_statement.
Proof. exact StrDecProofs.unmarshal_string_spec. Qed.

(* the links with C01: decoding what the encoder wrote *)
Theorem c02_string_round_trip : string_round_trip_statement.
Proof. exact StrLinkProofs.string_round_trip. Qed.
Theorem c02_int_round_trip : int_round_trip_statement.
Proof. exact NumProofs.int_round_trip. Qed.

(* ---------------------------------------------------------------------------------------------------------------
   STRUCTURAL PART: json.Unmarshal over a typed value tree (bool, sized integers, strings, pointers, slices, arrays,
   maps with string keys, structs). The model (Json/TreeModel.v jdec / dec) follows json/decode.go function by
   function and is tied to /repo and to encoding/json by the j.tree.dec cases (harness/c01tree.go) on every run; its
   strings are uq_lit (proved above equal to the machine-translated parseStringUnquote), its integers the model over
   the translated parseInt / parseUint (c02tree_dec_int_link), skipped values are read by the grammar of C05.
   --------------------------------------------------------------------------------------------------------------- *)
From Verif Require Import Json.TreeModel Json.TreeSpec Json.TreeDecSpec Json.TreeArrSpec Json.TreeShapeSpec
  Json.TreeObjSpec Json.TreeFuelSpec.
From Verif Require Json.TreeProofs Json.TreeEncProofs Json.TreeDecProofs Json.TreeArrProofs Json.TreeShapeProofs
  Json.TreeObjProofs Json.TreeFuelProofs.


(* Unmarshal (Marshal v) with ANY JSON white space between the tokens is the normalised value, for every type of the
   universe, every value of the type and every fuel above the length of the document *)
Theorem c02tree_dec_ws_roundtrip : tree_dec_ws_roundtrip_statement.
Proof. exact TreeProofs.tree_dec_ws_roundtrip. Qed.

(* white space between the tokens does not change what Unmarshal returns *)
Theorem c02tree_dec_ws : tree_dec_ws_statement.
Proof. exact TreeProofs.tree_dec_ws. Qed.

(* the document null gives the zero value of every type; inside a document null clears pointers, slices and maps and
   leaves every other target alone (decodePointer hands it to the inner pointer of a non-nil pointer to a pointer) *)
Theorem c02tree_null : tree_null_statement.
Proof. exact TreeProofs.tree_null. Qed.
Theorem c02tree_null_inner : tree_null_inner_statement.
Proof. exact TreeProofs.tree_null_inner. Qed.

(* the integer reader of the model equals the model of decodeInt8 .. decodeUint64 over the MACHINE-TRANSLATED
   parseInt / parseUint (Json/NumModel.v, C02) on every signed digit string followed by anything ending an integer *)
Theorem c02tree_dec_int_link : tree_dec_int_link_statement.
Proof. exact TreeProofs.tree_dec_int_link. Qed.

(* the model decoder accepts only JSON texts of the RFC 8259 grammar: for EVERY type, fuel and document;
   generalised: every decode function consumes a proper prefix that the grammar reads as one value *)
Theorem c02tree_dec_valid : tree_dec_valid_statement.
Proof. exact TreeDecProofs.tree_dec_valid. Qed.
Theorem c02tree_dec_invalid : tree_dec_invalid_statement.
Proof. exact TreeDecProofs.tree_dec_invalid. Qed.
Theorem c02tree_dec_value : tree_dec_value_statement.
Proof. exact TreeDecProofs.tree_dec_value. Qed.
(* about the grammar itself: a successful g_value never needs more fuel than the input is long *)
Theorem c02tree_g_value_sufficient : g_value_sufficient_statement.
Proof. exact TreeDecProofs.g_value_sufficient. Qed.

(* the decoder returns values of the target type (integers in range, arrays of the declared length, maps with
   strictly increasing keys, structs with their fields), whatever the document and the current value *)
Theorem c02tree_dec_shape : tree_dec_shape_statement.
Proof. exact TreeShapeProofs.tree_dec_shape. Qed.
Theorem c02tree_dec_shape_value : tree_dec_shape_value_statement.
Proof. exact TreeShapeProofs.tree_dec_shape_value. Qed.
Theorem c02tree_zero_shape : tree_zero_shape_statement.
Proof. exact TreeShapeProofs.tree_zero_shape. Qed.
Theorem c02tree_wf_shape : tree_wf_shape_statement.
Proof. exact TreeShapeProofs.tree_wf_shape. Qed.
Theorem c02tree_map_put_sorted : map_put_sorted_statement.
Proof. exact TreeShapeProofs.map_put_sorted. Qed.

(* fixed-size arrays take what fits: a JSON array of k elements decoded into [n]T sets the first elements, zeroes the
   missing ones and skips the surplus ones (values of any type), with any white space *)
Theorem c02tree_arr_fit : tree_arr_fit_statement.
Proof. exact TreeArrProofs.tree_arr_fit. Qed.
Theorem c02tree_arr_short : tree_arr_short_statement.
Proof. exact TreeArrProofs.tree_arr_short. Qed.
Theorem c02tree_arr_long : tree_arr_long_statement.
Proof. exact TreeArrProofs.tree_arr_long. Qed.

(* a struct is decoded from an object whose members come in ANY order, under the exact field name or a key equal
   to it up to ASCII letter case (the first such field, when no field has exactly that name), with UNKNOWN members
   (values of any type) anywhere; absent fields keep the zero value; any white space *)
Theorem c02tree_obj_any_order : tree_obj_any_order_statement.
Proof. exact TreeObjProofs.tree_obj_any_order. Qed.
Theorem c02tree_apply_members_spec : apply_members_spec_statement.
Proof. exact TreeObjProofs.apply_members_spec. Qed.
Theorem c02tree_obj_permutation : tree_obj_permutation_statement.
Proof. exact TreeObjProofs.tree_obj_permutation. Qed.

(* the fuel is immaterial once it exceeds the length of the document: the same outcome (value, error or silence) for
   every two such fuels, so the silence of the model never comes from an exhausted fuel; the same for the grammar *)
Theorem c02tree_dec_fuel : tree_dec_fuel_statement.
Proof. exact TreeFuelProofs.tree_dec_fuel. Qed.
Theorem c02tree_dec_fuel_value : tree_dec_fuel_value_statement.
Proof. exact TreeFuelProofs.tree_dec_fuel_value. Qed.
Theorem c02tree_dec_fuel_canonical : tree_dec_fuel_canonical_statement.
Proof. exact TreeFuelProofs.tree_dec_fuel_canonical. Qed.
Theorem c02tree_g_value_fuel : g_value_fuel_statement.
Proof. exact TreeFuelProofs.g_value_fuel. Qed.
