(* C02 (partial, proof level): json.Unmarshal accepts, rejects and decodes like encoding/json -- the scalar core.
   The reflection-driven decoder as a whole is decided by differential execution only; proved here, for EVERY
   input, are the scanners and the string / integer decoders that every decoder path ends in. *)
From Verif Require Import Base.GoInt Json.Spec Json.FlagsSpec Json.FlagsIntProofs Json.FlagsKindProofs
  Json.StrSpec Json.NumSpec Json.StrSpecProofs Json.StrDecProofs Json.StrLinkProofs Json.NumProofs.

(* decoder.parseUint / parseInt (json/parse.go, machine-translated): the exact value of every (signed) digit string
   followed by any terminator, overflow exactly outside uint64 / int64 (proved for C14) *)
Theorem c02_parse_uint_exact : parse_uint_exact_statement.
Proof. exact FlagsIntProofs.parse_uint_exact. Qed.
Theorem c02_parse_int_exact : parse_int_exact_statement.
Proof. exact FlagsIntProofs.parse_int_exact. Qed.

(* decodeInt, decodeInt8/16/32/64, decodeUint, decodeUint8/16/32/64, decodeUintptr (json/decode.go; HAND model
   Json/NumModel.v decode_int around the translated parseInt / parseUint, tied by the s.int.dec cases): the value when
   it is in the range of the Go type, an error otherwise (a minus sign is an error for unsigned types) *)
Theorem c02_decode_int_exact : decode_int_statement.
Proof. exact NumProofs.decode_int_exact. Qed.

(* decoder.parseNumber (machine-translated) consumes every valid number literal and classifies it Int / Uint / Float
   (proved for C14) *)
Theorem c02_parse_number_kind : parse_number_kind_statement.
Proof. exact FlagsKindProofs.parse_number_kind. Qed.

(* about the specification itself: the standard unquoting (transcription of encoding/json, tied by the s.unq cases)
   accepts exactly the string literals of the RFC 8259 grammar and leaves the same rest *)
Theorem c02_unquote_grammar : unquote_grammar_statement.
Proof. exact StrSpecProofs.unquote_grammar. Qed.

(* decoder.parseStringUnquote (json/parse.go), MACHINE-TRANSLATED on every run (Generated/JsonStringGen.v, over the
   translated parseString / parseUnicode / parseUintHex; appendRune and appendCoerceInvalidUTF8 are hand models in
   Json/StrExt.v over the models of unicode/utf8 and unicode/utf16): for every input and every sound flags word it
   fails exactly when the input does not start with a string literal, and otherwise returns the standard unquoting
   (escapes, surrogate pairs, lone surrogates and ill-formed UTF-8 as U+FFFD) and the rest of the input *)
Theorem c02_parse_string_unquote : parse_string_unquote_statement.
Proof. exact StrDecProofs.parse_string_unquote_spec. Qed.

(* json.Unmarshal into a string (json.go Parse/Unmarshal and decode.go decodeString: hand-written glue in
   Json/StrModel.v around the translated internalParseFlags, skipSpaces, hasNullPrefix, parseStringUnquote; tied by the
   s.unq cases) equals the standard behaviour on every input: white space, null, literal, trailing bytes *)
Theorem c02_unmarshal_string : unmarshal_string_statement.
Proof. exact StrDecProofs.unmarshal_string_spec. Qed.

(* the links with C01: decoding what the encoder wrote *)
Theorem c02_string_round_trip : string_round_trip_statement.
Proof. exact StrLinkProofs.string_round_trip. Qed.
Theorem c02_int_round_trip : int_round_trip_statement.
Proof. exact NumProofs.int_round_trip. Qed.
