(* C02 -- placeholder: component theorems are being built *)
From Verif Require Import Base.GoInt.
