(* C14: json flags change representation or copying, never meaning.
   Theorems about the model of the number-kind selection of json/decode.go (Json/FlagsModel.v over the scanners
   translated from json/parse.go) and about the member order of the map encoders. *)
From Verif Require Import Json.FlagsModel Json.FlagsSpec Json.FlagsIntProofs Json.FlagsKindProofs Json.FlagsProofs.

(* For every valid number literal and every flag word the dynamic type and payload stored in the interface are those
   of the documented precedence table UseUint64 > UseInt64 > UseBigInt > UseNumber > float64. *)
Theorem c14_number_kind_refines : number_kind_refines_statement.
Proof. exact FlagsProofs.number_kind_refines. Qed.

(* The numeric value never changes: uint64 / int64 / big.Int hold exactly the integer the literal denotes (within
   range), Number holds the literal, float64 is the result of strconv.ParseFloat, whose range error is the only error. *)
Theorem c14_number_value : number_value_statement.
Proof. exact FlagsProofs.number_value. Qed.

(* Flags other than UseNumber, UseBigInt, UseInt64, UseUint64 (including the internal ones) never influence the result. *)
Theorem c14_number_flags_frame : number_flags_frame_statement.
Proof. exact FlagsProofs.number_flags_frame. Qed.

(* The translated parseUint returns the exact value of every digit string or reports overflow beyond 2^64-1. *)
Theorem c14_parse_uint_exact : parse_uint_exact_statement.
Proof. exact FlagsIntProofs.parse_uint_exact. Qed.

(* The translated parseInt returns the exact value of every signed digit string or reports overflow outside int64. *)
Theorem c14_parse_int_exact : parse_int_exact_statement.
Proof. exact FlagsIntProofs.parse_int_exact. Qed.

(* The translated parseNumber consumes every valid literal and classifies it: Int with a minus sign, Uint without,
   Float as soon as there is a fraction or an exponent. *)
Theorem c14_parse_number_kind : parse_number_kind_statement.
Proof. exact FlagsKindProofs.parse_number_kind. Qed.

(* Without SortMapKeys the members written for a map are a permutation of those written with it. *)
Theorem c14_map_order_permutation : map_order_permutation_statement.
Proof. exact FlagsProofs.map_order_permutation. Qed.

(* ... and a decoder (last member wins) reads the same object from both. *)
Theorem c14_map_order_same_object : map_order_same_object_statement.
Proof. exact FlagsProofs.map_order_same_object. Qed.

(* A map encoder that stops at the first failing value fails under one iteration order iff under every other
   (without SortMapKeys iff with it); when it succeeds the members are permuted. *)
Theorem c14_map_error_order : map_error_order_statement.
Proof. exact FlagsProofs.map_error_order. Qed.
