(* C14: json flags change representation or copying, never meaning.
   Theorems about the model of the number-kind selection of json/decode.go (Json/FlagsModel.v over the scanners
   translated from json/parse.go) and about the member order of the map encoders. *)
From Verif Require Import Json.FlagsModel Json.FlagsSpec Json.FlagsIntProofs Json.FlagsKindProofs Json.FlagsProofs.

(* For every valid number literal and every flag word the dynamic type and payload stored in the interface are those
   of the documented precedence table UseUint64 > UseInt64 > UseBigInt > UseNumber > float64. *)
Theorem c14_number_kind_refines : number_kind_refines_statement.
Proof. exact FlagsProofs.number_kind_refines. Qed.

(* The numeric value never changes: uint64 / int64 / big.Int hold exactly the integer the literal denotes (within
   range), Number holds the literal, float64 is the result of strconv.ParseFloat, whose range error is the only error. *)
Theorem c14_number_value : number_value_statement.
Proof. exact FlagsProofs.number_value. Qed.

(* Flags other than UseNumber, UseBigInt, UseInt64, UseUint64 (including the internal ones) never influence the result. *)
Theorem c14_number_flags_frame : number_flags_frame_statement.
Proof. exact FlagsProofs.number_flags_frame. Qed.

(* The translated parseUint returns the exact value of every digit string or reports overflow beyond 2^64-1. *)
Theorem c14_parse_uint_exact : parse_uint_exact_statement.
Proof. exact FlagsIntProofs.parse_uint_exact. Qed.

(* The translated parseInt returns the exact value of every signed digit string or reports overflow outside int64. *)
Theorem c14_parse_int_exact : parse_int_exact_statement.
Proof. exact FlagsIntProofs.parse_int_exact. Qed.

(* The translated parseNumber consumes every valid literal and classifies it: Int with a minus sign, Uint without,
   Float as soon as there is a fraction or an exponent. *)
Theorem c14_parse_number_kind : parse_number_kind_statement.
Proof. exact FlagsKindProofs.parse_number_kind. Qed.

(* Without SortMapKeys the members written for a map are a permutation of those written with it. *)
Theorem c14_map_order_permutation : map_order_permutation_statement.
Proof. exact FlagsProofs.map_order_permutation. Qed.

(* ... and a decoder (last member wins) reads the same object from both. *)
Theorem c14_map_order_same_object : map_order_same_object_statement.
Proof. exact FlagsProofs.map_order_same_object. Qed.

(* A map encoder that stops at the first failing value fails under one iteration order iff under every other
   (without SortMapKeys iff with it); when it succeeds the members are permuted. *)
Theorem c14_map_error_order : map_error_order_statement.
Proof. exact FlagsProofs.map_error_order. Qed.

(* ---------------------------------------------------------------------------------------------------------------
   STRUCTURAL PART: the flags of json.Append / json.Parse on the value-tree model of C01/C02 (Json/TreeModel.v) with
   the flag word explicit (Json/TreeFlagsModel.v: jenc_f html ord, jdec_f nocase strict; the order in which an unsorted
   map is written is an arbitrary admissible oracle, and in the relational form penc every map occurrence is permuted
   independently). Tied to /repo and to encoding/json by the f.tree.* cases of harness/c14tree.go on every run.
   TrustRawMessage and the DontCopy / ZeroCopy flags have no effect on the VALUES of this universe (no RawMessage;
   aliasing is the subject of C10).
   --------------------------------------------------------------------------------------------------------------- *)
From Verif Require Import Base.GoInt Json.TreeModel Json.TreeSpec Json.TreeFlagsModel Json.TreeFlagsSpec.
From Verif Require Json.TreeFlagsProofs.


(* Append with EscapeHTML and SortMapKeys is the Marshal model of Json/TreeModel.v, token by token *)
Theorem c14tree_flags_default_toks : flags_default_toks_statement. Proof. exact TreeFlagsProofs.flags_default_toks. Qed.
(* ... and byte by byte *)
Theorem c14tree_flags_default : flags_default_statement. Proof. exact TreeFlagsProofs.flags_default. Qed.
(* Parse with no flag is the Unmarshal model of Json/TreeModel.v, for every target, input and fuel *)
Theorem c14tree_parse_default_inner : parse_default_inner_statement. Proof. exact TreeFlagsProofs.parse_default_inner. Qed.
Theorem c14tree_parse_default : parse_default_statement. Proof. exact TreeFlagsProofs.parse_default. Qed.
(* for the field names of the universe the plain and the HTML key fragment are the name between quotes *)
Theorem c14tree_key_fragment : key_fragment_statement. Proof. exact TreeFlagsProofs.key_fragment. Qed.
(* the sorted order and the two unsorted orders of the examples are admissible order oracles *)
Theorem c14tree_ord_examples : ord_examples_statement. Proof. exact TreeFlagsProofs.ord_examples. Qed.
(* Append under any EscapeHTML setting and any member order decodes to the value of the default output *)
Theorem c14tree_append_flags_meaning : append_flags_meaning_statement. Proof. exact TreeFlagsProofs.append_flags_meaning. Qed.
Theorem c14tree_append_flags_same_value : append_flags_same_value_statement. Proof. exact TreeFlagsProofs.append_flags_same_value. Qed.
(* ... and is a JSON text of the RFC 8259 grammar *)
Theorem c14tree_append_flags_valid : append_flags_valid_statement. Proof. exact TreeFlagsProofs.append_flags_valid. Qed.
(* EscapeHTML: one string literal differs only in the bytes 3c 3e 26, raw against escaped *)
Theorem c14tree_escape_html_string : escape_html_string_statement. Proof. exact TreeFlagsProofs.escape_html_string. Qed.
(* EscapeHTML: the same token structure, only string tokens differ, as above *)
Theorem c14tree_escape_html_only_strings : escape_html_only_strings_statement. Proof. exact TreeFlagsProofs.escape_html_only_strings. Qed.
(* SortMapKeys clear: the members written for a map are a permutation of the sorted ones *)
Theorem c14tree_unsorted_is_permutation : unsorted_is_permutation_statement. Proof. exact TreeFlagsProofs.unsorted_is_permutation. Qed.
(* ... and with at most one entry per map the bytes are those of the sorted encoding *)
Theorem c14tree_unsorted_small_maps : unsorted_small_maps_statement. Proof. exact TreeFlagsProofs.unsorted_small_maps. Qed.
(* on the package's own output (any AppendFlags, any white space) DontMatchCaseInsensitiveStructFields and
   DisallowUnknownFields do not change the decoded value *)
Theorem c14tree_parse_flags_ws_meaning : parse_flags_ws_meaning_statement. Proof. exact TreeFlagsProofs.parse_flags_ws_meaning. Qed.
Theorem c14tree_parse_flags_meaning : parse_flags_meaning_statement. Proof. exact TreeFlagsProofs.parse_flags_meaning. Qed.
(* boundary: a key differing by case is matched, left out or rejected according to the two flags *)
Theorem c14tree_nocase_changes_foreign_documents : nocase_changes_foreign_documents_statement. Proof. exact TreeFlagsProofs.nocase_changes_foreign_documents. Qed.
(* boundary: an unknown key is an error exactly under DisallowUnknownFields *)
Theorem c14tree_strict_changes_foreign_documents : strict_changes_foreign_documents_statement. Proof. exact TreeFlagsProofs.strict_changes_foreign_documents. Qed.
(* the ParseFlags equation does not extend to every document *)
Theorem c14tree_parse_flags_all_documents_refuted : parse_flags_all_documents_refuted_statement. Proof. exact TreeFlagsProofs.parse_flags_all_documents_refuted. Qed.
(* the AppendFlags do change the bytes *)
Theorem c14tree_append_flags_bytes_refuted : append_flags_bytes_refuted_statement. Proof. exact TreeFlagsProofs.append_flags_bytes_refuted. Qed.
(* EscapeHTML: a value whose strings and keys hold none of the bytes 3c 3e 26 is written identically *)
Theorem c14tree_no_html_same_bytes : no_html_same_bytes_statement. Proof. exact TreeFlagsProofs.no_html_same_bytes. Qed.
(* EVERY document: a success under DisallowUnknownFields is the same success under the target flags (source
   DontMatchCaseInsensitiveStructFields set, or target clear), at the level of one decode function *)
Theorem c14tree_strict_success_stable_inner : strict_success_stable_inner_statement. Proof. exact TreeFlagsProofs.strict_success_stable_inner. Qed.
(* ... and of Parse *)
Theorem c14tree_strict_success_stable : strict_success_stable_statement. Proof. exact TreeFlagsProofs.strict_success_stable. Qed.
(* EVERY document: DisallowUnknownFields only rejects, it never changes a decoded value *)
Theorem c14tree_strict_only_rejects : strict_only_rejects_statement. Proof. exact TreeFlagsProofs.strict_only_rejects. Qed.
(* EVERY document: accepted under both struct-key flags, the same value under every setting of the two and by Unmarshal *)
Theorem c14tree_exact_strict_universal : exact_strict_universal_statement. Proof. exact TreeFlagsProofs.exact_strict_universal. Qed.
(* the remaining direction fails: adding DontMatchCaseInsensitiveStructFields can change an accepted document's value *)
Theorem c14tree_strict_success_not_stable : strict_success_not_stable_statement. Proof. exact TreeFlagsProofs.strict_success_not_stable. Qed.
(* SortMapKeys clear in full generality (every map occurrence in an order of its own, relation penc): what the oracle
   encoder writes is such an encoding *)
Theorem c14tree_penc_of_ord : penc_of_ord_statement. Proof. exact TreeFlagsProofs.penc_of_ord. Qed.
(* ... every such encoding, with any white space, decodes under every setting of the two struct-key flags to the value
   of the default output *)
Theorem c14tree_parse_flags_rel_meaning : parse_flags_rel_meaning_statement. Proof. exact TreeFlagsProofs.parse_flags_rel_meaning. Qed.
(* ... by Unmarshal too, and it is a JSON text of the grammar *)
Theorem c14tree_append_rel_meaning : append_rel_meaning_statement. Proof. exact TreeFlagsProofs.append_rel_meaning. Qed.
(* the relation covers encodings that no order oracle writes (two equal maps in different orders) *)
Theorem c14tree_penc_more_general : penc_more_general_statement. Proof. exact TreeFlagsProofs.penc_more_general. Qed.
