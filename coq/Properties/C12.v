(* C12: proto bytes are standard protobuf wire format, both ways.
   Definitions and statements: Proto/WireSpec.v (transcription of the protobuf encoding specification). *)
From Verif Require Import Base.GoInt Proto.Model Proto.Spec Proto.WireSpec Proto.WireRefuted Proto.WireSpecProofs.

(* a bool written as a two-byte varint is a legal encoding that Unmarshal rejects: statement (b) is false
   without the restriction on padded bools (class .boolpad of the harness) *)
Theorem c12_reencoded_any_padding_refuted : ~ unmarshal_reencoded_statement true.
Proof. exact WireRefuted.unmarshal_reencoded_refuted. Qed.
(* a repeated field tagged zigzag is written as plain varints: the reference reads other values (class .zzrep) *)
Theorem c12_standard_needs_tags_sane_zigzag : ~ marshal_standard_gen (fun t v => no_empty_map v = true).
Proof. exact WireRefuted.marshal_standard_needs_tags_sane_zigzag. Qed.
(* a repeated field tagged fixed32 is written as varints: the reference skips the records (class .zzrep) *)
Theorem c12_standard_needs_tags_sane_fixed : ~ marshal_standard_gen (fun t v => no_empty_map v = true).
Proof. exact WireRefuted.marshal_standard_needs_tags_sane_fixed. Qed.
(* a map without entries is written as one entry with empty payload: the reference reads one entry (class .emap) *)
Theorem c12_standard_needs_no_empty_map : ~ marshal_standard_gen (fun t v => tags_sane t = true).
Proof. exact WireRefuted.marshal_standard_needs_no_empty_map. Qed.

(* the transcribed specification is coherent: its decoder reads its canonical encoder back, for every descriptor
   and every well-formed message *)
Theorem c12_spec_roundtrip : spec_roundtrip_statement.
Proof. exact WireSpecProofs.spec_roundtrip. Qed.
(* ... and reads EVERY legal encoding of a message (fields interleaved in any order, any legal varint padding,
   arbitrary earlier occurrences of singular scalars, embedded messages split into several occurrences, unknown
   fields) as that message; so does the package dialect when no bool is written on more than one byte *)
Theorem c12_spec_reads_every_legal_encoding : spec_reencode_statement.
Proof. exact WireSpecProofs.spec_reencode. Qed.
(* the relation is not vacuous: the canonical encoding is a legal encoding *)
Theorem c12_canonical_is_legal : forall fs m, desc_wf (PMsg fs) = true -> msg_wf (PMsg fs) (PVMsg m) = true ->
    (len (spec_encode fs m) < 2 ^ 64)%Z -> reencodes false fs m (spec_encode fs m).
Proof. exact WireSpecProofs.spec_encode_reencodes. Qed.
