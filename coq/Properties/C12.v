(* C12: proto bytes are standard protobuf wire format, both ways.
   Definitions and statements: Proto/WireSpec.v (an independent transcription of the protobuf encoding
   specification: record layer, merge semantics, dialects, canonical encoder, the set of all legal encodings of a
   message, Go type -> message descriptor, decoded message -> Go value). The transcription is tied to the
   reference implementation google.golang.org/protobuf by the correspondence check (cases w.dec, o.dec). *)
From Verif Require Import Base.GoInt Proto.Model Proto.Spec Proto.WireSpec.
From Verif Require Proto.WireRefuted Proto.WireSpecProofs Proto.WireEncProofs Proto.WireDecProofs Proto.WireProofs.

(* ---- the specification itself ---- *)
(* its decoder reads its canonical encoder back, for every descriptor and every well-formed message *)
Theorem c12_spec_roundtrip : spec_roundtrip_statement.
Proof. exact WireSpecProofs.spec_roundtrip. Qed.
(* it reads EVERY legal encoding of a message (occurrences of different fields interleaved in any order, any legal
   varint padding of tags, lengths and values, arbitrary earlier occurrences of singular scalars, embedded messages
   split into several occurrences that merge - also inside repeated elements and map values - and unknown fields)
   as that message; so does the package dialect of the decoder *)
Theorem c12_spec_reads_every_legal_encoding : spec_reencode_statement.
Proof. exact WireSpecProofs.spec_reencode. Qed.
(* the set of legal encodings is not vacuous: the canonical encoding belongs to it *)
Theorem c12_canonical_is_legal : forall fs m, desc_wf (PMsg fs) = true -> msg_wf (PMsg fs) (PVMsg m) = true ->
    (len (spec_encode fs m) < 2 ^ 64)%Z -> reencodes false fs m (spec_encode fs m).
Proof. exact WireSpecProofs.spec_encode_reencodes. Qed.

(* ---- (a) the package's bytes are standard ---- *)
(* for every struct type of the universe and every representable value, the specification's decoder reads
   Marshal(&v) as a message that denotes v (up to nil-versus-empty). Set aside, each shown necessary below:
   tags_sane (no zigzag/fixed variant on a repeated field), no_empty_map, zz_ok (a zigzag tag on a struct-typed
   field), representable (known finding F17) *)
Theorem c12_marshal_is_standard : WireEncProofs.marshal_standard_zz_statement.
Proof. exact WireEncProofs.marshal_standard_zz. Qed.
(* without zz_ok the statement of WireSpec.v is false: a zigzag tag on a struct-typed field zig-zags the integers
   inside the nested message (class .zzstruct of the harness) *)
Theorem c12_marshal_standard_needs_zz_ok : ~ marshal_standard_statement.
Proof. exact WireEncProofs.marshal_standard_refuted. Qed.
(* a repeated field tagged zigzag is written as plain varints: the reference reads other values (class .zzrep) *)
Theorem c12_standard_needs_tags_sane_zigzag : ~ WireRefuted.marshal_standard_gen (fun t v => no_empty_map v = true).
Proof. exact WireRefuted.marshal_standard_needs_tags_sane_zigzag. Qed.
(* a repeated field tagged fixed32 is written as varints: the reference skips the records (class .zzrep) *)
Theorem c12_standard_needs_tags_sane_fixed : ~ WireRefuted.marshal_standard_gen (fun t v => no_empty_map v = true).
Proof. exact WireRefuted.marshal_standard_needs_tags_sane_fixed. Qed.
(* a map without entries is written as one entry with empty payload: the reference reads one entry (class .emap) *)
Theorem c12_standard_needs_no_empty_map : ~ WireRefuted.marshal_standard_gen (fun t v => tags_sane t = true).
Proof. exact WireRefuted.marshal_standard_needs_no_empty_map. Qed.

(* ---- (b) Unmarshal reads every standard encoding ---- *)
(* (b1) on EVERY byte string that the specification's decoder accepts in the package dialect (strict 32-bit ranges,
   wire-type mismatch is an error, an empty map entry record is ignored), Unmarshal returns the value the decoded
   message denotes: the package decoder is the standard decoder up to these three switches *)
Theorem c12_unmarshal_refines_spec : WireDecProofs.unmarshal_refines_zz_statement.
Proof. exact WireDecProofs.unmarshal_refines_zz. Qed.
Theorem c12_unmarshal_refines_needs_zz_ok : ~ unmarshal_refines_statement.
Proof. exact WireDecProofs.unmarshal_refines_refuted. Qed.
(* (b) hence every legal encoding w of a message m - whatever the order, padding (bools included since the repair
   of decodeBool), duplicated scalars, split embedded messages, unknown fields - is decoded by Unmarshal to the
   value m denotes, and the specification reads the same w as m *)
Theorem c12_unmarshal_reads_every_legal_encoding : WireProofs.unmarshal_reencoded_zz_statement.
Proof. exact WireProofs.unmarshal_reencoded_zz. Qed.
(* a bool written on two bytes: a legal encoding, read by the specification and (now) by the package; the dialect of
   the package before the repair rejected it *)
Theorem c12_bool_padded_legal : reencodes true (fields_of WireRefuted.t_bool) [FOne (PVBool true)] [8; 129; 0]%Z.
Proof. exact WireRefuted.bool_padded_legal. Qed.
Theorem c12_bool_padded_pkg : Unmarshal 10 WireRefuted.t_bool [8; 129; 0]%Z (zero_val WireRefuted.t_bool) = Ok (Some (VStruct [VBool true])).
Proof. exact WireRefuted.bool_padded_pkg. Qed.
