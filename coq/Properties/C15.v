(* C15 -- json.Append is oblivious to the destination's length and capacity.
   The encoder is reflection-driven and not modelled as a whole; every site of json/encode.go that does its OWN
   length/capacity arithmetic on the destination (all others only use the built-in append, whose contract is the
   property itself) is modelled over an explicit backing array in Json/AppendModel.v and proved here.
   encode_bytes is tied to the code by correspondence on (len, cap, payload) triples; the whole property is
   decided differentially by the harness for every value, prefix length and spare capacity class. *)
From Verif Require Import Base.GoInt Json.AppendModel Json.AppendCorollaries.

(* encodeBytes, EVERY length and capacity: data = prefix ++ quoted base64; the prefix cells of the destination array
   are never written (array reused with them intact, or a fresh array); every index used is in range *)
Theorem encode_bytes_data : forall b body, wf_slice b ->
  let '(r, re) := encode_bytes b body in
  gdata r = gdata b ++ 34%Z :: body ++ [34%Z] /\ wf_slice r /\
  (re = false -> gcap r = gcap b /\ firstn (slen b) (cells r) = firstn (slen b) (cells b)).
Proof. exact AppendModel.encode_bytes_data. Qed.

(* encodeToString: encode, quote after it, move the quoted form down over the raw form: prefix ++ quoted only *)
Theorem requote_data : forall b' i q, wf_slice b' -> (i <= slen b')%nat -> (slen b' + length q <= gcap b')%nat ->
  let r := requote b' i q in
  gdata r = firstn i (cells b') ++ q /\ wf_slice r /\ firstn i (cells r) = firstn i (cells b') /\ gcap r = gcap b'.
Proof. exact AppendModel.requote_data. Qed.

(* rollback on error: the result is exactly the bytes before the failed value; nothing is written *)
Theorem rollback_data : forall b start, (start <= slen b)%nat -> wf_slice b ->
  gdata (rollback_to b start) = firstn start (gdata b) /\ cells (rollback_to b start) = cells b.
Proof. exact AppendModel.rollback_data. Qed.

(* the property as worded, for encodeBytes: Append(b, v) = b ++ Append(nil, v) for EVERY destination length and capacity *)
Theorem encode_bytes_oblivious : forall b body, wf_slice b ->
  gdata (fst (encode_bytes b body)) = gdata b ++ gdata (fst (encode_bytes gnil body)).
Proof. exact AppendCorollaries.encode_bytes_oblivious. Qed.

(* destinations with equal data give equal data: capacity and the bytes beyond len(b) are irrelevant *)
Theorem encode_bytes_cap_irrelevant : forall b1 b2 body, wf_slice b1 -> wf_slice b2 -> gdata b1 = gdata b2 ->
  gdata (fst (encode_bytes b1 body)) = gdata (fst (encode_bytes b2 body)).
Proof. exact AppendCorollaries.encode_bytes_cap_irrelevant. Qed.

(* the backing array is replaced exactly when the spare capacity is below the encoded size len(body)+2 ... *)
Theorem encode_bytes_realloc_iff : forall b body,
  snd (encode_bytes b body) = true <-> (gcap b - slen b < length body + 2)%nat.
Proof. exact AppendCorollaries.encode_bytes_realloc_iff. Qed.

(* ... and the new array then has exactly the capacity of the result (the hand-written cap(b)+(n-avail) arithmetic) *)
Theorem encode_bytes_realloc_cap : forall b body, wf_slice b -> snd (encode_bytes b body) = true ->
  gcap (fst (encode_bytes b body)) = (slen b + length body + 2)%nat /\
  slen (fst (encode_bytes b body)) = (slen b + length body + 2)%nat.
Proof. exact AppendCorollaries.encode_bytes_realloc_cap. Qed.
