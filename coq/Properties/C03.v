(* C03 -- placeholder while the proofs are being built *)
From Verif Require Import Base.GoInt Proto.Ext Generated.ProtoGen Proto.Model.
