(* C03 -- proto: Unmarshal(Marshal(v)) == v, Size(v) == len(Marshal(v)), Marshal never fails.
   Model: Proto/Model.v (hand-written, tied by correspondence) over the MACHINE-TRANSLATED wire
   primitives of Generated/ProtoGen.v. *)
From Verif Require Import Base.GoInt Proto.Ext Generated.ProtoGen Proto.Model Proto.PrimSpec Proto.Spec Proto.EncProofs Proto.RoundTrip Proto.RoundTripInj.

(* Marshal succeeds and returns exactly Size(v) bytes, for every value of the universe *)
Theorem marshal_never_fails : marshal_never_fails_statement.
Proof. exact EncProofs.marshal_never_fails. Qed.
Theorem encode_exact : encode_exact_statement.
Proof. exact EncProofs.encode_exact. Qed.

(* the round trip, for every supported type and every representable value (nested and pointer-to structs, repeated
   fields and maps of any size, zigzag / fixed tags, byte arrays, RawMessage): up to nil-versus-empty *)
Theorem roundtrip : roundtrip_statement.
Proof. exact RoundTrip.roundtrip. Qed.

(* what lies outside: the recorded finding F17 (a non-nil pointer to a message with empty encoding decodes as nil) ... *)
Theorem ptr_empty_refuted : ptr_empty_refuted_statement.
Proof. exact RoundTrip.ptr_empty_refuted. Qed.
(* ... and the naive statement without normalising both sides *)
Theorem roundtrip_naive_refuted : ~ roundtrip_naive_statement.
Proof. exact RoundTrip.roundtrip_statement_false. Qed.

(* the round trip with its fuel made explicit: a function of the bytes and the type only (0 for the empty encoding,
   len + codec depth + 1 otherwise) *)
Theorem roundtrip_explicit_fuel : roundtrip_explicit_fuel_statement.
Proof. exact RoundTripInj.roundtrip_explicit_fuel. Qed.

(* Marshal is injective up to nil-versus-empty: two values of the universe with the same bytes are the same value *)
Theorem marshal_injective : marshal_injective_statement.
Proof. exact RoundTripInj.marshal_injective. Qed.
