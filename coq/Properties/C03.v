(* C03 -- proto: Size(v) == len(Marshal(v)), Marshal never fails, round trip.
   (The round-trip theorem is in preparation in Proto/RoundTrip.v.) *)
From Verif Require Import Base.GoInt Proto.Ext Generated.ProtoGen Proto.Model Proto.PrimSpec Proto.Spec Proto.EncProofs.

(* Marshal succeeds and returns exactly Size(v) bytes, for every value of the universe *)
Theorem marshal_never_fails : marshal_never_fails_statement.
Proof. exact EncProofs.marshal_never_fails. Qed.

Theorem encode_exact : encode_exact_statement.
Proof. exact EncProofs.encode_exact. Qed.
