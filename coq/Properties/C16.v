(* C16 -- proto.MarshalTo honours the caller's buffer for every size.
   Model: Proto/Model.v (hand-written, tied by correspondence) over the MACHINE-TRANSLATED wire
   primitives of Generated/ProtoGen.v. [Ok] results mean: no slice bound of the Go code is violated
   (the model returns [Panic] for any violated bound). *)
From Verif Require Import Base.GoInt Proto.Ext Generated.ProtoGen Proto.Model Proto.PrimSpec Proto.Spec Proto.EncProofs Proto.EncCorollaries.

(* for every codec position and flag word: encode writes exactly size_of bytes into any buffer that is
   large enough, leaving the rest untouched, and reports io.ErrShortBuffer -- never a panic, never a
   longer buffer -- on every shorter one *)
Theorem encode_exact : encode_exact_statement.
Proof. exact EncProofs.encode_exact. Qed.

(* len(b) >= Size(v): MarshalTo writes Marshal(v) at the front of b, reports Size(v), keeps the rest of b *)
Theorem marshal_to_fits : marshal_to_fits_statement.
Proof. exact EncProofs.marshal_to_fits. Qed.

(* every shorter b, every length from 0 to Size(v)-1: an ErrShortBuffer error, no panic, the buffer keeps its length *)
Theorem marshal_to_short : marshal_to_short_statement.
Proof. exact EncProofs.marshal_to_short. Qed.

(* len(b) = Size(v) exactly: the buffer becomes Marshal(v), nothing is left over and nothing is missing *)
Theorem marshal_to_exact_fit : marshal_to_exact_fit_statement.
Proof. exact EncCorollaries.marshal_to_exact_fit. Qed.

(* the bytes written do not depend on what the buffer held; what lies beyond Size(v) is kept, for any two buffers *)
Theorem marshal_to_oblivious : marshal_to_oblivious_statement.
Proof. exact EncCorollaries.marshal_to_oblivious. Qed.

(* the buffer handed back always has the length of the buffer passed in (success and ErrShortBuffer alike) *)
Theorem marshal_to_keeps_length : marshal_to_keeps_length_statement.
Proof. exact EncCorollaries.marshal_to_keeps_length. Qed.

(* MarshalTo succeeds exactly when Size(v) <= len(b): the threshold is neither one more nor one less *)
Theorem marshal_to_threshold : marshal_to_threshold_statement.
Proof. exact EncCorollaries.marshal_to_threshold. Qed.
