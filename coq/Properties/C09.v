(* C09 -- all packages are safe and deterministic under concurrent first use.
   The caches are modelled by the small-step interleaving machine of Conc/CacheModel.v (hand-written from
   json/codec.go, proto/proto.go, proto/reflect.go, thrift/encode.go, thrift/decode.go; atomic steps exactly at the
   atomic load / atomic store / Lock / Unlock of the code); the pools by Conc/PoolModel.v. Every theorem quantifies
   over ALL numbers of goroutines, ALL lists of requested types per goroutine, ALL type graphs (recursive or not),
   and ALL schedules. The sequential projection of the machine is tied to the real caches on every run. *)
From Verif Require Import Conc.CacheModel Conc.CacheSpec Conc.CacheProofs Conc.LockProofs Conc.DrfSpec Conc.DrfProofs Conc.PoolModel Conc.PoolSpec Conc.PoolProofs.

(* the ghost publication history contains the current pointer *)
Theorem ptr_in_pubs : ptr_in_pubs_statement.
Proof. exact CacheProofs.ptr_in_pubs. Qed.

(* (a) every map ever published maps each key t to a complete object graph that unfolds to codec_of t at every depth:
   no half-built object of a seen map, no dangling link *)
Theorem cache_safe : cache_safe_statement.
Proof. exact CacheProofs.cache_safe. Qed.

(* (b) every completed call returned codec_of t for its own type *)
Theorem results_correct : results_correct_statement.
Proof. exact CacheProofs.results_correct. Qed.

(* (b) ... which is what the call returns running alone on a cold cache *)
Theorem conc_equals_solo : conc_equals_solo_statement.
Proof. exact CacheProofs.conc_equals_solo. Qed.

(* calls are answered in program order *)
Theorem results_in_order : results_in_order_statement.
Proof. exact CacheProofs.results_in_order. Qed.

(* no goroutine reaches the panic state *)
Theorem never_stuck : never_stuck_statement.
Proof. exact CacheProofs.never_stuck. Qed.

(* (c) a published map and everything reachable from it never change again *)
Theorem immut : immut_statement.
Proof. exact CacheProofs.immut. Qed.

(* (c) plain writes target only unpublished objects allocated by the writing goroutine *)
Theorem write_private : write_private_statement.
Proof. exact CacheProofs.write_private. Qed.

(* (c) plain reads of shared memory target only published maps *)
Theorem read_published : read_published_statement.
Proof. exact CacheProofs.read_published. Qed.

(* (c) every object handed to a caller is an entry of a published map *)
Theorem use_published : use_published_statement.
Proof. exact CacheProofs.use_published. Qed.

(* (c) data-race freedom of the machine: in the event log of EVERY schedule, any two conflicting accesses (same map
   object, or same construction's codec objects incl. everything a caller reads through a returned object; different
   goroutines; at least one write) are ordered by happens-before = program order + atomic store -> load that returns
   the stored map + Unlock -> later Lock, transitively closed *)
Theorem drf : drf_statement.
Proof. exact DrfProofs.drf. Qed.
(* the happens-before relation is not vacuous: an unordered write / use pair is reported as a race *)
Theorem race_detected : race_detected_statement.
Proof. exact DrfProofs.race_detected. Qed.

(* (d) proto.TypeOf: mutual exclusion *)
Theorem mutex : mutex_statement.
Proof. exact LockProofs.mutex. Qed.

(* (d) proto.TypeOf: no lost update, stable identity *)
Theorem typeof_monotone : typeof_monotone_statement.
Proof. exact LockProofs.typeof_monotone. Qed.

(* (d) proto.TypeOf: all goroutines obtain the same object for one type *)
Theorem typeof_unique : typeof_unique_statement.
Proof. exact LockProofs.typeof_unique. Qed.

(* the lock-free caches lose updates and build duplicates (by design): the mutex-variant statements are false of them *)
Theorem cow_monotone_refuted : ~ cow_monotone_statement.
Proof. exact LockProofs.cow_monotone_refuted. Qed.
Theorem cow_unique_refuted : ~ cow_unique_statement.
Proof. exact LockProofs.cow_unique_refuted. Qed.

(* (e) pools: under the use-site discipline a pooled object is in at most one place *)
Theorem pool_exclusive : pool_exclusive_statement.
Proof. exact PoolProofs.pool_exclusive. Qed.
Theorem pool_use_exclusive : pool_use_exclusive_statement.
Proof. exact PoolProofs.pool_use_exclusive. Qed.
Theorem pool_get : pool_get_statement.
Proof. exact PoolProofs.pool_get. Qed.
(* without the discipline (Put while still using) exclusivity fails *)
Theorem pool_exclusive_any_refuted : ~ pool_exclusive_any_statement.
Proof. exact PoolProofs.pool_exclusive_any_refuted. Qed.
