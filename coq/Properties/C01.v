(* C01 (partial, proof level): json.Marshal is byte-for-byte encoding/json.Marshal -- the scalar core.
   The reflection-driven encoder as a whole is decided by differential execution only; proved here, for EVERY
   input, are the string escaping and the integer formatting that every encoder path ends in. *)
From Verif Require Import Base.GoInt Json.Spec Json.ValidProofs Json.StrSpec Json.NumSpec
  Json.StrEncProofs Json.StrSpecProofs Json.StrLinkProofs Json.NumProofs.

(* encoder.encodeString (json/encode.go), MACHINE-TRANSLATED on every run (Generated/JsonStringGen.v; it calls the
   translated escapeIndex / escapeByteRepr of Generated/JsonParseGen.v and the hand model of utf8.DecodeRuneInString
   of Json/StrExt.v, tied to unicode/utf8 by the s.utf8dec cases): for every string (ill-formed UTF-8 included),
   every flag word and every buffer it appends exactly the standard escaping selected by the EscapeHTML bit.
   [std_escape] is an independent transcription of encoding/json's rule, tied to encoding/json by the s.esc cases. *)
Theorem c01_encode_string_std : encode_string_std_statement.
Proof. exact StrEncProofs.encode_string_std. Qed.

(* json.AppendEscape / json.Escape (json.go; three lines of hand-written glue in Json/StrModel.v around the translated
   encodeString, tied by the s.esc / s.escf cases): the result is the standard escaping *)
Theorem c01_escape_string_std : escape_string_std_statement.
Proof. exact StrEncProofs.escape_string_std. Qed.

(* escapeIndex (json/string.go, machine-translated): -1 exactly when no byte needs an escape, otherwise a position at
   or before the first such byte (all that encodeString needs; the documented exact index is refuted in C05) *)
Theorem c01_escape_index : escape_index_statement.
Proof. exact ValidProofs.escape_index_spec. Qed.

(* the fast path of encodeString: when the translated escapeIndex answers -1 no byte needs an escape, and the standard
   escaping is then the string between two quotes, which is what the early return writes *)
Theorem c01_escape_fast_path : escape_fast_path_statement.
Proof. exact StrEncProofs.escape_fast_path. Qed.

(* about the specification itself: the standard escaping of any byte string is a string literal of the RFC 8259
   grammar (Json/Grammar.v) and a complete JSON text *)
Theorem c01_escape_is_json : escape_is_json_statement.
Proof. exact StrSpecProofs.escape_is_json. Qed.

(* ... and the standard unquoting reads it back as the string with every ill-formed byte replaced by U+FFFD *)
Theorem c01_unquote_escape : unquote_escape_statement.
Proof. exact StrSpecProofs.unquote_escape. Qed.

(* replacing ill-formed bytes is idempotent: the output of the round trip is well-formed UTF-8 *)
Theorem c01_sanitize_fixed : sanitize_fixed_statement.
Proof. exact StrSpecProofs.sanitize_fixed. Qed.

(* code-level round trip: the model of json.Unmarshal (translated parseStringUnquote inside) applied to what the
   translated encodeString wrote returns the sanitized string *)
Theorem c01_string_round_trip : string_round_trip_statement.
Proof. exact StrLinkProofs.string_round_trip. Qed.

(* formatInteger / appendInt / appendUint (json/int.go; HAND model Json/NumModel.v following the Go text, over the
   machine-translated lookup table intLELookup; tied by the s.int.enc cases): the canonical decimal text of every
   int64 and uint64. The package does not call strconv here. *)
Theorem c01_append_int : append_int_statement.
Proof. exact NumProofs.append_int_exact. Qed.
Theorem c01_append_uint : append_uint_statement.
Proof. exact NumProofs.append_uint_exact. Qed.

(* the decimal text of the specification is the canonical one: optional minus sign, digits without a superfluous
   leading zero, denoting the value *)
Theorem c01_decimal_canonical : z_to_dec_canonical_statement.
Proof. exact NumProofs.z_to_dec_canonical. Qed.

(* every value of every Go integer type survives formatInteger followed by the typed decoder *)
Theorem c01_int_round_trip : int_round_trip_statement.
Proof. exact NumProofs.int_round_trip. Qed.
