(* C01 (partial, proof level): json.Marshal is byte-for-byte encoding/json.Marshal.
   First the scalar core: proved for EVERY input are the string escaping and the integer formatting that every encoder
   path ends in. Then (second half of this file) the structural encoder over a typed value tree. Outside that type
   universe the reflection-driven encoder is decided by differential execution only. *)
From Verif Require Import Base.GoInt Json.Spec Json.ValidProofs Json.StrSpec Json.NumSpec
  Json.StrEncProofs Json.StrSpecProofs Json.StrLinkProofs Json.NumProofs Json.FloatModel Json.FloatSpec Json.FloatProofs.

(* encoder.encodeString (json/encode.go), MACHINE-TRANSLATED on every run (Generated/JsonStringGen.v; it calls the
   translated escapeIndex / escapeByteRepr of Generated/JsonParseGen.v and the hand model of utf8.DecodeRuneInString
   of Json/StrExt.v, tied to unicode/utf8 by the s.utf8dec cases): for every string (ill-formed UTF-8 included),
   every flag word and every buffer it appends exactly the standard escaping selected by the EscapeHTML bit.
   [std_escape] is an independent transcription of encoding/json's rule, tied to encoding/json by the s.esc cases. *)
Theorem c01_encode_string_std : encode_string_std_statement.
Proof. exact StrEncProofs.encode_string_std. Qed.

(* json.AppendEscape / json.Escape (json.go; three lines of hand-written glue in Json/StrModel.v around the translated
   encodeString, tied by the s.esc / s.escf cases): the result is the standard escaping *)
Theorem c01_escape_string_std : escape_string_std_statement.
Proof. exact StrEncProofs.escape_string_std. Qed.

(* escapeIndex (json/string.go, machine-translated): -1 exactly when no byte needs an escape, otherwise a position at
   or before the first such byte (all that encodeString needs; the documented exact index is refuted in C05) *)
Theorem c01_escape_index : escape_index_statement.
Proof. exact ValidProofs.escape_index_spec. Qed.

(* the fast path of encodeString: when the translated escapeIndex answers -1 no byte needs an escape, and the standard
   escaping is then the string between two quotes, which is what the early return writes *)
Theorem c01_escape_fast_path : escape_fast_path_statement.
Proof. exact StrEncProofs.escape_fast_path. Qed.

(* about the specification itself: the standard escaping of any byte string is a string literal of the RFC 8259
   grammar (Json/Grammar.v) and a complete JSON text *)
Theorem c01_escape_is_json : escape_is_json_statement.
Proof. exact StrSpecProofs.escape_is_json. Qed.

(* ... and the standard unquoting reads it back as the string with every ill-formed byte replaced by U+FFFD *)
Theorem c01_unquote_escape : unquote_escape_statement.
Proof. exact StrSpecProofs.unquote_escape. Qed.

(* replacing ill-formed bytes is idempotent: the output of the round trip is well-formed UTF-8 *)
Theorem c01_sanitize_fixed : sanitize_fixed_statement.
Proof. exact StrSpecProofs.sanitize_fixed. Qed.

(* code-level round trip: the model of json.Unmarshal (translated parseStringUnquote inside) applied to what the
   translated encodeString wrote returns the sanitized string *)
Theorem c01_string_round_trip : string_round_trip_statement.
Proof. exact StrLinkProofs.string_round_trip. Qed.

(* formatInteger / appendInt / appendUint (json/int.go; HAND model Json/NumModel.v following the Go text, over the
   machine-translated lookup table intLELookup; tied by the s.int.enc cases): the canonical decimal text of every
   int64 and uint64. The package does not call strconv here. *)
Theorem c01_append_int : append_int_statement.
Proof. exact NumProofs.append_int_exact. Qed.
Theorem c01_append_uint : append_uint_statement.
Proof. exact NumProofs.append_uint_exact. Qed.

(* the decimal text of the specification is the canonical one: optional minus sign, digits without a superfluous
   leading zero, denoting the value *)
Theorem c01_decimal_canonical : z_to_dec_canonical_statement.
Proof. exact NumProofs.z_to_dec_canonical. Qed.

(* every value of every Go integer type survives formatInteger followed by the typed decoder *)
Theorem c01_int_round_trip : int_round_trip_statement.
Proof. exact NumProofs.int_round_trip. Qed.

(* encodeFloat32 / encodeFloat64 / encodeFloat (json/encode.go; HAND model Json/FloatModel.v following the Go text:
   NaN / Inf test, choice of the strconv format byte from the magnitude, strconv.AppendFloat, rewriting of e-0d to e-d)
   against encoding/json's floatEncoder.encode (independent transcription Json/FloatSpec.v). strconv.AppendFloat is
   NOT modelled: the theorems hold for EVERY function in its place, every float description, bit size and buffer.
   Tied to the code and to encoding/json by the s.float / s.floatq cases.
   Main theorem: for every appending function whose 'e' text has at least four bytes the package glue and the
   encoding/json glue agree: both an unsupported-value error, or the same bytes *)
Theorem c01_float_glue_equal : float_glue_equal_statement.
Proof. exact FloatProofs.float_glue_equal. Qed.

(* the same under the hypothesis that the 'e' text ends in e, a sign and at least two digits (strconv's %e) *)
Theorem c01_float_glue_equal_shaped : float_glue_equal_shaped_statement.
Proof. exact FloatProofs.float_glue_equal_shaped. Qed.

(* no hypothesis at all is needed with an empty destination buffer (json.Marshal of a bare float) ... *)
Theorem c01_float_glue_equal_nil : float_glue_equal_nil_statement.
Proof. exact FloatProofs.float_glue_equal_nil. Qed.

(* ... nor when the format is 'f' (zero, or a magnitude inside [1e-6, 1e21) at the given size) *)
Theorem c01_float_glue_equal_f : float_glue_equal_f_statement.
Proof. exact FloatProofs.float_glue_equal_f. Qed.

(* the hypothesis cannot be dropped: the package cleans the WHOLE destination buffer, encoding/json its own scratch
   buffer; after the destination e- an appending function returning 07 gives e-7 in the package and e-07 in
   encoding/json (not reachable with strconv.AppendFloat, whose 'e' text has at least five bytes) *)
Theorem c01_float_glue_unrestricted_refuted : float_glue_unrestricted_refuted_statement.
Proof. exact FloatProofs.float_glue_unrestricted_refuted. Qed.

(* exactly when cleaning prefix and number together equals cleaning the number alone *)
Theorem c01_clean_exp_prefix_iff : clean_exp_prefix_iff_statement.
Proof. exact FloatProofs.clean_exp_prefix_iff. Qed.

(* the two clean-up blocks are the same function of the slice they are given; what that function does:
   e-0d becomes e-d, every other exponent is left alone *)
Theorem c01_clean_exp_same : clean_exp_same_statement.
Proof. exact FloatProofs.clean_exp_same. Qed.
Theorem c01_clean_exp_cases : clean_exp_cases_statement.
Proof. exact FloatProofs.clean_exp_cases. Qed.
Theorem c01_exp_shaped_len : exp_shaped_len_statement.
Proof. exact FloatProofs.exp_shaped_len. Qed.

(* for an infinity both report an UnsupportedValueError, with different Str texts (inf against strconv's +Inf / -Inf);
   C01 compares the presence of the error only *)
Theorem c01_float_error_str : float_error_str_statement.
Proof. exact FloatProofs.float_error_str. Qed.

(* encoding/json's string option (opts.quoted) writes the same text between two quotes *)
Theorem c01_std_float_quoted : std_quoted_statement.
Proof. exact FloatProofs.std_quoted. Qed.

(* the threshold bit patterns with which the correspondence check classifies a float (float_repr_of_bits) are the
   float64 / float32 values nearest to 10^-6 and 10^21 *)
Theorem c01_float_thresholds_nearest : thresholds_nearest_statement.
Proof. exact FloatProofs.thresholds_nearest. Qed.

(* ---------------------------------------------------------------------------------------------------------------
   STRUCTURAL PART: json.Marshal over a typed value tree (bool, sized integers, strings, pointers, slices, arrays,
   maps with string keys, structs with omitempty). The model (Json/TreeModel.v jenc) is hand-written after
   json/encode.go and tied to /repo and to encoding/json by the j.tree.enc cases (harness/c01tree.go) on every run;
   its strings and integers are std_escape and z_to_dec, which the theorems above prove equal to the machine-translated
   encodeString and to formatInteger. The decoder used in the round trips is the model of json.Unmarshal of C02.
   --------------------------------------------------------------------------------------------------------------- *)
From Verif Require Import Json.TreeModel Json.TreeSpec Json.TreeDecSpec Json.TreeArrSpec Json.TreeShapeSpec
  Json.TreeObjSpec Json.TreeFuelSpec.
From Verif Require Json.TreeProofs Json.TreeEncProofs Json.TreeDecProofs Json.TreeArrProofs Json.TreeShapeProofs
  Json.TreeObjProofs Json.TreeFuelProofs.

(* what Marshal writes is the token encoder without white space *)
Theorem c01tree_jenc_no_ws : jenc_no_ws_statement.
Proof. exact TreeProofs.jenc_no_ws. Qed.

(* the round trip on what Marshal writes *)
Theorem c01tree_roundtrip : tree_roundtrip_statement.
Proof. exact TreeProofs.tree_roundtrip. Qed.

(* the normalisation is the identity on stable values (well-formed UTF-8 strings, no omitempty field holding an empty
   non-nil slice or map, no non-nil pointer to a nil pointer, slice or map) *)
Theorem c01tree_norm_id : tree_norm_id_statement.
Proof. exact TreeProofs.tree_norm_id. Qed.
Theorem c01tree_roundtrip_id : tree_roundtrip_id_statement.
Proof. exact TreeProofs.tree_roundtrip_id. Qed.

(* equal encodings: equal normalised values; on stable values: equal values *)
Theorem c01tree_enc_injective : tree_enc_injective_statement.
Proof. exact TreeProofs.tree_enc_injective. Qed.
Theorem c01tree_enc_injective_id : tree_enc_injective_id_statement.
Proof. exact TreeProofs.tree_enc_injective_id. Qed.

(* the encoding, with any white space between its tokens, is a JSON text of the RFC 8259 grammar (Json/Grammar.v) *)
Theorem c01tree_enc_valid : tree_enc_valid_statement.
Proof. exact TreeEncProofs.tree_enc_valid. Qed.
Theorem c01tree_enc_ws_valid : tree_enc_ws_valid_statement.
Proof. exact TreeEncProofs.tree_enc_ws_valid. Qed.
