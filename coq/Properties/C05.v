(* C05 -- placeholder while the proofs are being built *)
From Verif Require Import Base.GoInt Json.Ext Generated.JsonParseGen Json.Grammar Json.Spec.
