(* C05 -- json.Valid and the shared syntax recogniser accept exactly RFC 8259.
   json_Valid, json_decoder_parseValue, json_internalParseFlags, json_escapeIndex are REGENERATED from
   /repo/json/{json,parse,string}.go on every run (Generated/JsonParseGen.v); the grammar is Json/Grammar.v. *)
From Verif Require Import Base.GoInt Json.Ext Generated.JsonParseGen Json.Grammar Json.Spec Json.ValidProofs.

(* Valid(b) = the RFC 8259 recogniser, for EVERY byte string *)
Theorem valid_agrees : valid_agrees_statement.
Proof. exact ValidProofs.valid_agrees. Qed.

(* hence Valid = encoding/json.Valid whenever at most 10000 containers are open at once *)
Theorem valid_std : valid_std_statement.
Proof. exact ValidProofs.valid_std. Qed.

(* parseValue -- the recogniser every syntax-only consumer calls (RawMessage on encode and decode, skipped
   values, MarshalJSON output, Decoder framing) -- accepts exactly the grammar and consumes exactly the value,
   for every sound flags word: the 8/16-byte quote search and the whole-input printable/no-backslash
   shortcuts of parseString are exact *)
Theorem parse_value_grammar : parse_value_grammar_statement.
Proof. exact ValidProofs.parse_value_grammar. Qed.

(* the flags computed from the whole input are sound for every suffix of it *)
Theorem internal_flags_sound : internal_flags_sound_statement.
Proof. exact ValidProofs.internal_flags_sound. Qed.
Theorem internal_flags_sound_untrimmed_refuted : ~ internal_flags_sound_untrimmed_statement.
Proof. exact ValidProofs.internal_flags_sound_statement_refuted. Qed.

(* escapeIndex: what the string encoder relies on holds; what its documentation says does not *)
Theorem escape_index : escape_index_statement.
Proof. exact ValidProofs.escape_index_spec. Qed.
Theorem escape_index_doc_refuted : ~ escape_index_doc_statement.
Proof. exact ValidProofs.escape_index_statement_refuted. Qed.
