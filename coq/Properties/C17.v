(* C17 -- json.Tokenizer enumerates exactly the tokens of the document.
   The tokenizer model (Json/StreamModel.v: t_next, tokenize) is hand-written and tied to /repo/json/token.go by
   correspondence on every run; its scanner (json_decoder_parseValue etc.) is the REGENERATED translation.
   The token specification (Json/StateSpec.v: g_tokens/spec_tokens) is derived from the RFC 8259 grammar alone. *)
From Verif Require Import Base.GoInt Json.Ext Json.StreamModel Json.StateSpec Json.TokenProofs.

(* every valid document: exactly the specification's delimiters and scalars, in order, with Depth, Index, IsKey
   of every scalar and opening delimiter, and no error *)
Theorem tokens_exact : tokens_exact_statement.
Proof. exact TokenProofs.tokens_exact. Qed.

(* the specification's token values concatenate to the compacted document *)
Theorem tokens_concat : tokens_concat_statement.
Proof. exact TokenProofs.tokens_concat. Qed.

(* EVERY byte string: termination within S (length b) calls of Next, no out-of-range access, and each Value is the
   sub-slice of the input that ends Remaining bytes before its end *)
Theorem tok_total : tok_total_statement.
Proof. exact TokenProofs.tok_total. Qed.

(* once the error is set Next keeps returning false and changes nothing *)
Theorem err_sticky : err_sticky_statement.
Proof. exact TokenProofs.err_sticky. Qed.

(* ---- Reset and pooled-stack reuse (Json/TokenReuseModel.v: the scope stack as the Go slice it is -- backing array with
   its stale slots beyond the length, nilable pointer, sync.Pool contents -- and Reset / NewTokenizer / acquireStack /
   releaseStack / push / pop / index transcribed line by line from json/token.go) ---- *)
From Verif Require Import Json.TokenReuseModel Json.TokenReuseSpec Json.TokenReuseProofs.

(* one call of Next on the concrete stack abstracts to one call of the abstract Next, for EVERY content of the slots beyond
   the length, every pool, every pool policy and growth policy; len <= cap is preserved *)
Theorem next_refines : next_refines_statement.
Proof. exact TokenReuseProofs.next_refines. Qed.

(* two tokenizers that differ only in the stale part of the array, the capacity and the pool take the same step *)
Theorem stale_irrelevant : stale_irrelevant_statement.
Proof. exact TokenReuseProofs.stale_irrelevant. Qed.

(* a whole run on the concrete stack yields the tokens and the final state of the abstract run *)
Theorem run_refines : run_refines_statement.
Proof. exact TokenReuseProofs.run_refines. Qed.

(* Reset(b) on a tokenizer in ANY state (any stack contents and length, error set or not, isKey set or not, leftover
   input, any pool), then iterating: the same tokens (Value, Delim, Depth, Index, IsKey, Kind, Remaining) and the same
   final state (Err, isKey, live stack) as a new tokenizer on b *)
Theorem reset_like_new : reset_like_new_statement.
Proof. exact TokenReuseProofs.reset_like_new. Qed.

(* NewTokenizer(b) with the pool in any condition (stacks of any capacity, contents and length -- releaseStack does not
   truncate --, or none): the same as with an unused pool *)
Theorem pooled_like_new : pooled_like_new_statement.
Proof. exact TokenReuseProofs.pooled_like_new. Qed.

(* whatever sync.Pool hands out, acquireStack returns a well-formed stack of length 0 *)
Theorem acquire_empty : acquire_empty_statement.
Proof. exact TokenReuseProofs.abs_acquire. Qed.

(* after every sequence of Reset / partial iteration / reuse of one tokenizer value, Reset(b) behaves like new *)
Theorem history_like_new : history_like_new_statement.
Proof. exact TokenReuseProofs.history_like_new. Qed.

(* Reset(b) produces the very state NewTokenizer(b) produces, up to the pool contents *)
Theorem reset_is_new : reset_is_new_statement.
Proof. exact TokenReuseProofs.reset_is_new. Qed.

(* once Err is set Next returns false and changes nothing at all (fields, stack, pool) ... *)
Theorem err_sticky_c : err_sticky_c_statement.
Proof. exact TokenReuseProofs.err_sticky_c. Qed.

(* ... for any number of further calls ... *)
Theorem err_sticky_steps : err_sticky_steps_statement.
Proof. exact TokenReuseProofs.err_sticky_steps. Qed.

(* ... Next never clears it ... *)
Theorem err_only_reset : err_only_reset_statement.
Proof. exact TokenReuseProofs.err_only_reset. Qed.

(* ... and Reset clears it together with every other field *)
Theorem reset_clears_err : reset_clears_err_statement.
Proof. exact TokenReuseProofs.reset_clears_err. Qed.

(* the exact token stream of a valid document and termination / sub-slice positions for every byte string, for a tokenizer
   Reset from any state *)
Theorem reset_tokens_exact : reset_tokens_exact_statement.
Proof. exact TokenReuseProofs.reset_tokens_exact. Qed.
Theorem reset_total : reset_total_statement.
Proof. exact TokenReuseProofs.reset_total. Qed.
