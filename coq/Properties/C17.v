(* C17 -- json.Tokenizer enumerates exactly the tokens of the document.
   The tokenizer model (Json/StreamModel.v: t_next, tokenize) is hand-written and tied to /repo/json/token.go by
   correspondence on every run; its scanner (json_decoder_parseValue etc.) is the REGENERATED translation.
   The token specification (Json/StateSpec.v: g_tokens/spec_tokens) is derived from the RFC 8259 grammar alone. *)
From Verif Require Import Base.GoInt Json.Ext Json.StreamModel Json.StateSpec Json.TokenProofs.

(* every valid document: exactly the specification's delimiters and scalars, in order, with Depth, Index, IsKey
   of every scalar and opening delimiter, and no error *)
Theorem tokens_exact : tokens_exact_statement.
Proof. exact TokenProofs.tokens_exact. Qed.

(* the specification's token values concatenate to the compacted document *)
Theorem tokens_concat : tokens_concat_statement.
Proof. exact TokenProofs.tokens_concat. Qed.

(* EVERY byte string: termination within S (length b) calls of Next, no out-of-range access, and each Value is the
   sub-slice of the input that ends Remaining bytes before its end *)
Theorem tok_total : tok_total_statement.
Proof. exact TokenProofs.tok_total. Qed.

(* once the error is set Next keeps returning false and changes nothing *)
Theorem err_sticky : err_sticky_statement.
Proof. exact TokenProofs.err_sticky. Qed.
