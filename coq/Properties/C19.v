(* C19 -- proto rewriters replace exactly the templated fields.
   The rewriter model (Proto/RewriteModel.v: Parse, Append, fieldset, msg_rewrite, embed_splice, bitOr, rewrite)
   is hand-written from /repo/proto/rewrite.go and message.go over the MACHINE-TRANSLATED wire primitives of
   Generated/ProtoGen.v, and is tied to the code on every run by correspondence: the Rewriter the library really
   built (read by reflection) is run by the extracted model on the same bytes. The abstract rewrite on field
   lists and all statements are in Proto/RewriteSpec.v. *)
From Verif Require Import Base.GoInt Proto.Ext Generated.ProtoGen Proto.PrimSpec.
From Verif Require Import Proto.RewriteModel Proto.RewriteSpec Proto.RewriteWire Proto.RewriteSet Proto.RewriteProofs.

(* EVERY byte string (shorter than 2^62), every rewriter whose entries have a bit in the seen-set: the model returns
   exactly what the abstract rewrite on field lists says, appended to out, or an error exactly when the abstract
   rewrite has none; no panic, no fuel exhaustion *)
Theorem rewrite_refines : rewrite_refines_statement.
Proof. exact RewriteProofs.rewrite_refines. Qed.

(* full strength (no panic for ANY rewriter) is false: MessageRewriter{256: ...} indexes past its seen-set *)
Theorem rewrite_no_panic_refuted : ~ rewrite_no_panic_statement.
Proof. exact RewriteSet.rewrite_no_panic_refuted. Qed.

(* strongest true variant: no panic and termination whenever every entry has a bit in the seen-set *)
Theorem rewrite_no_panic_partial : rewrite_no_panic_partial_statement.
Proof. exact RewriteProofs.rewrite_no_panic_partial. Qed.

(* which lengths have a large enough seen-set: all up to 256; beyond, only (n+1) mod 64 in {0, 1, 63} *)
Theorem seen_bits_spec : seen_bits_statement.
Proof. exact RewriteSet.seen_bits_spec. Qed.

(* a regular message rewriter on a valid message: the output is a valid message; the fields of numbers the
   rewriter does not mention are those of the input, same values, same order; the fields of a templated number are
   exactly what its rewriter emits for the first value of that number in the input (or for the empty value) *)
Theorem rewrite_output : rewrite_output_statement.
Proof. exact RewriteProofs.rewrite_output. Qed.

(* the same read off the model's own result (refinement and output shape composed) *)
Theorem rewrite_message : rewrite_message_statement.
Proof. exact RewriteProofs.rewrite_message. Qed.

(* hence byte-identical untouched fields when re-encoded canonically *)
Theorem rewrite_canonical : rewrite_canonical_statement.
Proof. exact RewriteProofs.rewrite_canonical. Qed.

(* what a slot emits: the constant; the sub-message rewritten recursively behind tag and length (nothing when empty);
   the or-ed varint *)
Theorem emit_kinds : emit_kinds_statement.
Proof. exact RewriteProofs.emit_kinds. Qed.

(* the or-ed value read back with the field's codec is value | mask for int32/int64/uint32/uint64 fields *)
Theorem bitor_value_spec : bitor_value_statement.
Proof. exact RewriteSet.bitor_value_spec. Qed.

(* on a zig-zag field the same claim is false (stored 4, mask 1: reads back 9) ... *)
Theorem bitor_zigzag_refuted : ~ bitor_zigzag_statement.
Proof. exact RewriteSet.bitor_zigzag_refuted. Qed.

(* ... what is computed is the zig-zag form of the stored value or-ed with the mask *)
Theorem bitor_zigzag_actual : bitor_zigzag_actual_statement.
Proof. exact RewriteSet.bitor_zigzag_actual. Qed.

(* valid messages: Parse never panics on a byte string, consumes at least a byte, returns well-formed fields *)
Theorem Parse_total : Parse_total_statement.
Proof. exact RewriteWire.Parse_total. Qed.

(* model artefact recorded: without the length bound the model of Parse reaches a negative slice bound *)
Theorem Parse_total_unbounded_refuted : ~ Parse_total_unbounded_statement.
Proof. exact RewriteWire.Parse_total_unbounded_refuted. Qed.

(* the canonical encoding of any well-formed field list parses back to it; Append writes the canonical encoding *)
Theorem fields_of_enc : fields_of_enc_statement.
Proof. exact RewriteWire.fields_of_enc. Qed.
Theorem fields_of_total : fields_of_total_statement.
Proof. exact RewriteWire.fields_of_total. Qed.
Theorem Append_spec : Append_spec_statement.
Proof. exact RewriteWire.Append_spec. Qed.
(* the varint constants of the template compiler (FieldNumber.Int64 etc.) are canonical single fields *)
Theorem AppendVarint_spec : AppendVarint_spec_statement.
Proof. exact RewriteWire.AppendVarint_spec. Qed.

(* the seen-set bitmap behaves as a set on its allocated range and indexes out of range beyond it;
   the in-place splice of tag and length in front of a rewritten sub-message *)
Theorem fieldset_spec : fieldset_statement.
Proof. exact RewriteSet.fieldset_spec. Qed.
Theorem embed_splice_w : embed_splice_w_statement.
Proof. exact RewriteSet.embed_splice_w. Qed.
