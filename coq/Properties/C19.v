(* C19 -- proto rewriters replace exactly the templated fields.
   The rewriter model (Proto/RewriteModel.v: Parse, Append, fieldset, msg_rewrite, embed_splice, bitOr, rewrite)
   is hand-written from /repo/proto/rewrite.go and message.go over the MACHINE-TRANSLATED wire primitives of
   Generated/ProtoGen.v, and is tied to the code on every run by correspondence: the Rewriter the library really
   built (read by reflection) is run by the extracted model on the same bytes. The abstract rewrite on field
   lists and all statements are in Proto/RewriteSpec.v. *)
From Verif Require Import Base.GoInt Proto.Ext Generated.ProtoGen Proto.PrimSpec.
From Verif Require Import Proto.RewriteModel Proto.RewriteSpec Proto.RewriteWire Proto.RewriteSet Proto.RewriteProofs.

(* EVERY byte string (shorter than 2^62), EVERY rewriter: the model returns exactly what the abstract rewrite on
   field lists says, appended to out, or an error exactly when the abstract rewrite has none *)
Theorem rewrite_refines : rewrite_refines_statement.
Proof. exact RewriteProofs.rewrite_refines. Qed.

(* full strength: no panic (no slice bound, no seen-set index out of range) and termination for every rewriter *)
Theorem rewrite_no_panic : rewrite_no_panic_statement.
Proof. exact RewriteProofs.rewrite_no_panic. Qed.

(* because the seen-set has a bit for every index of a MessageRewriter of any length, at every level *)
Theorem seen_bits_spec : seen_bits_statement.
Proof. exact RewriteSet.seen_bits_spec. Qed.
Theorem fits_all : fits_all_statement.
Proof. exact RewriteProofs.fits_all. Qed.

(* a regular message rewriter on a valid message: the output is a valid message; the fields of numbers the
   rewriter does not mention are those of the input, same values, same order; the fields of a templated number are
   exactly what its rewriter emits for the first value of that number in the input (or for the empty value) *)
Theorem rewrite_output : rewrite_output_statement.
Proof. exact RewriteProofs.rewrite_output. Qed.

(* the same read off the model's own result (refinement and output shape composed) *)
Theorem rewrite_message : rewrite_message_statement.
Proof. exact RewriteProofs.rewrite_message. Qed.

(* hence byte-identical untouched fields when re-encoded canonically *)
Theorem rewrite_canonical : rewrite_canonical_statement.
Proof. exact RewriteProofs.rewrite_canonical. Qed.

(* what a slot emits: the constant; the sub-message rewritten recursively behind tag and length (nothing when empty);
   the or-ed number as a varint or fixed-width field *)
Theorem emit_kinds : emit_kinds_statement.
Proof. exact RewriteProofs.emit_kinds. Qed.

(* bit-or, for T the Go type of the field and every kind BitOrRewriter accepts (int32, int64, sint32, sint64, uint32,
   uint64, fixed32, fixed64, sfixed32, sfixed64): the number written is the field's encoding of value | mask when the
   input number is the field's encoding of value *)
Theorem bitor_roundtrip : bitor_roundtrip_statement.
Proof. exact RewriteSet.bitor_roundtrip. Qed.

(* the field a bit-or rewriter writes is one canonical field of its number: varint, or 4 / 8 little-endian bytes *)
Theorem bitor_field_spec : bitor_field_statement.
Proof. exact RewriteProofs.bitor_field_spec. Qed.

(* valid messages: Parse never panics on a byte string, consumes at least a byte, returns well-formed fields *)
Theorem Parse_total : Parse_total_statement.
Proof. exact RewriteWire.Parse_total. Qed.

(* model artefact recorded: without the length bound the model of Parse reaches a negative slice bound *)
Theorem Parse_total_unbounded_refuted : ~ Parse_total_unbounded_statement.
Proof. exact RewriteWire.Parse_total_unbounded_refuted. Qed.

(* the canonical encoding of any well-formed field list parses back to it; Append writes the canonical encoding *)
Theorem fields_of_enc : fields_of_enc_statement.
Proof. exact RewriteWire.fields_of_enc. Qed.
Theorem fields_of_total : fields_of_total_statement.
Proof. exact RewriteWire.fields_of_total. Qed.
Theorem Append_spec : Append_spec_statement.
Proof. exact RewriteWire.Append_spec. Qed.
(* the varint constants of the template compiler (FieldNumber.Int64 etc.) are canonical single fields *)
Theorem AppendVarint_spec : AppendVarint_spec_statement.
Proof. exact RewriteWire.AppendVarint_spec. Qed.

(* the seen-set bitmap behaves as a set on its allocated range and indexes out of range beyond it;
   the in-place splice of tag and length in front of a rewritten sub-message *)
Theorem fieldset_spec : fieldset_statement.
Proof. exact RewriteSet.fieldset_spec. Qed.
Theorem embed_splice_w : embed_splice_w_statement.
Proof. exact RewriteSet.embed_splice_w. Qed.
