(* C10 -- json memory ownership: inputs untouched, results stable, aliasing opt-in.
   The memory model (Json/MemModel.v) is hand-written: part 1 (provenance of every decoded leaf) follows decode.go
   and parse.go line by line, uses the REGENERATED parseString and flag constants, and is tied to /repo on every run
   by the aliasing map of the harness (pointer-range tests on the real decoded values); part 2 (regions and
   operations) transcribes the order of the steps of Marshal, Encoder.Encode and Decoder.readValue.
   Goroutine scheduling, the garbage collector and sync.Pool itself are not modelled: the harness observes them. *)
From Verif Require Import Base.GoInt Json.Ext Json.MemModel Json.MemSpec Json.MemProofs.

(* every flags word, every document, every target shape: a decoded string / Number / RawMessage / map key /
   interface{} content lives in the source buffer only if the zero-copy flag of its kind is set *)
Theorem leaves_allowed : leaves_allowed_statement.
Proof. exact MemProofs.leaves_allowed. Qed.

(* with none of the three bits nothing is shared with the source buffer *)
Theorem no_flag_no_alias : no_flag_no_alias_statement.
Proof. exact MemProofs.no_flag_no_alias. Qed.

(* Unmarshal (flag word 0): every leaf is fresh or empty *)
Theorem unmarshal_no_alias : unmarshal_no_alias_statement.
Proof. exact MemProofs.unmarshal_no_alias. Qed.

(* decoded []byte values never share memory, whatever the flags *)
Theorem bytes_never_alias : bytes_never_alias_statement.
Proof. exact MemProofs.bytes_never_alias. Qed.

(* ANY interleaving of Marshal / Encode steps on any goroutines, Unmarshal / Parse calls, Decoder refills
   (compaction, regrowth) and Decode calls, Tokenizer.String calls and writes by the caller: the library never
   writes into a region it has given to the caller as its own, and never into a buffer the caller lent *)
Theorem history_safe : history_safe_statement.
Proof. exact MemProofs.history_safe. Qed.

(* in every such history: what is given as owned is a fresh allocation; the caller's input or a Decoder read
   buffer is given only as shared and only under the flag of the leaf's kind; a pooled buffer is never given *)
Theorem gives : gives_statement.
Proof. exact MemProofs.gives. Qed.

(* in every such history a pooled encode buffer is in the pool or held by exactly one goroutine *)
Theorem pool_exclusive : pool_exclusive_statement.
Proof. exact MemProofs.pool_exclusive. Qed.

(* a goroutine writes into a pooled buffer only while it holds it *)
Theorem pool_writer : pool_writer_statement.
Proof. exact MemProofs.pool_writer. Qed.

(* only pooled buffers are ever lent to an io.Writer *)
Theorem lend_only_pool : lend_only_pool_statement.
Proof. exact MemProofs.lend_only_pool. Qed.
