(* C13 -- thrift bytes follow the binary and compact protocol specifications.
   [spec_enc] (Thrift/Spec.v) is a transcription of the two specification documents; the package's encoder model
   equals it modulo three recorded deviations, and differs from it without them. *)
From Verif Require Import Base.GoInt Thrift.Model Thrift.Spec Thrift.ProofsA.

(* the full statement is false on the faithful model (witnesses: I32 field in the binary protocol, double in the compact one) *)
Theorem t_conforms_refuted : t_conforms_refuted_statement.
Proof. exact ProofsA.t_conforms_refuted. Qed.

(* with the recorded deviations (binary type codes, 3-byte binary stop field, big-endian compact doubles) switched on in
   the transcription, every byte agrees for every supported type and value, both protocols *)
Theorem t_conforms_partial : t_conforms_partial_statement.
Proof. exact ProofsA.t_conforms_partial. Qed.
