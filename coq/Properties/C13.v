(* C13 -- thrift bytes follow the binary and compact protocol specifications.
   [spec_enc] (Thrift/Spec.v) is a transcription of the two specification documents; the package's encoder model
   equals it modulo three recorded deviations, and differs from it without them. *)
From Verif Require Import Base.GoInt Thrift.Model Thrift.Spec Thrift.ProofsA.

(* the full statement is false on the faithful model (witnesses: I32 field in the binary protocol, double in the compact one) *)
Theorem t_conforms_refuted : t_conforms_refuted_statement.
Proof. exact ProofsA.t_conforms_refuted. Qed.

(* with the recorded deviations (binary type codes, 3-byte binary stop field, big-endian compact doubles) switched on in
   the transcription, every byte agrees for every supported type and value, both protocols *)
Theorem t_conforms_partial : t_conforms_partial_statement.
Proof. exact ProofsA.t_conforms_partial. Qed.

(* ---- decode side: all alternative conformant encodings (Thrift/SpecC.v, proofs in Thrift/ProofsC.v) ---- *)
From Verif Require Import Thrift.SpecC Thrift.ProofsC.

(* EVERY alternative conformant compact encoding -- for every field header and every list / set header that has a short
   form, the long form instead, in any combination (every choice oracle) -- of every value of every supported type is
   accepted by Unmarshal with the very result obtained from the bytes Marshal writes, the value up to tnorm *)
Theorem t_alt_accept : t_alt_accept_statement.
Proof. exact ProofsC.t_alt_accept. Qed.

(* with no long form chosen the alternative encoder is the transcription spec_enc in the package dialect ... *)
Theorem t_alt_short : t_alt_short_statement.
Proof. exact ProofsC.t_alt_short. Qed.

(* ... hence the bytes Marshal writes *)
Theorem t_alt_short_marshal : t_alt_short_marshal_statement.
Proof. exact ProofsC.t_alt_short_marshal. Qed.

(* and the alternatives are real: some oracle gives bytes Marshal does not write *)
Theorem t_alt_differs : t_alt_differs_statement.
Proof. exact ProofsC.t_alt_differs. Qed.

From Verif Require Import Thrift.SpecD.
From Verif Require Thrift.ProofsD.
(* a list / set of bools whose header carries the item type TRUE instead of BOOL decodes alike *)
Theorem t_bool_list_true : t_bool_list_true_statement. Proof. exact ProofsD.t_bool_list_true. Qed.
