(* C11 -- placeholder while the proofs are being built *)
From Verif Require Import Base.GoInt Json.StreamModel.
