(* C11 -- json.Decoder and Parse frame a byte stream into exactly its values, however the bytes arrive.
   The Decoder model (Json/StreamModel.v: read_full, read_value, decode_all over reader scripts) is hand-written and
   tied to /repo/json/json.go Decoder.readValue by correspondence on every run; the scanner it calls is the
   REGENERATED translation of json/parse.go. The value stream specification (Json/StateSpec.v: frame) is derived
   from the RFC 8259 grammar alone. *)
From Verif Require Import Base.GoInt Json.Ext Json.StreamModel Json.StateSpec Json.StreamProofs.

(* EVERY reader script (any chunking, zero-length reads) ending with io.EOF: exactly the values of the concatenated
   bytes, then io.EOF at a clean end and an error other than io.EOF (never fuel exhaustion) otherwise *)
Theorem stream_independent : stream_independent_statement.
Proof. exact StreamProofs.stream_independent. Qed.

(* two scripts carrying the same bytes yield the same values AND the same terminal condition *)
Theorem chunking_irrelevant : chunking_irrelevant_statement.
Proof. exact StreamProofs.chunking_irrelevant. Qed.

(* a reader that fails: a prefix of the values, then the reader's error or a syntax error met earlier *)
Theorem stream_failing : stream_failing_statement.
Proof. exact StreamProofs.stream_failing. Qed.

(* InputOffset never decreases, for every script and terminal condition *)
Theorem offset_monotone : offset_monotone_statement.
Proof. exact StreamProofs.offset_monotone. Qed.
