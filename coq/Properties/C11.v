(* C11 -- json.Decoder and Parse frame a byte stream into exactly its values, however the bytes arrive.
   The Decoder model (Json/StreamModel.v: read_full, read_value, decode_all over reader scripts) is hand-written and
   tied to /repo/json/json.go Decoder.readValue by correspondence on every run; the scanner it calls is the
   REGENERATED translation of json/parse.go. The value stream specification (Json/StateSpec.v: frame) is derived
   from the RFC 8259 grammar alone. *)
From Verif Require Import Base.GoInt Json.Ext Json.StreamModel Json.StateSpec Json.StreamProofs.

(* EVERY reader script (any chunking, zero-length reads) ending with io.EOF: exactly the values of the concatenated
   bytes, then io.EOF at a clean end and an error other than io.EOF (never fuel exhaustion) otherwise *)
Theorem stream_independent : stream_independent_statement.
Proof. exact StreamProofs.stream_independent. Qed.

(* two scripts carrying the same bytes yield the same values AND the same terminal condition *)
Theorem chunking_irrelevant : chunking_irrelevant_statement.
Proof. exact StreamProofs.chunking_irrelevant. Qed.

(* a reader that fails: a prefix of the values, then the reader's error or a syntax error met earlier *)
Theorem stream_failing : stream_failing_statement.
Proof. exact StreamProofs.stream_failing. Qed.

(* InputOffset never decreases, for every script and terminal condition *)
Theorem offset_monotone : offset_monotone_statement.
Proof. exact StreamProofs.offset_monotone. Qed.

(* ---- positions: InputOffset, Buffered, the remainder of Parse (Json/StreamExtraSpec.v, Json/StreamExtraProofs.v) ---- *)
From Verif Require Import Json.StreamExtraSpec Json.StreamExtraProofs.

(* the rests the grammar leaves after each value of a stream (frame_rests) are those of frame: frame's values are the
   bytes between consecutive rests *)
Theorem frame_rests_values : frame_rests_values_statement.
Proof. exact StreamExtraProofs.frame_rests_values. Qed.

(* each rest is the suffix of the data at value_end (the end e_k of the value before it); its white-space run ends at
   next_start (the start s_k+1 of the next value, or the end of the data); e_k <= s_k+1 <= len data *)
Theorem frame_rests_positions : frame_rests_positions_statement.
Proof. exact StreamExtraProofs.frame_rests_positions. Qed.

(* EVERY clean reader script (any chunking), either terminal condition: one offset per value returned, and InputOffset
   after the k-th successful Decode satisfies e_k <= InputOffset <= s_k+1 *)
Theorem offset_range : offset_range_statement.
Proof. exact StreamExtraProofs.offset_range. Qed.

(* the states kept by all_states are those decode_all goes through (same offsets) *)
Theorem all_states_offsets : all_states_offsets_statement.
Proof. exact StreamExtraProofs.all_states_offsets. Qed.

(* after each successful Decode: Buffered (dec.remain) followed by the bytes the reader has not delivered is exactly the
   input from InputOffset on *)
Theorem buffered_unconsumed : buffered_statement.
Proof. exact StreamExtraProofs.buffered_stmt. Qed.

(* ... and it is the rest of the data after the value just returned, less a prefix of its leading white space *)
Theorem buffered_rest : buffered_rest_statement.
Proof. exact StreamExtraProofs.buffered_rest. Qed.

(* the framing of json.Parse (parse_frame, over the translated internalParseFlags / skipSpaces / parseValue): when the
   first value is grammatical the remainder is exactly the bytes after it and its trailing white space, without error;
   otherwise an error is returned *)
Theorem parse_remainder : parse_remainder_statement.
Proof. exact StreamExtraProofs.parse_remainder. Qed.

(* hence an empty remainder without error (what Unmarshal requires) exactly for the JSON texts of the grammar *)
Theorem parse_unmarshal : parse_unmarshal_statement.
Proof. exact StreamExtraProofs.parse_unmarshal. Qed.
