(* C07 -- proto decoding is total.
   [decode] of Proto/Model.v checks every slice expression of the Go decoder (struct.go, slice.go,
   map.go, bytes.go, message.go): a violated bound is [Panic]. The wire primitives are the
   machine-translated ones. *)
From Verif Require Import Base.GoInt Proto.Ext Generated.ProtoGen Proto.Model Proto.PrimSpec Proto.Spec Proto.DecProofs.

(* for every supported type, EVERY byte string, any prior value and flags: decode returns (never panics,
   terminates within fuel linear in the input length), having consumed 0 <= n bytes *)
Theorem decode_total : decode_total_statement.
Proof. exact DecProofs.decode_total. Qed.

Theorem unmarshal_total : unmarshal_total_statement.
Proof. exact DecProofs.unmarshal_total. Qed.

(* proto.Scan / proto.Parse (field-level scanner, proto/message.go): EVERY byte string yields fields or an error within
   len(b) iterations, never an out-of-range slice. Model: Proto/RewriteModel.v Parse + Proto/ScanModel.v, tied to the
   code by correspondence on every byte string the harness generates (p.scan cases). *)
From Verif Require Proto.ScanModel Proto.ScanProofs.
Theorem scan_total : Proto.ScanModel.scan_total_statement.
Proof. exact Proto.ScanProofs.scan_total. Qed.
