(* C07 -- proto decoding is total.
   [decode] of Proto/Model.v checks every slice expression of the Go decoder (struct.go, slice.go,
   map.go, bytes.go, message.go): a violated bound is [Panic]. The wire primitives are the
   machine-translated ones. *)
From Verif Require Import Base.GoInt Proto.Ext Generated.ProtoGen Proto.Model Proto.PrimSpec Proto.Spec Proto.DecProofs.

(* for every supported type, EVERY byte string, any prior value and flags: decode returns (never panics,
   terminates within fuel linear in the input length), having consumed 0 <= n bytes *)
Theorem decode_total : decode_total_statement.
Proof. exact DecProofs.decode_total. Qed.

Theorem unmarshal_total : unmarshal_total_statement.
Proof. exact DecProofs.unmarshal_total. Qed.

(* proto.Scan / proto.Parse (field-level scanner, proto/message.go): EVERY byte string yields fields or an error within
   len(b) iterations, never an out-of-range slice. Model: Proto/RewriteModel.v Parse + Proto/ScanModel.v, tied to the
   code by correspondence on every byte string the harness generates (p.scan cases). *)
From Verif Require Proto.ScanModel Proto.ScanProofs.
Theorem scan_total : Proto.ScanModel.scan_total_statement.
Proof. exact Proto.ScanProofs.scan_total. Qed.

(* ---- unknown fields are skipped (Proto/UnknownSpec.v, Proto/UnknownProofs.v) ----
   Vocabulary, independent of the struct decoder: [is_field num wt u] = u is exactly one field (tag varint for
   num*8+wt, minimal or padded, then a complete payload of wire type varint / fixed64 / length-delimited / fixed32);
   [fields_seq b1] = b1 is a sequence of complete fields; [declared t] = the numbers the compiled struct type matches
   on (struct tag or position, truncated to 16 bits as the package stores them). Proved directly on the struct decode
   loop of the model, not through the wire specification of C12: byte arrays, RawMessage fields, maps with pointer
   values, forced fixed-width codecs, zigzag tags are all covered (hypothesis: type_ok only). *)
From Verif Require Proto.UnknownSpec Proto.UnknownProofs.
(* struct decoder level, any prior value of the target and any flags: inserting a complete field with an undeclared
   number (0 and numbers above 2^16 included) at ANY field boundary of b1 ++ b2 (b2 arbitrary, possibly malformed;
   the fields of b1 known or unknown, decodable or not) leaves error class, value (with an error: the partially updated
   target) unchanged; without error both inputs are consumed entirely *)
Theorem unknown_insert_decode : Proto.UnknownSpec.unknown_insert_decode_statement.
Proof. exact Proto.UnknownProofs.unknown_insert_decode. Qed.
(* through Unmarshal: the same result (Some value, or error) -- for a non-empty message or a zero target *)
Theorem unknown_insert : Proto.UnknownSpec.unknown_insert_statement.
Proof. exact Proto.UnknownProofs.unknown_insert. Qed.
(* without that proviso the statement is FALSE (model and Go code): Unmarshal(empty) resets a non-zero target to zero,
   Unmarshal(unknown fields only) leaves it as it was. Witness: struct{A int64} holding 3, input 48 01 (field 9) *)
Theorem unknown_insert_any_target_refuted : ~ Proto.UnknownSpec.unknown_insert_any_target_statement.
Proof. exact Proto.UnknownProofs.unknown_insert_any_target_refuted. Qed.
(* insertion inside embedded messages at any depth ([widened]: nested structs behind any number of pointers, elements
   of repeated message fields, map entry messages with a non-empty payload), the length prefix of every enclosing
   field re-encoded minimal or padded: same error class or none, same value, both consumed entirely.
   Needs numbers_ok (distinct field numbers) to name the enclosing field *)
Theorem unknown_nested_decode : Proto.UnknownSpec.unknown_nested_decode_statement.
Proof. exact Proto.UnknownProofs.unknown_nested_decode. Qed.
Theorem unknown_nested : Proto.UnknownSpec.unknown_nested_statement.
Proof. exact Proto.UnknownProofs.unknown_nested. Qed.
(* any number of such insertions, one after the other *)
Theorem unknown_nested_many : Proto.UnknownSpec.unknown_nested_many_statement.
Proof. exact Proto.UnknownProofs.unknown_nested_many. Qed.
(* FALSE when the payload of a map entry is empty: the package ignores an empty entry (it writes an empty map as one),
   but reads an entry holding only an unknown field as the entry (zero key -> zero value).
   Witness: struct{M map[string]int64}, 0a 00 against 0a 02 48 01 *)
Theorem unknown_nested_any_refuted : ~ Proto.UnknownSpec.unknown_nested_any_statement.
Proof. exact Proto.UnknownProofs.unknown_nested_any_refuted. Qed.
(* field boundaries are exactly the points proto.Scan reaches: Scan walks b to its end without error iff b is a
   sequence of complete fields *)
Theorem scan_boundary : Proto.UnknownSpec.scan_boundary_statement.
Proof. exact Proto.UnknownProofs.scan_boundary. Qed.
Theorem scan_accepts_fields : Proto.UnknownSpec.scan_accepts_fields_statement.
Proof. exact Proto.UnknownProofs.scan_accepts_fields. Qed.
(* the vocabulary is inhabited: canonical varints, tags and payloads are fields *)
Theorem canonical_fields : Proto.UnknownSpec.canonical_fields_statement.
Proof. exact Proto.UnknownProofs.canonical_fields. Qed.
(* the route through the specification of C12, as a corollary of c12_unmarshal_reads_every_legal_encoding: two legal
   encodings of one message (unknown records of numbers 1..max at the top level and inside every embedded message,
   though not directly inside a map entry, are part of [reencodes]) decode to the same value up to nil-versus-empty.
   Covers only plain, tags_sane, zz_struct_ok struct types, a zero target and successful decoding *)
Theorem c12_legal_encodings_agree : Proto.UnknownProofs.c12_legal_encodings_agree_statement.
Proof. exact Proto.UnknownProofs.c12_legal_encodings_agree. Qed.
