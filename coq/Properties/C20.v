(* C20 -- ascii predicates equal their byte-wise definitions at every length.
   ascii_* are REGENERATED from /repo/ascii/*.go (Generated/AsciiGen.v) and delegate to asm_*,
   REGENERATED from the purego sources of github.com/segmentio/asm v1.1.3 (Generated/AsmAsciiGen.v). *)
From Verif Require Import Base.GoInt Generated.AsmAsciiGen Ascii.AsmTotal Generated.AsciiGen Ascii.Spec Ascii.Proofs.

Theorem valid_spec : valid_statement.
Proof. exact Proofs.valid_spec. Qed.
Theorem valid_print_spec : valid_print_statement.
Proof. exact Proofs.valid_print_spec. Qed.
Theorem equal_fold_spec : equal_fold_statement.
Proof. exact Proofs.equal_fold_spec. Qed.
Theorem has_prefix_fold_spec : has_prefix_fold_statement.
Proof. exact Proofs.has_prefix_fold_spec. Qed.
Theorem has_suffix_fold_spec : has_suffix_fold_statement.
Proof. exact Proofs.has_suffix_fold_spec. Qed.
Theorem byte_rune_spec : byte_rune_statement.
Proof. exact Proofs.byte_rune_spec. Qed.
Theorem fuel_enough : fuel_enough_statement.
Proof. exact Proofs.fuel_enough. Qed.
Theorem lower_table : lower_table_statement.
Proof. exact Proofs.lower_table. Qed.

(* the length bound len s < 2^63 (every Go string satisfies it) is necessary: *)
Theorem valid_unbounded_refuted : ~ valid_statement_unbounded.
Proof. exact Proofs.valid_statement_needs_bound. Qed.
Theorem valid_print_unbounded_refuted : ~ valid_print_statement_unbounded.
Proof. exact Proofs.valid_print_statement_needs_bound. Qed.
Theorem has_suffix_fold_unbounded_refuted : ~ has_suffix_fold_statement_unbounded.
Proof. exact Proofs.has_suffix_fold_statement_needs_bound. Qed.
