(* C18 -- iso8601.Parse agrees with time.Parse(RFC3339Nano); Valid is its grammar.
   Statements only; proofs live in Iso8601/Proofs.v. The definitions iso8601_Parse,
   iso8601_Valid, iso8601_daysSinceEpoch, iso8601_validate are REGENERATED from
   /repo/iso8601/*.go on every run (Generated/Iso8601Gen.v). *)
From Verif Require Import Base.GoInt Iso8601.Ext Generated.Iso8601Gen Iso8601.Spec Iso8601.Proofs.

(* Parse succeeds exactly when time.Parse succeeds, with the same instant, nanoseconds and zone offset,
   for EVERY byte string. *)
Theorem parse_agrees : parse_agrees_statement.
Proof. exact Proofs.parse_agrees. Qed.

(* the closed-form day count equals the civil calendar for every date of years 0000-9999 *)
Theorem civil_days : civil_days_statement.
Proof. exact Proofs.civil_days. Qed.

(* sanity of the specification side: the closed form for leap years counts is_leap *)
Theorem leaps_before_step : leaps_before_step_statement.
Proof. exact Proofs.leaps_before_step. Qed.

(* range validation is exactly the calendar's *)
Theorem validate_exact : validate_exact_statement.
Proof. exact Proofs.validate_exact. Qed.

(* Valid(s, flags) holds exactly when s is in the grammar, for every string and every flag word;
   in particular it terminates (never runs out of fuel 10). *)
Theorem valid_grammar : valid_grammar_statement.
Proof. exact Proofs.valid_grammar. Qed.
