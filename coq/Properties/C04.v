(* C04 -- thrift: Unmarshal(Marshal(v)) == v for the binary and compact protocols.
   Model: Thrift/Model.v (hand-written, tied by correspondence on random struct types). *)
From Verif Require Import Base.GoInt Thrift.Model Thrift.Spec Thrift.ProofsB Thrift.RoundTripCorollaries.

(* for both protocols (strict and non-strict binary differ only in message headers, which the struct codec does not
   use), every supported struct type (field ids in any order and spacing, required/optional/enum, bools in nested and
   pointer positions, lists, sets, maps, nested and pointer-to structs) and every value whose required fields are set *)
Theorem t_roundtrip : t_roundtrip_statement.
Proof. exact ProofsB.t_roundtrip. Qed.

(* the two protocols decode each other's logical content to the same value *)
Theorem t_cross_protocol : t_cross_protocol_statement.
Proof. exact ProofsB.t_cross_protocol. Qed.

(* the round trip holds for EVERY fuel above the explicit bound len(Marshal(v)) + depth(type), not just for some fuel *)
Theorem t_roundtrip_any_fuel : t_roundtrip_any_fuel_statement.
Proof. exact RoundTripCorollaries.t_roundtrip_any_fuel. Qed.

(* Marshal is injective up to tnorm: two values of the universe with the same bytes are the same value *)
Theorem t_marshal_injective : t_marshal_injective_statement.
Proof. exact RoundTripCorollaries.t_marshal_injective. Qed.
