(* C06 -- json never panics, faults, overflows the stack or hangs.
   Encode side: the cycle detection of the encoder (json/codec.go enterCycle/leaveCycle and its callers in
   json/encode.go) is modelled by hand over abstract heap graphs (Json/CycleModel.v) and tied to /repo on every run by
   correspondence: the harness builds cyclic, shared and deep Go values, reads the heap graph back by reflection,
   and the extracted model must give the verdict of the real encoder, down to the object that reports the cycle.
   Decode side: corollaries of C05 / C17 / C11 about the REGENERATED translation of json/parse.go and the
   Tokenizer / Decoder models. Memory faults, the Go runtime stack limit and the reflect/unsafe layer are
   observed by the harness (out-of-process), not modelled. *)
From Verif Require Import Json.CycleModel Json.CycleSpec Json.CycleProofs Json.TotalSpec Json.TotalProofs.

(* the mutable ptrSeen map with its deferred deletions behaves as a set handed down the recursion:
   when a call returns, the set is what it was (no stale entry, no lost entry), whatever the outcome *)
Theorem cycle_set_discipline : refine_statement.
Proof. exact CycleProofs.enc_refine. Qed.
Theorem cycle_depth_instrumented : instrument_statement.
Proof. exact CycleProofs.encd_fst. Qed.

(* (a) termination: EVERY well-formed finite graph, cyclic or not, every root, every threshold: a recursion depth of
   (thr + nodes + 1) * (nodes + 2) is never exhausted *)
Theorem cycle_total : total_statement.
Proof. exact CycleProofs.total. Qed.
Theorem cycle_fuel_irrelevant : fuel_irrelevant_statement.
Proof. exact CycleProofs.fuel_irrelevant. Qed.

(* (b) soundness: a reported cycle is a cycle, reachable from the root, reported at a pointer, slice or map; hence no
   false positive on acyclic graphs, however much sharing they have *)
Theorem cycle_sound : sound_statement.
Proof. exact CycleProofs.sound. Qed.
(* (c) completeness: the traversal completes only if no cycle is reachable *)
Theorem cycle_complete : complete_statement.
Proof. exact CycleProofs.complete. Qed.
(* together: the verdict is exactly: a cycle is reachable from the root *)
Theorem cycle_decides : decides_statement.
Proof. exact CycleProofs.decides. Qed.

(* stack safety for cyclic inputs: the number of pointers, slices and maps on the path being encoded never exceeds
   startDetectingCyclesAfter + number of tracked objects + 1, for every graph *)
Theorem cycle_depth_bound : depth_bound_statement.
Proof. exact CycleProofs.depth_bound. Qed.

(* what is NOT bounded (known finding F41): acyclic nesting. A chain of n pointers is encoded with recursion depth
   exactly n + 1, so no bound independent of the value exists *)
Theorem acyclic_depth_is_nesting_depth : chain_depth_statement.
Proof. exact CycleProofs.chain_depth. Qed.
Theorem acyclic_depth_bounded_refuted : ~ acyclic_depth_bounded_statement.
Proof. exact CycleProofs.acyclic_depth_bounded_refuted. Qed.

(* decode side: every byte string gets an answer *)
Theorem valid_total : valid_total_statement.
Proof. exact TotalProofs.valid_total. Qed.
Theorem parse_value_total : parse_value_total_statement.
Proof. exact TotalProofs.parse_value_total. Qed.
Theorem tokenizer_total : tokenizer_total_statement.
Proof. exact TotalProofs.tokenizer_total. Qed.
Theorem decoder_total : decoder_total_statement.
Proof. exact TotalProofs.decoder_total. Qed.
