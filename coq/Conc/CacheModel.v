(* Small-step interleaving model of the per-type codec caches of the three packages:
     json/codec.go   cache (atomic.Pointer to an immutable map), cacheLoad, cacheStore, constructCachedCodec,
                     constructStructType (per-construction seen map for recursive types)
     proto/proto.go  codecCache (atomic.Value), loadCachedCodec, cachedCodecOf (publishes t and pointer-to-t)
     thrift/encode.go, thrift/decode.go   encoderCache / decoderCache (atomic.Value)
     proto/reflect.go TypeOf: typesCache (atomic.Value) + typesMutex, double-checked, publishes the seen map too
   One machine, four instances (parameters G, memo, roots, lk).

   A state is shared: a heap of codec objects, a heap of map objects, the atomic pointer, the mutex, the threads.
   A schedule is a list of thread ids; one schedule entry executes ONE step of that thread. The steps that touch the
   shared pointer or the mutex are exactly the atomic operations of the Go code (atomic load, atomic store, Lock,
   Unlock); every other step is a thread-local step on objects the thread allocated itself (or a read of an
   immutable published map). Every step reports the memory events it performs.

   Abstractions (stated in the trusted base): a codec / Type / encodeFunc closure is an object with an identity, the
   type it was built for, links to the objects of its component types, and a done flag that is set when the
   constructor of that object returns; what the codec DOES with a value is a function of the unfolding of that
   object graph, so two object graphs with the same unfolding are the same codec.
   Definitions only. *)
From Coq Require Import List Arith Bool.
Import ListNotations.

Definition ty := nat.    (* a Go type (reflect.Type identity) *)
Definition oid := nat.   (* identity of a codec object *)
Definition mid := nat.   (* identity of a map object *)
Definition tid := nat.   (* goroutine *)

(* ---- objects ---- *)
Record cobj := mkC {
  c_ty : ty;             (* the type this object was built for *)
  c_kids : list oid;     (* links to the objects of the component types, in order *)
  c_done : bool;         (* its constructor has returned *)
  c_owner : tid;         (* ghost: allocating goroutine *)
  c_cid : nat            (* ghost: number of the construction (one per cache miss) that allocated it *)
}.
Record mobj := mkM {
  m_ents : list (ty * oid);   (* association list without duplicate keys: the Go map *)
  m_owner : tid               (* ghost *)
}.

Inductive loc := LC (o : oid) | LM (m : mid).
Inductive event :=
| EvAlloc (t : tid) (l : loc)
| EvRead (t : tid) (l : loc)          (* plain read *)
| EvWrite (t : tid) (l : loc)         (* plain write *)
| EvLoad (t : tid) (m : option mid)   (* atomic load of the cache pointer returned m *)
| EvStore (t : tid) (m : mid)         (* atomic store of the cache pointer *)
| EvLock (t : tid) | EvUnlock (t : tid)
| EvUse (t : tid) (o : oid).          (* the call returns object o to its caller, who goes on to read everything reachable from it *)

(* ---- association lists ---- *)
Fixpoint lookup (k : ty) (l : list (ty * oid)) : option oid :=
  match l with
  | [] => None
  | (k', v) :: r => if Nat.eqb k k' then Some v else lookup k r
  end.
Fixpoint remove_key (k : ty) (l : list (ty * oid)) : list (ty * oid) :=
  match l with
  | [] => []
  | (k', v) :: r => if Nat.eqb k k' then remove_key k r else (k', v) :: remove_key k r
  end.
(* m[k] = v *)
Definition upd (k : ty) (v : oid) (l : list (ty * oid)) : list (ty * oid) := (k, v) :: remove_key k l.
(* if _, ok := m[k]; !ok { m[k] = v } *)
Definition upd_absent (k : ty) (v : oid) (l : list (ty * oid)) : list (ty * oid) :=
  match lookup k l with Some _ => l | None => (k, v) :: l end.

Fixpoint set_nth {A} (n : nat) (x : A) (l : list A) : list A :=
  match l, n with
  | [], _ => []
  | _ :: r, O => x :: r
  | y :: r, S n' => y :: set_nth n' x r
  end.

(* ---- threads ---- *)
Inductive frame := Fr (t : ty) (o : oid) (todo : list ty).   (* constructor activation: object o for type t, components still to do *)

Record build := mkB {
  b_cid : nat;
  b_seen : list (ty * oid);     (* the per-construction seen map *)
  b_stack : list frame;
  b_roots : list ty;            (* top-level types still to construct with this seen map *)
  b_built : list (ty * oid)     (* top-level results *)
}.

Inductive pc :=
| PIdle                                                   (* between two calls *)
| PLoaded (t : ty) (snap : option mid)                    (* first atomic load done *)
| PWantLock (t : ty)                                      (* lk only: missed, about to Lock *)
| PLocked (t : ty)                                        (* lk only: holds the mutex, about to load again *)
| PLoaded2 (t : ty) (snap : option mid)                   (* lk only: second load done *)
| PBuild (t : ty) (snap : option mid) (b : build)         (* constructing *)
| PCopy (t : ty) (snap : option mid) (nm : mid) (src : list (ty * oid)) (add : list (ty * oid))
                                                          (* filling the new private map nm: entries of the snapshot still to copy, then entries to add *)
| PUnlock (t : ty) (r : oid)                              (* lk only: deferred Unlock *)
| PStuck.                                                 (* the Go code would have panicked (not reachable when t is among roots t) *)

Record thread := mkT {
  th_pc : pc;
  th_todo : list ty;              (* the calls this goroutine still makes, in order *)
  th_res : list (ty * oid)        (* completed calls, newest first: requested type, returned object *)
}.

Record state := mkS {
  s_codecs : list cobj;
  s_maps : list mobj;
  s_ptr : option mid;             (* the atomic pointer; None = nil *)
  s_mutex : option tid;           (* holder of typesMutex *)
  s_threads : list thread;
  s_ncid : nat;                   (* ghost: constructions started so far *)
  s_pubs : list mid               (* ghost: every map ever stored into the pointer, newest first *)
}.

Definition ents_of (s : state) (m : option mid) : list (ty * oid) :=
  match m with
  | None => []
  | Some i => match nth_error (s_maps s) i with Some mo => m_ents mo | None => [] end
  end.

Definition snap_reads (t : tid) (m : option mid) : list event :=
  match m with Some i => [EvRead t (LM i)] | None => [] end.

Section Machine.
Variable G : ty -> list ty.        (* component types, in construction order *)
Variable memo : ty -> bool.        (* registered in the seen map BEFORE its components are constructed *)
Variable roots : ty -> list ty.    (* on a miss for t: the types constructed with one seen map and published *)
Variable lk : bool.                (* false: lock-free copy-on-write (json, proto codecs, thrift); true: proto.TypeOf *)

Definition set_thread (s : state) (i : tid) (th : thread) : state :=
  mkS (s_codecs s) (s_maps s) (s_ptr s) (s_mutex s) (set_nth i th (s_threads s)) (s_ncid s) (s_pubs s).

Definition with_pc (th : thread) (p : pc) : thread := mkT p (th_todo th) (th_res th).

(* kids(o) += k *)
Definition add_kid (h : list cobj) (o k : oid) : list cobj :=
  match nth_error h o with
  | Some ob => set_nth o (mkC (c_ty ob) (c_kids ob ++ [k]) (c_done ob) (c_owner ob) (c_cid ob)) h
  | None => h
  end.
Definition mark_done (h : list cobj) (o : oid) : list cobj :=
  match nth_error h o with
  | Some ob => set_nth o (mkC (c_ty ob) (c_kids ob) true (c_owner ob) (c_cid ob)) h
  | None => h
  end.
Definition map_insert (ms : list mobj) (m : mid) (f : list (ty * oid) -> list (ty * oid)) : list mobj :=
  match nth_error ms m with
  | Some mo => set_nth m (mkM (f (m_ents mo)) (m_owner mo)) ms
  | None => ms
  end.

(* one thread-local construction step: returns the new codec heap, the new build state and the events *)
Definition build_step (i : tid) (h : list cobj) (b : build) : list cobj * build * list event :=
  match b_stack b with
  | [] =>
      match b_roots b with
      | [] => (h, b, [])       (* finished: handled by the caller *)
      | r :: rs =>
          match (if memo r then lookup r (b_seen b) else None) with
          | Some o => (h, mkB (b_cid b) (b_seen b) [] rs ((r, o) :: b_built b), [])
          | None =>
              let o := length h in
              (h ++ [mkC r [] false i (b_cid b)],
               mkB (b_cid b) (if memo r then (r, o) :: b_seen b else b_seen b) [Fr r o (G r)] rs (b_built b),
               [EvAlloc i (LC o)])
          end
      end
  | Fr t o [] :: stk =>
      (* the constructor of o returns: o is complete; the caller links it *)
      let h1 := mark_done h o in
      match stk with
      | [] => (h1, mkB (b_cid b) (b_seen b) [] (b_roots b) ((t, o) :: b_built b), [EvWrite i (LC o)])
      | Fr tp op todo :: stk' =>
          (add_kid h1 op o, mkB (b_cid b) (b_seen b) (Fr tp op todo :: stk') (b_roots b) (b_built b),
           [EvWrite i (LC o); EvWrite i (LC op)])
      end
  | Fr t o (c :: todo) :: stk =>
      match (if memo c then lookup c (b_seen b) else None) with
      | Some oc =>
          (* seen hit: possibly a half-built object of an enclosing activation (recursive type) *)
          (add_kid h o oc, mkB (b_cid b) (b_seen b) (Fr t o todo :: stk) (b_roots b) (b_built b), [EvWrite i (LC o)])
      | None =>
          let oc := length h in
          (h ++ [mkC c [] false i (b_cid b)],
           mkB (b_cid b) (if memo c then (c, oc) :: b_seen b else b_seen b) (Fr c oc (G c) :: Fr t o todo :: stk) (b_roots b) (b_built b),
           [EvAlloc i (LC oc)])
      end
  end.

Definition start_build (s : state) (i : tid) (th : thread) (t : ty) (snap : option mid) : state :=
  let s1 := set_thread s i (with_pc th (PBuild t snap (mkB (s_ncid s) [] [] (roots t) []))) in
  mkS (s_codecs s1) (s_maps s1) (s_ptr s1) (s_mutex s1) (s_threads s1) (S (s_ncid s)) (s_pubs s1).

Definition finish_call (th : thread) (t : ty) (o : oid) : thread :=
  mkT PIdle (th_todo th) ((t, o) :: th_res th).

(* one step of thread i *)
Definition step (i : tid) (s : state) : state * list event :=
  match nth_error (s_threads s) i with
  | None => (s, [])
  | Some th =>
      match th_pc th with
      | PIdle =>
          match th_todo th with
          | [] => (s, [])
          | t :: rest =>
              (* cache.Load() *)
              (set_thread s i (mkT (PLoaded t (s_ptr s)) rest (th_res th)), [EvLoad i (s_ptr s)])
          end
      | PLoaded t snap =>
          (* cache[t] on the immutable snapshot *)
          match lookup t (ents_of s snap) with
          | Some o => (set_thread s i (finish_call th t o), snap_reads i snap ++ [EvUse i o])
          | None =>
              if lk then (set_thread s i (with_pc th (PWantLock t)), snap_reads i snap)
              else (start_build s i th t snap, snap_reads i snap)
          end
      | PWantLock t =>
          match s_mutex s with
          | Some _ => (s, [])        (* blocked *)
          | None =>
              let s1 := set_thread s i (with_pc th (PLocked t)) in
              (mkS (s_codecs s1) (s_maps s1) (s_ptr s1) (Some i) (s_threads s1) (s_ncid s1) (s_pubs s1), [EvLock i])
          end
      | PLocked t =>
          (set_thread s i (with_pc th (PLoaded2 t (s_ptr s))), [EvLoad i (s_ptr s)])
      | PLoaded2 t snap =>
          match lookup t (ents_of s snap) with
          | Some o => (set_thread s i (with_pc th (PUnlock t o)), snap_reads i snap)
          | None => (start_build s i th t snap, snap_reads i snap)
          end
      | PBuild t snap b =>
          match b_stack b, b_roots b with
          | [], [] =>
              (* construction finished: newCache := make(map) *)
              let nm := length (s_maps s) in
              let add := if lk then rev (b_seen b) ++ rev (b_built b) else rev (b_built b) in
              let s1 := set_thread s i (with_pc th (PCopy t snap nm (ents_of s snap) add)) in
              (mkS (s_codecs s1) (s_maps s1 ++ [mkM [] i]) (s_ptr s1) (s_mutex s1) (s_threads s1) (s_ncid s1) (s_pubs s1),
               [EvAlloc i (LM nm)])
          | _, _ =>
              let '(h, b', evs) := build_step i (s_codecs s) b in
              let s1 := set_thread s i (with_pc th (PBuild t snap b')) in
              (mkS h (s_maps s1) (s_ptr s1) (s_mutex s1) (s_threads s1) (s_ncid s1) (s_pubs s1), evs)
          end
      | PCopy t snap nm (e :: src) add =>
          (* for k, v := range old { new[k] = v } *)
          let s1 := set_thread s i (with_pc th (PCopy t snap nm src add)) in
          (mkS (s_codecs s1) (map_insert (s_maps s1) nm (upd (fst e) (snd e))) (s_ptr s1) (s_mutex s1) (s_threads s1) (s_ncid s1) (s_pubs s1),
           snap_reads i snap ++ [EvWrite i (LM nm)])
      | PCopy t snap nm [] (e :: add) =>
          (* new[t] = c   (json, proto, thrift: overriding;  TypeOf: only if absent) *)
          let s1 := set_thread s i (with_pc th (PCopy t snap nm [] add)) in
          (mkS (s_codecs s1) (map_insert (s_maps s1) nm (if lk then upd_absent (fst e) (snd e) else upd (fst e) (snd e)))
               (s_ptr s1) (s_mutex s1) (s_threads s1) (s_ncid s1) (s_pubs s1),
           [EvWrite i (LM nm)])
      | PCopy t snap nm [] [] =>
          (* cache.Store(&new): the atomic publication; then the call returns new[t] *)
          match lookup t (ents_of s (Some nm)) with
          | None => (set_thread s i (with_pc th PStuck), [])
          | Some r =>
              let s1 := set_thread s i (if lk then with_pc th (PUnlock t r) else finish_call th t r) in
              (mkS (s_codecs s1) (s_maps s1) (Some nm) (s_mutex s1) (s_threads s1) (s_ncid s1) (nm :: s_pubs s1),
               EvStore i nm :: (if lk then [] else [EvUse i r]))
          end
      | PUnlock t r =>
          let s1 := set_thread s i (finish_call th t r) in
          (mkS (s_codecs s1) (s_maps s1) (s_ptr s1) None (s_threads s1) (s_ncid s1) (s_pubs s1), [EvUnlock i; EvUse i r])
      | PStuck => (s, [])
      end
  end.

(* a schedule names the thread that makes the next step *)
Fixpoint run (sched : list tid) (s : state) : state :=
  match sched with
  | [] => s
  | i :: r => run r (fst (step i s))
  end.
(* the same with the event log, oldest first *)
Fixpoint run_log (sched : list tid) (s : state) : state * list event :=
  match sched with
  | [] => (s, [])
  | i :: r => let '(s1, e1) := step i s in let '(s2, e2) := run_log r s1 in (s2, e1 ++ e2)
  end.

(* initial state: cold cache, one thread per program *)
Definition init (progs : list (list ty)) : state :=
  mkS [] [] None None (map (fun p => mkT PIdle p []) progs) 0 [].

(* the call running alone: one goroutine, one request, a cold cache, k steps *)
Definition solo (t : ty) (k : nat) : state := run (repeat 0 k) (init [[t]]).

End Machine.

(* ---- what a codec object means: its unfolding ---- *)
Inductive tree := Node (t : ty) (kids : list tree) | Cut | Bad.

Fixpoint unfold (n : nat) (h : list cobj) (o : oid) : tree :=
  match n with
  | O => Cut
  | S n' =>
      match nth_error h o with
      | None => Bad                                     (* dangling *)
      | Some ob => if c_done ob then Node (c_ty ob) (map (unfold n' h) (c_kids ob)) else Bad   (* half built *)
      end
  end.

(* ---- sequential projection used by the correspondence check ----
   one goroutine performs the calls of hist one after the other (each call runs to completion: fuel steps at most);
   observable per call: h (hit: pointer unchanged) or m (miss: new map published) and the number of entries of the map
   the pointer designates afterwards *)
Section Seq.
Variable G : ty -> list ty.
Variable memo : ty -> bool.
Variable roots : ty -> list ty.
Variable lk : bool.

Fixpoint run_until_idle (fuel : nat) (s : state) : state :=
  match fuel with
  | O => s
  | S f =>
      let s1 := fst (step G memo roots lk 0 s) in
      match nth_error (s_threads s1) 0 with
      | Some th => match th_pc th with PIdle => s1 | _ => run_until_idle f s1 end
      | None => s1
      end
  end.

Fixpoint seq_hist (fuel : nat) (hist : list ty) (s : state) : list (bool * nat) :=
  match hist with
  | [] => []
  | t :: r =>
      let s0 := set_thread s 0 (mkT PIdle [t] []) in
      let s1 := run_until_idle fuel s0 in
      let miss := match s_ptr s, s_ptr s1 with
                  | Some a, Some b => negb (Nat.eqb a b)
                  | None, None => false
                  | _, _ => true
                  end in
      (miss, length (ents_of s1 (s_ptr s1))) :: seq_hist fuel r s1
  end.

Definition seq_obs (fuel : nat) (hist : list ty) : list (bool * nat) :=
  seq_hist fuel hist (init [[]]).
End Seq.
