(* Model of sync.Pool as used by json/json.go (encoderBufferPool), json/encode.go (mapslicePool), json/token.go
   (stackPool) and proto/map.go (structPool): a bag of object identities with
     Get: removes SOME pooled object or creates a fresh one (the runtime decides which: per-P caches, victim caches),
     Put: adds an object,
     and the runtime may drop pooled objects at any time (garbage collection).
   Goroutines run programs of actions on the objects they hold; a schedule interleaves them and resolves the
   runtime's choices. Definitions only. *)
From Coq Require Import List Arith Bool.
Import ListNotations.

Definition pobj := nat.
Definition ptid := nat.

Inductive action :=
| AGet                (* x := pool.Get() *)
| AUse (k : nat)      (* read / write the k-th object this goroutine holds *)
| APut (k : nat)      (* pool.Put(x) and forget x *)
| APutKeep (k : nat). (* DEFECTIVE use: pool.Put(x) but keep a reference that is used later *)

Record pthread := mkPT { p_prog : list action; p_held : list pobj }.
Record pstate := mkPS { ps_pool : list pobj; ps_next : pobj; ps_threads : list pthread }.

Inductive pevent :=
| PvGet (i : ptid) (o : pobj) (fresh : bool)
| PvUse (i : ptid) (o : pobj)
| PvPut (i : ptid) (o : pobj).

(* a schedule entry: goroutine i makes its next action (choice resolves Get: None = New(), Some k = the k-th pooled
   object if there is one), or the runtime drops the k-th pooled object *)
Inductive sentry := SRun (i : ptid) (choice : option nat) | SDrop (k : nat).

Fixpoint remove_nth {A} (n : nat) (l : list A) : list A :=
  match l, n with
  | [], _ => []
  | _ :: r, O => r
  | x :: r, S n' => x :: remove_nth n' r
  end.
Fixpoint pset_nth {A} (n : nat) (x : A) (l : list A) : list A :=
  match l, n with
  | [], _ => []
  | _ :: r, O => x :: r
  | y :: r, S n' => y :: pset_nth n' x r
  end.

Definition pstep (e : sentry) (s : pstate) : pstate * list pevent :=
  match e with
  | SDrop k => (mkPS (remove_nth k (ps_pool s)) (ps_next s) (ps_threads s), [])
  | SRun i choice =>
      match nth_error (ps_threads s) i with
      | None => (s, [])
      | Some th =>
          match p_prog th with
          | [] => (s, [])
          | AGet :: rest =>
              match (match choice with Some k => nth_error (ps_pool s) k | None => None end), choice with
              | Some o, Some k =>
                  (mkPS (remove_nth k (ps_pool s)) (ps_next s) (pset_nth i (mkPT rest (o :: p_held th)) (ps_threads s)),
                   [PvGet i o false])
              | _, _ =>
                  let o := ps_next s in
                  (mkPS (ps_pool s) (S o) (pset_nth i (mkPT rest (o :: p_held th)) (ps_threads s)), [PvGet i o true])
              end
          | AUse k :: rest =>
              (mkPS (ps_pool s) (ps_next s) (pset_nth i (mkPT rest (p_held th)) (ps_threads s)),
               match nth_error (p_held th) k with Some o => [PvUse i o] | None => [] end)
          | APut k :: rest =>
              match nth_error (p_held th) k with
              | Some o => (mkPS (o :: ps_pool s) (ps_next s) (pset_nth i (mkPT rest (remove_nth k (p_held th))) (ps_threads s)), [PvPut i o])
              | None => (mkPS (ps_pool s) (ps_next s) (pset_nth i (mkPT rest (p_held th)) (ps_threads s)), [])
              end
          | APutKeep k :: rest =>
              match nth_error (p_held th) k with
              | Some o => (mkPS (o :: ps_pool s) (ps_next s) (pset_nth i (mkPT rest (p_held th)) (ps_threads s)), [PvPut i o])
              | None => (mkPS (ps_pool s) (ps_next s) (pset_nth i (mkPT rest (p_held th)) (ps_threads s)), [])
              end
          end
      end
  end.

Fixpoint prun (sched : list sentry) (s : pstate) : pstate :=
  match sched with
  | [] => s
  | e :: r => prun r (fst (pstep e s))
  end.

Definition pinit (progs : list (list action)) : pstate :=
  mkPS [] 0 (map (fun p => mkPT p []) progs).
