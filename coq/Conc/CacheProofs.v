(* Proofs of the statements of Conc/CacheSpec.v that hold for both variants of the machine (lock-free and mutex).
   One inductive invariant Inv of the interleaving machine, a frame relation Ext between the states before and after
   a step of thread i, and the statements as corollaries. *)
From Coq Require Import List Arith Bool Lia.
Import ListNotations.
From Verif Require Import Conc.CacheModel Conc.CacheSpec.

(* ---------------- part 1 ---------------- *)
(* ---------- list lemmas ---------- *)
Lemma set_nth_length : forall A n (x : A) l, length (set_nth n x l) = length l.
Proof. intros A n x l; revert n; induction l as [|y r IH]; intros [|n]; simpl; auto. Qed.

Lemma nth_set_nth_same : forall A n (x : A) l, n < length l -> nth_error (set_nth n x l) n = Some x.
Proof.
  intros A n x l; revert n; induction l as [|y r IH]; intros [|n] Hn; simpl in *; try lia; auto.
  apply IH; lia.
Qed.

Lemma nth_set_nth_other : forall A n m (x : A) l, n <> m -> nth_error (set_nth n x l) m = nth_error l m.
Proof.
  intros A n m x l; revert n m; induction l as [|y r IH]; intros [|n] [|m] Hn; simpl in *; auto; try congruence.
Qed.

Lemma nth_some_lt : forall A (l : list A) n x, nth_error l n = Some x -> n < length l.
Proof. intros A l n x H. apply nth_error_Some. congruence. Qed.

Lemma nth_app_old : forall A (l : list A) x n y, nth_error l n = Some y -> nth_error (l ++ [x]) n = Some y.
Proof. intros. rewrite nth_error_app1; auto. eapply nth_some_lt; eauto. Qed.

Lemma nth_app_new : forall A (l : list A) x, nth_error (l ++ [x]) (length l) = Some x.
Proof. intros. rewrite nth_error_app2 by lia. rewrite Nat.sub_diag. reflexivity. Qed.

Lemma nth_app_inv : forall A (l : list A) x n y, nth_error (l ++ [x]) n = Some y ->
  nth_error l n = Some y \/ (n = length l /\ y = x /\ nth_error l n = None).
Proof.
  intros A l x n y H. destruct (Nat.lt_ge_cases n (length l)) as [Hl|Hl].
  - rewrite nth_error_app1 in H by auto. auto.
  - right. rewrite nth_error_app2 in H by auto.
    destruct (n - length l) as [|k] eqn:E.
    + simpl in H. inversion H. split; [lia|]. split; auto. apply nth_error_None. lia.
    + simpl in H. destruct k; discriminate.
Qed.

(* ---------- association lists ---------- *)
Lemma lookup_in : forall k l v, lookup k l = Some v -> In (k, v) l.
Proof.
  intros k l; induction l as [|[k' v'] r IH]; intros v H; simpl in *; [discriminate|].
  destruct (Nat.eqb k k') eqn:E.
  - apply Nat.eqb_eq in E. inversion H. subst. auto.
  - auto.
Qed.

Lemma lookup_key : forall k l, In k (map fst l) -> exists v, lookup k l = Some v.
Proof.
  intros k l; induction l as [|[k' v'] r IH]; intros H; simpl in *; [tauto|].
  destruct (Nat.eqb k k') eqn:E; [eauto|].
  apply Nat.eqb_neq in E. destruct H as [H|H]; [congruence|auto].
Qed.

Lemma in_remove_key : forall k l e, In e (remove_key k l) -> In e l.
Proof.
  intros k l; induction l as [|[k' v'] r IH]; intros e H; simpl in *; auto.
  destruct (Nat.eqb k k'); simpl in *; intuition.
Qed.

Lemma in_upd : forall k v l e, In e (upd k v l) -> e = (k, v) \/ In e l.
Proof. unfold upd; intros k v l e [H|H]; [left; auto|right; eapply in_remove_key; eauto]. Qed.

Lemma in_upd_absent : forall k v l e, In e (upd_absent k v l) -> e = (k, v) \/ In e l.
Proof. unfold upd_absent; intros k v l e H. destruct (lookup k l); simpl in *; intuition. Qed.

Lemma keys_remove : forall k l k', In k' (map fst l) -> k' <> k -> In k' (map fst (remove_key k l)).
Proof.
  intros k l; induction l as [|[k1 v1] r IH]; intros k' H Hn; simpl in *; auto.
  destruct (Nat.eqb k k1) eqn:E.
  - apply Nat.eqb_eq in E. destruct H as [H|H]; [congruence|auto].
  - simpl. destruct H as [H|H]; auto.
Qed.

Lemma keys_upd : forall k v l k', In k' (map fst l) \/ k' = k -> In k' (map fst (upd k v l)).
Proof.
  intros k v l k' H. unfold upd. simpl. destruct (Nat.eq_dec k' k) as [E|E]; [left; auto|].
  right. apply keys_remove; auto. destruct H; [auto|contradiction].
Qed.

Lemma keys_upd_absent : forall k v l k', In k' (map fst l) \/ k' = k -> In k' (map fst (upd_absent k v l)).
Proof.
  intros k v l k' H. unfold upd_absent. destruct (lookup k l) eqn:E.
  - destruct H as [H|H]; auto. subst. apply lookup_in in E. apply in_map_iff. exists (k, o). auto.
  - simpl. destruct H; auto.
Qed.

(* ---------------- part 2 ---------------- *)
Definition fr_oid (f : frame) : oid := match f with Fr _ o _ => o end.
Definition fr_ty (f : frame) : ty := match f with Fr t _ _ => t end.

Fixpoint bottom (stk : list frame) : option ty :=
  match stk with
  | [] => None
  | f :: r => match r with [] => Some (fr_ty f) | _ => bottom r end
  end.

Lemma bottom_todo : forall t o td td' stk, bottom (Fr t o td :: stk) = bottom (Fr t o td' :: stk).
Proof. intros. destruct stk; reflexivity. Qed.

Definition tys (h : list cobj) (ks : list oid) : list (option ty) :=
  map (fun k => option_map c_ty (nth_error h k)) ks.

Definition tpres (h h' : list cobj) : Prop :=
  forall k ob, nth_error h k = Some ob -> exists ob', nth_error h' k = Some ob' /\ c_ty ob' = c_ty ob.

Lemma tys_pres : forall h h' ks ts, tpres h h' -> tys h ks = map Some ts -> tys h' ks = map Some ts.
Proof.
  intros h h' ks; induction ks as [|k ks IH]; intros [|t ts] Hp H; simpl in *; try discriminate; auto.
  inversion H as [[H1 H2]].
  destruct (nth_error h k) as [ob|] eqn:E; simpl in H1; [|discriminate].
  destruct (Hp _ _ E) as (ob' & E' & Et). rewrite E'. simpl. rewrite Et.
  rewrite H2. f_equal. apply IH; auto.
Qed.

Lemma tys_app : forall h a b, tys h (a ++ b) = tys h a ++ tys h b.
Proof. intros. unfold tys. apply map_app. Qed.

Definition valid_c (h : list cobj) (c : nat) (k : oid) : Prop :=
  exists kb, nth_error h k = Some kb /\ c_cid kb = c.

Definition kids_ok (h : list cobj) (c : nat) : Prop :=
  forall o ob, nth_error h o = Some ob -> c_cid ob = c -> forall k, In k (c_kids ob) -> valid_c h c k.

Definition own_ent (h : list cobj) (c : nat) (e : ty * oid) : Prop :=
  exists ob, nth_error h (snd e) = Some ob /\ c_ty ob = fst e /\ c_cid ob = c.

Record hstep (c : nat) (i : tid) (h h' : list cobj) : Prop := {
  hs_other : forall k ob, nth_error h k = Some ob -> c_cid ob <> c -> nth_error h' k = Some ob;
  hs_same : forall k ob, nth_error h k = Some ob ->
     exists ob', nth_error h' k = Some ob' /\ c_ty ob' = c_ty ob /\ c_cid ob' = c_cid ob /\ c_owner ob' = c_owner ob;
  hs_new : forall k ob', nth_error h' k = Some ob' -> nth_error h k = None -> c_cid ob' = c /\ c_owner ob' = i
}.

Lemma hstep_refl : forall c i h, hstep c i h h.
Proof. intros; constructor; intros; eauto. congruence. Qed.

Lemma hstep_trans : forall c i h1 h2 h3, hstep c i h1 h2 -> hstep c i h2 h3 -> hstep c i h1 h3.
Proof.
  intros c i h1 h2 h3 A B. constructor.
  - intros k ob H Hc. eapply hs_other; eauto. eapply hs_other; eauto.
  - intros k ob H. destruct (hs_same _ _ _ _ A _ _ H) as (ob2 & H2 & T2 & C2 & O2).
    destruct (hs_same _ _ _ _ B _ _ H2) as (ob3 & H3 & T3 & C3 & O3).
    exists ob3. repeat split; congruence.
  - intros k ob3 H3 H1. destruct (nth_error h2 k) as [ob2|] eqn:E2.
    + destruct (hs_new _ _ _ _ A _ _ E2 H1) as [C2 O2].
      destruct (hs_same _ _ _ _ B _ _ E2) as (ob3' & H3' & T3 & C3 & O3).
      assert (ob3' = ob3) by congruence. subst. split; congruence.
    + eapply hs_new; eauto.
Qed.

Lemma hstep_tpres : forall c i h h', hstep c i h h' -> tpres h h'.
Proof. intros c i h h' H k ob E. destruct (hs_same _ _ _ _ H _ _ E) as (ob' & ? & ? & _). eauto. Qed.

Lemma hstep_valid : forall c i h h' c' k, hstep c i h h' -> valid_c h c' k -> valid_c h' c' k.
Proof.
  intros c i h h' c' k H (kb & E & C). destruct (hs_same _ _ _ _ H _ _ E) as (ob' & ? & ? & ? & _).
  exists ob'. split; congruence.
Qed.

Lemma hstep_own_ent : forall c i h h' c' e, hstep c i h h' -> own_ent h c' e -> own_ent h' c' e.
Proof.
  intros c i h h' c' e H (ob & E & T & C). destruct (hs_same _ _ _ _ H _ _ E) as (ob' & ? & ? & ? & _).
  exists ob'. repeat split; congruence.
Qed.

Lemma hstep_own : forall c i h h', hstep c i h h' ->
  (forall o ob, nth_error h o = Some ob -> c_cid ob = c -> c_owner ob = i) ->
  (forall o ob, nth_error h' o = Some ob -> c_cid ob = c -> c_owner ob = i).
Proof.
  intros c i h h' H Ho o ob' E' C. destruct (nth_error h o) as [ob|] eqn:E.
  - destruct (hs_same _ _ _ _ H _ _ E) as (ob2 & E2 & _ & C2 & O2).
    assert (ob2 = ob') by congruence. subst. rewrite O2. eapply Ho; eauto; congruence.
  - eapply (hs_new _ _ _ _ H); eauto.
Qed.

(* a single in-place update of an object of construction c *)
Definition upd1 (h h' : list cobj) (o : oid) (ob ob' : cobj) : Prop :=
  nth_error h o = Some ob /\ nth_error h' o = Some ob' /\
  (forall m, m <> o -> nth_error h' m = nth_error h m) /\
  c_ty ob' = c_ty ob /\ c_cid ob' = c_cid ob /\ c_owner ob' = c_owner ob.

Lemma upd1_hstep : forall i h h' o ob ob', upd1 h h' o ob ob' -> hstep (c_cid ob) i h h'.
Proof.
  intros i h h' o ob ob' (E & E' & Ho & T & C & O). constructor.
  - intros k kb Ek Ck. destruct (Nat.eq_dec k o) as [->|N]; [congruence|]. rewrite Ho; auto.
  - intros k kb Ek. destruct (Nat.eq_dec k o) as [->|N].
    + exists ob'. assert (kb = ob) by congruence. subst. auto.
    + exists kb. rewrite Ho; auto.
  - intros k kb Ek Ek'. destruct (Nat.eq_dec k o) as [->|N]; [congruence|]. rewrite Ho in Ek; congruence.
Qed.

Lemma add_kid_upd1 : forall h o k ob, nth_error h o = Some ob ->
  upd1 h (add_kid h o k) o ob (mkC (c_ty ob) (c_kids ob ++ [k]) (c_done ob) (c_owner ob) (c_cid ob)).
Proof.
  intros h o k ob E. unfold add_kid. rewrite E. repeat split; auto.
  - apply nth_set_nth_same. eapply nth_some_lt; eauto.
  - intros m N. apply nth_set_nth_other. auto.
Qed.

Lemma mark_done_upd1 : forall h o ob, nth_error h o = Some ob ->
  upd1 h (mark_done h o) o ob (mkC (c_ty ob) (c_kids ob) true (c_owner ob) (c_cid ob)).
Proof.
  intros h o ob E. unfold mark_done. rewrite E. repeat split; auto.
  - apply nth_set_nth_same. eapply nth_some_lt; eauto.
  - intros m N. apply nth_set_nth_other. auto.
Qed.

Lemma app_hstep : forall c i h t, hstep c i h (h ++ [mkC t [] false i c]).
Proof.
  intros c i h t. constructor.
  - intros k ob E _. apply nth_app_old; auto.
  - intros k ob E. exists ob. split; [apply nth_app_old; auto|auto].
  - intros k ob' E' E. apply nth_app_inv in E'. destruct E' as [E'|(_ & -> & _)]; [congruence|]. auto.
Qed.

(* ---------------- part 3 ---------------- *)
Section Build.
Variable G : ty -> list ty.
Variable memo : ty -> bool.
Variable roots : ty -> list ty.

Definition good (h : list cobj) (ob : cobj) : Prop :=
  c_done ob = true /\ tys h (c_kids ob) = map Some (G (c_ty ob)).

Lemma good_pres : forall h h' ob, tpres h h' -> good h ob -> good h' ob.
Proof. intros h h' ob P [D T]. split; auto. eapply tys_pres; eauto. Qed.

Fixpoint stack_ok (h : list cobj) (c : nat) (stk : list frame) (above : list ty) : Prop :=
  match stk with
  | [] => True
  | Fr t o todo :: rest =>
      (exists ob dts, nth_error h o = Some ob /\ c_ty ob = t /\ c_cid ob = c /\ c_done ob = false /\
          tys h (c_kids ob) = map Some dts /\ dts ++ above ++ todo = G t)
      /\ ~ In o (map fr_oid rest) /\ stack_ok h c rest [t]
  end.

Lemma stack_ok_pres : forall h h' c stk ab, tpres h h' ->
  (forall o, In o (map fr_oid stk) -> nth_error h' o = nth_error h o) ->
  stack_ok h c stk ab -> stack_ok h' c stk ab.
Proof.
  intros h h' c stk; induction stk as [|[t o todo] rest IH]; intros ab P Hsame H; simpl in *; auto.
  destruct H as ((ob & dts & E & T & C & D & Ty & Eq) & Nin & Hr).
  split; [|split; auto].
  exists ob, dts. rewrite Hsame by auto. repeat split; auto. eapply tys_pres; eauto.
Qed.

Lemma stack_ok_valid : forall h c stk ab, stack_ok h c stk ab -> forall k, In k (map fr_oid stk) -> valid_c h c k.
Proof.
  clear memo roots. intros h c stk; induction stk as [|[t o todo] rest IH]; intros ab H k Hk; simpl in *; [tauto|].
  destruct H as ((ob & dts & E & T & C & _) & Nin & Hr).
  destruct Hk as [<-|Hk]; [exists ob; auto|eauto].
Qed.

Record build_ok (h : list cobj) (n : nat) (i : tid) (t : ty) (b : build) : Prop := {
  bo_cid : b_cid b < n;
  bo_own : forall o ob, nth_error h o = Some ob -> c_cid ob = b_cid b -> c_owner ob = i;
  bo_seen : forall e, In e (b_seen b) -> own_ent h (b_cid b) e;
  bo_built : forall e, In e (b_built b) -> own_ent h (b_cid b) e;
  bo_stack : stack_ok h (b_cid b) (b_stack b) [];
  bo_rest : forall o ob, nth_error h o = Some ob -> c_cid ob = b_cid b -> ~ In o (map fr_oid (b_stack b)) -> good h ob;
  bo_roots : forall r, In r (roots t) -> In r (map fst (b_built b)) \/ In r (b_roots b) \/ bottom (b_stack b) = Some r
}.

Lemma seen_hit : forall r seen o, (if memo r then lookup r seen else None) = Some o -> In (r, o) seen.
Proof. intros r seen o H. destruct (memo r); [|discriminate]. apply lookup_in; auto. Qed.

Lemma in_ifcons : forall (bb : bool) (x : ty * oid) l e, In e (if bb then x :: l else l) -> e = x \/ In e l.
Proof. intros [|] x l e H; simpl in *; intuition. Qed.

Definition ev_build_ok (i : tid) (h : list cobj) (c : nat) (ev : event) : Prop :=
  match ev with
  | EvWrite j (LC o) => j = i /\ valid_c h c o
  | EvAlloc _ _ => True
  | _ => False
  end.

Lemma build_step_ok : forall i h n t b h' b' evs,
  build_ok h n i t b -> kids_ok h (b_cid b) ->
  build_step G memo i h b = (h', b', evs) ->
  b_cid b' = b_cid b /\ hstep (b_cid b) i h h' /\ build_ok h' n i t b' /\ kids_ok h' (b_cid b) /\
  (forall ev, In ev evs -> ev_build_ok i h (b_cid b) ev).
Proof.
  intros i h n t b h' b' evs HB Hkids Hstep.
  destruct b as [c seen stk rts built]. destruct HB as [Hcid Hown Hseen Hbuilt Hstack Hrest Hroots].
  unfold build_step in Hstep. simpl in *.
  destruct stk as [|[ft fo ftodo] stk].
  - (* empty stack *)
    destruct rts as [|r rs].
    + inversion Hstep; subst. split; [reflexivity|]. split; [apply hstep_refl|]. split; [constructor; auto|].
      split; [auto|]. intros ev [].
    + destruct (if memo r then lookup r seen else None) as [o|] eqn:EL.
      * inversion Hstep; subst; clear Hstep. simpl. split; [reflexivity|]. split; [apply hstep_refl|].
        split; [|split; [auto|intros ev []]].
        constructor; simpl; auto.
        -- intros e [<-|He]; auto. apply Hseen. eapply seen_hit; eauto.
        -- intros r0 Hr. destruct (Hroots r0 Hr) as [H|[[<-|H]|H]]; auto.
      * inversion Hstep; subst; clear Hstep. simpl.
        pose proof (app_hstep c i h r) as HS. pose proof (hstep_tpres _ _ _ _ HS) as TP.
        split; [reflexivity|]. split; [exact HS|].
        split; [|split].
        -- constructor; simpl; auto.
           ++ eapply hstep_own; eauto.
           ++ intros e He. apply in_ifcons in He. destruct He as [->|He].
              ** exists (mkC r [] false i c). simpl. rewrite nth_app_new. auto.
              ** eapply hstep_own_ent; eauto.
           ++ intros e He. eapply hstep_own_ent; eauto.
           ++ split; [|split; [tauto|exact I]].
              exists (mkC r [] false i c), []. rewrite nth_app_new. simpl. repeat split; auto.
           ++ intros k kb E C Hn. apply nth_app_inv in E. destruct E as [E|(-> & _)]; [|tauto].
              eapply good_pres; eauto.
           ++ intros r0 Hr. destruct (Hroots r0 Hr) as [H|[[<-|H]|H]]; auto; discriminate.
        -- intros k kb E C k' Hk'. apply nth_app_inv in E. destruct E as [E|(_ & -> & _)]; [|simpl in Hk'; tauto].
           eapply hstep_valid; eauto.
        -- intros ev [<-|[]]. exact I.
  - destruct Hstack as ((ob & dts & Eo & Tob & Cob & Dob & Tys & Edts) & Hnin & Hstk).
    destruct ftodo as [|c1 todo].
    + (* constructor of fo returns *)
      pose proof (mark_done_upd1 h fo ob Eo) as U1.
      pose proof (upd1_hstep i _ _ _ _ _ U1) as HS1. rewrite Cob in HS1.
      pose proof (hstep_tpres _ _ _ _ HS1) as TP1.
      destruct U1 as (_ & E1 & O1 & _).
      set (ob1 := mkC (c_ty ob) (c_kids ob) true (c_owner ob) (c_cid ob)) in *.
      simpl in Edts. rewrite ?app_nil_r in Edts. subst dts.
      assert (G1 : good (mark_done h fo) ob1).
      { split; [reflexivity|]. simpl. rewrite Tob. eapply tys_pres; eauto. }
      destruct stk as [|[tp op ptodo] stk'].
      * inversion Hstep; subst h' b' evs; clear Hstep. simpl.
        split; [reflexivity|]. split; [exact HS1|]. split; [|split].
        -- constructor; simpl; auto.
           ++ eapply hstep_own; eauto.
           ++ intros e He. eapply hstep_own_ent; eauto.
           ++ intros e [<-|He]; [|eapply hstep_own_ent; eauto].
              exists ob1. simpl. auto.
           ++ intros k kb E C _. destruct (Nat.eq_dec k fo) as [->|N].
              ** assert (kb = ob1) by congruence. subst. auto.
              ** rewrite O1 in E by auto. eapply good_pres; eauto. eapply Hrest; eauto. simpl. intuition.
           ++ intros r0 Hr. destruct (Hroots r0 Hr) as [H|[H|H]]; auto. simpl in H. inversion H. auto.
        -- intros k kb E C k' Hk'. eapply hstep_valid; eauto. destruct (Nat.eq_dec k fo) as [->|N].
           ** assert (kb = ob1) by congruence. subst. simpl in Hk'. eapply Hkids; eauto.
           ** rewrite O1 in E by auto. eapply Hkids; eauto.
        -- intros ev [<-|[]]. simpl. split; auto. exists ob; auto.
      * simpl in Hstk. destruct Hstk as ((obp & dtp & Ep & Tp & Cp & Dp & Tysp & Edtp) & Hninp & Hstk').
        simpl in Hnin. assert (Nop : op <> fo) by tauto.
        assert (Ep1 : nth_error (mark_done h fo) op = Some obp) by (rewrite O1; auto).
        pose proof (add_kid_upd1 _ op fo obp Ep1) as U2.
        pose proof (upd1_hstep i _ _ _ _ _ U2) as HS2. rewrite Cp in HS2.
        pose proof (hstep_trans _ _ _ _ _ HS1 HS2) as HS. pose proof (hstep_tpres _ _ _ _ HS) as TP.
        destruct U2 as (_ & E2 & O2 & _).
        set (obp' := mkC (c_ty obp) (c_kids obp ++ [fo]) (c_done obp) (c_owner obp) (c_cid obp)) in *.
        set (h2 := add_kid (mark_done h fo) op fo) in *.
        assert (E2o : nth_error h2 fo = Some ob1) by (rewrite O2; auto).
        assert (Oth : forall k, k <> op -> k <> fo -> nth_error h2 k = nth_error h k).
        { intros k N1 N2. rewrite O2 by auto. apply O1; auto. }
        inversion Hstep; subst h' b' evs; clear Hstep. simpl.
        split; [reflexivity|]. split; [exact HS|]. split; [|split].
        -- constructor; simpl; auto.
           ++ eapply hstep_own; eauto.
           ++ intros e He. eapply hstep_own_ent; eauto.
           ++ intros e He. eapply hstep_own_ent; eauto.
           ++ split; [|split; auto].
              ** exists obp', (dtp ++ [ft]). simpl. repeat split; auto.
                 --- rewrite tys_app, map_app. f_equal; [eapply tys_pres; eauto|].
                     simpl. rewrite E2o. simpl. rewrite Tob. reflexivity.
                 --- rewrite <- app_assoc. simpl. simpl in Edtp. exact Edtp.
              ** eapply stack_ok_pres; eauto. intros k Hk. apply Oth; intro; subst; tauto.
           ++ intros k kb E C Hn. destruct (Nat.eq_dec k fo) as [->|N].
              ** assert (kb = ob1) by congruence. subst. eapply good_pres; [|exact G1].
                 eapply hstep_tpres; eauto.
              ** assert (N2 : k <> op) by (intro; subst; simpl in Hn; tauto). rewrite Oth in E by auto.
                 eapply good_pres; eauto. eapply Hrest; eauto. simpl. intuition.
        -- intros k kb E C k' Hk'. destruct (Nat.eq_dec k op) as [->|N1].
           ** assert (kb = obp') by congruence. subst. simpl in Hk'. apply in_app_iff in Hk'.
              destruct Hk' as [Hk'|[<-|[]]].
              --- eapply (hstep_valid _ _ _ _ _ _ HS). eapply Hkids; eauto.
              --- exists ob1. auto.
           ** eapply (hstep_valid _ _ _ _ _ _ HS). destruct (Nat.eq_dec k fo) as [->|N2].
              --- assert (kb = ob1) by congruence. subst. simpl in Hk'. eapply (Hkids fo ob); eauto.
              --- rewrite Oth in E by auto. eapply Hkids; eauto.
        -- intros ev [<-|[<-|[]]]; simpl; split; auto; [exists ob|exists obp]; auto.
    + (* next component c1 *)
      destruct (if memo c1 then lookup c1 seen else None) as [oc|] eqn:EL.
      * apply seen_hit in EL. destruct (Hseen _ EL) as (obc & Ec & Tc & Cc). simpl in Ec, Tc.
        pose proof (add_kid_upd1 h fo oc ob Eo) as U1.
        pose proof (upd1_hstep i _ _ _ _ _ U1) as HS. rewrite Cob in HS.
        pose proof (hstep_tpres _ _ _ _ HS) as TP.
        destruct U1 as (_ & E1 & O1 & _).
        set (ob1 := mkC (c_ty ob) (c_kids ob ++ [oc]) (c_done ob) (c_owner ob) (c_cid ob)) in *.
        inversion Hstep; subst h' b' evs; clear Hstep. simpl.
        split; [reflexivity|]. split; [exact HS|]. split; [|split].
        -- constructor; simpl; auto.
           ++ eapply hstep_own; eauto.
           ++ intros e He. eapply hstep_own_ent; eauto.
           ++ intros e He. eapply hstep_own_ent; eauto.
           ++ split; [|split; auto].
              ** exists ob1, (dts ++ [c1]). simpl. repeat split; auto.
                 --- rewrite tys_app, map_app. f_equal; [eapply tys_pres; eauto|].
                     simpl. destruct (TP _ _ Ec) as (obc' & Ec' & Tc'). rewrite Ec'. simpl. congruence.
                 --- rewrite <- app_assoc. simpl. simpl in Edts. exact Edts.
              ** eapply stack_ok_pres; eauto. intros k Hk. apply O1. intro; subst; tauto.
           ++ intros k kb E C Hn. assert (N : k <> fo) by (intro; subst; simpl in Hn; tauto). rewrite O1 in E by auto.
              eapply good_pres; eauto; eapply Hrest; eauto.
        -- intros k kb E C k' Hk'. destruct (Nat.eq_dec k fo) as [->|N1].
           ** assert (kb = ob1) by congruence. subst. simpl in Hk'. apply in_app_iff in Hk'.
              destruct Hk' as [Hk'|[<-|[]]].
              --- eapply (hstep_valid _ _ _ _ _ _ HS). eapply (Hkids fo ob); eauto.
              --- eapply (hstep_valid _ _ _ _ _ _ HS). exists obc; auto.
           ** eapply (hstep_valid _ _ _ _ _ _ HS). rewrite O1 in E by auto. eapply Hkids; eauto.
        -- intros ev [<-|[]]; simpl; split; auto; exists ob; auto.
      * inversion Hstep; subst h' b' evs; clear Hstep. simpl.
        pose proof (app_hstep c i h c1) as HS. pose proof (hstep_tpres _ _ _ _ HS) as TP.
        assert (Hval : forall k, In k (fo :: map fr_oid stk) -> k < length h).
        { intros k [<-|Hk]; [eapply nth_some_lt; eauto|].
          destruct (stack_ok_valid _ _ _ _ Hstk k Hk) as (kb & Ek & _). eapply nth_some_lt; eauto. }
        split; [reflexivity|]. split; [exact HS|].
        split; [|split].
        -- constructor; simpl; auto.
           ++ eapply hstep_own; eauto.
           ++ intros e He. apply in_ifcons in He. destruct He as [->|He].
              ** exists (mkC c1 [] false i c). simpl. rewrite nth_app_new. auto.
              ** eapply hstep_own_ent; eauto.
           ++ intros e He. eapply hstep_own_ent; eauto.
           ++ split; [|split].
              ** exists (mkC c1 [] false i c), []. rewrite nth_app_new. simpl. repeat split; auto.
              ** intro Hk. apply Hval in Hk. lia.
              ** split; [|split; auto].
                 --- exists ob, dts. repeat split; auto.
                     +++ apply nth_app_old; auto.
                     +++ eapply tys_pres; eauto.
                 --- eapply stack_ok_pres; eauto. intros k Hk.
                     assert (Hl : k < length h) by (apply Hval; right; auto).
                     apply nth_error_app1; auto.
           ++ intros k kb E C Hn. apply nth_app_inv in E. destruct E as [E|(-> & _)]; [|tauto].
              eapply good_pres; eauto; eapply Hrest; eauto.
        -- intros k kb E C k' Hk'. apply nth_app_inv in E. destruct E as [E|(_ & -> & _)]; [|simpl in Hk'; tauto].
           eapply hstep_valid; eauto.
        -- intros ev [<-|[]]. exact I.
Qed.

End Build.

(* ---------------- part 4 ---------------- *)
Definition pc_cid (p : pc) : option nat := match p with PBuild _ _ b => Some (b_cid b) | _ => None end.
Definition pc_nm (p : pc) : option mid := match p with PCopy _ _ nm _ _ => Some nm | _ => None end.
Definition pc_snap (p : pc) : option mid :=
  match p with PLoaded _ s | PLoaded2 _ s | PBuild _ s _ | PCopy _ s _ _ _ => s | _ => None end.

Definition active (s : state) (c : nat) : Prop :=
  exists i th, nth_error (s_threads s) i = Some th /\ pc_cid (th_pc th) = Some c.

Definition cid_of (s : state) (i : tid) : option nat :=
  match nth_error (s_threads s) i with Some th => pc_cid (th_pc th) | None => None end.
Definition nm_of (s : state) (i : tid) : option mid :=
  match nth_error (s_threads s) i with Some th => pc_nm (th_pc th) | None => None end.

Definition ent_ok (s : state) (e : ty * oid) : Prop :=
  exists ob, nth_error (s_codecs s) (snd e) = Some ob /\ c_ty ob = fst e /\ ~ active s (c_cid ob).

Definition pub_ent (s : state) (e : ty * oid) : Prop :=
  exists m, In m (s_pubs s) /\ In e (ents_of s (Some m)).

Section InvDef.
Variable G : ty -> list ty.
Variable roots : ty -> list ty.

Definition copy_ok (s : state) (i : tid) (t : ty) (nm : mid) (src add : list (ty * oid)) : Prop :=
  (exists mo, nth_error (s_maps s) nm = Some mo /\ m_owner mo = i /\
      (forall e, In e (m_ents mo) -> ent_ok s e) /\
      (forall r, In r (roots t) -> In r (map fst add) \/ In r (map fst (m_ents mo)))) /\
  ~ In nm (s_pubs s) /\
  (forall e, In e src -> ent_ok s e) /\ (forall e, In e add -> ent_ok s e).

Definition pc_ok (s : state) (i : tid) (p : pc) : Prop :=
  match p with
  | PBuild t snap b => build_ok G roots (s_codecs s) (s_ncid s) i t b
  | PCopy t snap nm src add => copy_ok s i t nm src add
  | PUnlock t r => pub_ent s (t, r)
  | PStuck => exists t, ~ In t (roots t)
  | _ => True
  end.

Record thr_ok (s : state) (i : tid) (th : thread) : Prop := {
  to_snap : forall m, pc_snap (th_pc th) = Some m -> In m (s_pubs s);
  to_res : forall e, In e (th_res th) -> pub_ent s e;
  to_pc : pc_ok s i (th_pc th)
}.

Record Inv (s : state) : Prop := {
  i_kids : forall o ob, nth_error (s_codecs s) o = Some ob ->
     c_cid ob < s_ncid s /\ forall k, In k (c_kids ob) -> valid_c (s_codecs s) (c_cid ob) k;
  i_good : forall o ob, nth_error (s_codecs s) o = Some ob -> ~ active s (c_cid ob) -> good G (s_codecs s) ob;
  i_cid_uniq : forall i j thi thj c, nth_error (s_threads s) i = Some thi -> nth_error (s_threads s) j = Some thj ->
     pc_cid (th_pc thi) = Some c -> pc_cid (th_pc thj) = Some c -> i = j;
  i_nm_uniq : forall i j thi thj m, nth_error (s_threads s) i = Some thi -> nth_error (s_threads s) j = Some thj ->
     pc_nm (th_pc thi) = Some m -> pc_nm (th_pc thj) = Some m -> i = j;
  i_pubs : forall m, In m (s_pubs s) -> exists mo, nth_error (s_maps s) m = Some mo /\ forall e, In e (m_ents mo) -> ent_ok s e;
  i_ptr : forall m, s_ptr s = Some m -> In m (s_pubs s);
  i_thr : forall i th, nth_error (s_threads s) i = Some th -> thr_ok s i th
}.

Record Ext (i : tid) (s s' : state) : Prop := {
  x_thr : forall j, j <> i -> nth_error (s_threads s') j = nth_error (s_threads s) j;
  x_cod : forall o ob, nth_error (s_codecs s) o = Some ob -> cid_of s i <> Some (c_cid ob) -> nth_error (s_codecs s') o = Some ob;
  x_same : forall o ob, nth_error (s_codecs s) o = Some ob ->
     exists ob', nth_error (s_codecs s') o = Some ob' /\ c_ty ob' = c_ty ob /\ c_cid ob' = c_cid ob /\ c_owner ob' = c_owner ob;
  x_new : forall o ob', nth_error (s_codecs s') o = Some ob' -> nth_error (s_codecs s) o = None -> cid_of s i = Some (c_cid ob');
  x_act : forall c, cid_of s' i = Some c -> cid_of s i = Some c \/ (c = s_ncid s /\ s_ncid s' = S (s_ncid s));
  x_ncid : s_ncid s <= s_ncid s';
  x_map : forall m mo, nth_error (s_maps s) m = Some mo -> nm_of s i <> Some m -> nth_error (s_maps s') m = Some mo;
  x_nm : forall m, nm_of s' i = Some m -> nm_of s i = Some m \/ m = length (s_maps s);
  x_pubs : forall m, In m (s_pubs s') -> In m (s_pubs s) \/ nm_of s i = Some m;
  x_pubs_inc : forall m, In m (s_pubs s) -> In m (s_pubs s')
}.

Lemma Ext_refl : forall i s, Ext i s s.
Proof. intros; constructor; intros; eauto. congruence. Qed.

Lemma cid_of_active : forall s i c, cid_of s i = Some c -> active s c.
Proof. unfold cid_of, active; intros s i c H. destruct (nth_error (s_threads s) i) as [th|] eqn:E; [|discriminate]. eauto. Qed.

Lemma cid_of_thr : forall s i th, nth_error (s_threads s) i = Some th -> cid_of s i = pc_cid (th_pc th).
Proof. unfold cid_of; intros s i th ->; auto. Qed.
Lemma nm_of_thr : forall s i th, nth_error (s_threads s) i = Some th -> nm_of s i = pc_nm (th_pc th).
Proof. unfold nm_of; intros s i th ->; auto. Qed.

Section ExtFacts.
Variables (i : tid) (s s' : state).
Hypothesis HI : Inv s.
Hypothesis HX : Ext i s s'.

Lemma act_back : forall c, active s' c -> active s c \/ c = s_ncid s.
Proof.
  intros c (j & th & E & C). destruct (Nat.eq_dec j i) as [->|N].
  - assert (H : cid_of s' i = Some c) by (rewrite (cid_of_thr _ _ _ E); auto).
    destruct (x_act _ _ _ HX _ H) as [H1|[H1 _]]; [left; eapply cid_of_active; eauto|auto].
  - left. rewrite (x_thr _ _ _ HX) in E by auto. exists j, th; auto.
Qed.

Lemma act_fwd : forall c, active s c -> cid_of s i <> Some c -> active s' c.
Proof.
  intros c (j & th & E & C) Hn. destruct (Nat.eq_dec j i) as [->|N].
  - rewrite (cid_of_thr _ _ _ E) in Hn. contradiction.
  - exists j, th. rewrite (x_thr _ _ _ HX) by auto. auto.
Qed.

Lemma frozen : forall o ob, nth_error (s_codecs s) o = Some ob -> ~ active s (c_cid ob) ->
  nth_error (s_codecs s') o = Some ob /\ ~ active s' (c_cid ob).
Proof.
  intros o ob E Na. split.
  - eapply x_cod; eauto. intro H. apply Na. eapply cid_of_active; eauto.
  - intro A. destruct (act_back _ A) as [A'|A']; [auto|].
    destruct (i_kids _ HI _ _ E) as [L _]. lia.
Qed.

Lemma ent_ok_ext : forall e, ent_ok s e -> ent_ok s' e.
Proof. intros e (ob & E & T & Na). destruct (frozen _ _ E Na). exists ob; auto. Qed.

Lemma not_own_pub : forall m, In m (s_pubs s) -> nm_of s i <> Some m.
Proof.
  intros m Hm H. unfold nm_of in H. destruct (nth_error (s_threads s) i) as [th|] eqn:E; [|discriminate].
  pose proof (to_pc _ _ _ (i_thr _ HI _ _ E)) as P. destruct (th_pc th); simpl in H; try discriminate.
  inversion H; subst. simpl in P. destruct P as (_ & Hn & _). contradiction.
Qed.

Lemma pub_map_ext : forall m, In m (s_pubs s) -> nth_error (s_maps s') m = nth_error (s_maps s) m.
Proof.
  intros m Hm. destruct (i_pubs _ HI _ Hm) as (mo & E & _). rewrite E.
  eapply x_map; eauto. apply not_own_pub; auto.
Qed.

Lemma pub_ent_ext : forall e, pub_ent s e -> pub_ent s' e.
Proof.
  intros e (m & Hm & He). exists m. split; [eapply x_pubs_inc; eauto|].
  unfold ents_of in *. rewrite pub_map_ext; auto.
Qed.

Lemma tpres_ext : tpres (s_codecs s) (s_codecs s').
Proof. intros k ob E. destruct (x_same _ _ _ HX _ _ E) as (ob' & ? & ? & _). eauto. Qed.

Lemma valid_ext : forall c k, valid_c (s_codecs s) c k -> valid_c (s_codecs s') c k.
Proof.
  intros c k (kb & E & C). destruct (x_same _ _ _ HX _ _ E) as (ob' & ? & ? & ? & _). exists ob'. split; congruence.
Qed.

(* objects of a construction other than the one of the stepping thread are the same before and after *)
Lemma other_fwd : forall c o ob, cid_of s i <> Some c -> nth_error (s_codecs s) o = Some ob -> c_cid ob = c ->
  nth_error (s_codecs s') o = Some ob.
Proof. intros c o ob Hn E C. eapply x_cod; eauto. congruence. Qed.

Lemma other_back : forall c o ob', cid_of s i <> Some c -> nth_error (s_codecs s') o = Some ob' -> c_cid ob' = c ->
  nth_error (s_codecs s) o = Some ob'.
Proof.
  intros c o ob' Hn E' C. destruct (nth_error (s_codecs s) o) as [ob|] eqn:E.
  - destruct (x_same _ _ _ HX _ _ E) as (ob2 & E2 & _ & C2 & _).
    assert (ob2 = ob') by congruence. subst ob2.
    assert (E3 : nth_error (s_codecs s') o = Some ob) by (eapply x_cod; eauto; congruence).
    congruence.
  - exfalso. apply Hn. rewrite <- C. eapply x_new; eauto.
Qed.

Lemma build_ok_frame : forall j t b, cid_of s i <> Some (b_cid b) ->
  build_ok G roots (s_codecs s) (s_ncid s) j t b -> build_ok G roots (s_codecs s') (s_ncid s') j t b.
Proof.
  intros j t b Hn [Hcid Hown Hseen Hbuilt Hstack Hrest Hroots].
  pose proof (x_ncid _ _ _ HX) as Hle. pose proof tpres_ext as TP.
  constructor; auto.
  - lia.
  - intros o ob E C. eapply Hown; eauto. eapply other_back; eauto.
  - intros e He. destruct (Hseen e He) as (ob & E & T & C). exists ob. split; [eapply other_fwd; eauto|auto].
  - intros e He. destruct (Hbuilt e He) as (ob & E & T & C). exists ob. split; [eapply other_fwd; eauto|auto].
  - eapply stack_ok_pres; eauto. intros o Ho.
    destruct (stack_ok_valid _ _ _ _ _ Hstack o Ho) as (kb & E & C).
    rewrite E. eapply other_fwd; eauto.
  - intros o ob E C Hno. eapply good_pres; eauto. eapply Hrest; eauto. eapply other_back; eauto.
Qed.

Lemma thr_ok_ext : forall j th, j <> i -> nth_error (s_threads s) j = Some th -> thr_ok s j th -> thr_ok s' j th.
Proof.
  intros j th N E [Hsnap Hres Hpc]. constructor.
  - intros m Hm. eapply x_pubs_inc; eauto.
  - intros e He. apply pub_ent_ext; auto.
  - destruct (th_pc th) as [| | | | |t snap b|t snap nm src add|t r|] eqn:EP; simpl in *; auto.
    + apply build_ok_frame; auto. intro H. apply N.
      unfold cid_of in H. destruct (nth_error (s_threads s) i) as [thi|] eqn:Ei; [|discriminate].
      symmetry. eapply (i_cid_uniq _ HI i j thi th); eauto. rewrite EP. reflexivity.
    + destruct Hpc as ((mo & Em & Om & Hents & Hr) & Hnp & Hsrc & Hadd).
      assert (Hnm : nm_of s i <> Some nm).
      { intro H. apply N. unfold nm_of in H. destruct (nth_error (s_threads s) i) as [thi|] eqn:Ei; [|discriminate].
        symmetry. eapply (i_nm_uniq _ HI i j thi th); eauto. rewrite EP. reflexivity. }
      split; [|split; [|split]].
      * exists mo. split; [eapply x_map; eauto|]. split; auto. split; auto.
        intros e He. apply ent_ok_ext; auto.
      * intro H. destruct (x_pubs _ _ _ HX _ H); auto.
      * intros e He. apply ent_ok_ext; auto.
      * intros e He. apply ent_ok_ext; auto.
    + apply pub_ent_ext; auto.
Qed.

Hypothesis L_thr : forall th', nth_error (s_threads s') i = Some th' -> thr_ok s' i th'.
Hypothesis L_own : forall c, cid_of s i = Some c ->
   kids_ok (s_codecs s') c /\
   (cid_of s' i <> Some c -> forall o ob, nth_error (s_codecs s') o = Some ob -> c_cid ob = c -> good G (s_codecs s') ob).
Hypothesis L_pub : forall m, In m (s_pubs s') -> ~ In m (s_pubs s) ->
   exists mo, nth_error (s_maps s') m = Some mo /\ forall e, In e (m_ents mo) -> ent_ok s' e.
Hypothesis L_ptr : forall m, s_ptr s' = Some m -> In m (s_pubs s').

Lemma own_bound : forall c, cid_of s i = Some c -> c < s_ncid s.
Proof.
  intros c H. unfold cid_of in H. destruct (nth_error (s_threads s) i) as [th|] eqn:E; [|discriminate].
  pose proof (to_pc _ _ _ (i_thr _ HI _ _ E)) as P. destruct (th_pc th); simpl in H; try discriminate.
  inversion H; subst. simpl in P. apply (bo_cid _ _ _ _ _ _ _ P).
Qed.

Lemma inv_ext : Inv s'.
Proof.
  pose proof (x_ncid _ _ _ HX) as Hle.
  constructor.
  - (* kids *)
    intros o ob' E'.
    assert (D : cid_of s i = Some (c_cid ob') \/ cid_of s i <> Some (c_cid ob')).
    { destruct (cid_of s i) as [c|]; [|right; congruence].
      destruct (Nat.eq_dec c (c_cid ob')); [left|right]; congruence. }
    destruct D as [Hc|Hc].
    + split; [pose proof (own_bound _ Hc); lia|].
      destruct (L_own _ Hc) as [K _]. intros k Hk. eapply K; eauto.
    + pose proof (other_back _ _ _ Hc E' eq_refl) as E.
      destruct (i_kids _ HI _ _ E) as [L K]. split; [lia|]. intros k Hk. apply valid_ext. auto.
  - (* good *)
    intros o ob' E' Na.
    assert (D : cid_of s i = Some (c_cid ob') \/ cid_of s i <> Some (c_cid ob')).
    { destruct (cid_of s i) as [c|]; [|right; congruence].
      destruct (Nat.eq_dec c (c_cid ob')); [left|right]; congruence. }
    destruct D as [Hc|Hc].
    + destruct (L_own _ Hc) as [_ K]. eapply K; eauto. intro H. apply Na. eapply cid_of_active; eauto.
    + pose proof (other_back _ _ _ Hc E' eq_refl) as E.
      eapply good_pres; [apply tpres_ext|]. eapply i_good; eauto.
      intro A. apply Na. apply act_fwd; auto.
  - (* cid uniqueness *)
    assert (K : forall j thi thj c, j <> i -> nth_error (s_threads s') i = Some thi -> nth_error (s_threads s') j = Some thj ->
                pc_cid (th_pc thi) = Some c -> pc_cid (th_pc thj) = Some c -> False).
    { intros j thi thj c N Ei Ej Ci Cj. rewrite (x_thr _ _ _ HX) in Ej by auto.
      assert (H : cid_of s' i = Some c) by (rewrite (cid_of_thr _ _ _ Ei); auto).
      destruct (x_act _ _ _ HX _ H) as [H1|[H1 _]].
      - unfold cid_of in H1. destruct (nth_error (s_threads s) i) as [thi0|] eqn:Ei0; [|discriminate].
        apply N. symmetry. eapply (i_cid_uniq _ HI i j); eauto.
      - pose proof (to_pc _ _ _ (i_thr _ HI _ _ Ej)) as P. destruct (th_pc thj); simpl in Cj; try discriminate.
        inversion Cj; subst. simpl in P. pose proof (bo_cid _ _ _ _ _ _ _ P). lia. }
    intros j1 j2 th1 th2 c E1 E2 C1 C2.
    destruct (Nat.eq_dec j1 i) as [->|N1]; destruct (Nat.eq_dec j2 i) as [->|N2]; auto.
    + exfalso; eapply K; eauto.
    + exfalso; eapply K; eauto.
    + rewrite (x_thr _ _ _ HX) in E1, E2 by auto. eapply (i_cid_uniq _ HI); eauto.
  - (* nm uniqueness *)
    assert (K : forall j thi thj m, j <> i -> nth_error (s_threads s') i = Some thi -> nth_error (s_threads s') j = Some thj ->
                pc_nm (th_pc thi) = Some m -> pc_nm (th_pc thj) = Some m -> False).
    { intros j thi thj m N Ei Ej Ci Cj. rewrite (x_thr _ _ _ HX) in Ej by auto.
      assert (H : nm_of s' i = Some m) by (rewrite (nm_of_thr _ _ _ Ei); auto).
      destruct (x_nm _ _ _ HX _ H) as [H1|H1].
      - unfold nm_of in H1. destruct (nth_error (s_threads s) i) as [thi0|] eqn:Ei0; [|discriminate].
        apply N. symmetry. eapply (i_nm_uniq _ HI i j); eauto.
      - pose proof (to_pc _ _ _ (i_thr _ HI _ _ Ej)) as P. destruct (th_pc thj); simpl in Cj; try discriminate.
        inversion Cj; subst. simpl in P. destruct P as ((mo & Em & _) & _).
        apply nth_some_lt in Em. lia. }
    intros j1 j2 th1 th2 c E1 E2 C1 C2.
    destruct (Nat.eq_dec j1 i) as [->|N1]; destruct (Nat.eq_dec j2 i) as [->|N2]; auto.
    + exfalso; eapply K; eauto.
    + exfalso; eapply K; eauto.
    + rewrite (x_thr _ _ _ HX) in E1, E2 by auto. eapply (i_nm_uniq _ HI); eauto.
  - (* pubs *)
    intros m Hm. destruct (in_dec Nat.eq_dec m (s_pubs s)) as [Hin|Hnin].
    + destruct (i_pubs _ HI _ Hin) as (mo & E & He). exists mo. split.
      * rewrite pub_map_ext; auto.
      * intros e H. apply ent_ok_ext; auto.
    + apply L_pub; auto.
  - exact L_ptr.
  - intros j th E. destruct (Nat.eq_dec j i) as [->|N]; [auto|].
    pose proof E as E0. rewrite (x_thr _ _ _ HX) in E0 by auto.
    apply thr_ok_ext; auto. eapply i_thr; eauto.
Qed.

End ExtFacts.
End InvDef.

(* ---------------- part 5 ---------------- *)
Lemma set_nth_get : forall A (l : list A) i x y z, nth_error l i = Some x -> nth_error (set_nth i y l) i = Some z -> z = y.
Proof. intros A l i x y z E H. rewrite nth_set_nth_same in H by (eapply nth_some_lt; eauto). congruence. Qed.

Section Steps.
Variable G : ty -> list ty.
Variable memo : ty -> bool.
Variable roots : ty -> list ty.
Variable lk : bool.

Notation Inv := (Inv G roots).
Notation thr_ok := (thr_ok G roots).

Lemma ext_make : forall i s s' th th',
  nth_error (s_threads s) i = Some th ->
  s_threads s' = set_nth i th' (s_threads s) ->
  (s_codecs s' = s_codecs s \/ exists c, pc_cid (th_pc th) = Some c /\ hstep c i (s_codecs s) (s_codecs s')) ->
  (pc_cid (th_pc th') = None \/ pc_cid (th_pc th') = pc_cid (th_pc th) \/
     (pc_cid (th_pc th') = Some (s_ncid s) /\ s_ncid s' = S (s_ncid s))) ->
  s_ncid s <= s_ncid s' ->
  (forall m mo, nth_error (s_maps s) m = Some mo -> pc_nm (th_pc th) <> Some m -> nth_error (s_maps s') m = Some mo) ->
  (pc_nm (th_pc th') = None \/ pc_nm (th_pc th') = pc_nm (th_pc th) \/ pc_nm (th_pc th') = Some (length (s_maps s))) ->
  (s_pubs s' = s_pubs s \/ exists nm, pc_nm (th_pc th) = Some nm /\ s_pubs s' = nm :: s_pubs s) ->
  Ext i s s'.
Proof.
  intros i s s' th th' E Et Hc Hcid Hn Hm Hnm Hp.
  assert (E' : nth_error (s_threads s') i = Some th').
  { rewrite Et. apply nth_set_nth_same. eapply nth_some_lt; eauto. }
  pose proof (cid_of_thr _ _ _ E) as C1. pose proof (cid_of_thr _ _ _ E') as C2.
  pose proof (nm_of_thr _ _ _ E) as N1. pose proof (nm_of_thr _ _ _ E') as N2.
  constructor.
  - intros j N. rewrite Et. apply nth_set_nth_other. auto.
  - intros o ob Eo Hne. destruct Hc as [->|(c & Pc & HS)]; auto.
    eapply hs_other; eauto. intro H. apply Hne. congruence.
  - intros o ob Eo. destruct Hc as [->|(c & Pc & HS)]; [eauto|].
    eapply hs_same; eauto.
  - intros o ob' Eo' Eo. destruct Hc as [Hc|(c & Pc & HS)]; [congruence|].
    destruct (hs_new _ _ _ _ HS _ _ Eo' Eo) as [H _]. congruence.
  - intros c H. rewrite C2 in H. rewrite C1. destruct Hcid as [H1|[H1|[H1 H2]]].
    + congruence.
    + left; congruence.
    + right. split; congruence.
  - exact Hn.
  - intros m mo Em H. apply Hm; auto. congruence.
  - intros m H. rewrite N2 in H. rewrite N1. destruct Hnm as [H1|[H1|H1]].
    + congruence.
    + left; congruence.
    + right; congruence.
  - intros m H. destruct Hp as [Hp|(nm & Pn & Hp)]; rewrite Hp in H; auto.
    destruct H as [<-|H]; auto. right. congruence.
  - intros m H. destruct Hp as [Hp|(nm & Pn & Hp)]; rewrite Hp; simpl; auto.
Qed.

Lemma inv_make : forall i s s' th th',
  Inv s -> Ext i s s' ->
  nth_error (s_threads s) i = Some th ->
  s_threads s' = set_nth i th' (s_threads s) ->
  thr_ok s' i th' ->
  (forall c, pc_cid (th_pc th) = Some c ->
     kids_ok (s_codecs s') c /\
     (pc_cid (th_pc th') <> Some c -> forall o ob, nth_error (s_codecs s') o = Some ob -> c_cid ob = c -> good G (s_codecs s') ob)) ->
  (forall m, In m (s_pubs s') -> ~ In m (s_pubs s) ->
     exists mo, nth_error (s_maps s') m = Some mo /\ forall e, In e (m_ents mo) -> ent_ok s' e) ->
  (forall m, s_ptr s' = Some m -> In m (s_pubs s')) ->
  Inv s'.
Proof.
  intros i s s' th th' HI HX E Et Hthr Hown Hpub Hptr.
  assert (E' : nth_error (s_threads s') i = Some th').
  { rewrite Et. apply nth_set_nth_same. eapply nth_some_lt; eauto. }
  eapply inv_ext; eauto.
  - intros th2 E2. assert (th2 = th') by congruence. subst. auto.
  - intros c Hc. rewrite (cid_of_thr _ _ _ E) in Hc. rewrite (cid_of_thr _ _ _ E'). auto.
Qed.

(* the common case: the stepping thread is not constructing, nothing is published *)
Lemma inv_simple : forall i s s' th th',
  Inv s -> Ext i s s' ->
  nth_error (s_threads s) i = Some th ->
  s_threads s' = set_nth i th' (s_threads s) ->
  pc_cid (th_pc th) = None -> s_pubs s' = s_pubs s -> s_ptr s' = s_ptr s ->
  thr_ok s' i th' ->
  Inv s'.
Proof.
  intros i s s' th th' HI HX E Et Hc Hp Hptr Hthr.
  eapply inv_make; eauto.
  - intros c H. congruence.
  - intros m H1 H2. rewrite Hp in H1. contradiction.
  - intros m H. rewrite Hp. rewrite Hptr in H. eapply i_ptr; eauto.
Qed.

Lemma ents_same : forall s s' m, s_maps s' = s_maps s -> ents_of s' m = ents_of s m.
Proof. intros s s' m H. unfold ents_of. rewrite H. reflexivity. Qed.

Lemma hit_pub_ent : forall s snap t o,
  (forall m, snap = Some m -> In m (s_pubs s)) ->
  lookup t (ents_of s snap) = Some o -> pub_ent s (t, o).
Proof.
  intros s snap t o Hs L. destruct snap as [m|]; [|simpl in L; discriminate].
  exists m. split; auto. apply lookup_in; auto.
Qed.

Definition goal (i : tid) (s : state) : Prop :=
  Ext i s (fst (step G memo roots lk i s)) /\ Inv (fst (step G memo roots lk i s)).

Lemma case_idle : forall i s th, Inv s -> nth_error (s_threads s) i = Some th -> th_pc th = PIdle -> goal i s.
Proof.
  intros i s th HI E EP. unfold goal, step. rewrite E, EP.
  destruct (th_todo th) as [|t rest] eqn:ET; simpl.
  - split; [apply Ext_refl|auto].
  - destruct (i_thr _ _ _ HI _ _ E) as [Hsnap Hres Hpc].
    assert (HX : Ext i s (set_thread s i (mkT (PLoaded t (s_ptr s)) rest (th_res th)))).
    { eapply (ext_make i s _ th (mkT (PLoaded t (s_ptr s)) rest (th_res th))); eauto; simpl; auto. }
    split; auto. eapply (inv_simple i s _ th (mkT (PLoaded t (s_ptr s)) rest (th_res th))); eauto; simpl; auto.
    + rewrite EP; auto.
    + constructor; simpl.
      * intros m Hm. eapply i_ptr; eauto.
      * intros e He. eapply pub_ent_ext; eauto.
      * exact I.
Qed.

Lemma case_loaded_hit : forall i s th t snap o, Inv s -> nth_error (s_threads s) i = Some th ->
  th_pc th = PLoaded t snap -> lookup t (ents_of s snap) = Some o -> goal i s.
Proof.
  intros i s th t snap o HI E EP EL. unfold goal, step. rewrite E, EP, EL. simpl.
  destruct (i_thr _ _ _ HI _ _ E) as [Hsnap Hres Hpc]. rewrite EP in Hsnap. simpl in Hsnap.
  assert (HX : Ext i s (set_thread s i (finish_call th t o))).
  { eapply (ext_make i s _ th (finish_call th t o)); eauto; simpl; auto. }
  split; auto. eapply (inv_simple i s _ th (finish_call th t o)); eauto; simpl; auto.
  - rewrite EP; auto.
  - constructor; simpl.
    + intros m Hm. discriminate.
    + intros e [<-|He]; eapply pub_ent_ext; eauto. eapply hit_pub_ent; eauto.
    + exact I.
Qed.

Lemma case_start_build : forall i s th t snap, Inv s -> nth_error (s_threads s) i = Some th ->
  pc_cid (th_pc th) = None -> pc_nm (th_pc th) = None -> pc_snap (th_pc th) = snap ->
  Ext i s (start_build roots s i th t snap) /\ Inv (start_build roots s i th t snap).
Proof.
  intros i s th t snap HI E Hc Hnm Hsn.
  destruct (i_thr _ _ _ HI _ _ E) as [Hsnap Hres Hpc].
  assert (HX : Ext i s (start_build roots s i th t snap)).
  { eapply (ext_make i s _ th (with_pc th (PBuild t snap (mkB (s_ncid s) [] [] (roots t) [])))); eauto; simpl; auto. }
  split; auto. eapply (inv_simple i s _ th (with_pc th (PBuild t snap (mkB (s_ncid s) [] [] (roots t) [])))); eauto; simpl; auto.
  constructor; simpl.
  - intros m Hm. apply Hsnap. congruence.
  - intros e He. eapply pub_ent_ext; eauto.
  - constructor; simpl; auto.
    + intros o ob Eo C. destruct (i_kids _ _ _ HI _ _ Eo). lia.
    + intros e [].
    + intros e [].
    + intros o ob Eo C. destruct (i_kids _ _ _ HI _ _ Eo). lia.
Qed.

Lemma case_loaded_miss : forall i s th t snap, Inv s -> nth_error (s_threads s) i = Some th ->
  th_pc th = PLoaded t snap -> lookup t (ents_of s snap) = None -> goal i s.
Proof.
  intros i s th t snap HI E EP EL. unfold goal, step. rewrite E, EP, EL.
  destruct lk; simpl.
  - destruct (i_thr _ _ _ HI _ _ E) as [Hsnap Hres Hpc].
    assert (HX : Ext i s (set_thread s i (with_pc th (PWantLock t)))).
    { eapply (ext_make i s _ th (with_pc th (PWantLock t))); eauto; simpl; auto. }
    split; auto. eapply (inv_simple i s _ th (with_pc th (PWantLock t))); eauto; simpl; auto.
    + rewrite EP; auto.
    + constructor; simpl.
      * intros m Hm. discriminate.
      * intros e He. eapply pub_ent_ext; eauto.
      * exact I.
  - apply case_start_build; auto; rewrite EP; auto.
Qed.

Lemma case_wantlock : forall i s th t, Inv s -> nth_error (s_threads s) i = Some th ->
  th_pc th = PWantLock t -> goal i s.
Proof.
  intros i s th t HI E EP. unfold goal, step. rewrite E, EP.
  destruct (s_mutex s); simpl.
  - split; [apply Ext_refl|auto].
  - destruct (i_thr _ _ _ HI _ _ E) as [Hsnap Hres Hpc].
    match goal with |- Ext i s ?s1 /\ _ => assert (HX : Ext i s s1) end.
    { eapply (ext_make i s _ th (with_pc th (PLocked t))); eauto; simpl; auto. }
    split; auto. eapply (inv_simple i s _ th (with_pc th (PLocked t))); eauto; simpl; auto.
    + rewrite EP; auto.
    + constructor; simpl.
      * intros m Hm. discriminate.
      * intros e He. eapply pub_ent_ext; eauto.
      * exact I.
Qed.

Lemma case_locked : forall i s th t, Inv s -> nth_error (s_threads s) i = Some th ->
  th_pc th = PLocked t -> goal i s.
Proof.
  intros i s th t HI E EP. unfold goal, step. rewrite E, EP. simpl.
  destruct (i_thr _ _ _ HI _ _ E) as [Hsnap Hres Hpc].
  match goal with |- Ext i s ?s1 /\ _ => assert (HX : Ext i s s1) end.
  { eapply (ext_make i s _ th (with_pc th (PLoaded2 t (s_ptr s)))); eauto; simpl; auto. }
  split; auto. eapply (inv_simple i s _ th (with_pc th (PLoaded2 t (s_ptr s)))); eauto; simpl; auto.
  - rewrite EP; auto.
  - constructor; simpl.
    + intros m Hm. eapply i_ptr; eauto.
    + intros e He. eapply pub_ent_ext; eauto.
    + exact I.
Qed.

Lemma case_loaded2 : forall i s th t snap, Inv s -> nth_error (s_threads s) i = Some th ->
  th_pc th = PLoaded2 t snap -> goal i s.
Proof.
  intros i s th t snap HI E EP. unfold goal, step. rewrite E, EP.
  destruct (lookup t (ents_of s snap)) as [o|] eqn:EL; simpl.
  - destruct (i_thr _ _ _ HI _ _ E) as [Hsnap Hres Hpc]. rewrite EP in Hsnap. simpl in Hsnap.
    match goal with |- Ext i s ?s1 /\ _ => assert (HX : Ext i s s1) end.
    { eapply (ext_make i s _ th (with_pc th (PUnlock t o))); eauto; simpl; auto. }
    split; auto. eapply (inv_simple i s _ th (with_pc th (PUnlock t o))); eauto; simpl; auto.
    + rewrite EP; auto.
    + constructor; simpl.
      * intros m Hm. discriminate.
      * intros e He. eapply pub_ent_ext; eauto.
      * eapply pub_ent_ext; eauto. eapply hit_pub_ent; eauto.
  - apply case_start_build; auto; rewrite EP; auto.
Qed.

Lemma case_unlock : forall i s th t r, Inv s -> nth_error (s_threads s) i = Some th ->
  th_pc th = PUnlock t r -> goal i s.
Proof.
  intros i s th t r HI E EP. unfold goal, step. rewrite E, EP. simpl.
  destruct (i_thr _ _ _ HI _ _ E) as [Hsnap Hres Hpc]. rewrite EP in Hpc. simpl in Hpc.
  match goal with |- Ext i s ?s1 /\ _ => assert (HX : Ext i s s1) end.
  { eapply (ext_make i s _ th (finish_call th t r)); eauto; simpl; auto. }
  split; auto. eapply (inv_simple i s _ th (finish_call th t r)); eauto; simpl; auto.
  - rewrite EP; auto.
  - constructor; simpl.
    + intros m Hm. discriminate.
    + intros e [<-|He]; eapply pub_ent_ext; eauto.
    + exact I.
Qed.

End Steps.

(* ---------------- part 6 ---------------- *)
Section Steps2.
Variable G : ty -> list ty.
Variable memo : ty -> bool.
Variable roots : ty -> list ty.
Variable lk : bool.

Notation Inv := (Inv G roots).
Notation thr_ok := (thr_ok G roots).
Notation GOAL := (goal G memo roots lk).

Lemma inv_kids_ok : forall s c, Inv s -> kids_ok (s_codecs s) c.
Proof.
  intros s c HI o ob E C k Hk. destruct (i_kids _ _ _ HI _ _ E) as [_ K]. rewrite <- C. auto.
Qed.

Lemma case_build_step : forall i s th t snap b h' b' evs, Inv s -> nth_error (s_threads s) i = Some th ->
  th_pc th = PBuild t snap b -> build_step G memo i (s_codecs s) b = (h', b', evs) ->
  let s' := mkS h' (s_maps s) (s_ptr s) (s_mutex s) (set_nth i (with_pc th (PBuild t snap b')) (s_threads s)) (s_ncid s) (s_pubs s) in
  Ext i s s' /\ Inv s'.
Proof.
  intros i s th t snap b h' b' evs HI E EP EB s'.
  destruct (i_thr _ _ _ HI _ _ E) as [Hsnap Hres Hpc]. rewrite EP in Hsnap, Hpc. simpl in Hsnap, Hpc.
  destruct (build_step_ok G memo roots _ _ _ _ _ _ _ _ Hpc (inv_kids_ok _ _ HI) EB) as (Hc & HS & HB & HK & _).
  assert (HX : Ext i s s').
  { eapply (ext_make i s s' th (with_pc th (PBuild t snap b'))); eauto; simpl; auto.
    - right. exists (b_cid b). rewrite EP. auto.
    - right; left. rewrite EP. simpl. congruence. }
  split; auto.
  eapply (inv_make G roots i s s' th (with_pc th (PBuild t snap b'))); eauto; simpl; auto.
  - constructor; simpl; auto.
  - intros c Pc. rewrite EP in Pc. simpl in Pc. inversion Pc; subst c. split; auto.
    intro H. exfalso. apply H. congruence.
  - intros m H1 H2. contradiction.
  - intros m H. eapply i_ptr; eauto.
Qed.

Lemma case_build_finish : forall i s th t snap b, Inv s -> nth_error (s_threads s) i = Some th ->
  th_pc th = PBuild t snap b -> b_stack b = [] -> b_roots b = [] ->
  let add := if lk then rev (b_seen b) ++ rev (b_built b) else rev (b_built b) in
  let th' := with_pc th (PCopy t snap (length (s_maps s)) (ents_of s snap) add) in
  let s' := mkS (s_codecs s) (s_maps s ++ [mkM [] i]) (s_ptr s) (s_mutex s) (set_nth i th' (s_threads s)) (s_ncid s) (s_pubs s) in
  Ext i s s' /\ Inv s'.
Proof.
  intros i s th t snap b HI E EP ES ER add th' s'.
  destruct (i_thr _ _ _ HI _ _ E) as [Hsnap Hres Hpc]. rewrite EP in Hsnap, Hpc. simpl in Hsnap, Hpc.
  destruct Hpc as [Hcid Hown Hseen Hbuilt Hstack Hrest Hroots].
  assert (HX : Ext i s s').
  { eapply (ext_make i s s' th th'); eauto; simpl; auto.
    intros m mo Em _. apply nth_app_old; auto. }
  split; auto.
  assert (E' : nth_error (s_threads s') i = Some th').
  { simpl. apply nth_set_nth_same. eapply nth_some_lt; eauto. }
  assert (Na : ~ active s' (b_cid b)).
  { intros (j & thj & Ej & Cj). destruct (Nat.eq_dec j i) as [->|N].
    - assert (thj = th') by congruence. subst thj. simpl in Cj. discriminate.
    - rewrite (x_thr _ _ _ HX) in Ej by auto. apply N.
      eapply (i_cid_uniq _ _ _ HI j i); eauto. rewrite EP. reflexivity. }
  eapply (inv_make G roots i s s' th th'); eauto; simpl; auto.
  - constructor; simpl; auto.
    + intros e He. eapply pub_ent_ext; eauto.
    + unfold copy_ok, s'; simpl. split; [|split; [|split]].
      * exists (mkM [] i). rewrite nth_app_new. split; auto. split; auto. split; [intros e []|].
        intros r Hr. left. destruct (Hroots r Hr) as [H|[H|H]].
        -- apply in_map_iff in H. destruct H as (e & <- & Hin). apply in_map_iff. exists e. split; auto.
           unfold add. destruct lk; [apply in_or_app; right|]; apply -> in_rev; auto.
        -- rewrite ER in H. destruct H.
        -- rewrite ES in H. discriminate.
      * intro H. destruct (i_pubs _ _ _ HI _ H) as (mo & Em & _). apply nth_some_lt in Em. lia.
      * intros e He. eapply ent_ok_ext; eauto.
        destruct snap as [m|]; [|destruct He].
        destruct (i_pubs _ _ _ HI m (Hsnap m eq_refl)) as (mo & Em & Hents).
        simpl in He. rewrite Em in He. auto.
      * intros e He.
        assert (Hin : In e (b_seen b) \/ In e (b_built b)).
        { unfold add in He. destruct lk.
          - apply in_app_or in He. destruct He as [He|He]; apply in_rev in He; auto.
          - apply in_rev in He; auto. }
        assert (Ho : own_ent (s_codecs s) (b_cid b) e) by (destruct Hin; auto).
        destruct Ho as (ob & Eo & To & Co). exists ob. simpl. split; auto. split; auto. rewrite Co. auto.
  - intros c Pc. rewrite EP in Pc. simpl in Pc. inversion Pc; subst c. split.
    + apply inv_kids_ok; auto.
    + intros _ o ob Eo Co. eapply Hrest; eauto. rewrite ES. simpl. tauto.
  - intros m H1 H2. contradiction.
  - intros m H. eapply i_ptr; eauto.
Qed.

Lemma case_copy_ins : forall i s th t snap nm src add src' add' f e0,
  Inv s -> nth_error (s_threads s) i = Some th -> th_pc th = PCopy t snap nm src add ->
  (forall l e', In e' (f l) -> e' = e0 \/ In e' l) ->
  (forall l k, In k (map fst l) \/ k = fst e0 -> In k (map fst (f l))) ->
  (In e0 src \/ In e0 add) -> incl src' src -> incl add' add ->
  (forall r, In r (map fst add) -> In r (map fst add') \/ r = fst e0) ->
  let th' := with_pc th (PCopy t snap nm src' add') in
  let s' := mkS (s_codecs s) (map_insert (s_maps s) nm f) (s_ptr s) (s_mutex s) (set_nth i th' (s_threads s)) (s_ncid s) (s_pubs s) in
  Ext i s s' /\ Inv s'.
Proof.
  intros i s th t snap nm src add src' add' f e0 HI E EP Hf Hk He0 Hs Ha Hr th' s'.
  destruct (i_thr _ _ _ HI _ _ E) as [Hsnap Hres Hpc]. rewrite EP in Hsnap, Hpc. simpl in Hsnap, Hpc.
  destruct Hpc as ((mo & Em & Om & Hents & Hroots) & Hnp & Hsrc & Hadd).
  assert (HX : Ext i s s').
  { eapply (ext_make i s s' th th'); eauto; simpl; auto.
    - intros m mo' Em' Hne. unfold map_insert. rewrite Em. rewrite nth_set_nth_other; auto.
      rewrite EP in Hne. simpl in Hne. intro HH. apply Hne. f_equal. exact HH.
    - right; left. rewrite EP. reflexivity. }
  split; auto.
  eapply (inv_simple G roots i s s' th th'); eauto; simpl; auto.
  - rewrite EP; auto.
  - constructor; simpl; auto.
    + intros e He. eapply pub_ent_ext; eauto.
    + unfold copy_ok, s'; simpl. split; [|split; [|split]]; auto.
      * exists (mkM (f (m_ents mo)) (m_owner mo)). split; [|split; [auto|split]].
        -- unfold map_insert. rewrite Em. apply nth_set_nth_same. eapply nth_some_lt; eauto.
        -- simpl. intros e He. eapply ent_ok_ext; eauto. destruct (Hf _ _ He) as [->|H]; auto.
           destruct He0; auto.
        -- simpl. intros r Hrr. destruct (Hroots r Hrr) as [H|H].
           ++ destruct (Hr r H) as [H1|H1]; auto.
           ++ right. auto.
      * intros e He. eapply ent_ok_ext; eauto.
      * intros e He. eapply ent_ok_ext; eauto.
Qed.

Lemma case_copy_final : forall i s th t snap nm,
  Inv s -> nth_error (s_threads s) i = Some th -> th_pc th = PCopy t snap nm [] [] -> GOAL i s.
Proof.
  intros i s th t snap nm HI E EP. unfold goal, step. rewrite E, EP.
  destruct (i_thr _ _ _ HI _ _ E) as [Hsnap Hres Hpc]. rewrite EP in Hsnap, Hpc. simpl in Hsnap, Hpc.
  destruct Hpc as ((mo & Em & Om & Hents & Hroots) & Hnp & Hsrc & Hadd).
  destruct (lookup t (ents_of s (Some nm))) as [r|] eqn:EL; simpl.
  - set (th' := if lk then with_pc th (PUnlock t r) else finish_call th t r).
    match goal with |- Ext i s ?s1 /\ _ => set (s' := s1) end.
    assert (Hth' : s_threads s' = set_nth i th' (s_threads s)) by reflexivity.
    assert (HX : Ext i s s').
    { eapply (ext_make i s s' th th'); eauto; simpl; auto.
      - left. unfold th'. destruct lk; reflexivity.
      - left. unfold th'. destruct lk; reflexivity.
      - right. exists nm. rewrite EP. auto. }
    split; auto.
    assert (Hpe : pub_ent s' (t, r)).
    { exists nm. split; [simpl; auto|]. apply lookup_in. exact EL. }
    eapply (inv_make G roots i s s' th th'); eauto.
    + constructor.
      * intros m Hm. unfold th' in Hm. destruct lk; simpl in Hm; discriminate.
      * intros e He. unfold th' in He. destruct lk; simpl in He.
        -- eapply pub_ent_ext; eauto.
        -- destruct He as [<-|He]; auto. eapply pub_ent_ext; eauto.
      * unfold th'. destruct lk; simpl; auto.
    + intros c Pc. rewrite EP in Pc. discriminate.
    + intros m H1 H2. simpl in H1. destruct H1 as [<-|H1]; [|contradiction].
      exists mo. split; [exact Em|]. intros e He. eapply ent_ok_ext; eauto.
    + intros m H. simpl in H. inversion H. simpl. auto.
  - set (th' := with_pc th PStuck).
    match goal with |- Ext i s ?s1 /\ _ => set (s' := s1) end.
    assert (HX : Ext i s s').
    { eapply (ext_make i s s' th th'); eauto; simpl; auto. }
    split; auto.
    eapply (inv_simple G roots i s s' th th'); eauto; simpl; auto.
    + rewrite EP; auto.
    + constructor.
      * intros m Hm. simpl in Hm. discriminate.
      * intros e He. simpl in He. eapply pub_ent_ext; eauto.
      * simpl. exists t. intro Hr. destruct (Hroots t Hr) as [H|H]; [destruct H|].
        destruct (lookup_key _ _ H) as (v & Hv). simpl in EL. rewrite Em in EL. congruence.
Qed.

Lemma step_goal : forall i s, Inv s -> GOAL i s.
Proof.
  intros i s HI. destruct (nth_error (s_threads s) i) as [th|] eqn:E.
  2:{ unfold goal, step. rewrite E. simpl. split; [apply Ext_refl|auto]. }
  destruct (th_pc th) as [|t snap|t|t|t snap|t snap b|t snap nm src add|t r|] eqn:EP.
  - eapply case_idle; eauto.
  - destruct (lookup t (ents_of s snap)) eqn:EL.
    + eapply case_loaded_hit; eauto.
    + eapply case_loaded_miss; eauto.
  - eapply case_wantlock; eauto.
  - eapply case_locked; eauto.
  - eapply case_loaded2; eauto.
  - unfold goal, step. rewrite E, EP.
    destruct (b_stack b) as [|f stk] eqn:ES.
    + destruct (b_roots b) as [|r rs] eqn:ER.
      * simpl. apply case_build_finish; auto.
      * destruct (build_step G memo i (s_codecs s) b) as [[h' b'] evs] eqn:EB. simpl.
        eapply case_build_step; eauto.
    + destruct (build_step G memo i (s_codecs s) b) as [[h' b'] evs] eqn:EB. simpl.
      eapply case_build_step; eauto.
  - destruct src as [|e src].
    + destruct add as [|e add].
      * eapply case_copy_final; eauto.
      * unfold goal, step. rewrite E, EP. simpl.
        eapply (case_copy_ins i s th t snap nm [] (e :: add) [] add _ (fst e, snd e)); eauto.
        -- intros l e' H. destruct lk; [apply in_upd_absent|apply in_upd]; auto.
        -- intros l k H. destruct lk; [apply keys_upd_absent|apply keys_upd]; auto.
        -- right. left. destruct e; auto.
        -- apply incl_refl.
        -- apply incl_tl, incl_refl.
        -- simpl. intros r [H|H]; auto.
    + unfold goal, step. rewrite E, EP. simpl.
      eapply (case_copy_ins i s th t snap nm (e :: src) add src add _ (fst e, snd e)); eauto.
      * intros l e' H. apply in_upd; auto.
      * intros l k H. apply keys_upd; auto.
      * left. left. destruct e; auto.
      * apply incl_tl, incl_refl.
      * apply incl_refl.
  - eapply case_unlock; eauto.
  - unfold goal, step. rewrite E, EP. simpl. split; [apply Ext_refl|auto].
Qed.

End Steps2.

(* ---------------- part 7 ---------------- *)
Section Final.
Variable G : ty -> list ty.
Variable memo : ty -> bool.
Variable roots : ty -> list ty.
Variable lk : bool.

Notation Inv := (Inv G roots).
Notation RUN := (run G memo roots lk).
Notation STEP := (step G memo roots lk).

Lemma nth_nil_some : forall A n (x : A), nth_error [] n = Some x -> False.
Proof. intros A [|n] x H; discriminate. Qed.

Lemma init_thread : forall progs i th, nth_error (s_threads (init progs)) i = Some th -> exists p, th = mkT PIdle p [].
Proof.
  intros progs i th H. simpl in H. apply nth_error_In in H. apply in_map_iff in H.
  destruct H as (p & <- & _). eauto.
Qed.

Lemma inv_init : forall progs, Inv (init progs).
Proof.
  intros progs. constructor.
  - intros o ob H. simpl in H. destruct (nth_nil_some _ _ _ H).
  - intros o ob H. simpl in H. destruct (nth_nil_some _ _ _ H).
  - intros i j thi thj c Ei _ Ci _. destruct (init_thread _ _ _ Ei) as (p & ->). discriminate.
  - intros i j thi thj c Ei _ Ci _. destruct (init_thread _ _ _ Ei) as (p & ->). discriminate.
  - intros m [].
  - intros m H. discriminate.
  - intros i th E. destruct (init_thread _ _ _ E) as (p & ->). constructor; simpl; auto.
    + intros m H; discriminate.
    + intros e [].
Qed.

Lemma step_inv : forall i s, Inv s -> Inv (fst (STEP i s)).
Proof. intros i s HI. apply (step_goal G memo roots lk i s HI). Qed.
Lemma step_ext : forall i s, Inv s -> Ext i s (fst (STEP i s)).
Proof. intros i s HI. apply (step_goal G memo roots lk i s HI). Qed.

Lemma run_inv : forall sched s, Inv s -> Inv (RUN sched s).
Proof. induction sched as [|i r IH]; intros s HI; simpl; auto. apply IH. apply step_inv; auto. Qed.

Lemma reach_inv : forall progs sched, Inv (RUN sched (init progs)).
Proof. intros. apply run_inv. apply inv_init. Qed.

(* ---- unfolding of finished objects ---- *)
Lemma unfold_kids : forall n h c (P : cobj -> Prop),
  (forall k kb, nth_error h k = Some kb -> c_cid kb = c -> unfold n h k = spec_tree G n (c_ty kb)) ->
  forall ks ts, (forall k, In k ks -> valid_c h c k) -> tys h ks = map Some ts ->
  map (unfold n h) ks = map (spec_tree G n) ts.
Proof.
  intros n h c P IH ks; induction ks as [|k ks IHk]; intros [|t ts] Hv Ht; simpl in *; try discriminate; auto.
  inversion Ht as [[H1 H2]].
  destruct (Hv k (or_introl eq_refl)) as (kb & Ek & Ck).
  rewrite Ek in H1. simpl in H1. inversion H1; subst t.
  f_equal; [apply IH; auto|]. apply IHk; auto.
Qed.

Lemma unfold_good : forall s, Inv s -> forall n o ob,
  nth_error (s_codecs s) o = Some ob -> ~ active s (c_cid ob) ->
  unfold n (s_codecs s) o = spec_tree G n (c_ty ob).
Proof.
  intros s HI n; induction n as [|n IH]; intros o ob E Na; simpl; auto.
  rewrite E. destruct (i_good _ _ _ HI _ _ E Na) as [D T]. rewrite D. f_equal.
  destruct (i_kids _ _ _ HI _ _ E) as [_ K].
  eapply (unfold_kids n (s_codecs s) (c_cid ob) (fun _ => True)); eauto.
  intros k kb Ek Ck. apply IH; auto. congruence.
Qed.

Lemma pub_ent_ok : forall s e, Inv s -> pub_ent s e -> ent_ok s e.
Proof.
  intros s e HI (m & Hm & He). destruct (i_pubs _ _ _ HI _ Hm) as (mo & Em & Hents).
  simpl in He. rewrite Em in He. auto.
Qed.

Lemma pub_ent_unfold : forall s t o, Inv s -> pub_ent s (t, o) -> forall n, unfold n (s_codecs s) o = spec_tree G n t.
Proof.
  intros s t o HI H n. destruct (pub_ent_ok _ _ HI H) as (ob & E & T & Na). simpl in *.
  rewrite <- T. apply unfold_good; auto.
Qed.

Theorem ptr_in_pubs_pf : ptr_in_pubs_prop G memo roots lk.
Proof. intros progs sched m H. eapply i_ptr; eauto. apply reach_inv. Qed.

Theorem cache_safe_pf : cache_safe_prop G memo roots lk.
Proof.
  intros progs sched m t o s Hm HL n. apply pub_ent_unfold; [apply reach_inv|].
  exists m. split; auto. apply lookup_in; auto.
Qed.

Theorem results_correct_pf : results_correct_prop G memo roots lk.
Proof.
  intros progs sched i th t o s E Hin n. pose proof (reach_inv progs sched) as HI.
  apply pub_ent_unfold; auto. eapply to_res; eauto. eapply i_thr; eauto.
Qed.

Theorem conc_equals_solo_pf : conc_equals_solo_prop G memo roots lk.
Proof.
  intros progs sched i th t o k th' o' s s' E Hin E' Hin' n. subst s s'.
  rewrite (results_correct_pf progs sched i th t o E Hin n).
  symmetry. apply (results_correct_pf [[t]] (repeat 0 k) 0 th' t o' E' Hin' n).
Qed.

Theorem never_stuck_pf : never_stuck_prop G memo roots lk.
Proof.
  intros Hr progs sched i th E EP. pose proof (reach_inv progs sched) as HI.
  pose proof (to_pc _ _ _ _ _ (i_thr _ _ _ HI _ _ E)) as P. rewrite EP in P. simpl in P.
  destruct P as (t & Ht). apply Ht. apply Hr.
Qed.

(* ---- immutability ---- *)
Lemma reach_cid : forall s o ob o', Inv s -> nth_error (s_codecs s) o = Some ob -> reach (s_codecs s) o o' ->
  exists ob', nth_error (s_codecs s) o' = Some ob' /\ c_cid ob' = c_cid ob.
Proof.
  intros s o ob o' HI E R. induction R as [|o1 ob1 k R IH E1 Hk].
  - eauto.
  - destruct IH as (ob1' & E1' & C1). assert (ob1' = ob1) by congruence. subst ob1'.
    destruct (i_kids _ _ _ HI _ _ E1) as [_ K]. destruct (K k Hk) as (kb & Ek & Ck).
    exists kb. split; auto. congruence.
Qed.

Lemma frozen_run : forall sched s, Inv s ->
  (forall m, In m (s_pubs s) -> In m (s_pubs (RUN sched s)) /\ nth_error (s_maps (RUN sched s)) m = nth_error (s_maps s) m) /\
  (forall o ob, nth_error (s_codecs s) o = Some ob -> ~ active s (c_cid ob) ->
     nth_error (s_codecs (RUN sched s)) o = Some ob /\ ~ active (RUN sched s) (c_cid ob)).
Proof.
  induction sched as [|i r IH]; intros s HI; simpl.
  - split; auto.
  - pose proof (step_inv i s HI) as HI1. pose proof (step_ext i s HI) as HX.
    destruct (IH _ HI1) as [A B]. split.
    + intros m Hm. destruct (A m (x_pubs_inc _ _ _ HX _ Hm)) as [A1 A2]. split; auto.
      rewrite A2. eapply pub_map_ext; eauto.
    + intros o ob E Na. destruct (frozen G roots i s _ HI HX _ _ E Na) as [F1 F2]. apply B; auto.
Qed.

Theorem immut_pf : immut_prop G memo roots lk.
Proof.
  intros progs sched1 sched2 m s1 s2 Hm. pose proof (reach_inv progs sched1) as HI. fold s1 in HI.
  destruct (frozen_run sched2 s1 HI) as [A B]. split.
  - apply A; auto.
  - intros t o o' He R.
    assert (Hp : pub_ent s1 (t, o)) by (exists m; auto).
    destruct (pub_ent_ok _ _ HI Hp) as (ob & E & T & Na). simpl in E.
    destruct (reach_cid _ _ _ _ HI E R) as (ob' & E' & C').
    rewrite E'. apply B; auto. rewrite C'. auto.
Qed.

(* ---- program order ---- *)
Definition cur_ok (p : pc) (cur : list ty) : Prop :=
  match p with
  | PIdle => cur = []
  | PLoaded t _ | PWantLock t | PLocked t | PLoaded2 t _ | PBuild t _ _ | PCopy t _ _ _ _ | PUnlock t _ => cur = [t]
  | PStuck => length cur = 1
  end.

Definition ord_thr (p : list ty) (th : thread) : Prop :=
  exists cur, rev (map fst (th_res th)) ++ cur ++ th_todo th = p /\ cur_ok (th_pc th) cur.

Definition Ord (progs : list (list ty)) (s : state) : Prop :=
  forall i th p, nth_error (s_threads s) i = Some th -> nth_error progs i = Some p -> ord_thr p th.

Ltac ord_fin EP :=
  right; eexists; eexists; split; [reflexivity|]; split; [reflexivity|];
  let p := fresh in let cur := fresh in let Hc := fresh in let Hk := fresh in
  intros p (cur & Hc & Hk); rewrite EP in Hk; simpl in Hk; subst cur;
  first [ eexists; split; [exact Hc | reflexivity]
        | exists []; simpl; split; [rewrite <- Hc; rewrite <- app_assoc; reflexivity | reflexivity] ].

Lemma step_threads : forall i s,
  s_threads (fst (STEP i s)) = s_threads s \/
  exists th th', nth_error (s_threads s) i = Some th /\ s_threads (fst (STEP i s)) = set_nth i th' (s_threads s) /\
     forall p, ord_thr p th -> ord_thr p th'.
Proof.
  intros i s. unfold step. destruct (nth_error (s_threads s) i) as [th|] eqn:E; [|left; reflexivity].
  destruct (th_pc th) as [|t snap|t|t|t snap|t snap b|t snap nm src add|t r|] eqn:EP.
  - destruct (th_todo th) as [|t rest] eqn:ET; [left; reflexivity|].
    right. eexists; eexists. split; [reflexivity|]. split; [reflexivity|].
    intros p (cur & Hc & Hk). rewrite EP in Hk. simpl in Hk. subst cur. rewrite ET in Hc.
    exists [t]. simpl in *. auto.
  - destruct (lookup t (ents_of s snap)); [ord_fin EP|]. destruct lk; ord_fin EP.
  - destruct (s_mutex s); [left; reflexivity|]. ord_fin EP.
  - ord_fin EP.
  - destruct (lookup t (ents_of s snap)); ord_fin EP.
  - destruct (b_stack b) as [|f stk].
    + destruct (b_roots b) as [|r rs]; [ord_fin EP|].
      destruct (build_step G memo i (s_codecs s) b) as [[h' b'] evs]. ord_fin EP.
    + destruct (build_step G memo i (s_codecs s) b) as [[h' b'] evs]. ord_fin EP.
  - destruct src as [|e src]; [|ord_fin EP].
    destruct add as [|e add]; [|ord_fin EP].
    destruct (lookup t (ents_of s (Some nm))); [|ord_fin EP].
    destruct lk; ord_fin EP.
  - ord_fin EP.
  - left; reflexivity.
Qed.

Lemma ord_step : forall progs i s, Ord progs s -> Ord progs (fst (STEP i s)).
Proof.
  intros progs i s HO. destruct (step_threads i s) as [H|(th & th' & E & H & Hp)].
  - unfold Ord. rewrite H. exact HO.
  - intros j thj p Ej Ep. rewrite H in Ej. destruct (Nat.eq_dec j i) as [->|N].
    + rewrite nth_set_nth_same in Ej by (eapply nth_some_lt; eauto). inversion Ej; subst thj.
      apply Hp. eapply HO; eauto.
    + rewrite nth_set_nth_other in Ej by auto. eapply HO; eauto.
Qed.

Lemma ord_run : forall progs sched s, Ord progs s -> Ord progs (RUN sched s).
Proof. intros progs sched; induction sched as [|i r IH]; intros s HO; simpl; auto. apply IH. apply ord_step; auto. Qed.

Lemma ord_init : forall progs, Ord progs (init progs).
Proof.
  intros progs i th p E Ep. simpl in E.
  rewrite (map_nth_error (fun p => mkT PIdle p []) i progs Ep) in E. inversion E; subst th.
  exists []. simpl. auto.
Qed.

Theorem results_in_order_pf : results_in_order_prop G memo roots lk.
Proof.
  intros progs sched i th p s E Ep.
  destruct (ord_run progs sched _ (ord_init progs) i th p E Ep) as (cur & Hc & Hk).
  exists cur. split; auto. destruct (th_pc th); simpl in Hk; subst; simpl; lia.
Qed.

End Final.

(* ---------------- part 8 ---------------- *)
Section Events.
Variable G : ty -> list ty.
Variable memo : ty -> bool.
Variable roots : ty -> list ty.
Variable lk : bool.

Notation Inv := (Inv G roots).
Notation RUN := (run G memo roots lk).
Notation STEP := (step G memo roots lk).

Definition ev_ok (i : tid) (s s' : state) (ev : event) : Prop :=
  match ev with
  | EvWrite j l => j = i /\ owner_is s l i /\ ~ published s l
  | EvRead j l => j = i /\ exists m, l = LM m /\ In m (s_pubs s)
  | EvUse j o => j = i /\ exists t, pub_ent s' (t, o)
  | _ => True
  end.

Lemma snap_reads_ok : forall i s s' snap ev, (forall m, snap = Some m -> In m (s_pubs s)) ->
  In ev (snap_reads i snap) -> ev_ok i s s' ev.
Proof.
  intros i s s' [m|] ev H Hin; simpl in Hin; [|tauto]. destruct Hin as [<-|[]]. simpl. eauto.
Qed.

Lemma use_ok : forall i s s' th' t o, Inv s' -> nth_error (s_threads s') i = Some th' -> In (t, o) (th_res th') ->
  ev_ok i s s' (EvUse i o).
Proof.
  intros i s s' th' t o HI E Hin. simpl. split; auto. exists t. eapply to_res; eauto. eapply i_thr; eauto.
Qed.

Lemma set_same : forall A (l : list A) i x y, nth_error l i = Some x -> nth_error (set_nth i y l) i = Some y.
Proof. intros. apply nth_set_nth_same. eapply nth_some_lt; eauto. Qed.

Lemma own_not_published : forall s i th t snap b o, Inv s -> nth_error (s_threads s) i = Some th ->
  th_pc th = PBuild t snap b -> valid_c (s_codecs s) (b_cid b) o ->
  owner_is s (LC o) i /\ ~ published s (LC o).
Proof.
  intros s i th t snap b o HI E EP (kb & Ek & Ck).
  pose proof (to_pc _ _ _ _ _ (i_thr _ _ _ HI _ _ E)) as P. rewrite EP in P. simpl in P.
  split.
  - exists kb. split; auto. eapply (bo_own _ _ _ _ _ _ _ P); eauto.
  - intros (m & t0 & o0 & Hm & He & R).
    assert (Hp : pub_ent s (t0, o0)) by (exists m; auto).
    destruct (pub_ent_ok G roots _ _ HI Hp) as (ob0 & E0 & T0 & Na). simpl in E0.
    destruct (reach_cid G roots _ _ _ _ HI E0 R) as (ob' & E' & C').
    assert (ob' = kb) by congruence. subst ob'.
    apply Na. exists i, th. split; auto. rewrite EP. simpl. congruence.
Qed.

Lemma copy_write_ok : forall s s' i th t snap nm src add, Inv s -> nth_error (s_threads s) i = Some th ->
  th_pc th = PCopy t snap nm src add -> ev_ok i s s' (EvWrite i (LM nm)).
Proof.
  intros s s' i th t snap nm src add HI E EP.
  pose proof (to_pc _ _ _ _ _ (i_thr _ _ _ HI _ _ E)) as P. rewrite EP in P. simpl in P.
  destruct P as ((mo & Em & Om & _) & Hnp & _).
  simpl. split; auto. split; auto. exists mo. auto.
Qed.

Lemma step_events : forall i s s' evs, Inv s -> STEP i s = (s', evs) -> Inv s' ->
  forall ev, In ev evs -> ev_ok i s s' ev.
Proof.
  intros i s s' evs HI HS HI' ev Hin. unfold step in HS.
  destruct (nth_error (s_threads s) i) as [th|] eqn:E.
  2:{ inversion HS; subst. destruct Hin. }
  pose proof (i_thr _ _ _ HI _ _ E) as [Hsnap Hres Hpc].
  destruct (th_pc th) as [|t snap|t|t|t snap|t snap b|t snap nm src add|t r|] eqn:EP; simpl in Hsnap, Hpc.
  - destruct (th_todo th) as [|t rest]; inversion HS; subst; clear HS.
    + destruct Hin.
    + destruct Hin as [<-|[]]. exact I.
  - destruct (lookup t (ents_of s snap)) as [o|] eqn:EL.
    + inversion HS; subst; clear HS. apply in_app_or in Hin. destruct Hin as [Hin|[<-|[]]].
      * eapply snap_reads_ok; eauto.
      * eapply (use_ok i s _ (finish_call th t o) t o); eauto.
        -- simpl. eapply set_same; eauto.
        -- simpl. auto.
    + destruct lk; inversion HS; subst; clear HS; eapply snap_reads_ok; eauto.
  - destruct (s_mutex s); inversion HS; subst; clear HS.
    + destruct Hin.
    + destruct Hin as [<-|[]]. exact I.
  - inversion HS; subst; clear HS. destruct Hin as [<-|[]]. exact I.
  - destruct (lookup t (ents_of s snap)) as [o|] eqn:EL; inversion HS; subst; clear HS; eapply snap_reads_ok; eauto.
  - assert (HB : forall h' b' evs', build_step G memo i (s_codecs s) b = (h', b', evs') -> In ev evs' -> ev_ok i s s' ev).
    { intros h' b' evs' EB Hin'.
      destruct (build_step_ok G memo roots _ _ _ _ _ _ _ _ Hpc (inv_kids_ok G roots _ _ HI) EB) as (_ & _ & _ & _ & Hev).
      specialize (Hev ev Hin'). destruct ev as [| |j [o|m]| | | | |]; simpl in Hev; try contradiction; try exact I.
      destruct Hev as [-> Hv]. simpl. split; auto. eapply own_not_published; eauto. }
    destruct (b_stack b) as [|f stk].
    + destruct (b_roots b) as [|r rs].
      * inversion HS; subst; clear HS. destruct Hin as [<-|[]]. exact I.
      * destruct (build_step G memo i (s_codecs s) b) as [[h' b'] evs'] eqn:EB.
        inversion HS; subst; clear HS. eapply HB; eauto.
    + destruct (build_step G memo i (s_codecs s) b) as [[h' b'] evs'] eqn:EB.
      inversion HS; subst; clear HS. eapply HB; eauto.
  - destruct src as [|e src]; [destruct add as [|e add]|].
    + destruct (lookup t (ents_of s (Some nm))) as [r|] eqn:EL; inversion HS; subst; clear HS.
      * destruct Hin as [<-|Hin]; [exact I|]. destruct lk; [destruct Hin|]. destruct Hin as [<-|[]].
        eapply (use_ok i s _ (finish_call th t r) t r); eauto.
        -- simpl. eapply set_same; eauto.
        -- simpl. auto.
      * destruct Hin.
    + inversion HS; subst; clear HS. destruct Hin as [<-|[]]. eapply copy_write_ok; eauto.
    + inversion HS; subst; clear HS. apply in_app_or in Hin. destruct Hin as [Hin|[<-|[]]].
      * eapply snap_reads_ok; eauto.
      * eapply copy_write_ok; eauto.
  - inversion HS; subst; clear HS. destruct Hin as [<-|[<-|[]]]; [exact I|].
    eapply (use_ok i s _ (finish_call th t r) t r); eauto.
    + simpl. eapply set_same; eauto.
    + simpl. auto.
  - inversion HS; subst; clear HS. destruct Hin.
Qed.

Lemma step_events' : forall progs sched i ev,
  let s := RUN sched (init progs) in
  In ev (snd (STEP i s)) -> ev_ok i s (fst (STEP i s)) ev.
Proof.
  intros progs sched i ev s Hin. pose proof (reach_inv G memo roots lk progs sched) as HI. fold s in HI.
  eapply step_events; eauto.
  - apply surjective_pairing.
  - apply step_inv; auto.
Qed.

Theorem write_private_pf : write_private_prop G memo roots lk.
Proof. intros progs sched i j l s Hin. apply (step_events' progs sched i _ Hin). Qed.

Theorem read_published_pf : read_published_prop G memo roots lk.
Proof. intros progs sched i j l s Hin. apply (step_events' progs sched i _ Hin). Qed.

Theorem use_published_pf : use_published_prop G memo roots lk.
Proof.
  intros progs sched i j o s s' Hin. destruct (step_events' progs sched i _ Hin) as [-> (t & m & Hm & He)].
  split; auto. exists m, t. auto.
Qed.

End Events.

(* ---------------- the statements ---------------- *)
Lemma ptr_in_pubs : ptr_in_pubs_statement.
Proof. intros G memo roots lk. apply ptr_in_pubs_pf. Qed.

Lemma cache_safe : cache_safe_statement.
Proof. intros G memo roots lk. apply cache_safe_pf. Qed.

Lemma results_correct : results_correct_statement.
Proof. intros G memo roots lk. apply results_correct_pf. Qed.

Lemma conc_equals_solo : conc_equals_solo_statement.
Proof. intros G memo roots lk. apply conc_equals_solo_pf. Qed.

Lemma results_in_order : results_in_order_statement.
Proof. intros G memo roots lk. apply results_in_order_pf. Qed.

Lemma never_stuck : never_stuck_statement.
Proof. intros G memo roots lk. apply never_stuck_pf. Qed.

Lemma immut : immut_statement.
Proof. intros G memo roots lk. apply immut_pf. Qed.

Lemma write_private : write_private_statement.
Proof. intros G memo roots lk. apply write_private_pf. Qed.

Lemma read_published : read_published_statement.
Proof. intros G memo roots lk. apply read_published_pf. Qed.

Lemma use_published : use_published_statement.
Proof. intros G memo roots lk. apply use_published_pf. Qed.
