(* Proofs of the statements of Conc/CacheSpec.v that are specific to the mutex variant (proto.TypeOf), and the
   refutation of the same statements for the lock-free variant (lost updates). *)
From Coq Require Import List Arith Bool Lia.
Import ListNotations.
From Verif Require Import Conc.CacheModel Conc.CacheSpec.

(* ---- set_nth ---- *)
Lemma nth_set_eq : forall A (l : list A) i x y,
  nth_error l i = Some y -> nth_error (set_nth i x l) i = Some x.
Proof. induction l; destruct i; simpl; intros; try discriminate; eauto. Qed.

Lemma nth_set_neq : forall A (l : list A) i j x,
  i <> j -> nth_error (set_nth i x l) j = nth_error l j.
Proof.
  induction l; destruct i; destruct j; simpl; intros; auto; try congruence.
Qed.

Lemma set_nth_length : forall A (l : list A) i x, length (set_nth i x l) = length l.
Proof. induction l; destruct i; simpl; intros; auto. Qed.

(* ---- association lists ---- *)
Lemma lookup_In : forall k v l, lookup k l = Some v -> In (k, v) l.
Proof.
  induction l as [|[k' v'] l]; simpl; intros; [discriminate|].
  destruct (Nat.eqb k k') eqn:E.
  - apply Nat.eqb_eq in E. inversion H; subst. left. reflexivity.
  - right. auto.
Qed.

Lemma lookup_None_keys : forall k l, lookup k l = None -> ~ In k (map fst l).
Proof.
  induction l as [|[k' v'] l]; simpl; intros; [tauto|].
  destruct (Nat.eqb k k') eqn:E; [discriminate|].
  apply Nat.eqb_neq in E. intros [H1|H1]; [congruence|]. apply IHl; auto.
Qed.

Lemma remove_key_keys : forall x k l,
  In x (map fst (remove_key k l)) -> In x (map fst l) /\ x <> k.
Proof.
  induction l as [|[k' v'] l]; simpl; intros; [tauto|].
  destruct (Nat.eqb k k') eqn:E.
  - apply IHl in H. tauto.
  - apply Nat.eqb_neq in E. simpl in H. destruct H as [H|H].
    + subst. split; auto.
    + apply IHl in H. tauto.
Qed.

Lemma nodup_remove_key : forall k l, NoDup (map fst l) -> NoDup (map fst (remove_key k l)).
Proof.
  induction l as [|[k' v'] l]; simpl; intros; auto.
  inversion H; subst.
  destruct (Nat.eqb k k'); auto.
  simpl. constructor; auto. intro Hin. apply remove_key_keys in Hin. tauto.
Qed.

Lemma nodup_upd : forall k v l, NoDup (map fst l) -> NoDup (map fst (upd k v l)).
Proof.
  intros. unfold upd. simpl. constructor.
  - intro Hin. apply remove_key_keys in Hin. tauto.
  - apply nodup_remove_key. assumption.
Qed.

Lemma nodup_upd_absent : forall k v l, NoDup (map fst l) -> NoDup (map fst (upd_absent k v l)).
Proof.
  intros. unfold upd_absent. destruct (lookup k l) eqn:E; auto.
  simpl. constructor; auto. apply lookup_None_keys. assumption.
Qed.

Lemma lookup_remove_key_other : forall k k' l, k <> k' -> lookup k (remove_key k' l) = lookup k l.
Proof.
  induction l as [|[k2 v2] l]; simpl; intros; auto.
  destruct (Nat.eqb k' k2) eqn:E.
  - apply Nat.eqb_eq in E. subst k2.
    destruct (Nat.eqb k k') eqn:E2; [apply Nat.eqb_eq in E2; congruence|]. auto.
  - simpl. destruct (Nat.eqb k k2); auto.
Qed.

Lemma lookup_upd_same : forall k v l, lookup k (upd k v l) = Some v.
Proof. intros. unfold upd. simpl. rewrite Nat.eqb_refl. reflexivity. Qed.

Lemma lookup_upd_other : forall k k' v l, k <> k' -> lookup k (upd k' v l) = lookup k l.
Proof.
  intros. unfold upd. simpl.
  destruct (Nat.eqb k k') eqn:E; [apply Nat.eqb_eq in E; congruence|].
  apply lookup_remove_key_other. assumption.
Qed.

Lemma lookup_upd_absent_keep : forall k v k' v' l,
  lookup k l = Some v -> lookup k (upd_absent k' v' l) = Some v.
Proof.
  intros. unfold upd_absent. destruct (lookup k' l) eqn:E; auto.
  simpl. destruct (Nat.eqb k k') eqn:E2; auto.
  apply Nat.eqb_eq in E2. congruence.
Qed.

(* ---- the map heap ---- *)
Definition entsM (ms : list mobj) (m : option mid) : list (ty * oid) :=
  match m with
  | None => []
  | Some i => match nth_error ms i with Some mo => m_ents mo | None => [] end
  end.

Lemma ents_of_entsM : forall s m, ents_of s m = entsM (s_maps s) m.
Proof. reflexivity. Qed.

Definition maps_nodup (ms : list mobj) : Prop :=
  forall m mo, nth_error ms m = Some mo -> NoDup (map fst (m_ents mo)).

Lemma nodup_entsM : forall ms m, maps_nodup ms -> NoDup (map fst (entsM ms m)).
Proof.
  intros ms [m|] H; simpl; [|constructor].
  destruct (nth_error ms m) eqn:E; [eapply H; eauto|constructor].
Qed.

Lemma entsM_app_empty : forall ms i m, entsM (ms ++ [mkM [] i]) m = entsM ms m.
Proof.
  intros ms i [m|]; simpl; auto.
  destruct (lt_dec m (length ms)).
  - rewrite nth_error_app1; auto.
  - rewrite nth_error_app2 by lia.
    assert (nth_error ms m = None) by (apply nth_error_None; lia).
    rewrite H. destruct (m - length ms) as [|d]; simpl; auto. destruct d; reflexivity.
Qed.

Lemma maps_nodup_app_empty : forall ms i, maps_nodup ms -> maps_nodup (ms ++ [mkM [] i]).
Proof.
  intros ms i H m mo E.
  destruct (lt_dec m (length ms)).
  - rewrite nth_error_app1 in E; eauto.
  - rewrite nth_error_app2 in E by lia.
    destruct (m - length ms) as [|d]; simpl in E.
    + inversion E; subst. simpl. constructor.
    + destruct d; discriminate.
Qed.

Lemma map_insert_length : forall ms nm f, length (map_insert ms nm f) = length ms.
Proof.
  intros. unfold map_insert. destruct (nth_error ms nm); auto. apply set_nth_length.
Qed.

Lemma entsM_map_insert_other : forall ms nm f m,
  m <> nm -> entsM (map_insert ms nm f) (Some m) = entsM ms (Some m).
Proof.
  intros. unfold map_insert. destruct (nth_error ms nm); auto.
  simpl. rewrite nth_set_neq; auto.
Qed.

Lemma entsM_map_insert_same : forall ms nm f,
  nm < length ms -> entsM (map_insert ms nm f) (Some nm) = f (entsM ms (Some nm)).
Proof.
  intros. unfold map_insert. simpl.
  destruct (nth_error ms nm) eqn:E.
  - simpl. erewrite nth_set_eq; eauto.
  - apply nth_error_None in E. lia.
Qed.

Lemma maps_nodup_map_insert : forall ms nm f,
  (forall l, NoDup (map fst l) -> NoDup (map fst (f l))) ->
  maps_nodup ms -> maps_nodup (map_insert ms nm f).
Proof.
  intros ms nm f Hf H m mo E. unfold map_insert in E.
  destruct (nth_error ms nm) eqn:E2; [|eauto].
  destruct (Nat.eq_dec nm m).
  - subst. erewrite nth_set_eq in E by eauto. inversion E; subst. simpl. apply Hf. eauto.
  - rewrite nth_set_neq in E by auto. eauto.
Qed.

(* ---- the lock-free variant loses updates: witnesses ---- *)
Lemma cow_monotone_refuted : ~ cow_monotone_statement.
Proof.
  intro H.
  specialize (H (fun _ => []) (fun _ => false) (fun t => [t]) [[1]; [3]]
                [0;1;0;0;0;0;0;0] [1;1;1;1;1;1;1] 1 0).
  vm_compute in H. apply H; reflexivity.
Qed.

Lemma cow_unique_refuted : ~ cow_unique_statement.
Proof.
  intro H.
  specialize (H (fun _ => []) (fun _ => false) (fun t => [t]) [[1]; [1]]
                [0;1;0;0;0;0;0;0;1;1;1;1;1;1;1] 0 1
                (mkT PIdle [] [(1, 0)]) (mkT PIdle [] [(1, 1)]) 1 0 1).
  vm_compute in H.
  assert (0 = 1); [|discriminate].
  apply H; auto.
Qed.


(* ---- the invariant of the mutex variant ---- *)
Definition stuck (p : pc) : bool := match p with PStuck => true | _ => false end.
Definition holds (p : pc) : bool := critical p || stuck p.

Definition snap_pub (pubs : list mid) (snap : option mid) : Prop :=
  match snap with None => True | Some m => In m pubs end.
Definition le_ents (a b : list (ty * oid)) : Prop :=
  forall k v, lookup k a = Some v -> lookup k b = Some v.

Definition pc_ok (ms : list mobj) (ptr : option mid) (pubs : list mid) (p : pc) : Prop :=
  match p with
  | PLoaded t snap => snap_pub pubs snap /\ le_ents (entsM ms snap) (entsM ms ptr)
  | PLoaded2 t snap => snap = ptr
  | PBuild t snap b => snap = ptr
  | PCopy t snap nm src add =>
      snap = ptr /\ ~ In nm pubs /\ nm < length ms /\
      exists pre, entsM ms snap = pre ++ src /\
                  forall k v, In (k, v) pre -> lookup k (entsM ms (Some nm)) = Some v
  | PUnlock t r => lookup t (entsM ms ptr) = Some r
  | _ => True
  end.

Definition res_ok (ms : list mobj) (ptr : option mid) (res : list (ty * oid)) : Prop :=
  forall t o, In (t, o) res -> lookup t (entsM ms ptr) = Some o.

Record LInv (s : state) : Prop := mkLInv {
  L_mutex : forall i th, nth_error (s_threads s) i = Some th ->
                         (holds (th_pc th) = true <-> s_mutex s = Some i);
  L_nodup : maps_nodup (s_maps s);
  L_ptr : snap_pub (s_pubs s) (s_ptr s);
  L_pubs : forall m, In m (s_pubs s) -> m < length (s_maps s);
  L_pc : forall i th, nth_error (s_threads s) i = Some th ->
                      pc_ok (s_maps s) (s_ptr s) (s_pubs s) (th_pc th);
  L_res : forall i th, nth_error (s_threads s) i = Some th ->
                       res_ok (s_maps s) (s_ptr s) (th_res th)
}.

(* how the shared part may change while another goroutine is outside the critical section *)
Definition ext (ms : list mobj) (ptr : option mid) (pubs : list mid)
               (ms' : list mobj) (ptr' : option mid) (pubs' : list mid) : Prop :=
  (forall m, In m pubs -> entsM ms' (Some m) = entsM ms (Some m)) /\
  incl pubs pubs' /\
  le_ents (entsM ms ptr) (entsM ms' ptr').

Lemma le_ents_refl : forall a, le_ents a a.
Proof. intros a k v H. exact H. Qed.

Lemma ext_pub_ents : forall ms ptr pubs ms' ptr' pubs' x,
  ext ms ptr pubs ms' ptr' pubs' -> snap_pub pubs x -> entsM ms' x = entsM ms x.
Proof.
  intros ms ptr pubs ms' ptr' pubs' [m|] (E & _ & _) H; [|reflexivity]. apply E. exact H.
Qed.

Lemma pc_ok_ext : forall ms ptr pubs ms' ptr' pubs' p,
  ext ms ptr pubs ms' ptr' pubs' -> holds p = false ->
  pc_ok ms ptr pubs p -> pc_ok ms' ptr' pubs' p.
Proof.
  intros ms ptr pubs ms' ptr' pubs' p X Hh Hp.
  destruct p; simpl in *; auto; try discriminate.
  destruct Hp as (Hs & Hle). split.
  - destruct snap; simpl in *; auto. apply X. assumption.
  - intros k v Hk. rewrite (ext_pub_ents _ _ _ _ _ _ _ X Hs) in Hk.
    apply X. apply Hle. assumption.
Qed.

Lemma res_ok_ext : forall ms ptr pubs ms' ptr' pubs' r,
  ext ms ptr pubs ms' ptr' pubs' -> res_ok ms ptr r -> res_ok ms' ptr' r.
Proof.
  intros ms ptr pubs ms' ptr' pubs' r X H t o Hin. apply X. apply H. assumption.
Qed.

Lemma ext_app_empty : forall ms ptr pubs i, ext ms ptr pubs (ms ++ [mkM [] i]) ptr pubs.
Proof.
  intros. split; [|split].
  - intros. apply entsM_app_empty.
  - apply incl_refl.
  - rewrite entsM_app_empty. apply le_ents_refl.
Qed.

Lemma ext_map_insert : forall ms ptr pubs nm f,
  ~ In nm pubs -> snap_pub pubs ptr -> ext ms ptr pubs (map_insert ms nm f) ptr pubs.
Proof.
  intros ms ptr pubs nm f Hn Hp. split; [|split].
  - intros m Hm. apply entsM_map_insert_other. intro; subst; tauto.
  - apply incl_refl.
  - destruct ptr as [m|]; [|apply le_ents_refl].
    simpl in Hp. rewrite entsM_map_insert_other; [apply le_ents_refl|]. intro; subst; tauto.
Qed.

Definition step_ok (s s' : state) : Prop :=
  LInv s' /\ le_ents (entsM (s_maps s) (s_ptr s)) (entsM (s_maps s') (s_ptr s')).

Lemma LInv_update : forall s i th th' c' ms' ptr' mx' n' pubs',
  LInv s -> nth_error (s_threads s) i = Some th ->
  (holds (th_pc th') = true <-> mx' = Some i) ->
  (forall j, j <> i -> (mx' = Some j <-> s_mutex s = Some j)) ->
  maps_nodup ms' ->
  snap_pub pubs' ptr' ->
  (forall m, In m pubs' -> m < length ms') ->
  pc_ok ms' ptr' pubs' (th_pc th') ->
  res_ok ms' ptr' (th_res th') ->
  ((ms' = s_maps s /\ ptr' = s_ptr s /\ pubs' = s_pubs s) \/
   (holds (th_pc th) = true /\ ext (s_maps s) (s_ptr s) (s_pubs s) ms' ptr' pubs')) ->
  step_ok s (mkS c' ms' ptr' mx' (set_nth i th' (s_threads s)) n' pubs').
Proof.
  intros s i th th' c' ms' ptr' mx' n' pubs' HI Hth Hmx Hoth Hnd Hsp Hpubs Hpc Hres Hch.
  split.
  - constructor; simpl; auto.
    + intros j thj Hj. destruct (Nat.eq_dec j i) as [->|Hne].
      * erewrite nth_set_eq in Hj by eauto. inversion Hj; subst. assumption.
      * rewrite nth_set_neq in Hj by auto. rewrite (Hoth j Hne). apply (L_mutex s HI). assumption.
    + intros j thj Hj. destruct (Nat.eq_dec j i) as [->|Hne].
      * erewrite nth_set_eq in Hj by eauto. inversion Hj; subst. assumption.
      * rewrite nth_set_neq in Hj by auto.
        destruct Hch as [(-> & -> & ->)|(Hh & X)]; [apply (L_pc s HI j); assumption|].
        eapply pc_ok_ext; [exact X| |apply (L_pc s HI j); assumption].
        destruct (holds (th_pc thj)) eqn:Hhj; auto. exfalso.
        apply (L_mutex s HI i th Hth) in Hh. apply (L_mutex s HI j thj Hj) in Hhj. congruence.
    + intros j thj Hj. destruct (Nat.eq_dec j i) as [->|Hne].
      * erewrite nth_set_eq in Hj by eauto. inversion Hj; subst. assumption.
      * rewrite nth_set_neq in Hj by auto.
        destruct Hch as [(-> & -> & ->)|(Hh & X)]; [apply (L_res s HI j); assumption|].
        eapply res_ok_ext; [exact X|apply (L_res s HI j); assumption].
  - simpl. destruct Hch as [(-> & -> & ->)|(Hh & X)]; [apply le_ents_refl|apply X].
Qed.

Lemma step_ok_refl : forall s, LInv s -> step_ok s s.
Proof. intros. split; auto. apply le_ents_refl. Qed.

(* ---- every step preserves the invariant ---- *)
Section Lock.
Variable G : ty -> list ty.
Variable memo : ty -> bool.
Variable roots : ty -> list ty.
Notation STEP := (step G memo roots true).

Ltac same_glob HI Hth :=
  eapply LInv_update;
  [exact HI | exact Hth | | intros; tauto | apply (L_nodup _ HI) | apply (L_ptr _ HI)
  | apply (L_pubs _ HI) | | | left; auto].

Lemma step_LInv : forall i s, LInv s -> step_ok s (fst (STEP i s)).
Proof.
  intros i s HI. unfold step.
  destruct (nth_error (s_threads s) i) as [th|] eqn:Hth; [|apply step_ok_refl; auto].
  pose proof (L_mutex s HI i th Hth) as Hm.
  pose proof (L_pc s HI i th Hth) as Hpc.
  pose proof (L_res s HI i th Hth) as Hres.
  destruct (th_pc th) eqn:Epc; simpl in Hm, Hpc.
  - (* PIdle *)
    destruct (th_todo th) as [|t rest]; [apply step_ok_refl; auto|].
    simpl. unfold set_thread. same_glob HI Hth; simpl.
    + exact Hm.
    + split; [apply (L_ptr _ HI)|apply le_ents_refl].
    + exact Hres.
  - (* PLoaded *)
    destruct Hpc as (Hsp & Hle).
    destruct (lookup t (ents_of s snap)) as [o|] eqn:El; simpl; unfold set_thread.
    + same_glob HI Hth; simpl.
      * exact Hm.
      * exact I.
      * intros t' o' [Heq|Hin]; [inversion Heq; subst; apply Hle; exact El|apply Hres; exact Hin].
    + same_glob HI Hth; simpl.
      * exact Hm.
      * exact I.
      * exact Hres.
  - (* PWantLock *)
    destruct (s_mutex s) as [h|] eqn:Emx; [apply step_ok_refl; auto|].
    simpl. unfold set_thread.
    eapply LInv_update;
      [exact HI | exact Hth | | | apply (L_nodup _ HI) | apply (L_ptr _ HI)
      | apply (L_pubs _ HI) | | | left; auto]; simpl.
    + tauto.
    + rewrite Emx. intros; split; intro; congruence.
    + exact I.
    + exact Hres.
  - (* PLocked *)
    simpl. unfold set_thread. same_glob HI Hth; simpl.
    + exact Hm.
    + reflexivity.
    + exact Hres.
  - (* PLoaded2 *)
    subst snap.
    destruct (lookup t (ents_of s (s_ptr s))) as [o|] eqn:El; simpl; unfold set_thread.
    + same_glob HI Hth; simpl.
      * exact Hm.
      * exact El.
      * exact Hres.
    + same_glob HI Hth; simpl.
      * exact Hm.
      * reflexivity.
      * exact Hres.
  - (* PBuild *)
    subst snap.
    assert (BS : forall h b',
      step_ok s (mkS h (s_maps s) (s_ptr s) (s_mutex s)
                     (set_nth i (with_pc th (PBuild t (s_ptr s) b')) (s_threads s)) (s_ncid s) (s_pubs s))).
    { intros. same_glob HI Hth; simpl; [exact Hm | reflexivity | exact Hres]. }
    destruct (b_stack b) as [|fr stk]; [destruct (b_roots b) as [|r rs]|].
    + (* construction finished: allocate the private map *)
      simpl. unfold set_thread. simpl.
      eapply LInv_update;
        [exact HI | exact Hth | exact Hm | intros; tauto
        | apply maps_nodup_app_empty; apply (L_nodup _ HI) | apply (L_ptr _ HI)
        | intros m Hin; rewrite app_length; simpl; apply (L_pubs _ HI) in Hin; lia
        | | | right; split; [rewrite Epc; reflexivity | apply ext_app_empty]].
      * simpl. split; [reflexivity|]. split; [intro Hin; apply (L_pubs _ HI) in Hin; lia|].
        split; [rewrite app_length; simpl; lia|].
        exists []. split; [|intros k v []]. simpl. rewrite entsM_app_empty. reflexivity.
      * simpl. apply (res_ok_ext (s_maps s) (s_ptr s) (s_pubs s) _ (s_ptr s) (s_pubs s)); [apply ext_app_empty|exact Hres].
    + destruct (build_step _ _ _ _ _) as [[h b'] evs]. simpl. apply BS.
    + destruct (build_step _ _ _ _ _) as [[h b'] evs]. simpl. apply BS.
  - (* PCopy *)
    destruct Hpc as (Hs & Hnp & Hlt & pre & Hpre & Hcp). subst snap.
    destruct src as [|e src]; [destruct add as [|e add]|].
    + destruct (lookup t (ents_of s (Some nm))) as [r|] eqn:El.
      * (* the atomic store *)
        simpl. unfold set_thread. simpl.
        assert (LE : le_ents (entsM (s_maps s) (s_ptr s)) (entsM (s_maps s) (Some nm))).
        { intros k v Hk. apply Hcp. rewrite app_nil_r in Hpre. rewrite <- Hpre.
          apply lookup_In. exact Hk. }
        eapply LInv_update;
          [exact HI | exact Hth | exact Hm | intros; tauto | apply (L_nodup _ HI)
          | simpl; left; reflexivity
          | intros m [<-|Hin]; [exact Hlt | apply (L_pubs _ HI); exact Hin]
          | simpl; exact El
          | intros t' o' Hin; apply LE; apply Hres; exact Hin
          | right; split; [rewrite Epc; reflexivity|]].
        split; [reflexivity|]. split; [apply incl_tl; apply incl_refl|exact LE].
      * simpl. unfold set_thread. same_glob HI Hth; simpl; [exact Hm | exact I | exact Hres].
    + (* add an entry if absent *)
      simpl. unfold set_thread. simpl.
      pose proof (ext_map_insert (s_maps s) (s_ptr s) (s_pubs s) nm
                    (upd_absent (fst e) (snd e)) Hnp (L_ptr _ HI)) as X.
      eapply LInv_update;
        [exact HI | exact Hth | exact Hm | intros; tauto
        | apply maps_nodup_map_insert; [intros; apply nodup_upd_absent; assumption | apply (L_nodup _ HI)]
        | apply (L_ptr _ HI)
        | intros m Hin; rewrite map_insert_length; apply (L_pubs _ HI); exact Hin
        | | eapply res_ok_ext; [exact X | exact Hres]
        | right; split; [rewrite Epc; reflexivity | exact X]].
      cbn [pc_ok th_pc with_pc]. split; [reflexivity|]. split; [exact Hnp|]. split; [rewrite map_insert_length; exact Hlt|].
      exists pre. split.
      -- rewrite (ext_pub_ents _ _ _ _ _ _ _ X (L_ptr _ HI)). exact Hpre.
      -- intros k v Hin. rewrite entsM_map_insert_same by exact Hlt.
         apply lookup_upd_absent_keep. apply Hcp. exact Hin.
    + (* copy an entry of the snapshot *)
      simpl. unfold set_thread. simpl.
      pose proof (ext_map_insert (s_maps s) (s_ptr s) (s_pubs s) nm
                    (upd (fst e) (snd e)) Hnp (L_ptr _ HI)) as X.
      eapply LInv_update;
        [exact HI | exact Hth | exact Hm | intros; tauto
        | apply maps_nodup_map_insert; [intros; apply nodup_upd; assumption | apply (L_nodup _ HI)]
        | apply (L_ptr _ HI)
        | intros m Hin; rewrite map_insert_length; apply (L_pubs _ HI); exact Hin
        | | eapply res_ok_ext; [exact X | exact Hres]
        | right; split; [rewrite Epc; reflexivity | exact X]].
      cbn [pc_ok th_pc with_pc]. split; [reflexivity|]. split; [exact Hnp|]. split; [rewrite map_insert_length; exact Hlt|].
      exists (pre ++ [e]). split.
      -- rewrite (ext_pub_ents _ _ _ _ _ _ _ X (L_ptr _ HI)). rewrite Hpre, <- app_assoc. reflexivity.
      -- intros k v Hin. rewrite entsM_map_insert_same by exact Hlt.
         apply in_app_or in Hin. destruct Hin as [Hin|[Heq|[]]].
         ++ rewrite lookup_upd_other; [apply Hcp; exact Hin|].
            pose proof (nodup_entsM (s_maps s) (s_ptr s) (L_nodup _ HI)) as ND.
            rewrite Hpre, map_app in ND. simpl in ND. apply NoDup_remove_2 in ND.
            intro Heq. apply ND. apply in_or_app. left. rewrite <- Heq.
            apply in_map_iff. exists (k, v). split; [reflexivity|exact Hin].
         ++ subst e. simpl. apply lookup_upd_same.
  - (* PUnlock *)
    simpl. unfold set_thread. simpl.
    assert (Hmx : s_mutex s = Some i) by tauto.
    eapply LInv_update;
      [exact HI | exact Hth | simpl; split; intro; discriminate
      | intros j Hne; rewrite Hmx; split; intro; congruence
      | apply (L_nodup _ HI) | apply (L_ptr _ HI) | apply (L_pubs _ HI) | exact I
      | | left; auto].
    simpl. intros t' o' [Heq|Hin]; [inversion Heq; subst; exact Hpc | apply Hres; exact Hin].
  - apply step_ok_refl; auto.
Qed.

Lemma run_LInv : forall sched s, LInv s ->
  LInv (run G memo roots true sched s) /\
  le_ents (entsM (s_maps s) (s_ptr s))
          (entsM (s_maps (run G memo roots true sched s)) (s_ptr (run G memo roots true sched s))).
Proof.
  induction sched as [|i r IH]; simpl; intros s HI.
  - split; [assumption|apply le_ents_refl].
  - destruct (step_LInv i s HI) as (HI1 & LE1).
    destruct (IH _ HI1) as (HI2 & LE2).
    split; [assumption|]. intros k v Hk. apply LE2. apply LE1. exact Hk.
Qed.

Lemma init_LInv : forall progs, LInv (init progs).
Proof.
  intros progs.
  assert (TH : forall i th, nth_error (s_threads (init progs)) i = Some th ->
                            th_pc th = PIdle /\ th_res th = []).
  { simpl. intros i th H. apply nth_error_In in H. apply in_map_iff in H as (p & <- & _). auto. }
  constructor.
  - intros i th H. destruct (TH i th H) as (-> & _). simpl. split; intro; discriminate.
  - intros m mo H. destruct m; discriminate.
  - exact I.
  - intros m [].
  - intros i th H. destruct (TH i th H) as (-> & _). exact I.
  - intros i th H. destruct (TH i th H) as (_ & ->). intros t o [].
Qed.

Lemma reach_LInv : forall progs sched, LInv (run G memo roots true sched (init progs)).
Proof. intros. apply run_LInv. apply init_LInv. Qed.
End Lock.

(* the mutex is held exactly by the goroutine between Lock and Unlock, or by one that panicked there; for all
   parameters *)
Lemma mutex_or_stuck :
  forall G memo roots progs sched,
    let s := run G memo roots true sched (init progs) in
    forall i th, nth_error (s_threads s) i = Some th ->
                 ((critical (th_pc th) = true \/ th_pc th = PStuck) <-> s_mutex s = Some i).
Proof.
  intros G memo roots progs sched s i th Hth.
  pose proof (L_mutex s (reach_LInv G memo roots progs sched) i th Hth) as Hm.
  rewrite <- Hm. unfold holds. rewrite orb_true_iff.
  destruct (th_pc th); simpl; intuition discriminate.
Qed.

Lemma typeof_monotone : typeof_monotone_statement.
Proof.
  intros G memo roots progs sched1 sched2 t o s1 s2 H.
  destruct (run_LInv G memo roots sched2 s1 (reach_LInv G memo roots progs sched1)) as (_ & LE).
  apply LE. exact H.
Qed.

Lemma typeof_unique : typeof_unique_statement.
Proof.
  intros G memo roots progs sched i j thi thj t o o' s Hi Hj Ho Ho'.
  pose proof (reach_LInv G memo roots progs sched) as HI. fold s in HI.
  pose proof (L_res s HI i thi Hi t o Ho) as E1.
  pose proof (L_res s HI j thj Hj t o' Ho') as E2.
  congruence.
Qed.

(* ---- no panic in the mutex variant when every requested type is among its roots ---- *)
Fixpoint bottom_ty (stk : list frame) : option ty :=
  match stk with
  | [] => None
  | Fr t _ _ :: r => match r with [] => Some t | _ :: _ => bottom_ty r end
  end.

Definition covered (t : ty) (b : build) : Prop :=
  In t (b_roots b) \/ In t (map fst (b_built b)) \/ bottom_ty (b_stack b) = Some t.

Lemma build_step_covered : forall G memo i h b t,
  covered t b -> covered t (snd (fst (build_step G memo i h b))).
Proof.
  intros G memo i h b t C. unfold build_step, covered in *.
  destruct (b_stack b) as [|[t' o todo] stk] eqn:Es.
  - destruct (b_roots b) as [|r rs] eqn:Er; [simpl; rewrite Es, Er; exact C|].
    destruct (if memo r then lookup r (b_seen b) else None); simpl.
    + destruct C as [[->|C]|[C|C]]; auto; try discriminate.
    + destruct C as [[->|C]|[C|C]]; auto; try discriminate.
  - destruct todo as [|c todo].
    + destruct stk as [|[tp op todo'] stk']; simpl.
      * destruct C as [C|[C|C]]; auto; try (simpl in C; inversion C; auto).
      * destruct C as [C|[C|C]]; auto.
    + destruct (if memo c then lookup c (b_seen b) else None); simpl.
      * destruct C as [C|[C|C]]; auto; try (right; right; destruct stk; exact C).
      * destruct C as [C|[C|C]]; auto; try (right; right; destruct stk; exact C).
Qed.

Lemma lookup_upd_keep_some : forall t k v l, lookup t l <> None -> lookup t (upd k v l) <> None.
Proof.
  intros. destruct (Nat.eq_dec t k) as [->|Hne].
  - rewrite lookup_upd_same. discriminate.
  - rewrite lookup_upd_other; auto.
Qed.

Lemma lookup_upd_absent_keep_some : forall t k v l,
  lookup t l <> None -> lookup t (upd_absent k v l) <> None.
Proof.
  intros. destruct (lookup t l) eqn:E; [|congruence].
  erewrite lookup_upd_absent_keep; eauto.
Qed.

Lemma lookup_upd_absent_same : forall k v l, lookup k (upd_absent k v l) <> None.
Proof.
  intros. unfold upd_absent. destruct (lookup k l) eqn:E; [congruence|].
  simpl. rewrite Nat.eqb_refl. discriminate.
Qed.

Definition ns_ok (ms : list mobj) (p : pc) : Prop :=
  match p with
  | PBuild t snap b => covered t b
  | PCopy t snap nm src add => In t (map fst add) \/ lookup t (entsM ms (Some nm)) <> None
  | PStuck => False
  | _ => True
  end.

Definition NSInv (s : state) : Prop :=
  forall i th, nth_error (s_threads s) i = Some th -> ns_ok (s_maps s) (th_pc th).

Lemma NS_update : forall s i th th' c' ms' ptr' mx' n' pubs',
  LInv s -> NSInv s -> nth_error (s_threads s) i = Some th ->
  ns_ok ms' (th_pc th') ->
  (ms' = s_maps s \/ holds (th_pc th) = true) ->
  NSInv (mkS c' ms' ptr' mx' (set_nth i th' (s_threads s)) n' pubs').
Proof.
  intros s i th th' c' ms' ptr' mx' n' pubs' HI HN Hth Hok Hch j thj Hj. simpl in *.
  destruct (Nat.eq_dec j i) as [->|Hne].
  - erewrite nth_set_eq in Hj by eauto. inversion Hj; subst. assumption.
  - rewrite nth_set_neq in Hj by auto.
    pose proof (HN j thj Hj) as Hold.
    destruct Hch as [->|Hh]; [assumption|].
    assert (Hhj : holds (th_pc thj) = false).
    { destruct (holds (th_pc thj)) eqn:Hhj; auto. exfalso.
      apply (L_mutex s HI i th Hth) in Hh. apply (L_mutex s HI j thj Hj) in Hhj. congruence. }
    destruct (th_pc thj); simpl in *; auto; discriminate.
Qed.

Section NoStuck.
Variable G : ty -> list ty.
Variable memo : ty -> bool.
Variable roots : ty -> list ty.
Hypothesis Hroots : forall t, In t (roots t).
Notation STEP := (step G memo roots true).

Lemma step_NS : forall i s, LInv s -> NSInv s -> NSInv (fst (STEP i s)).
Proof.
  intros i s HI HN. unfold step.
  destruct (nth_error (s_threads s) i) as [th|] eqn:Hth; [|exact HN].
  pose proof (HN i th Hth) as Hok.
  pose proof (L_pc s HI i th Hth) as Hpc.
  destruct (th_pc th) eqn:Epc; simpl in Hok, Hpc.
  - destruct (th_todo th) as [|t rest]; [exact HN|].
    simpl. unfold set_thread. eapply NS_update; eauto; try exact I.
  - destruct (lookup t (ents_of s snap)); simpl; unfold set_thread; eapply NS_update; eauto; try exact I.
  - destruct (s_mutex s); [exact HN|]. simpl. unfold set_thread. eapply NS_update; eauto; try exact I.
  - simpl. unfold set_thread. eapply NS_update; eauto; try exact I.
  - destruct (lookup t (ents_of s snap)); simpl; unfold set_thread; eapply NS_update; eauto; simpl; try exact I.
    left. apply Hroots.
  - (* PBuild *)
    destruct (b_stack b) as [|fr stk] eqn:Es; [destruct (b_roots b) as [|r rs] eqn:Er|].
    + simpl. unfold set_thread. simpl.
      eapply NS_update; eauto; [|right; rewrite Epc; reflexivity].
      simpl. left. unfold covered in Hok. rewrite Es, Er in Hok.
      destruct Hok as [[]|[Hb|Hb]]; [|discriminate].
      rewrite map_app, in_app_iff. right. rewrite map_rev, <- in_rev. exact Hb.
    + pose proof (build_step_covered G memo i (s_codecs s) b t Hok) as Hc.
      destruct (build_step _ _ _ _ _) as [[h b'] evs]. simpl.
      unfold set_thread. simpl. eapply NS_update; eauto.
    + pose proof (build_step_covered G memo i (s_codecs s) b t Hok) as Hc.
      destruct (build_step _ _ _ _ _) as [[h b'] evs]. simpl.
      unfold set_thread. simpl. eapply NS_update; eauto.
  - (* PCopy *)
    destruct Hpc as (_ & _ & Hlt & _).
    destruct src as [|e src]; [destruct add as [|e add]|].
    + destruct (lookup t (ents_of s (Some nm))) as [r|] eqn:El.
      * simpl. unfold set_thread. simpl. eapply NS_update; eauto. exact I.
      * exfalso. destruct Hok as [[]|Hok]. apply Hok. exact El.
    + simpl. unfold set_thread. simpl.
      eapply NS_update; eauto; [|right; rewrite Epc; reflexivity].
      cbn [ns_ok th_pc with_pc]. rewrite entsM_map_insert_same by exact Hlt.
      destruct Hok as [[Heq|Hin]|Hl].
      * right. rewrite <- Heq. apply lookup_upd_absent_same.
      * left. exact Hin.
      * right. apply lookup_upd_absent_keep_some. exact Hl.
    + simpl. unfold set_thread. simpl.
      eapply NS_update; eauto; [|right; rewrite Epc; reflexivity].
      cbn [ns_ok th_pc with_pc]. rewrite entsM_map_insert_same by exact Hlt.
      destruct Hok as [Hin|Hl]; [left; exact Hin|].
      right. apply lookup_upd_keep_some. exact Hl.
  - simpl. unfold set_thread. simpl. eapply NS_update; eauto; try exact I.
  - exact HN.
Qed.

Lemma run_NS : forall sched s, LInv s -> NSInv s -> NSInv (run G memo roots true sched s).
Proof.
  induction sched as [|i r IH]; simpl; intros s HI HN; [assumption|].
  apply IH; [apply (step_LInv G memo roots i s HI)|apply step_NS; assumption].
Qed.

Lemma init_NS : forall progs, NSInv (init progs).
Proof.
  intros progs i th H. simpl in H.
  apply nth_error_In in H. apply in_map_iff in H as (p & <- & _). exact I.
Qed.

Lemma reach_NS : forall progs sched, NSInv (run G memo roots true sched (init progs)).
Proof. intros. apply run_NS; [apply init_LInv|apply init_NS]. Qed.
End NoStuck.

(* mutual exclusion: the mutex is held exactly by the goroutine between Lock and Unlock *)
Lemma mutex : mutex_statement.
Proof.
  intros G memo roots progs sched Hroots s i th Hth.
  pose proof (mutex_or_stuck G memo roots progs sched i th Hth) as Hm. fold s in Hm.
  pose proof (reach_NS G memo roots Hroots progs sched i th Hth) as Hn.
  rewrite <- Hm. split; [auto|].
  intros [H|H]; [exact H|]. rewrite H in Hn. contradiction.
Qed.
