(* C09, pools: a pooled object is never visible to two callers at once, in EVERY schedule and for every resolution
   of the runtime's choices, PROVIDED every use site obeys the discipline (Put only what was obtained by Get, no use
   after Put); without the proviso the statement is false (witness). The proviso is checked against the code by
   reading every use site (see lib/props_c09.py) and dynamically by the race build. *)
From Coq Require Import List Arith Bool.
Import ListNotations.
From Verif Require Import Conc.PoolModel.

Definition disciplined_action (a : action) : bool :=
  match a with APutKeep _ => false | _ => true end.
Definition disciplined (progs : list (list action)) : Prop :=
  forall p a, In p progs -> In a p -> disciplined_action a = true.

(* where an object can be: in the pool, or in the hands of goroutines *)
Definition places (s : pstate) : list pobj := ps_pool s ++ concat (map p_held (ps_threads s)).

(* every object is in at most one place, once: in the pool or held by exactly one goroutine *)
Definition pool_exclusive_statement : Prop :=
  forall progs sched, disciplined progs -> NoDup (places (prun sched (pinit progs))).

(* on events: whenever a goroutine uses an object, no other goroutine holds it and it is not in the pool *)
Definition pool_use_exclusive_statement : Prop :=
  forall progs sched e i o, disciplined progs ->
    let s := prun sched (pinit progs) in
    In (PvUse i o) (snd (pstep e s)) ->
    ~ In o (ps_pool s) /\
    forall j th, nth_error (ps_threads s) j = Some th -> In o (p_held th) -> j = i.

(* an object obtained from the pool was put there by a goroutine that no longer holds it; a fresh one is new *)
Definition pool_get_statement : Prop :=
  forall progs sched e i o fresh, disciplined progs ->
    let s := prun sched (pinit progs) in
    In (PvGet i o fresh) (snd (pstep e s)) ->
    forall j th, nth_error (ps_threads s) j = Some th -> ~ In o (p_held th).

(* without the discipline the statement is false *)
Definition pool_exclusive_any_statement : Prop :=
  forall progs sched, NoDup (places (prun sched (pinit progs))).
