(* C09, the codec caches: the property as statements about EVERY schedule of the machine of Conc/CacheModel.v,
   for every number of goroutines, every list of requested types per goroutine, every type graph G (recursive or
   not), every memo / roots policy, and both the lock-free and the mutex variant unless a statement says otherwise. *)
From Coq Require Import List Arith Bool.
Import ListNotations.
From Verif Require Import Conc.CacheModel.

(* codec_of t: the (regular, possibly infinite) unfolding of the type graph from t, cut at depth n *)
Fixpoint spec_tree (G : ty -> list ty) (n : nat) (t : ty) : tree :=
  match n with
  | O => Cut
  | S n' => Node t (map (spec_tree G n') (G t))
  end.

(* objects reachable from o through the links *)
Inductive reach (h : list cobj) (o0 : oid) : oid -> Prop :=
| reach_refl : reach h o0 o0
| reach_kid : forall o ob k, reach h o0 o -> nth_error h o = Some ob -> In k (c_kids ob) -> reach h o0 k.

Definition owner_is (s : state) (l : loc) (i : tid) : Prop :=
  match l with
  | LC o => exists ob, nth_error (s_codecs s) o = Some ob /\ c_owner ob = i
  | LM m => exists mo, nth_error (s_maps s) m = Some mo /\ m_owner mo = i
  end.

(* published: a map that has been stored into the shared pointer at some time, or an object reachable from one *)
Definition published (s : state) (l : loc) : Prop :=
  match l with
  | LM m => In m (s_pubs s)
  | LC o' => exists m t o, In m (s_pubs s) /\ In (t, o) (ents_of s (Some m)) /\ reach (s_codecs s) o o'
  end.

Section Statements.
Variable G : ty -> list ty.
Variable memo : ty -> bool.
Variable roots : ty -> list ty.
Variable lk : bool.

Notation RUN := (run G memo roots lk).
Notation STEP := (step G memo roots lk).

(* the ghost list s_pubs really is the history of the pointer *)
Definition ptr_in_pubs_prop : Prop :=
  forall progs sched m, s_ptr (RUN sched (init progs)) = Some m -> In m (s_pubs (RUN sched (init progs))).

(* (a) safety: every map ever published maps each of its keys t to a complete object graph whose unfolding is codec_of t
       at every depth: never a dangling or half-built object (those unfold to Bad, which spec_tree never contains) *)
Definition cache_safe_prop : Prop :=
  forall progs sched m t o,
    let s := RUN sched (init progs) in
    In m (s_pubs s) -> lookup t (ents_of s (Some m)) = Some o ->
    forall n, unfold n (s_codecs s) o = spec_tree G n t.

(* (b) every completed call returned codec_of t for its own t *)
Definition results_correct_prop : Prop :=
  forall progs sched i th t o,
    let s := RUN sched (init progs) in
    nth_error (s_threads s) i = Some th -> In (t, o) (th_res th) ->
    forall n, unfold n (s_codecs s) o = spec_tree G n t.

(* ... which is what the same call returns running alone on a cold cache, whenever that run has completed *)
Definition conc_equals_solo_prop : Prop :=
  forall progs sched i th t o k th' o',
    let s := RUN sched (init progs) in
    let s' := solo G memo roots lk t k in
    nth_error (s_threads s) i = Some th -> In (t, o) (th_res th) ->
    nth_error (s_threads s') 0 = Some th' -> In (t, o') (th_res th') ->
    forall n, unfold n (s_codecs s) o = unfold n (s_codecs s') o'.

(* the calls are answered in program order: the results of a thread are (newest first) a prefix of its program *)
Definition results_in_order_prop : Prop :=
  forall progs sched i th p,
    let s := RUN sched (init progs) in
    nth_error (s_threads s) i = Some th -> nth_error progs i = Some p ->
    exists cur, rev (map fst (th_res th)) ++ cur ++ th_todo th = p /\ length cur <= 1.

(* no goroutine reaches the panic state when every requested type is among the types its miss constructs *)
Definition never_stuck_prop : Prop :=
  (forall t, In t (roots t)) ->
  forall progs sched i th,
    nth_error (s_threads (RUN sched (init progs))) i = Some th -> th_pc th <> PStuck.

(* (c) immutability after publication: once a map has been stored into the pointer, neither the map nor any object
       reachable from its entries ever changes again, whatever any goroutine does *)
Definition immut_prop : Prop :=
  forall progs sched1 sched2 m,
    let s1 := RUN sched1 (init progs) in
    let s2 := RUN sched2 s1 in
    In m (s_pubs s1) ->
    nth_error (s_maps s2) m = nth_error (s_maps s1) m /\
    forall t o o', In (t, o) (ents_of s1 (Some m)) -> reach (s_codecs s1) o o' ->
                   nth_error (s_codecs s2) o' = nth_error (s_codecs s1) o'.

(* (c) on events: every plain write is made by the stepping goroutine to a location it allocated itself and that is
       not published (so no other goroutine can have obtained it) *)
Definition write_private_prop : Prop :=
  forall progs sched i j l,
    let s := RUN sched (init progs) in
    In (EvWrite j l) (snd (STEP i s)) -> j = i /\ owner_is s l i /\ ~ published s l.

(* every plain read of shared memory targets a published (hence immutable) map that this goroutine obtained by an atomic load *)
Definition read_published_prop : Prop :=
  forall progs sched i j l,
    let s := RUN sched (init progs) in
    In (EvRead j l) (snd (STEP i s)) -> j = i /\ exists m, l = LM m /\ In m (s_pubs s).

(* every object handed to a caller is an entry of a published map at that moment (so by immut_prop everything the
   caller reads through it is frozen) *)
Definition use_published_prop : Prop :=
  forall progs sched i j o,
    let s := RUN sched (init progs) in
    let s' := fst (STEP i s) in
    In (EvUse j o) (snd (STEP i s)) -> j = i /\ exists m t, In m (s_pubs s') /\ In (t, o) (ents_of s' (Some m)).

End Statements.

Definition ptr_in_pubs_statement : Prop := forall G memo roots lk, ptr_in_pubs_prop G memo roots lk.
Definition cache_safe_statement : Prop := forall G memo roots lk, cache_safe_prop G memo roots lk.
Definition results_correct_statement : Prop := forall G memo roots lk, results_correct_prop G memo roots lk.
Definition conc_equals_solo_statement : Prop := forall G memo roots lk, conc_equals_solo_prop G memo roots lk.
Definition results_in_order_statement : Prop := forall G memo roots lk, results_in_order_prop G memo roots lk.
Definition never_stuck_statement : Prop := forall G memo roots lk, never_stuck_prop G memo roots lk.
Definition immut_statement : Prop := forall G memo roots lk, immut_prop G memo roots lk.
Definition write_private_statement : Prop := forall G memo roots lk, write_private_prop G memo roots lk.
Definition read_published_statement : Prop := forall G memo roots lk, read_published_prop G memo roots lk.
Definition use_published_statement : Prop := forall G memo roots lk, use_published_prop G memo roots lk.

(* ---- (d) the mutex variant (proto.TypeOf) ---- *)
Definition critical (p : pc) : bool :=
  match p with
  | PLocked _ | PLoaded2 _ _ | PBuild _ _ _ | PCopy _ _ _ _ _ | PUnlock _ _ => true
  | _ => false
  end.

(* mutual exclusion: the mutex is held exactly by the goroutine between Lock and Unlock, and by no two *)
Definition mutex_statement : Prop :=
  forall G memo roots progs sched,
    (forall t, In t (roots t)) ->
    let s := run G memo roots true sched (init progs) in
    forall i th, nth_error (s_threads s) i = Some th ->
                 (critical (th_pc th) = true <-> s_mutex s = Some i).

(* no lost update and stable identity: an entry of the shared map stays, with the same object, for ever *)
Definition typeof_monotone_statement : Prop :=
  forall G memo roots progs sched1 sched2 t o,
    let s1 := run G memo roots true sched1 (init progs) in
    let s2 := run G memo roots true sched2 s1 in
    lookup t (ents_of s1 (s_ptr s1)) = Some o -> lookup t (ents_of s2 (s_ptr s2)) = Some o.

(* all calls for one type, on all goroutines, return the very same object *)
Definition typeof_unique_statement : Prop :=
  forall G memo roots progs sched i j thi thj t o o',
    let s := run G memo roots true sched (init progs) in
    nth_error (s_threads s) i = Some thi -> nth_error (s_threads s) j = Some thj ->
    In (t, o) (th_res thi) -> In (t, o') (th_res thj) -> o = o'.

(* the lock-free caches have neither property (lost updates are tolerated by design): refuted by witnesses *)
Definition cow_monotone_statement : Prop :=
  forall G memo roots progs sched1 sched2 t o,
    let s1 := run G memo roots false sched1 (init progs) in
    let s2 := run G memo roots false sched2 s1 in
    lookup t (ents_of s1 (s_ptr s1)) = Some o -> lookup t (ents_of s2 (s_ptr s2)) <> None.
Definition cow_unique_statement : Prop :=
  forall G memo roots progs sched i j thi thj t o o',
    let s := run G memo roots false sched (init progs) in
    nth_error (s_threads s) i = Some thi -> nth_error (s_threads s) j = Some thj ->
    In (t, o) (th_res thi) -> In (t, o') (th_res thj) -> o = o'.

(* ---- instances: the parameters of the four caches of the code ----
   json (constructCachedCodec): one root; only struct types are registered in the seen map (is_struct)
   thrift (encodeFuncOf / decodeFuncOf): one root; struct types are registered before their fields
   proto codecs (cachedCodecOf): two roots, the base type and the pointer to it (ptr_of, base_of), every composite type registered early
   proto.TypeOf: one root, struct and map types registered early, the seen map is published too *)
Definition roots_one (t : ty) : list ty := [t].
Definition roots_pair (base_of ptr_of : ty -> ty) (t : ty) : list ty := [base_of t; ptr_of (base_of t)].
