(* Proofs of Conc/DrfSpec.v. *)
From Coq Require Import List Arith Bool Lia.
Import ListNotations.
From Verif Require Import Conc.CacheModel Conc.DrfSpec.

(* ---------------------------------------------------------------- lists *)
Lemma d_nth_set_eq : forall A (l : list A) i x y,
  nth_error l i = Some y -> nth_error (set_nth i x l) i = Some x.
Proof. induction l; destruct i; simpl; intros; try discriminate; eauto. Qed.

Lemma d_nth_set_neq : forall A (l : list A) i j x,
  i <> j -> nth_error (set_nth i x l) j = nth_error l j.
Proof. induction l; destruct i; destruct j; simpl; intros; auto; try congruence. Qed.

Lemma d_set_nth_length : forall A (l : list A) i x, length (set_nth i x l) = length l.
Proof. induction l; destruct i; simpl; intros; auto. Qed.

Lemma nth_error_lt : forall A (l : list A) i x, nth_error l i = Some x -> i < length l.
Proof. intros. apply nth_error_Some. congruence. Qed.

Lemma nth_error_app_l : forall A (l r : list A) i x, nth_error l i = Some x -> nth_error (l ++ r) i = Some x.
Proof. intros. rewrite nth_error_app1; auto. eapply nth_error_lt; eauto. Qed.

Lemma nth_error_snoc : forall A (l : list A) x, nth_error (l ++ [x]) (length l) = Some x.
Proof. intros. rewrite nth_error_app2 by lia. rewrite Nat.sub_diag. reflexivity. Qed.

Lemma nth_error_app_cases : forall A (l r : list A) i x,
  nth_error (l ++ r) i = Some x ->
  (i < length l /\ nth_error l i = Some x) \/ (length l <= i /\ nth_error r (i - length l) = Some x).
Proof.
  intros. destruct (lt_dec i (length l)).
  - left. rewrite nth_error_app1 in H by auto. auto.
  - right. rewrite nth_error_app2 in H by lia. split; [lia|auto].
Qed.

Definition ent_objs (l : list (ty * oid)) (o : oid) : Prop := exists t, In (t, o) l.

Lemma d_lookup_In : forall k v l, lookup k l = Some v -> ent_objs l v.
Proof.
  induction l as [|[k' v'] l]; simpl; intros; [discriminate|].
  destruct (Nat.eqb k k') eqn:E.
  - inversion H; subst. exists k'. left. reflexivity.
  - destruct (IHl H) as [t Ht]. exists t. right. auto.
Qed.

Lemma remove_key_In : forall x k l, In x (remove_key k l) -> In x l.
Proof.
  induction l as [|[k' v'] l]; simpl; intros; auto.
  destruct (Nat.eqb k k'); [right; auto|].
  destruct H; [left; auto|right; auto].
Qed.

Lemma upd_objs : forall k v l o, ent_objs (upd k v l) o -> o = v \/ ent_objs l o.
Proof.
  intros k v l o [t [H|H]].
  - inversion H. auto.
  - right. exists t. eapply remove_key_In; eauto.
Qed.

Lemma upd_absent_objs : forall k v l o, ent_objs (upd_absent k v l) o -> o = v \/ ent_objs l o.
Proof.
  intros k v l o [t H]. unfold upd_absent in H. destruct (lookup k l).
  - right. exists t. auto.
  - destruct H as [H|H]; [inversion H; auto|right; exists t; auto].
Qed.

Lemma ent_objs_app : forall a b o, ent_objs (a ++ b) o <-> ent_objs a o \/ ent_objs b o.
Proof.
  intros. unfold ent_objs. split.
  - intros [t H]. apply in_app_or in H. destruct H; [left|right]; eauto.
  - intros [[t H]|[t H]]; exists t; apply in_or_app; auto.
Qed.

Lemma ent_objs_rev : forall a o, ent_objs (rev a) o <-> ent_objs a o.
Proof.
  intros. unfold ent_objs. split; intros [t H]; exists t.
  - apply in_rev. auto.
  - apply in_rev in H. auto.
Qed.

Lemma ent_objs_cons_r : forall e l o, ent_objs l o -> ent_objs (e :: l) o.
Proof. intros e l o [t H]. exists t. right. auto. Qed.

Lemma ent_objs_cons : forall t v l o, ent_objs ((t, v) :: l) o <-> o = v \/ ent_objs l o.
Proof.
  intros. unfold ent_objs. split.
  - intros [t' [H|H]]; [inversion H; auto|right; eauto].
  - intros [H|[t' H]]; [subst; exists t; left; auto|exists t'; right; auto].
Qed.

(* the map heap *)
Definition entsM (ms : list mobj) (m : option mid) : list (ty * oid) :=
  match m with
  | None => []
  | Some i => match nth_error ms i with Some mo => m_ents mo | None => [] end
  end.

Lemma ents_of_entsM : forall s m, ents_of s m = entsM (s_maps s) m.
Proof. reflexivity. Qed.

Lemma entsM_eq : forall ms ms' m, nth_error ms' m = nth_error ms m -> entsM ms' (Some m) = entsM ms (Some m).
Proof. intros. simpl. rewrite H. reflexivity. Qed.

(* ---------------------------------------------------------------- happens-before *)
Lemma hb_lt : forall log i j, hb log i j -> i < j.
Proof. induction 1; lia. Qed.

Lemma hb_mono : forall log evs i j, hb log i j -> hb (log ++ evs) i j.
Proof.
  induction 1.
  - eapply hb_po; eauto using nth_error_app_l.
  - eapply hb_ptr; eauto using nth_error_app_l.
  - eapply hb_mutex; eauto using nth_error_app_l.
  - eapply hb_trans; eauto.
Qed.

Lemma access_tid : forall h e t K w, access h e = Some (t, K, w) -> t = ev_tid e.
Proof. destruct e; simpl; intros; congruence. Qed.

Lemma race_detected : race_detected_statement.
Proof.
  unfold race_detected_statement. intro H.
  assert (Hb : hb [EvWrite 0 (LC 0); EvUse 1 0] 0 1).
  { eapply (H 0 1 _ _ 0 1 (KCons 0) true false); simpl; try reflexivity; try lia; try discriminate. }
  clear H.
  assert (Hno : forall i j, hb [EvWrite 0 (LC 0); EvUse 1 0] i j -> False).
  { induction 1; auto.
    - destruct i as [|[|[|i]]]; destruct j as [|[|[|j]]]; simpl in *; try lia; try discriminate.
      injection H0 as <-. injection H1 as <-. simpl in H2. discriminate.
    - destruct i as [|[|[|i]]]; simpl in *; discriminate.
    - destruct i as [|[|[|i]]]; simpl in *; discriminate. }
  eapply Hno; eauto.
Qed.


(* ---------------------------------------------------------------- codec heap: construction numbers never change *)
Definition cidof (h : list cobj) (o : oid) (c : nat) : Prop :=
  exists ob, nth_error h o = Some ob /\ c_cid ob = c.
Definition hext (h h' : list cobj) : Prop := forall o c, cidof h o c -> cidof h' o c.

Lemma cidof_lt : forall h o c, cidof h o c -> o < length h.
Proof. intros h o c [ob [H _]]. eapply nth_error_lt; eauto. Qed.

Lemma cidof_fun : forall h o c c', cidof h o c -> cidof h o c' -> c = c'.
Proof. intros h o c c' [ob [H1 H2]] [ob' [H3 H4]]. congruence. Qed.

Lemma lt_cidof : forall h o, o < length h -> exists c, cidof h o c.
Proof.
  intros. destruct (nth_error h o) eqn:E.
  - exists (c_cid c). exists c. auto.
  - apply nth_error_None in E. lia.
Qed.

Lemma class_cidof : forall h o c, cidof h o c -> class_of h (LC o) = KCons c.
Proof. intros h o c [ob [H1 H2]]. simpl. rewrite H1. congruence. Qed.

Lemma class_cons_inv : forall h l c, class_of h l = KCons c -> exists o, l = LC o /\ cidof h o c.
Proof.
  intros h [o|m] c; simpl; intros; [|discriminate].
  destruct (nth_error h o) eqn:E; [|discriminate].
  exists o. split; auto. exists c0. split; auto. congruence.
Qed.

Lemma hext_refl : forall h, hext h h.
Proof. unfold hext. auto. Qed.

Lemma hext_trans : forall a b c, hext a b -> hext b c -> hext a c.
Proof. unfold hext. auto. Qed.

Lemma hext_length : forall h h', hext h h' -> length h <= length h'.
Proof.
  intros. destruct (le_lt_dec (length h) (length h')); auto.
  destruct (lt_cidof h (length h') l) as [c Hc]. apply H in Hc. apply cidof_lt in Hc. lia.
Qed.

Lemma cidof_app : forall h x o c, cidof (h ++ [x]) o c <-> cidof h o c \/ (o = length h /\ c = c_cid x).
Proof.
  intros. unfold cidof. split.
  - intros [ob [H1 H2]]. apply nth_error_app_cases in H1. destruct H1 as [[_ H1]|[Hl H1]].
    + left. eauto.
    + right. destruct (o - length h) as [|d] eqn:E; simpl in H1.
      * inversion H1; subst. split; auto. lia.
      * destruct d; discriminate.
  - intros [[ob [H1 H2]]|[H1 H2]].
    + exists ob. split; auto. apply nth_error_app_l. auto.
    + subst. exists x. split; auto. apply nth_error_snoc.
Qed.

Lemma cidof_set_nth : forall h o ob ob' o' c,
  nth_error h o = Some ob -> c_cid ob' = c_cid ob ->
  (cidof (set_nth o ob' h) o' c <-> cidof h o' c).
Proof.
  intros. unfold cidof. destruct (Nat.eq_dec o o').
  - subst o'. rewrite (d_nth_set_eq _ _ _ _ _ H). rewrite H. split; intros [x [H1 H2]]; inversion H1; subst; eexists; split; eauto; congruence.
  - rewrite d_nth_set_neq by auto. tauto.
Qed.

Lemma cidof_mark_done : forall h o o' c, cidof (mark_done h o) o' c <-> cidof h o' c.
Proof.
  intros. unfold mark_done. destruct (nth_error h o) eqn:E; [|tauto].
  eapply cidof_set_nth; eauto.
Qed.

Lemma cidof_add_kid : forall h o k o' c, cidof (add_kid h o k) o' c <-> cidof h o' c.
Proof.
  intros. unfold add_kid. destruct (nth_error h o) eqn:E; [|tauto].
  eapply cidof_set_nth; eauto.
Qed.

(* ---------------------------------------------------------------- events *)
Definition ev_wf (nh nm : nat) (e : event) : Prop :=
  match e with
  | EvAlloc _ l | EvRead _ l | EvWrite _ l => match l with LC o => o < nh | LM m => m < nm end
  | EvUse _ o => o < nh
  | _ => True
  end.

Lemma ev_wf_mono : forall nh nm nh' nm' e, nh <= nh' -> nm <= nm' -> ev_wf nh nm e -> ev_wf nh' nm' e.
Proof. destruct e; simpl; auto; try destruct l; intros; lia. Qed.

Lemma class_ext : forall h h' o, hext h h' -> o < length h -> class_of h' (LC o) = class_of h (LC o).
Proof.
  intros. destruct (lt_cidof h o H0) as [c Hc].
  rewrite (class_cidof _ _ _ Hc). apply class_cidof. auto.
Qed.

Lemma class_ext_loc : forall h h' n l, hext h h' ->
  match l with LC o => o < length h | LM m => m < n end -> class_of h' l = class_of h l.
Proof. intros. destruct l; [apply class_ext; auto|reflexivity]. Qed.

Lemma access_ext : forall h h' n e, hext h h' -> ev_wf (length h) n e -> access h' e = access h e.
Proof.
  intros. destruct e; unfold access; unfold ev_wf in H0; try reflexivity;
    try (rewrite (class_ext_loc h h' n l) by auto; reflexivity).
  rewrite (class_ext h h' o) by auto. reflexivity.
Qed.

Lemma access_cons : forall h e t c w, access h e = Some (t, KCons c, w) -> exists o, cidof h o c.
Proof.
  intros. assert (exists l, class_of h l = KCons c).
  { destruct e; unfold access in H; try discriminate; inversion H;
    first [exists l; reflexivity | exists (LC o); reflexivity]. }
  destruct H0 as [l Hl]. apply class_cons_inv in Hl. destruct Hl as [o [_ Ho]]. eauto.
Qed.

Lemma access_map_lt : forall h nh nm e t m w, access h e = Some (t, KMap m, w) -> ev_wf nh nm e -> m < nm.
Proof.
  intros. destruct e; simpl in *; try discriminate;
    try (destruct l as [o|m']; simpl in H; [destruct (nth_error h o); discriminate|inversion H; subst; auto]).
  destruct (nth_error h o); discriminate.
Qed.

(* ---------------------------------------------------------------- ownership, frozen classes, knowledge *)
Definition pc_owns (p : pc) (K : lclass) : Prop :=
  match p, K with
  | PBuild _ _ b, KCons c => c = b_cid b
  | PCopy _ _ nm _ _, KMap m => m = nm
  | _, _ => False
  end.

Definition owns (s : state) (j : tid) (K : lclass) : Prop :=
  exists th, nth_error (s_threads s) j = Some th /\ pc_owns (th_pc th) K.

Definition frozen (s : state) (K : lclass) : Prop :=
  match K with
  | KMap m => In m (s_pubs s)
  | KCons c => c < s_ncid s /\ forall j, ~ owns s j (KCons c)
  | KNone => False
  end.

Definition kn (log : list event) (t : tid) (p : nat) : Prop :=
  exists q e, nth_error log q = Some e /\ ev_tid e = t /\ (p = q \/ hb log p q).

Definition wbound (log : list event) (h : list cobj) (K : lclass) (P : nat -> Prop) : Prop :=
  forall p e t', nth_error log p = Some e -> access h e = Some (t', K, true) -> P p.

Definition ck (log : list event) (h : list cobj) (t : tid) (K : lclass) : Prop := wbound log h K (kn log t).
Definition before (log : list event) (h : list cobj) (K : lclass) (k : nat) : Prop :=
  wbound log h K (fun p => hb log p k).
Definition excl (log : list event) (h : list cobj) (j : tid) (K : lclass) : Prop :=
  forall p e t' w, nth_error log p = Some e -> access h e = Some (t', K, w) -> t' = j.

Definition snap_of (p : pc) : option mid :=
  match p with
  | PLoaded _ sn | PLoaded2 _ sn | PBuild _ sn _ | PCopy _ sn _ _ _ => sn
  | _ => None
  end.
Definition pc_holds_map (p : pc) (m : mid) : Prop := snap_of p = Some m.
Definition pc_holds_obj (ms : list mobj) (p : pc) (o : oid) : Prop :=
  ent_objs (entsM ms (snap_of p)) o \/
  match p with
  | PCopy _ _ nm src add => ent_objs src o \/ ent_objs add o \/ ent_objs (entsM ms (Some nm)) o
  | PUnlock _ r => o = r
  | _ => False
  end.

Definition known_obj (log : list event) (s : state) (j : tid) (o : oid) : Prop :=
  exists c, cidof (s_codecs s) o c /\ frozen s (KCons c) /\ ck log (s_codecs s) j (KCons c).
Definition known_map (log : list event) (s : state) (j : tid) (m : mid) : Prop :=
  In m (s_pubs s) /\ ck log (s_codecs s) j (KMap m).
Definition pub_ok (log : list event) (s : state) (m : mid) : Prop :=
  exists k tm, nth_error log k = Some (EvStore tm m) /\ before log (s_codecs s) (KMap m) k /\
    forall o, ent_objs (entsM (s_maps s) (Some m)) o ->
      exists c, cidof (s_codecs s) o c /\ frozen s (KCons c) /\ before log (s_codecs s) (KCons c) k.

Definition frame_obj (f : frame) : oid := match f with Fr _ o _ => o end.
Definition build_objs (b : build) (o : oid) : Prop :=
  In o (map frame_obj (b_stack b)) \/ ent_objs (b_seen b) o \/ ent_objs (b_built b) o.
Definition build_ok (h : list cobj) (b : build) : Prop := forall o, build_objs b o -> cidof h o (b_cid b).
Definition pc_build_ok (h : list cobj) (p : pc) : Prop :=
  match p with PBuild _ _ b => build_ok h b | _ => True end.

Definition own_lt (s : state) (K : lclass) : Prop :=
  match K with
  | KCons c => c < s_ncid s
  | KMap m => m < length (s_maps s) /\ ~ In m (s_pubs s)
  | KNone => False
  end.

Record Inv (log : list event) (s : state) : Prop := mkInv {
  I_ptr : forall m, s_ptr s = Some m -> In m (s_pubs s);
  I_pubs : forall m, In m (s_pubs s) -> m < length (s_maps s);
  I_heap : forall o c, cidof (s_codecs s) o c -> c < s_ncid s;
  I_wf : forall e, In e log -> ev_wf (length (s_codecs s)) (length (s_maps s)) e;
  I_own_lt : forall j K, owns s j K -> own_lt s K;
  I_own_uniq : forall i j K, owns s i K -> owns s j K -> i = j;
  I_excl : forall j K, owns s j K -> excl log (s_codecs s) j K;
  I_build : forall j th, nth_error (s_threads s) j = Some th -> pc_build_ok (s_codecs s) (th_pc th);
  I_hobj : forall j th o, nth_error (s_threads s) j = Some th -> pc_holds_obj (s_maps s) (th_pc th) o -> known_obj log s j o;
  I_hmap : forall j th m, nth_error (s_threads s) j = Some th -> pc_holds_map (th_pc th) m -> known_map log s j m;
  I_pub : forall m, In m (s_pubs s) -> pub_ok log s m;
  I_rf : race_free (s_codecs s) log
}.

Lemma kn_mono : forall log evs t p, kn log t p -> kn (log ++ evs) t p.
Proof.
  intros log evs t p [q [e [H1 [H2 H3]]]]. exists q, e. split; [apply nth_error_app_l; auto|].
  split; auto. destruct H3; auto. right. apply hb_mono. auto.
Qed.

(* a position known to thread t happens before every later event of t *)
Lemma kn_hb : forall log evs t p q e,
  kn log t p -> nth_error (log ++ evs) q = Some e -> ev_tid e = t -> length log <= q -> hb (log ++ evs) p q.
Proof.
  intros log evs t p q e [q0 [e0 [H1 [H2 H3]]]] Hq Ht Hl.
  assert (Hpo : hb (log ++ evs) q0 q).
  { apply (hb_po _ q0 q e0 e).
    - apply nth_error_lt in H1. lia.
    - apply nth_error_app_l. exact H1.
    - exact Hq.
    - congruence. }
  destruct H3 as [H3|H3].
  - subst. auto.
  - eapply hb_trans; [apply hb_mono; eauto|auto].
Qed.

Lemma not_frozen_owned : forall log s j K, Inv log s -> owns s j K -> ~ frozen s K.
Proof.
  intros log s j K HI Ho Hf. destruct K as [m|c|]; simpl in Hf.
  - apply (I_own_lt _ _ HI) in Ho. simpl in Ho. tauto.
  - destruct Hf as [_ Hf]. eapply Hf; eauto.
  - auto.
Qed.


(* ---------------------------------------------------------------- one step of thread i, abstractly *)
Section Generic.
Variables (log evs : list event) (s : state) (i : tid) (th th' : thread).
Variables (h' : list cobj) (maps' : list mobj) (ptr' : option mid) (mx' : option tid) (ncid' : nat) (pubs' : list mid).
Notation s' := (mkS h' maps' ptr' mx' (set_nth i th' (s_threads s)) ncid' pubs').
Notation log' := (log ++ evs).

Definition ev_ok (e : event) : Prop :=
  ev_tid e = i /\
  match e with
  | EvRead _ (LM m) => pc_holds_map (th_pc th) m
  | EvRead _ (LC _) => False
  | EvUse _ o => pc_holds_obj (s_maps s) (th_pc th) o
  | EvAlloc _ (LM m) | EvWrite _ (LM m) => pc_owns (th_pc th') (KMap m) /\ m < length maps'
  | EvAlloc _ (LC o) | EvWrite _ (LC o) => exists c, cidof h' o c /\ pc_owns (th_pc th') (KCons c)
  | _ => True
  end.

Hypothesis HI : Inv log s.
Hypothesis Hth : nth_error (s_threads s) i = Some th.
Hypothesis E_heap : hext (s_codecs s) h'.
Hypothesis E_heap_new : forall o c, cidof h' o c -> cidof (s_codecs s) o c \/ pc_owns (th_pc th) (KCons c).
Hypothesis E_ncid : s_ncid s <= ncid'.
Hypothesis E_maps_len : length (s_maps s) <= length maps'.
Hypothesis E_maps : forall m, m < length (s_maps s) -> ~ pc_owns (th_pc th) (KMap m) ->
                               nth_error maps' m = nth_error (s_maps s) m.
Hypothesis E_pubs_mono : forall m, In m (s_pubs s) -> In m pubs'.
Hypothesis E_pubs_new : forall m, In m pubs' -> In m (s_pubs s) \/ (pc_owns (th_pc th) (KMap m) /\ pub_ok log' s' m).
Hypothesis E_ptr : forall m, ptr' = Some m -> In m pubs'.
Hypothesis E_own : forall K, pc_owns (th_pc th') K ->
   pc_owns (th_pc th) K \/ (K = KCons (s_ncid s) /\ s_ncid s < ncid') \/
   (K = KMap (length (s_maps s)) /\ length (s_maps s) < length maps').
Hypothesis E_own_pub : forall m, pc_owns (th_pc th') (KMap m) -> ~ In m pubs'.
Hypothesis E_build : pc_build_ok h' (th_pc th').
Hypothesis E_evs : forall e, In e evs -> ev_ok e.
Hypothesis E_hobj : forall o, pc_holds_obj maps' (th_pc th') o ->
   pc_holds_obj (s_maps s) (th_pc th) o \/
   (exists c, cidof h' o c /\ frozen s' (KCons c) /\ wbound log (s_codecs s) (KCons c) (kn log' i)).
Hypothesis E_hmap : forall m, pc_holds_map (th_pc th') m ->
   pc_holds_map (th_pc th) m \/ (In m pubs' /\ wbound log (s_codecs s) (KMap m) (kn log' i)).

Lemma g_thr_i : nth_error (s_threads s') i = Some th'.
Proof. simpl. eapply d_nth_set_eq; eauto. Qed.

Lemma g_thr_j : forall j, j <> i -> nth_error (s_threads s') j = nth_error (s_threads s) j.
Proof. intros. simpl. apply d_nth_set_neq. auto. Qed.

Lemma g_owns_inv : forall j K, owns s' j K -> (j = i /\ pc_owns (th_pc th') K) \/ (j <> i /\ owns s j K).
Proof.
  intros j K [t [H1 H2]]. destruct (Nat.eq_dec j i).
  - subst. rewrite g_thr_i in H1. inversion H1; subst. auto.
  - rewrite g_thr_j in H1 by auto. right. split; auto. exists t; auto.
Qed.

Lemma g_owns_i : forall K, pc_owns (th_pc th') K -> owns s' i K.
Proof. intros. exists th'. split; auto. apply g_thr_i. Qed.

Lemma g_own_old : forall K, pc_owns (th_pc th) K -> owns s i K.
Proof. intros. exists th. auto. Qed.

Lemma g_frozen : forall K, frozen s K -> frozen s' K.
Proof.
  intros [m|c|]; simpl; auto.
  intros [H1 H2]. split; [lia|]. intros j Ho. apply g_owns_inv in Ho. destruct Ho as [[-> Ho]|[Hn Ho]].
  - apply E_own in Ho. destruct Ho as [Ho|[[Ho _]|[Ho _]]].
    + eapply H2. eapply g_own_old; eauto.
    + inversion Ho. lia.
    + discriminate.
  - eapply H2; eauto.
Qed.

Lemma g_own_lt : forall j K, owns s' j K -> own_lt s' K.
Proof.
  intros j K Ho. apply g_owns_inv in Ho. destruct Ho as [[-> Ho]|[Hn Ho]].
  - destruct (E_own _ Ho) as [Hold|[[-> Hl]|[-> Hl]]].
    + pose proof (I_own_lt _ _ HI _ _ (g_own_old _ Hold)) as Hlt. destruct K as [m|c|]; simpl in *.
      * split; [lia|]. apply E_own_pub; auto.
      * lia.
      * auto.
    + simpl. lia.
    + simpl. split; [lia|]. apply E_own_pub. auto.
  - pose proof (I_own_lt _ _ HI _ _ Ho) as Hlt. destruct K as [m|c|]; simpl in *.
    + split; [lia|]. intro Hin. destruct (E_pubs_new _ Hin) as [Hp|[Hp _]]; [tauto|].
      apply Hn. symmetry. eapply (I_own_uniq _ _ HI); eauto using g_own_old.
    + lia.
    + auto.
Qed.

Lemma g_uniq_aux : forall b K, pc_owns (th_pc th') K -> b <> i -> owns s b K -> False.
Proof.
  intros b K Ho Hn Hb. destruct (E_own _ Ho) as [Hold|[[-> Hl]|[-> Hl]]].
  - apply Hn. symmetry. eapply (I_own_uniq _ _ HI); eauto using g_own_old.
  - apply (I_own_lt _ _ HI) in Hb. simpl in Hb. lia.
  - apply (I_own_lt _ _ HI) in Hb. simpl in Hb. lia.
Qed.

Lemma g_uniq : forall a b K, owns s' a K -> owns s' b K -> a = b.
Proof.
  intros a b K Ha Hb. apply g_owns_inv in Ha. apply g_owns_inv in Hb.
  destruct Ha as [[-> Ha]|[Hna Ha]]; destruct Hb as [[-> Hb]|[Hnb Hb]]; auto.
  - exfalso. eapply g_uniq_aux; eauto.
  - exfalso. eapply g_uniq_aux; eauto.
  - eapply (I_own_uniq _ _ HI); eauto.
Qed.

Lemma g_not_frozen : forall j K, owns s' j K -> ~ frozen s' K.
Proof.
  intros j K Ho Hf. destruct K as [m|c|].
  - apply g_own_lt in Ho. simpl in Ho, Hf. tauto.
  - destruct Hf as [_ Hf]. eapply Hf; eauto.
  - auto.
Qed.

Lemma g_len_h : length (s_codecs s) <= length h'.
Proof. apply hext_length. auto. Qed.

Lemma g_wf : forall e, In e log' -> ev_wf (length h') (length maps') e.
Proof.
  intros e He. apply in_app_or in He. destruct He as [He|He].
  - eapply ev_wf_mono; [apply g_len_h|apply E_maps_len|]. apply (I_wf _ _ HI). auto.
  - destruct (E_evs _ He) as [_ Hok]. destruct e; simpl in *; auto.
    + destruct l as [o|m].
      * destruct Hok as [c [Hc _]]. eapply cidof_lt; eauto.
      * tauto.
    + destruct l as [o|m]; [tauto|].
      apply (I_hmap _ _ HI _ _ _ Hth) in Hok. destruct Hok as [Hok _].
      apply (I_pubs _ _ HI) in Hok. lia.
    + destruct l as [o|m].
      * destruct Hok as [c [Hc _]]. eapply cidof_lt; eauto.
      * tauto.
    + apply (I_hobj _ _ HI _ _ _ Hth) in Hok. destruct Hok as [c [Hc _]].
      apply cidof_lt in Hc. pose proof g_len_h. lia.
Qed.

Lemma g_access_old : forall e, In e log -> access h' e = access (s_codecs s) e.
Proof. intros. eapply access_ext; eauto. apply (I_wf _ _ HI). auto. Qed.

Lemma g_ev_tid : forall e, In e evs -> ev_tid e = i.
Proof. intros e He. destruct (E_evs _ He). auto. Qed.

Lemma g_wr : forall e t K, In e evs -> access h' e = Some (t, K, true) -> pc_owns (th_pc th') K.
Proof.
  intros e t K He Ha. destruct (E_evs _ He) as [_ Hok].
  destruct e; unfold access in Ha; try discriminate; destruct l as [o|m];
    try (destruct Hok as [c [Hc Hp]]; rewrite (class_cidof _ _ _ Hc) in Ha; inversion Ha; subst; auto);
    try (simpl in Ha; inversion Ha; subst; tauto).
Qed.

Lemma g_rd : forall e t K, In e evs -> access h' e = Some (t, K, false) ->
  frozen s K /\ ck log (s_codecs s) i K.
Proof.
  intros e t K He Ha. destruct (E_evs _ He) as [_ Hok].
  destruct e; unfold access in Ha; try discriminate.
  - destruct l as [o|m]; [tauto|]. simpl in Ha. inversion Ha; subst.
    apply (I_hmap _ _ HI _ _ _ Hth) in Hok. destruct Hok. split; auto.
  - apply (I_hobj _ _ HI _ _ _ Hth) in Hok. destruct Hok as [c [Hc [Hf Hk]]].
    rewrite (class_cidof h' o c) in Ha by auto. inversion Ha; subst. auto.
Qed.

Lemma g_wb : forall K (P P' : nat -> Prop), wbound log (s_codecs s) K P -> ~ pc_owns (th_pc th') K ->
  (forall p, P p -> P' p) -> wbound log' h' K P'.
Proof.
  intros K P P' Hw Hno Himp p e t Hn Ha. apply nth_error_app_cases in Hn. destruct Hn as [[_ Hn]|[_ Hn]].
  - rewrite g_access_old in Ha by (eapply nth_error_In; eauto). apply Himp. eapply Hw; eauto.
  - exfalso. apply Hno. eapply g_wr; eauto. eapply nth_error_In; eauto.
Qed.

Lemma g_frozen_not_own : forall K, frozen s' K -> ~ pc_owns (th_pc th') K.
Proof. intros K Hf Ho. eapply g_not_frozen; eauto using g_owns_i. Qed.

Lemma g_ck : forall j K, frozen s K -> ck log (s_codecs s) j K -> ck log' h' j K.
Proof.
  intros. eapply g_wb; eauto.
  - apply g_frozen_not_own. apply g_frozen. auto.
  - intros. apply kn_mono. auto.
Qed.

Lemma g_before : forall k K, frozen s K -> before log (s_codecs s) K k -> before log' h' K k.
Proof.
  intros. eapply g_wb; eauto.
  - apply g_frozen_not_own. apply g_frozen. auto.
  - intros. apply hb_mono. auto.
Qed.

Lemma g_excl : forall j K, owns s' j K -> excl log' h' j K.
Proof.
  intros j K Ho p e t w Hn Ha. apply nth_error_app_cases in Hn. destruct Hn as [[_ Hn]|[_ Hn]].
  - assert (Hin : In e log) by (eapply nth_error_In; eauto).
    rewrite g_access_old in Ha by auto. apply g_owns_inv in Ho. destruct Ho as [[-> Ho]|[Hne Ho]].
    + destruct (E_own _ Ho) as [Hold|[[-> Hl]|[-> Hl]]].
      * eapply (I_excl _ _ HI); eauto using g_own_old.
      * exfalso. apply access_cons in Ha. destruct Ha as [o Hc]. apply (I_heap _ _ HI) in Hc. lia.
      * exfalso. eapply access_map_lt in Ha; [|eapply (I_wf _ _ HI); eauto]. lia.
    + eapply (I_excl _ _ HI); eauto.
  - apply nth_error_In in Hn. pose proof (access_tid _ _ _ _ _ Ha) as Ht. rewrite (g_ev_tid _ Hn) in Ht. subst t.
    destruct (Nat.eq_dec i j); auto. exfalso. destruct w.
    + apply g_wr in Ha; auto. apply n. eapply g_uniq; eauto using g_owns_i.
    + apply g_rd in Ha; auto. destruct Ha as [Hf _]. eapply g_not_frozen; eauto using g_frozen.
Qed.

Lemma g_known_obj : forall j o, known_obj log s j o -> known_obj log' s' j o.
Proof.
  intros j o [c [H1 [H2 H3]]]. exists c. cbn [s_codecs]. split; [apply E_heap; auto|].
  split; [apply g_frozen; auto|]. apply g_ck; auto.
Qed.

Lemma g_known_map : forall j m, known_map log s j m -> known_map log' s' j m.
Proof.
  intros j m [H1 H2]. split; cbn [s_codecs s_pubs]; auto. apply g_ck; auto.
Qed.

Lemma g_ents_pub : forall m, In m (s_pubs s) -> entsM maps' (Some m) = entsM (s_maps s) (Some m).
Proof.
  intros. apply entsM_eq. apply E_maps.
  - apply (I_pubs _ _ HI). auto.
  - intro Hp. apply g_own_old in Hp. apply (I_own_lt _ _ HI) in Hp. simpl in Hp. tauto.
Qed.

Lemma g_ents_own : forall j m, j <> i -> owns s j (KMap m) -> entsM maps' (Some m) = entsM (s_maps s) (Some m).
Proof.
  intros. apply entsM_eq. apply E_maps.
  - apply (I_own_lt _ _ HI) in H0. simpl in H0. tauto.
  - intro Hp. apply g_own_old in Hp. apply H. symmetry. eapply (I_own_uniq _ _ HI); eauto.
Qed.

Lemma g_ents_snap : forall j thj, nth_error (s_threads s) j = Some thj ->
  entsM maps' (snap_of (th_pc thj)) = entsM (s_maps s) (snap_of (th_pc thj)).
Proof.
  intros. destruct (snap_of (th_pc thj)) as [m|] eqn:E; [|reflexivity].
  apply g_ents_pub. apply (I_hmap _ _ HI _ _ _ H) in E. destruct E. auto.
Qed.

Lemma g_special_obj : forall o c, cidof h' o c -> frozen s' (KCons c) ->
  wbound log (s_codecs s) (KCons c) (kn log' i) -> known_obj log' s' i o.
Proof.
  intros. exists c. cbn [s_codecs]. split; auto. split; auto.
  eapply g_wb; eauto. apply g_frozen_not_own. auto.
Qed.

Lemma g_hobj : forall j thj o, nth_error (s_threads s') j = Some thj ->
  pc_holds_obj maps' (th_pc thj) o -> known_obj log' s' j o.
Proof.
  intros j thj o Hj Ho. destruct (Nat.eq_dec j i).
  - subst. rewrite g_thr_i in Hj. inversion Hj; subst.
    destruct (E_hobj _ Ho) as [Hold|[c [H1 [H2 H3]]]].
    + apply g_known_obj. eapply (I_hobj _ _ HI); eauto.
    + eapply g_special_obj; eauto.
  - rewrite g_thr_j in Hj by auto. apply g_known_obj. eapply (I_hobj _ _ HI); eauto.
    unfold pc_holds_obj in *. rewrite (g_ents_snap _ _ Hj) in Ho.
    destruct Ho as [Ho|Ho]; [left; auto|right].
    destruct (th_pc thj) eqn:Epc; auto.
    rewrite (g_ents_own j nm) in Ho; auto.
    exists thj. split; auto. rewrite Epc. simpl. auto.
Qed.

Lemma g_hmap : forall j thj m, nth_error (s_threads s') j = Some thj ->
  pc_holds_map (th_pc thj) m -> known_map log' s' j m.
Proof.
  intros j thj m Hj Hm. destruct (Nat.eq_dec j i).
  - subst. rewrite g_thr_i in Hj. inversion Hj; subst.
    destruct (E_hmap _ Hm) as [Hold|[H1 H2]].
    + apply g_known_map. eapply (I_hmap _ _ HI); eauto.
    + split; cbn [s_codecs s_pubs]; auto. eapply g_wb; eauto.
      apply g_frozen_not_own. simpl. auto.
  - rewrite g_thr_j in Hj by auto. apply g_known_map. eapply (I_hmap _ _ HI); eauto.
Qed.

Lemma g_pub : forall m, In m pubs' -> pub_ok log' s' m.
Proof.
  intros m Hin. destruct (E_pubs_new _ Hin) as [Hold|[_ Hnew]]; auto.
  destruct (I_pub _ _ HI _ Hold) as [k [tm [Hk [Hb He]]]].
  exists k, tm. cbn [s_codecs s_maps]. split; [apply nth_error_app_l; auto|].
  split; [apply g_before; auto|].
  intros o Ho. rewrite g_ents_pub in Ho by auto. destruct (He o Ho) as [c [H1 [H2 H3]]].
  exists c. split; [apply E_heap; auto|]. split; [apply g_frozen; auto|]. apply g_before; auto.
Qed.

Lemma g_rf : race_free h' log'.
Proof.
  intros p q e1 e2 t1 t2 K w1 w2 Hlt Hp Hq Ha1 Ha2 HK Hne Hw.
  pose proof Hq as Hq0.
  apply nth_error_app_cases in Hq. destruct Hq as [[Hql Hq]|[Hql Hq]].
  - rewrite nth_error_app1 in Hp by lia.
    apply hb_mono. eapply (I_rf _ _ HI); eauto; rewrite <- g_access_old; eauto using nth_error_In.
  - apply nth_error_In in Hq.
    pose proof (access_tid _ _ _ _ _ Ha2) as Ht2. rewrite (g_ev_tid _ Hq) in Ht2. subst t2.
    apply nth_error_app_cases in Hp. destruct Hp as [[Hpl Hp]|[Hpl Hp]].
    + assert (Hin : In e1 log) by (eapply nth_error_In; eauto).
      rewrite g_access_old in Ha1 by auto. destruct w2.
      * exfalso. apply g_wr in Ha2; auto. destruct (E_own _ Ha2) as [Hold|[[-> Hl]|[-> Hl]]].
        -- apply Hne. eapply (I_excl _ _ HI); eauto using g_own_old.
        -- apply access_cons in Ha1. destruct Ha1 as [o Hc]. apply (I_heap _ _ HI) in Hc. lia.
        -- eapply access_map_lt in Ha1; [|eapply (I_wf _ _ HI); eauto]. lia.
      * destruct w1; [|discriminate]. apply g_rd in Ha2; auto. destruct Ha2 as [_ Hk].
        apply (kn_hb log evs i p q e2); [eapply Hk; eauto|exact Hq0|apply g_ev_tid; auto|exact Hql].
    + exfalso. apply nth_error_In in Hp. apply Hne.
      pose proof (access_tid _ _ _ _ _ Ha1) as Ht1. rewrite (g_ev_tid _ Hp) in Ht1. auto.
Qed.

Lemma inv_generic : Inv log' s'.
Proof.
  constructor; cbn [s_codecs s_maps s_ptr s_pubs s_ncid].
  - exact E_ptr.
  - intros m Hin. destruct (E_pubs_new _ Hin) as [Hold|[Hp _]].
    + apply (I_pubs _ _ HI) in Hold. lia.
    + apply g_own_old in Hp. apply (I_own_lt _ _ HI) in Hp. simpl in Hp. lia.
  - intros o c Hc. destruct (E_heap_new _ _ Hc) as [Hold|Hp].
    + apply (I_heap _ _ HI) in Hold. lia.
    + apply g_own_old in Hp. apply (I_own_lt _ _ HI) in Hp. simpl in Hp. lia.
  - exact g_wf.
  - exact g_own_lt.
  - exact g_uniq.
  - exact g_excl.
  - intros j thj Hj. destruct (Nat.eq_dec j i).
    + subst. rewrite g_thr_i in Hj. inversion Hj; subst. exact E_build.
    + rewrite g_thr_j in Hj by auto. pose proof (I_build _ _ HI _ _ Hj) as Hb.
      destruct (th_pc thj); simpl in *; auto. intros o Ho. apply E_heap. auto.
  - exact g_hobj.
  - exact g_hmap.
  - exact g_pub.
  - exact g_rf.
Qed.

End Generic.


Lemma ent_objs_nil : forall o, ~ ent_objs [] o.
Proof. intros o [t H]. inversion H. Qed.

(* corollary: a step that changes neither the heaps nor the pointer *)
Lemma inv_simple : forall log evs s i th th' mx' ncid',
  Inv log s -> nth_error (s_threads s) i = Some th ->
  s_ncid s <= ncid' ->
  (forall K, pc_owns (th_pc th') K -> pc_owns (th_pc th) K \/ (K = KCons (s_ncid s) /\ s_ncid s < ncid')) ->
  pc_build_ok (s_codecs s) (th_pc th') ->
  (forall e, In e evs -> ev_ok s i th th' (s_codecs s) (s_maps s) e) ->
  (forall o, pc_holds_obj (s_maps s) (th_pc th') o ->
     pc_holds_obj (s_maps s) (th_pc th) o \/
     (exists c, cidof (s_codecs s) o c /\ frozen s (KCons c) /\ wbound log (s_codecs s) (KCons c) (kn (log ++ evs) i))) ->
  (forall m, pc_holds_map (th_pc th') m ->
     pc_holds_map (th_pc th) m \/ (In m (s_pubs s) /\ wbound log (s_codecs s) (KMap m) (kn (log ++ evs) i))) ->
  Inv (log ++ evs) (mkS (s_codecs s) (s_maps s) (s_ptr s) mx' (set_nth i th' (s_threads s)) ncid' (s_pubs s)).
Proof.
  intros log evs s i th th' mx' ncid' HI Hth Hn Hown Hb Hev Hobj Hmap.
  assert (Hown' : forall K, pc_owns (th_pc th') K ->
     pc_owns (th_pc th) K \/ (K = KCons (s_ncid s) /\ s_ncid s < ncid') \/
     (K = KMap (length (s_maps s)) /\ length (s_maps s) < length (s_maps s))).
  { intros K HK. destruct (Hown K HK); auto. }
  apply inv_generic with (th := th); auto.
  - apply hext_refl.
  - apply (I_ptr _ _ HI).
  - intros m Hm Hin. destruct (Hown _ Hm) as [Hold|[Hd _]]; [|discriminate].
    assert (Ho : owns s i (KMap m)) by (exists th; auto).
    apply (I_own_lt _ _ HI) in Ho. simpl in Ho. tauto.
  - intros o Ho. destruct (Hobj o Ho) as [|[c [Hc [Hf Hw]]]]; auto.
    right. exists c. split; auto. split; auto. eapply g_frozen; eauto.
Qed.

Lemma snap_reads_In : forall i snap e, In e (snap_reads i snap) -> exists m, snap = Some m /\ e = EvRead i (LM m).
Proof.
  intros i [m|] e H; simpl in H; [|tauto]. destruct H as [H|H]; [|tauto]. eauto.
Qed.

(* a thread that loads the pointer learns everything that happened before the store *)
Lemma load_kn : forall log h i k tm m K,
  nth_error log k = Some (EvStore tm m) -> before log h K k ->
  wbound log h K (kn (log ++ [EvLoad i (Some m)]) i).
Proof.
  intros log h i k tm m K Hk Hb p e t Hp Ha.
  exists (length log), (EvLoad i (Some m)). split; [apply nth_error_snoc|]. split; [reflexivity|].
  right. eapply hb_trans; [apply hb_mono; eapply Hb; eauto|].
  eapply hb_ptr.
  - eapply nth_error_lt; eauto.
  - apply nth_error_app_l. eauto.
  - apply nth_error_snoc.
Qed.

(* everything a thread wrote itself is known to it *)
Lemma excl_kn : forall log evs h i K, excl log h i K -> wbound log h K (kn (log ++ evs) i).
Proof.
  intros log evs h i K He p e t Hp Ha. exists p, e. split; [apply nth_error_app_l; auto|].
  assert (t = i) by (eapply He; eauto). subst.
  split; [symmetry; eapply access_tid; eauto|left; reflexivity].
Qed.

Section Drf.
Variable G : ty -> list ty.
Variable memo : ty -> bool.
Variable roots : ty -> list ty.
Variable lk : bool.
Notation STEP := (step G memo roots lk).


Lemma memo_lookup : forall (m : bool) r l o, (if m then lookup r l else None) = Some o -> ent_objs l o.
Proof. intros [|] r l o H; [eapply d_lookup_In; eauto|discriminate]. Qed.

Lemma memo_cons : forall (m : bool) r o l o', ent_objs (if m then (r, o) :: l else l) o' -> o' = o \/ ent_objs l o'.
Proof. intros [|] r o l o' H; [apply ent_objs_cons in H; auto|auto]. Qed.

Lemma build_ok_intro : forall h b,
  (forall o, In o (map frame_obj (b_stack b)) -> cidof h o (b_cid b)) ->
  (forall o, ent_objs (b_seen b) o -> cidof h o (b_cid b)) ->
  (forall o, ent_objs (b_built b) o -> cidof h o (b_cid b)) ->
  build_ok h b.
Proof. intros h b H1 H2 H3 o [Ho|[Ho|Ho]]; auto. Qed.

Lemma build_step_ok : forall i h b h' b' evs,
  build_ok h b -> build_step G memo i h b = (h', b', evs) ->
  hext h h' /\ (forall o c, cidof h' o c -> cidof h o c \/ c = b_cid b) /\ b_cid b' = b_cid b /\ build_ok h' b' /\
  (forall e, In e evs -> exists o, (e = EvAlloc i (LC o) \/ e = EvWrite i (LC o)) /\ cidof h' o (b_cid b)).
Proof.
  intros i h b h' b' evs Hok Hs.
  destruct b as [cid seen stack rts built].
  assert (Hstack : forall o, In o (map frame_obj stack) -> cidof h o cid).
  { intros. apply Hok. left. auto. }
  assert (Hseen : forall o, ent_objs seen o -> cidof h o cid).
  { intros. apply Hok. right. left. auto. }
  assert (Hbuilt : forall o, ent_objs built o -> cidof h o cid).
  { intros. apply Hok. right. right. auto. }
  clear Hok. unfold build_step in Hs. simpl in Hs.
  destruct stack as [|[t o todo] stk].
  - destruct rts as [|r rs].
    + inversion Hs; subst. split; [apply hext_refl|]. split; [auto|]. split; [auto|].
      split; [apply build_ok_intro; auto|]. intros e [].
    + destruct (if memo r then lookup r seen else None) as [o|] eqn:E.
      * inversion Hs; subst. split; [apply hext_refl|]. split; [auto|]. split; [auto|].
        split; [|intros e []]. apply build_ok_intro; simpl; auto.
        intros o' Ho'. apply ent_objs_cons in Ho'. destruct Ho'; auto. subst. apply Hseen. eapply memo_lookup; eauto.
      * inversion Hs; subst. clear Hs.
        assert (Hnew : cidof (h ++ [mkC r [] false i cid]) (length h) cid).
        { apply (proj2 (cidof_app _ _ _ _)). right. auto. }
        assert (Hext : hext h (h ++ [mkC r [] false i cid])).
        { intros o' c' H. apply (proj2 (cidof_app _ _ _ _)). auto. }
        split; auto. split.
        { intros o' c' H. apply (proj1 (cidof_app _ _ _ _)) in H. simpl in H. tauto. }
        split; auto. split.
        { apply build_ok_intro; simpl; auto.
          - intros o' [Ho'|[]]. subst. auto.
          - intros o' Ho'. apply memo_cons in Ho'. destruct Ho'; subst; auto. }
        intros e [He|[]]. subst. exists (length h). auto.
  - destruct todo as [|c todo].
    + destruct stk as [|[tp op todo'] stk'].
      * inversion Hs; subst. clear Hs.
        assert (Hext : hext h (mark_done h o)).
        { intros o' c' H. apply (proj2 (cidof_mark_done _ _ _ _)). auto. }
        split; auto. split.
        { intros o' c' H. apply (proj1 (cidof_mark_done _ _ _ _)) in H. auto. }
        split; auto. split.
        { apply build_ok_intro; simpl; auto.
          - tauto.
          - intros o' Ho'. apply ent_objs_cons in Ho'. destruct Ho'; subst; auto.
            apply Hext. apply Hstack. simpl. auto. }
        intros e [He|[]]. subst. exists o. split; auto. apply Hext. apply Hstack. simpl. auto.
      * inversion Hs; subst. clear Hs.
        assert (Hext : hext h (add_kid (mark_done h o) op o)).
        { intros o' c' H. apply (proj2 (cidof_add_kid _ _ _ _ _)). apply (proj2 (cidof_mark_done _ _ _ _)). auto. }
        split; auto. split.
        { intros o' c' H. apply (proj1 (cidof_add_kid _ _ _ _ _)) in H. apply (proj1 (cidof_mark_done _ _ _ _)) in H. auto. }
        split; auto. split.
        { apply build_ok_intro; simpl; auto.
          intros o' Ho'. apply Hext. apply Hstack. simpl. tauto. }
        intros e [He|[He|[]]]; subst.
        -- exists o. split; auto. apply Hext. apply Hstack. simpl. auto.
        -- exists op. split; auto. apply Hext. apply Hstack. simpl. auto.
    + destruct (if memo c then lookup c seen else None) as [oc|] eqn:E.
      * inversion Hs; subst. clear Hs.
        assert (Hext : hext h (add_kid h o oc)).
        { intros o' c' H. apply (proj2 (cidof_add_kid _ _ _ _ _)). auto. }
        split; auto. split.
        { intros o' c' H. apply (proj1 (cidof_add_kid _ _ _ _ _)) in H. auto. }
        split; auto. split.
        { apply build_ok_intro; simpl; auto. }
        intros e [He|[]]. subst. exists o. split; auto. apply Hext. apply Hstack. simpl. auto.
      * inversion Hs; subst. clear Hs.
        assert (Hnew : cidof (h ++ [mkC c [] false i cid]) (length h) cid).
        { apply (proj2 (cidof_app _ _ _ _)). right. auto. }
        assert (Hext : hext h (h ++ [mkC c [] false i cid])).
        { intros o' c' H. apply (proj2 (cidof_app _ _ _ _)). auto. }
        split; auto. split.
        { intros o' c' H. apply (proj1 (cidof_app _ _ _ _)) in H. simpl in H. tauto. }
        split; auto. split.
        { apply build_ok_intro; simpl; auto.
          - intros o' [Ho'|Ho']; subst; auto.
          - intros o' Ho'. apply memo_cons in Ho'. destruct Ho'; subst; auto. }
        intros e [He|[]]. subst. exists (length h). auto.
Qed.

Section Cases.
Variables (log : list event) (s : state) (i : tid) (th : thread).
Hypothesis HI : Inv log s.
Hypothesis Hth : nth_error (s_threads s) i = Some th.

Lemma case_stutter_like : forall th' mx' evs,
  (forall K, ~ pc_owns (th_pc th') K) ->
  pc_build_ok (s_codecs s) (th_pc th') ->
  (forall e, In e evs -> ev_ok s i th th' (s_codecs s) (s_maps s) e) ->
  (forall o, pc_holds_obj (s_maps s) (th_pc th') o -> pc_holds_obj (s_maps s) (th_pc th) o) ->
  (forall m, ~ pc_holds_map (th_pc th') m) ->
  Inv (log ++ evs) (mkS (s_codecs s) (s_maps s) (s_ptr s) mx' (set_nth i th' (s_threads s)) (s_ncid s) (s_pubs s)).
Proof.
  intros. apply inv_simple with (th := th); auto.
  - intros K HK. exfalso. eapply H; eauto.
  - intros m Hm. exfalso. eapply H3; eauto.
Qed.

Lemma case_load : forall th' mx',
  (exists t, th_pc th' = PLoaded t (s_ptr s) \/ th_pc th' = PLoaded2 t (s_ptr s)) ->
  Inv (log ++ [EvLoad i (s_ptr s)])
      (mkS (s_codecs s) (s_maps s) (s_ptr s) mx' (set_nth i th' (s_threads s)) (s_ncid s) (s_pubs s)).
Proof.
  intros th' mx' [t Hpc].
  assert (Hsn : snap_of (th_pc th') = s_ptr s) by (destruct Hpc as [-> | ->]; reflexivity).
  assert (Hown : forall K, ~ pc_owns (th_pc th') K) by (destruct Hpc as [-> | ->]; simpl; auto).
  apply inv_simple with (th := th); auto.
  - intros K HK. exfalso. eapply Hown; eauto.
  - destruct Hpc as [-> | ->]; simpl; auto.
  - intros e [He|[]]. subst e. split; simpl; auto.
  - intros o Ho. right.
    assert (Ho' : ent_objs (entsM (s_maps s) (s_ptr s)) o).
    { unfold pc_holds_obj in Ho. rewrite Hsn in Ho. destruct Ho as [Ho|Ho]; auto.
      destruct Hpc as [Hpc|Hpc]; rewrite Hpc in Ho; tauto. }
    destruct (s_ptr s) as [m|] eqn:Ep; [|exfalso; eapply ent_objs_nil; eauto].
    destruct (I_pub _ _ HI m (I_ptr _ _ HI _ Ep)) as [k [tm [Hk [_ He]]]].
    destruct (He o Ho') as [c [H1 [H2 H3]]]. exists c. split; auto. split; auto.
    eapply load_kn; eauto.
  - intros m Hm. right. unfold pc_holds_map in Hm. rewrite Hsn in Hm.
    pose proof (I_ptr _ _ HI _ Hm) as Hin. split; auto. rewrite Hm.
    destruct (I_pub _ _ HI m Hin) as [k [tm [Hk [Hb _]]]]. eapply load_kn; eauto.
Qed.


Lemma snap_pub : forall m, snap_of (th_pc th) = Some m -> In m (s_pubs s) /\ m < length (s_maps s).
Proof.
  intros m Hm. destruct (I_hmap _ _ HI _ _ _ Hth Hm) as [Hin _]. split; auto. apply (I_pubs _ _ HI). auto.
Qed.

Lemma snap_reads_ok : forall th' h' maps' snap e, snap_of (th_pc th) = snap ->
  In e (snap_reads i snap) -> ev_ok s i th th' h' maps' e.
Proof.
  intros th' h' maps' snap e Hs He. apply snap_reads_In in He. destruct He as [m [Hm ->]].
  split; simpl; auto. unfold pc_holds_map. congruence.
Qed.

Lemma case_start : forall t snap evs,
  (th_pc th = PLoaded t snap \/ th_pc th = PLoaded2 t snap) ->
  (forall e, In e evs -> In e (snap_reads i snap)) ->
  Inv (log ++ evs) (start_build roots s i th t snap).
Proof.
  intros t snap evs Hpc Hev.
  assert (Hsn : snap_of (th_pc th) = snap) by (destruct Hpc as [-> | ->]; reflexivity).
  change (start_build roots s i th t snap) with
    (mkS (s_codecs s) (s_maps s) (s_ptr s) (s_mutex s)
         (set_nth i (with_pc th (PBuild t snap (mkB (s_ncid s) [] [] (roots t) []))) (s_threads s))
         (S (s_ncid s)) (s_pubs s)).
  apply inv_simple with (th := th); auto.
  - intros K HK. simpl in HK. destruct K; try tauto. subst. right. split; auto.
  - simpl. intros o [Ho|[Ho|Ho]]; simpl in Ho; try tauto; exfalso; eapply ent_objs_nil; eauto.
  - intros e He. eapply snap_reads_ok; eauto.
  - intros o Ho. left. unfold pc_holds_obj in *. simpl in Ho. rewrite Hsn. tauto.
  - intros m Hm. left. unfold pc_holds_map in *. simpl in Hm. congruence.
Qed.

(* hit, miss with lock, hit under the lock *)
Lemma case_ro : forall t snap th' evs,
  (th_pc th = PLoaded t snap \/ th_pc th = PLoaded2 t snap) ->
  (th_pc th' = PIdle \/ th_pc th' = PWantLock t \/
   exists o, th_pc th' = PUnlock t o /\ lookup t (ents_of s snap) = Some o) ->
  (forall e, In e evs -> In e (snap_reads i snap) \/ exists o, e = EvUse i o /\ lookup t (ents_of s snap) = Some o) ->
  Inv (log ++ evs) (set_thread s i th').
Proof.
  intros t snap th' evs Hpc Hpc' Hev.
  assert (Hsn : snap_of (th_pc th) = snap) by (destruct Hpc as [-> | ->]; reflexivity).
  assert (Hlk : forall o, lookup t (ents_of s snap) = Some o -> pc_holds_obj (s_maps s) (th_pc th) o).
  { intros o Ho. left. rewrite Hsn. eapply d_lookup_In; eauto. }
  unfold set_thread. apply case_stutter_like.
  - intros K. destruct Hpc' as [-> |[-> |[o [-> _]]]]; simpl; auto.
  - destruct Hpc' as [-> |[-> |[o [-> _]]]]; simpl; auto.
  - intros e He. destruct (Hev e He) as [Hr|[o [-> Ho]]].
    + eapply snap_reads_ok; eauto.
    + split; simpl; auto.
  - intros o Ho. destruct Hpc' as [Hp|[Hp|[o' [Hp Hl]]]]; rewrite Hp in Ho; unfold pc_holds_obj in Ho; simpl in Ho.
    + destruct Ho as [Ho|[]]. exfalso; eapply ent_objs_nil; eauto.
    + destruct Ho as [Ho|[]]. exfalso; eapply ent_objs_nil; eauto.
    + destruct Ho as [Ho|Ho]; [exfalso; eapply ent_objs_nil; eauto|]. subst. auto.
  - intros m Hm. unfold pc_holds_map in Hm.
    destruct Hpc' as [Hp|[Hp|[o' [Hp Hl]]]]; rewrite Hp in Hm; discriminate.
Qed.

Lemma entsM_app_lt : forall ms r m, m < length ms -> entsM (ms ++ r) (Some m) = entsM ms (Some m).
Proof. intros. simpl. rewrite nth_error_app1; auto. Qed.

Lemma entsM_app_snap : forall r, entsM (s_maps s ++ r) (snap_of (th_pc th)) = entsM (s_maps s) (snap_of (th_pc th)).
Proof.
  intros. destruct (snap_of (th_pc th)) as [m|] eqn:E; [|reflexivity].
  apply entsM_app_lt. apply snap_pub. auto.
Qed.

Lemma case_bfin : forall t snap b add,
  th_pc th = PBuild t snap b ->
  (forall o, ent_objs add o -> ent_objs (b_seen b) o \/ ent_objs (b_built b) o) ->
  Inv (log ++ [EvAlloc i (LM (length (s_maps s)))])
      (mkS (s_codecs s) (s_maps s ++ [mkM [] i]) (s_ptr s) (s_mutex s)
           (set_nth i (with_pc th (PCopy t snap (length (s_maps s)) (ents_of s snap) add)) (s_threads s))
           (s_ncid s) (s_pubs s)).
Proof.
  intros t snap b add Hpc Hadd.
  assert (Hsn : snap_of (th_pc th) = snap) by (rewrite Hpc; reflexivity).
  assert (Hlen : length (s_maps s ++ [mkM [] i]) = S (length (s_maps s))) by (rewrite app_length; simpl; lia).
  assert (Hown : owns s i (KCons (b_cid b))) by (exists th; rewrite Hpc; simpl; auto).
  assert (Hown' : forall K, pc_owns (th_pc (with_pc th (PCopy t snap (length (s_maps s)) (ents_of s snap) add))) K ->
     pc_owns (th_pc th) K \/ (K = KCons (s_ncid s) /\ s_ncid s < s_ncid s) \/
     (K = KMap (length (s_maps s)) /\ length (s_maps s) < length (s_maps s ++ [mkM [] i]))).
  { intros K HK. simpl in HK. destruct K; try tauto. subst. right. right. split; auto. lia. }
  apply inv_generic with (th := th); auto.
  - apply hext_refl.
  - lia.
  - intros. rewrite nth_error_app1; auto.
  - apply (I_ptr _ _ HI).
  - intros m Hm Hin. simpl in Hm. subst. apply (I_pubs _ _ HI) in Hin. lia.
  - simpl. auto.
  - intros e [<-|[]]. split; simpl; auto. split; auto. lia.
  - intros o Ho. unfold pc_holds_obj in Ho. simpl in Ho.
    rewrite <- Hsn in Ho at 1. rewrite entsM_app_snap in Ho.
    destruct Ho as [Ho|[Ho|[Ho|Ho]]].
    + left. left. auto.
    + left. left. rewrite Hsn. auto.
    + right. exists (b_cid b).
      assert (Hc : cidof (s_codecs s) o (b_cid b)).
      { pose proof (I_build _ _ HI _ _ Hth) as Hb. rewrite Hpc in Hb. simpl in Hb. apply Hb.
        destruct (Hadd o Ho); [right; left|right; right]; auto. }
      split; auto. split.
      * simpl. split; [apply (I_own_lt _ _ HI) in Hown; auto|].
        intros j Hj. eapply g_owns_inv in Hj; eauto. destruct Hj as [[_ Hj]|[Hn Hj]].
        -- simpl in Hj. auto.
        -- apply Hn. eapply (I_own_uniq _ _ HI); eauto.
      * apply excl_kn. apply (I_excl _ _ HI). auto.
    + exfalso. rewrite nth_error_snoc in Ho. simpl in Ho. eapply ent_objs_nil; eauto.
  - intros m Hm. left. unfold pc_holds_map in *. simpl in Hm. congruence.
Qed.

Lemma case_bstep : forall t snap b h' b' evs,
  th_pc th = PBuild t snap b -> build_step G memo i (s_codecs s) b = (h', b', evs) ->
  Inv (log ++ evs)
      (mkS h' (s_maps s) (s_ptr s) (s_mutex s) (set_nth i (with_pc th (PBuild t snap b')) (s_threads s))
           (s_ncid s) (s_pubs s)).
Proof.
  intros t snap b h' b' evs Hpc Hbs.
  assert (Hsn : snap_of (th_pc th) = snap) by (rewrite Hpc; reflexivity).
  assert (Hb : build_ok (s_codecs s) b).
  { pose proof (I_build _ _ HI _ _ Hth) as Hb. rewrite Hpc in Hb. auto. }
  destruct (build_step_ok _ _ _ _ _ _ Hb Hbs) as [Hext [Hnew [Hcid [Hb' Hev]]]].
  apply inv_generic with (th := th); auto.
  - intros o c Hc. destruct (Hnew o c Hc); auto. right. rewrite Hpc. simpl. auto.
  - apply (I_ptr _ _ HI).
  - intros K HK. simpl in HK. destruct K; try tauto. left. rewrite Hpc. simpl. congruence.
  - intros e He. destruct (Hev e He) as [o [[-> | ->] Hc]]; split; simpl; auto; exists (b_cid b); auto.
  - intros o Ho. left. unfold pc_holds_obj in *. simpl in Ho. rewrite Hsn. tauto.
  - intros m Hm. left. unfold pc_holds_map in *. simpl in Hm. congruence.
Qed.

Lemma d_map_insert_length : forall ms nm f, length (map_insert ms nm f) = length ms.
Proof. intros. unfold map_insert. destruct (nth_error ms nm); auto. apply d_set_nth_length. Qed.

Lemma d_map_insert_other : forall ms nm f m, m <> nm -> nth_error (map_insert ms nm f) m = nth_error ms m.
Proof. intros. unfold map_insert. destruct (nth_error ms nm); auto. apply d_nth_set_neq. auto. Qed.

Lemma d_map_insert_same : forall ms nm f, nm < length ms -> entsM (map_insert ms nm f) (Some nm) = f (entsM ms (Some nm)).
Proof.
  intros. unfold map_insert. simpl. destruct (nth_error ms nm) eqn:E.
  - erewrite d_nth_set_eq; eauto.
  - apply nth_error_None in E. lia.
Qed.

Lemma case_copy : forall t snap nm src add src' add' f (e : ty * oid) rd,
  th_pc th = PCopy t snap nm src add ->
  (forall o, ent_objs src' o -> ent_objs src o) -> (forall o, ent_objs add' o -> ent_objs add o) ->
  (ent_objs src (snd e) \/ ent_objs add (snd e)) ->
  (forall l o, ent_objs (f l) o -> o = snd e \/ ent_objs l o) ->
  (forall x, In x rd -> In x (snap_reads i snap)) ->
  Inv (log ++ rd ++ [EvWrite i (LM nm)])
      (mkS (s_codecs s) (map_insert (s_maps s) nm f) (s_ptr s) (s_mutex s)
           (set_nth i (with_pc th (PCopy t snap nm src' add')) (s_threads s)) (s_ncid s) (s_pubs s)).
Proof.
  intros t snap nm src add src' add' f e rd Hpc Hsrc Hadd He Hf Hrd.
  assert (Hsn : snap_of (th_pc th) = snap) by (rewrite Hpc; reflexivity).
  assert (Hown : owns s i (KMap nm)) by (exists th; rewrite Hpc; simpl; auto).
  pose proof (I_own_lt _ _ HI _ _ Hown) as Hlt. simpl in Hlt. destruct Hlt as [Hlt Hnp].
  assert (Hsnap : entsM (map_insert (s_maps s) nm f) snap = entsM (s_maps s) snap).
  { destruct snap as [m|]; [|reflexivity]. apply entsM_eq. apply d_map_insert_other.
    intro. subst. apply Hnp. apply snap_pub. auto. }
  apply inv_generic with (th := th); auto.
  - apply hext_refl.
  - rewrite d_map_insert_length. lia.
  - intros m Hm Hno. apply d_map_insert_other. intro. subst. apply Hno. rewrite Hpc. simpl. auto.
  - apply (I_ptr _ _ HI).
  - intros K HK. simpl in HK. destruct K; try tauto. subst. left. rewrite Hpc. simpl. auto.
  - intros m Hm. simpl in Hm. subst. auto.
  - simpl. auto.
  - intros x Hx. apply in_app_or in Hx. destruct Hx as [Hx|[<-|[]]].
    + eapply snap_reads_ok; eauto.
    + split; simpl; auto. split; auto. rewrite d_map_insert_length. auto.
  - intros o Ho. left.
    change (ent_objs (entsM (map_insert (s_maps s) nm f) snap) o \/ ent_objs src' o \/ ent_objs add' o \/
            ent_objs (entsM (map_insert (s_maps s) nm f) (Some nm)) o) in Ho.
    rewrite Hsnap in Ho. rewrite d_map_insert_same in Ho by auto.
    rewrite Hpc.
    change (ent_objs (entsM (s_maps s) snap) o \/ ent_objs src o \/ ent_objs add o \/
            ent_objs (entsM (s_maps s) (Some nm)) o).
    destruct Ho as [Ho|[Ho|[Ho|Ho]]]; auto.
    apply Hf in Ho. destruct Ho as [->|Ho]; auto. destruct He; auto.
  - intros m Hm. left. unfold pc_holds_map in *. simpl in Hm. congruence.
Qed.

Lemma store_before : forall evs K e0,
  ck log (s_codecs s) i K -> (forall e t K', In e evs -> access (s_codecs s) e <> Some (t, K', true)) ->
  nth_error (log ++ evs) (length log) = Some e0 -> ev_tid e0 = i ->
  before (log ++ evs) (s_codecs s) K (length log).
Proof.
  intros evs K e0 Hck Hnw Hn Ht p e t Hp Ha. apply nth_error_app_cases in Hp. destruct Hp as [[_ Hp]|[_ Hp]].
  - eapply kn_hb; eauto.
  - exfalso. eapply Hnw; eauto. eapply nth_error_In; eauto.
Qed.

Lemma case_store : forall (bl : bool) t snap nm r th',
  th_pc th = PCopy t snap nm [] [] -> lookup t (ents_of s (Some nm)) = Some r ->
  th_pc th' = (if bl then PUnlock t r else PIdle) ->
  Inv (log ++ EvStore i nm :: (if bl then [] else [EvUse i r]))
      (mkS (s_codecs s) (s_maps s) (Some nm) (s_mutex s) (set_nth i th' (s_threads s)) (s_ncid s) (nm :: s_pubs s)).
Proof.
  intros bl t snap nm r th' Hpc Hl Hpc'.
  assert (Hown : owns s i (KMap nm)) by (exists th; rewrite Hpc; simpl; auto).
  assert (Hno : forall K, ~ pc_owns (th_pc th') K) by (rewrite Hpc'; destruct bl; simpl; auto).
  assert (Hr : pc_holds_obj (s_maps s) (th_pc th) r).
  { rewrite Hpc. right. right. right. eapply d_lookup_In; eauto. }
  assert (Hown' : forall K, pc_owns (th_pc th') K ->
     pc_owns (th_pc th) K \/ (K = KCons (s_ncid s) /\ s_ncid s < s_ncid s) \/
     (K = KMap (length (s_maps s)) /\ length (s_maps s) < length (s_maps s))).
  { intros K HK. exfalso. eapply Hno; eauto. }
  assert (Hnw : forall e t' K', In e (EvStore i nm :: (if bl then [] else [EvUse i r])) ->
                access (s_codecs s) e <> Some (t', K', true)).
  { intros e t' K' [<-|He]; [simpl; discriminate|]. destruct bl; [destruct He|].
    destruct He as [<-|[]]. simpl. intro Hx. inversion Hx. }
  assert (Hk : nth_error (log ++ EvStore i nm :: (if bl then [] else [EvUse i r])) (length log) = Some (EvStore i nm)).
  { rewrite nth_error_app2 by lia. rewrite Nat.sub_diag. reflexivity. }
  apply inv_generic with (th := th); auto.
  - apply hext_refl.
  - intros m Hm. right. auto.
  - intros m [<-|Hm]; auto. right. split; [rewrite Hpc; simpl; auto|].
    exists (length log), i. split; auto. cbn [s_codecs s_maps]. split.
    + eapply store_before; eauto.
      pose proof (excl_kn log [] (s_codecs s) i (KMap nm) (I_excl _ _ HI _ _ Hown)) as Hx.
      rewrite app_nil_r in Hx. exact Hx.
    + intros o Ho.
      assert (Hh : pc_holds_obj (s_maps s) (th_pc th) o) by (rewrite Hpc; right; right; right; auto).
      destruct (I_hobj _ _ HI _ _ _ Hth Hh) as [c [H1 [H2 H3]]].
      exists c. split; auto. split.
      * eapply g_frozen with (th := th); eauto. intros m Hm. right. auto.
      * eapply store_before; eauto.
  - intros m Hm. inversion Hm. left. auto.
  - intros m Hm. exfalso. eapply Hno; eauto.
  - rewrite Hpc'. destruct bl; simpl; auto.
  - intros e [<-|He]; [split; simpl; auto|]. destruct bl; [destruct He|].
    destruct He as [<-|[]]. split; simpl; auto.
  - intros o Ho. left. rewrite Hpc' in Ho. destruct bl; unfold pc_holds_obj in Ho; simpl in Ho.
    + destruct Ho as [Ho|Ho]; [exfalso; eapply ent_objs_nil; eauto|]. subst. auto.
    + destruct Ho as [Ho|[]]. exfalso; eapply ent_objs_nil; eauto.
  - intros m Hm. unfold pc_holds_map in Hm. rewrite Hpc' in Hm. destruct bl; discriminate.
Qed.

End Cases.
End Drf.

Lemma holds_none : forall ms p o,
  snap_of p = None -> match p with PCopy _ _ _ _ _ | PUnlock _ _ => False | _ => True end ->
  ~ pc_holds_obj ms p o.
Proof.
  intros ms p o Hs Hp [Ho|Ho].
  - rewrite Hs in Ho. eapply ent_objs_nil; eauto.
  - destruct p; auto.
Qed.

Lemma step_inv : forall G memo roots lk log s i s1 evs,
  Inv log s -> step G memo roots lk i s = (s1, evs) -> Inv (log ++ evs) s1.
Proof.
  intros G memo roots lk log s i s1 evs HI Hs. unfold step in Hs.
  destruct (nth_error (s_threads s) i) as [th|] eqn:Hth; [|inversion Hs; subst; rewrite app_nil_r; auto].
  destruct (th_pc th) as [ |t snap|t|t|t snap|t snap b|t snap nm src add|t r| ] eqn:Epc.
  - (* PIdle *)
    destruct (th_todo th) as [|t rest]; inversion Hs; subst; [rewrite app_nil_r; auto|].
    apply case_load with (th := th); auto. exists t. left. reflexivity.
  - (* PLoaded *)
    assert (Hpc : th_pc th = PLoaded t snap \/ th_pc th = PLoaded2 t snap) by auto.
    destruct (lookup t (ents_of s snap)) as [o|] eqn:El.
    + inversion Hs; subst.
      apply (case_ro log s i th HI Hth t snap (finish_call th t o) _ Hpc).
      * left. reflexivity.
      * intros e He. apply in_app_or in He. destruct He as [He|[<-|[]]]; eauto.
    + destruct lk.
      * inversion Hs; subst.
        apply (case_ro log s i th HI Hth t snap (with_pc th (PWantLock t)) _ Hpc).
        -- right. left. reflexivity.
        -- intros e He. auto.
      * inversion Hs; subst. apply case_start with (th := th); auto.
  - (* PWantLock *)
    destruct (s_mutex s); inversion Hs; subst; [rewrite app_nil_r; auto|].
    apply case_stutter_like with (th := th); auto.
    + simpl. auto.
    + intros e [<-|[]]. split; simpl; auto.
    + intros o Ho. exfalso. eapply holds_none; eauto; simpl; auto.
    + intros m Hm. discriminate.
  - (* PLocked *)
    inversion Hs; subst. apply case_load with (th := th); auto. exists t. right. reflexivity.
  - (* PLoaded2 *)
    assert (Hpc : th_pc th = PLoaded t snap \/ th_pc th = PLoaded2 t snap) by auto.
    destruct (lookup t (ents_of s snap)) as [o|] eqn:El.
    + inversion Hs; subst.
      apply (case_ro log s i th HI Hth t snap (with_pc th (PUnlock t o)) _ Hpc).
      * right. right. exists o. split; auto.
      * intros e He. auto.
    + inversion Hs; subst. apply case_start with (th := th); auto.
  - (* PBuild *)
    destruct (b_stack b) eqn:Est; [destruct (b_roots b) eqn:Ert|].
    + inversion Hs; subst. apply case_bfin with (b := b); auto.
      intros o Ho. destruct lk.
      * apply (proj1 (ent_objs_app _ _ _)) in Ho.
        destruct Ho as [Ho|Ho]; apply (proj1 (ent_objs_rev _ _)) in Ho; auto.
      * apply (proj1 (ent_objs_rev _ _)) in Ho. auto.
    + destruct (build_step G memo i (s_codecs s) b) as [[h' b'] evs'] eqn:Ebs.
      inversion Hs; subst. eapply case_bstep; eauto.
    + destruct (build_step G memo i (s_codecs s) b) as [[h' b'] evs'] eqn:Ebs.
      inversion Hs; subst. eapply case_bstep; eauto.
  - (* PCopy *)
    destruct src as [|e src]; [destruct add as [|e add]|].
    + destruct (lookup t (ents_of s (Some nm))) as [r|] eqn:El.
      * inversion Hs; subst. eapply case_store with (bl := lk) (th := th); eauto.
        destruct lk; reflexivity.
      * inversion Hs; subst. apply case_stutter_like with (th := th); auto.
        -- simpl. auto.
        -- intros e [].
        -- intros o Ho. exfalso. eapply holds_none; eauto; simpl; auto.
        -- intros m Hm. discriminate.
    + inversion Hs; subst.
      apply (case_copy G memo roots log s i th HI Hth t snap nm [] (e :: add) [] add
               (if lk then upd_absent (fst e) (snd e) else upd (fst e) (snd e)) e []); auto.
      * intros o Ho. apply ent_objs_cons_r. auto.
      * right. exists (fst e). left. destruct e; reflexivity.
      * intros l o Ho. destruct lk; [apply upd_absent_objs in Ho|apply upd_objs in Ho]; auto.
      * intros x [].
    + inversion Hs; subst.
      apply (case_copy G memo roots log s i th HI Hth t snap nm (e :: src) add src add
               (upd (fst e) (snd e)) e (snap_reads i snap)); auto.
      * intros o Ho. apply ent_objs_cons_r. auto.
      * left. exists (fst e). left. destruct e; reflexivity.
      * intros l o Ho. apply upd_objs in Ho. auto.
  - (* PUnlock *)
    inversion Hs; subst. apply case_stutter_like with (th := th); auto.
    + simpl. auto.
    + intros e [<-|[<-|[]]]; split; simpl; auto. rewrite Epc. right. reflexivity.
    + intros o Ho. exfalso. eapply holds_none; eauto; simpl; auto.
    + intros m Hm. discriminate.
  - (* PStuck *)
    inversion Hs; subst. rewrite app_nil_r. auto.
Qed.

Lemma run_log_inv : forall G memo roots lk sched log s s1 evs,
  Inv log s -> run_log G memo roots lk sched s = (s1, evs) -> Inv (log ++ evs) s1.
Proof.
  induction sched as [|i r IH]; simpl; intros log s s1 evs HI Hr.
  - inversion Hr; subst. rewrite app_nil_r. auto.
  - destruct (step G memo roots lk i s) as [s2 e1] eqn:E1.
    destruct (run_log G memo roots lk r s2) as [s3 e2] eqn:E2.
    inversion Hr; subst. rewrite app_assoc. eapply IH; eauto. eapply step_inv; eauto.
Qed.

Lemma init_inv : forall progs, Inv [] (init progs).
Proof.
  intros progs.
  assert (Hpc : forall j th, nth_error (s_threads (init progs)) j = Some th -> th_pc th = PIdle).
  { intros j th H. simpl in H. apply nth_error_In in H. apply in_map_iff in H.
    destruct H as [p [<- _]]. reflexivity. }
  assert (Hown : forall j K, ~ owns (init progs) j K).
  { intros j K [th [H1 H2]]. rewrite (Hpc _ _ H1) in H2. simpl in H2. auto. }
  constructor.
  - simpl. discriminate.
  - simpl. tauto.
  - intros o c [ob [H _]]. simpl in H. destruct o; discriminate.
  - intros e [].
  - intros j K H. exfalso. eapply Hown; eauto.
  - intros i j K H. exfalso. eapply Hown; eauto.
  - intros j K H. exfalso. eapply Hown; eauto.
  - intros j th H. rewrite (Hpc _ _ H). simpl. auto.
  - intros j th o H Ho. exfalso. rewrite (Hpc _ _ H) in Ho. eapply holds_none; eauto; simpl; auto.
  - intros j th m H Hm. rewrite (Hpc _ _ H) in Hm. discriminate.
  - simpl. tauto.
  - intros p q e1 e2 t1 t2 K w1 w2 _ Hp. destruct p; discriminate.
Qed.

Lemma drf : drf_statement.
Proof.
  unfold drf_statement. intros G memo roots lk progs sched.
  destruct (run_log G memo roots lk sched (init progs)) as [s1 evs] eqn:E. simpl.
  pose proof (run_log_inv _ _ _ _ _ _ _ _ _ (init_inv progs) E) as HI. simpl in HI.
  apply (I_rf _ _ HI).
Qed.
