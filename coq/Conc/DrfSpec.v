(* C09, data-race freedom of the cache machine (Conc/CacheModel.v) stated on the event log of an arbitrary schedule,
   with an explicit happens-before relation in the style of the Go memory model:
     program order, atomic store -> atomic load that returns the stored map, Unlock -> later Lock, transitivity.
   Two accesses conflict when they touch the same location from different goroutines and at least one writes.
   Locations: every map object is a location; the codec objects are grouped by construction (all objects allocated by
   one cache miss form one location: links never leave a construction, so everything reachable from a returned object
   lies in the location of that object), and handing an object to a caller (EvUse) counts as a READ of that location:
   the caller goes on to read the whole object graph. *)
From Coq Require Import List Arith Bool.
Import ListNotations.
From Verif Require Import Conc.CacheModel.

Definition ev_tid (e : event) : tid :=
  match e with
  | EvAlloc t _ | EvRead t _ | EvWrite t _ | EvLoad t _ | EvStore t _ | EvLock t | EvUnlock t | EvUse t _ => t
  end.

(* location classes *)
Inductive lclass := KMap (m : mid) | KCons (cid : nat) | KNone.

Definition class_of (h : list cobj) (l : loc) : lclass :=
  match l with
  | LM m => KMap m
  | LC o => match nth_error h o with Some ob => KCons (c_cid ob) | None => KNone end
  end.

(* the access an event performs: goroutine, location class, is it a write *)
Definition access (h : list cobj) (e : event) : option (tid * lclass * bool) :=
  match e with
  | EvAlloc t l => Some (t, class_of h l, true)
  | EvWrite t l => Some (t, class_of h l, true)
  | EvRead t l => Some (t, class_of h l, false)
  | EvUse t o => Some (t, class_of h (LC o), false)
  | _ => None
  end.

(* happens-before on positions of the log (oldest event first) *)
Inductive hb (log : list event) : nat -> nat -> Prop :=
| hb_po : forall i j e1 e2, i < j -> nth_error log i = Some e1 -> nth_error log j = Some e2 ->
                            ev_tid e1 = ev_tid e2 -> hb log i j
| hb_ptr : forall i j t t' m, i < j -> nth_error log i = Some (EvStore t m) -> nth_error log j = Some (EvLoad t' (Some m)) ->
                              hb log i j
| hb_mutex : forall i j t t', i < j -> nth_error log i = Some (EvUnlock t) -> nth_error log j = Some (EvLock t') ->
                              hb log i j
| hb_trans : forall i j k, hb log i j -> hb log j k -> hb log i k.

Definition race_free (h : list cobj) (log : list event) : Prop :=
  forall i j e1 e2 t1 t2 k w1 w2,
    i < j -> nth_error log i = Some e1 -> nth_error log j = Some e2 ->
    access h e1 = Some (t1, k, w1) -> access h e2 = Some (t2, k, w2) ->
    k <> KNone -> t1 <> t2 -> orb w1 w2 = true ->
    hb log i j.

(* every schedule of every program on every type graph, both variants: no data race *)
Definition drf_statement : Prop :=
  forall G memo roots lk progs sched,
    let r := run_log G memo roots lk sched (init progs) in
    race_free (s_codecs (fst r)) (snd r).

(* sanity: the relation is not trivially total -- a log with two unordered conflicting accesses is NOT race free *)
Definition race_detected_statement : Prop :=
  ~ race_free [mkC 0 [] true 0 0] [EvWrite 0 (LC 0); EvUse 1 0].
