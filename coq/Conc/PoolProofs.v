(* Proofs of Conc/PoolSpec.v. *)
From Coq Require Import List Arith Bool Lia Permutation.
Import ListNotations.
From Verif Require Import Conc.PoolModel Conc.PoolSpec.

(* ---- list facts ---- *)
Lemma remove_nth_perm : forall A (l : list A) k o,
  nth_error l k = Some o -> Permutation l (o :: remove_nth k l).
Proof.
  induction l; destruct k; simpl; intros; try discriminate.
  - inversion H; subst. reflexivity.
  - etransitivity; [apply perm_skip; apply IHl; eassumption | apply perm_swap].
Qed.

Lemma remove_nth_none : forall A (l : list A) k, nth_error l k = None -> remove_nth k l = l.
Proof.
  induction l; destruct k; simpl; intros; try discriminate; auto.
  f_equal. auto.
Qed.

Lemma pset_nth_split : forall A (l1 : list A) x y l2,
  pset_nth (length l1) x (l1 ++ y :: l2) = l1 ++ x :: l2.
Proof. induction l1; simpl; intros; auto. f_equal. auto. Qed.

Lemma NoDup_app_tail : forall A (l1 l2 : list A), NoDup (l1 ++ l2) -> NoDup l2.
Proof. induction l1; simpl; intros; auto. inversion H; auto. Qed.

Lemma perm_mid3 : forall A (a b c : list A) x,
  Permutation (a ++ b ++ x :: c) (x :: a ++ b ++ c).
Proof. intros. rewrite !app_assoc. symmetry. apply Permutation_middle. Qed.

Definition held_all (ths : list pthread) : list pobj := concat (map p_held ths).

Lemma held_all_split : forall l1 th l2,
  held_all (l1 ++ th :: l2) = held_all l1 ++ p_held th ++ held_all l2.
Proof. intros. unfold held_all. rewrite map_app, concat_app. simpl. reflexivity. Qed.

Lemma places_split : forall pool next l1 th l2,
  places (mkPS pool next (l1 ++ th :: l2)) = pool ++ held_all l1 ++ p_held th ++ held_all l2.
Proof. intros. unfold places. simpl. fold (held_all (l1 ++ th :: l2)). rewrite held_all_split. reflexivity. Qed.

Lemma held_all_in : forall ths i th o,
  nth_error ths i = Some th -> In o (p_held th) -> In o (held_all ths).
Proof.
  intros. apply nth_error_split in H as (l1 & l2 & -> & _).
  rewrite held_all_split. apply in_or_app. right. apply in_or_app. left. assumption.
Qed.

Lemma held_all_unique : forall ths i j a b o,
  NoDup (held_all ths) ->
  nth_error ths i = Some a -> nth_error ths j = Some b ->
  In o (p_held a) -> In o (p_held b) -> i = j.
Proof.
  induction ths; intros i j x y o ND Hi Hj Ia Ib.
  - destruct i; discriminate.
  - unfold held_all in ND. simpl in ND. fold (held_all ths) in ND.
    destruct i, j; simpl in *; auto.
    + inversion Hi; subst. exfalso.
      apply NoDup_app_tail in ND as ND2.
      assert (In o (held_all ths)) by (eapply held_all_in; eauto).
      clear - ND Ia H.
      induction (p_held x); simpl in *; [contradiction|].
      inversion ND; subst. destruct Ia; subst.
      * apply H2. apply in_or_app. right. assumption.
      * auto.
    + inversion Hj; subst. exfalso.
      assert (In o (held_all ths)) by (eapply held_all_in; eauto).
      clear - ND Ib H.
      induction (p_held y); simpl in *; [contradiction|].
      inversion ND; subst. destruct Ib; subst.
      * apply H2. apply in_or_app. right. assumption.
      * auto.
    + f_equal. apply NoDup_app_tail in ND. eapply IHths; eauto.
Qed.

Lemma NoDup_app_disjoint : forall A (l1 l2 : list A) x,
  NoDup (l1 ++ l2) -> In x l1 -> In x l2 -> False.
Proof.
  induction l1; simpl; intros; [contradiction|].
  inversion H; subst. destruct H0; subst.
  - apply H4. apply in_or_app. right. assumption.
  - eauto.
Qed.

(* ---- the invariant ---- *)
Definition disc_state (s : pstate) : Prop :=
  forall th a, In th (ps_threads s) -> In a (p_prog th) -> disciplined_action a = true.

Definition Inv (s : pstate) : Prop :=
  NoDup (places s) /\ (forall o, In o (places s) -> o < ps_next s) /\ disc_state s.

Lemma Inv_perm : forall s s',
  Permutation (places s) (places s') -> ps_next s' = ps_next s -> disc_state s' ->
  Inv s -> Inv s'.
Proof.
  intros s s' P N D (ND & B & _). split; [|split]; auto.
  - eapply Permutation_NoDup; eauto.
  - intros o Io. rewrite N. apply B. eapply Permutation_in; [apply Permutation_sym|]; eauto.
Qed.

Lemma disc_state_set : forall pool next pool' next' l1 l2 a rest held held',
  disc_state (mkPS pool next (l1 ++ mkPT (a :: rest) held :: l2)) ->
  disc_state (mkPS pool' next' (l1 ++ mkPT rest held' :: l2)).
Proof.
  unfold disc_state; simpl; intros.
  apply in_app_or in H0. destruct H0 as [H0|[H0|H0]].
  - eapply H; [apply in_or_app; left|]; eauto.
  - subst th. simpl in H1. eapply (H (mkPT (a :: rest) held)); [apply in_or_app; right; left; reflexivity|].
    simpl. right. assumption.
  - eapply H; [apply in_or_app; right; right|]; eauto.
Qed.

Lemma pstep_inv : forall e s, Inv s -> Inv (fst (pstep e s)).
Proof.
  intros e s HI. destruct e as [i choice|k].
  - unfold pstep. destruct (nth_error (ps_threads s) i) as [th|] eqn:E; [|assumption].
    apply nth_error_split in E as (l1 & l2 & Hs & Hlen).
    destruct s as [pool next ths]; simpl in *. subst ths i.
    destruct th as [prog held]. simpl.
    destruct prog as [|a rest]; [assumption|].
    rewrite !pset_nth_split.
    assert (DS : forall pool' next' held',
               disc_state (mkPS pool' next' (l1 ++ mkPT rest held' :: l2))).
    { intros. eapply disc_state_set. apply HI. }
    destruct a.
    + (* AGet *)
      assert (FRESH : Inv (mkPS pool (S next) (l1 ++ mkPT rest (next :: held) :: l2))).
      { destruct HI as (ND & B & _). unfold Inv. rewrite places_split in *. simpl in *.
        assert (P : Permutation (pool ++ held_all l1 ++ next :: held ++ held_all l2)
                                (next :: pool ++ held_all l1 ++ held ++ held_all l2)).
        { apply perm_mid3. }
        split; [|split]; auto.
        - eapply Permutation_NoDup; [apply Permutation_sym; exact P|].
          constructor; auto. intro Hin. apply B in Hin. lia.
        - intros o Io. eapply Permutation_in in Io; [|exact P].
          destruct Io as [<-|Io]; [lia|]. apply B in Io. lia. }
      destruct choice as [k|]; [|simpl; rewrite ?pset_nth_split; exact FRESH].
      destruct (nth_error pool k) as [o|] eqn:Ek; [|simpl; rewrite ?pset_nth_split; exact FRESH].
      simpl. rewrite ?pset_nth_split; eapply Inv_perm; [| |exact (DS _ _ _)|exact HI]; [|reflexivity].
      rewrite !places_split. simpl.
      apply remove_nth_perm in Ek.
      rewrite Ek at 1. simpl. symmetry. apply perm_mid3.
    + (* AUse *)
      simpl. rewrite ?pset_nth_split; eapply Inv_perm; [| |exact (DS _ _ _)|exact HI]; [|reflexivity].
      rewrite !places_split. simpl. reflexivity.
    + (* APut *)
      destruct (nth_error held k) as [o|] eqn:Ek; simpl.
      * rewrite ?pset_nth_split; eapply Inv_perm; [| |exact (DS _ _ _)|exact HI]; [|reflexivity].
        rewrite !places_split. simpl.
        apply remove_nth_perm in Ek.
        rewrite Ek at 1. simpl. apply perm_mid3.
      * rewrite ?pset_nth_split; eapply Inv_perm; [| |exact (DS _ _ _)|exact HI]; [|reflexivity].
        rewrite !places_split. simpl. reflexivity.
    + (* APutKeep: excluded by the discipline *)
      exfalso. destruct HI as (_ & _ & D).
      specialize (D (mkPT (APutKeep k :: rest) held) (APutKeep k)). simpl in D.
      assert (false = true); [|discriminate].
      apply D; [apply in_or_app; right; left; reflexivity | left; reflexivity].
  - (* SDrop *)
    simpl. destruct HI as (ND & B & D).
    destruct (nth_error (ps_pool s) k) as [o|] eqn:Ek.
    + apply remove_nth_perm in Ek.
      assert (P : Permutation (places s)
                   (o :: places (mkPS (remove_nth k (ps_pool s)) (ps_next s) (ps_threads s)))).
      { unfold places. simpl. rewrite Ek at 1. reflexivity. }
      split; [|split]; auto.
      * eapply Permutation_NoDup in ND; [|exact P]. inversion ND; assumption.
      * intros x Ix. simpl. apply B. eapply Permutation_in; [apply Permutation_sym; exact P|].
        right. assumption.
    + apply remove_nth_none in Ek. unfold Inv, places, disc_state in *. simpl. rewrite Ek. auto.
Qed.

Lemma prun_inv : forall sched s, Inv s -> Inv (prun sched s).
Proof.
  induction sched; simpl; intros; auto. apply IHsched. apply pstep_inv. assumption.
Qed.

Lemma pinit_inv : forall progs, disciplined progs -> Inv (pinit progs).
Proof.
  intros progs D. unfold Inv, places, pinit, disc_state. simpl.
  assert (E : concat (map p_held (map (fun p => mkPT p []) progs)) = []).
  { induction progs; simpl; auto. apply IHprogs. intros p x Ip Ia. eapply D; [right|]; eauto. }
  rewrite E. split; [constructor|split].
  - intros o [].
  - intros th a Ith Ia. apply in_map_iff in Ith as (p & <- & Ip). simpl in Ia. eapply D; eauto.
Qed.

Lemma reach_inv : forall progs sched, disciplined progs -> Inv (prun sched (pinit progs)).
Proof. intros. apply prun_inv. apply pinit_inv. assumption. Qed.

(* ---- the statements ---- *)
Lemma pool_exclusive : pool_exclusive_statement.
Proof. intros progs sched D. apply (reach_inv progs sched D). Qed.

Lemma pool_use_exclusive : pool_use_exclusive_statement.
Proof.
  intros progs sched e i o D s Hev.
  pose proof (reach_inv progs sched D) as (ND & _ & _). fold s in ND.
  assert (HELD : exists th, nth_error (ps_threads s) i = Some th /\ In o (p_held th)).
  { clear ND. destruct e as [i' choice|k]; simpl in Hev; [|contradiction].
    destruct (nth_error (ps_threads s) i') as [th|] eqn:E; [|contradiction].
    destruct (p_prog th) as [|a rest]; [contradiction|].
    destruct a.
    - destruct choice as [k|]; [destruct (nth_error (ps_pool s) k)|];
        simpl in Hev; destruct Hev as [Hev|[]]; discriminate.
    - destruct (nth_error (p_held th) k) as [o'|] eqn:Ek; simpl in Hev; [|contradiction].
      destruct Hev as [Hev|[]]. inversion Hev; subst. exists th. split; auto.
      eapply nth_error_In; eauto.
    - destruct (nth_error (p_held th) k); simpl in Hev; [destruct Hev as [Hev|[]]; discriminate|contradiction].
    - destruct (nth_error (p_held th) k); simpl in Hev; [destruct Hev as [Hev|[]]; discriminate|contradiction]. }
  destruct HELD as (th & Hth & Ho). unfold places in ND. split.
  - intro Hp. eapply NoDup_app_disjoint; [exact ND|exact Hp|]. eapply held_all_in; eauto.
  - intros j th' Hj Ho'. apply NoDup_app_tail in ND.
    eapply held_all_unique; eauto.
Qed.

Lemma pool_get : pool_get_statement.
Proof.
  intros progs sched e i o fresh D s Hev j th Hj Ho.
  pose proof (reach_inv progs sched D) as (ND & B & _). fold s in ND, B.
  assert (Hall : In o (held_all (ps_threads s))) by (eapply held_all_in; eauto).
  assert (SRC : In o (ps_pool s) \/ o = ps_next s).
  { clear ND B Hall. destruct e as [i' choice|k]; simpl in Hev; [|contradiction].
    destruct (nth_error (ps_threads s) i') as [th'|] eqn:E; [|contradiction].
    destruct (p_prog th') as [|a rest]; [contradiction|].
    destruct a.
    - destruct choice as [k|]; [destruct (nth_error (ps_pool s) k) as [o'|] eqn:Ek|];
        simpl in Hev; destruct Hev as [Hev|[]]; inversion Hev; subst; auto.
      left. eapply nth_error_In; eauto.
    - destruct (nth_error (p_held th') k); simpl in Hev; [destruct Hev as [Hev|[]]; discriminate|contradiction].
    - destruct (nth_error (p_held th') k); simpl in Hev; [destruct Hev as [Hev|[]]; discriminate|contradiction].
    - destruct (nth_error (p_held th') k); simpl in Hev; [destruct Hev as [Hev|[]]; discriminate|contradiction]. }
  destruct SRC as [Hp | Heq]; [|subst o].
  - eapply NoDup_app_disjoint; [exact ND|exact Hp|exact Hall].
  - assert (ps_next s < ps_next s); [|lia]. apply B. unfold places. apply in_or_app. right. exact Hall.
Qed.

Lemma pool_exclusive_any_refuted : ~ pool_exclusive_any_statement.
Proof.
  intro H.
  specialize (H [[AGet; APutKeep 0]; [AGet]] [SRun 0 None; SRun 0 None; SRun 1 (Some 0)]).
  vm_compute in H. inversion H; subst. apply H2. left. reflexivity.
Qed.
