(* Specification side of C18: the observables compared, and the grammar of iso8601.Valid written
   as a declarative recogniser (regular-expression semantics: existential split points),
   independent of the reader-style code in iso8601/valid.go. Definitions only. *)
From Verif Require Import Base.GoInt Iso8601.Ext Generated.Iso8601Gen.
Open Scope Z_scope.

(* what the property observes of (time.Time, error): nothing of the error but its presence *)
Definition parse_obs (r : time_t * option iso8601_error) : option time_t :=
  match snd r with None => Some (fst r) | Some _ => None end.
Definition tp_obs (r : time_t * option unit) : option time_t :=
  match snd r with None => Some (fst r) | Some _ => None end.

(* ---- grammar of Valid ----
   YYYY-MM-DD[(T|space)hh:mm:ss[.d{1,9}][Z|[space](+|-)hh[:]mm]]
   optional / alternative parts are admitted by the flags exactly as iso8601/valid.go documents them:
   AllowMissingTime: nothing after the date; AllowSpaceSeparator: ' ' for 'T' and one ' ' before the sign;
   AllowMissingSubsecond: no fraction; AllowMissingTimezone: nothing after the seconds/fraction;
   AllowNumericTimezone: the colon of a numeric zone may be omitted (a numeric zone WITH colon is always admitted). *)
Definition has_flag (flags f : Z) : bool := negb (Z.land flags f =? 0).

Definition date_ok (s : bytes) : bool :=
  match s with
  | [a; b; c; d; 45; e; f; 45; g; h] => isdig a && isdig b && isdig c && isdig d && isdig e && isdig f && isdig g && isdig h
  | _ => false
  end.
Definition time_ok (s : bytes) : bool :=
  match s with
  | [a; b; 58; c; d; 58; e; f] => isdig a && isdig b && isdig c && isdig d && isdig e && isdig f
  | _ => false
  end.
Definition sign_ok (c : Z) : bool := (c =? 43) || (c =? 45).
Definition numzone_ok (flags : Z) (s : bytes) : bool :=
  match s with
  | [sg; a; b; 58; c; d] => sign_ok sg && isdig a && isdig b && isdig c && isdig d
  | [sg; a; b; c; d] => has_flag flags iso8601_AllowNumericTimezone && sign_ok sg && isdig a && isdig b && isdig c && isdig d
  | _ => false
  end.
Definition zone_ok (flags : Z) (s : bytes) : bool :=
  match s with
  | [] => has_flag flags iso8601_AllowMissingTimezone
  | [90] => true
  | 32 :: s' => has_flag flags iso8601_AllowSpaceSeparator && numzone_ok flags s'
  | _ => numzone_ok flags s
  end.
(* '.' then k digits (1 <= k <= 9) then the zone, for SOME k *)
Definition frac_zone_ok (flags : Z) (s : bytes) : bool :=
  (has_flag flags iso8601_AllowMissingSubsecond && zone_ok flags s)
  || match s with
     | 46 :: s' => existsb (fun k => (k <=? length s')%nat && forallb isdig (firstn k s') && zone_ok flags (skipn k s'))
                           [1; 2; 3; 4; 5; 6; 7; 8; 9]%nat
     | _ => false
     end.
Definition sep_ok (flags c : Z) : bool := (c =? 84) || (has_flag flags iso8601_AllowSpaceSeparator && (c =? 32)).
Definition iso_spec (flags : Z) (s : bytes) : bool :=
  (10 <=? length s)%nat && date_ok (firstn 10 s) &&
  match skipn 10 s with
  | [] => has_flag flags iso8601_AllowMissingTime
  | sep :: r => sep_ok flags sep && (8 <=? length r)%nat && time_ok (firstn 8 r) && frac_zone_ok flags (skipn 8 r)
  end.

(* ---- statements (proved in Iso8601/Proofs.v, restated in Properties/C18.v) ---- *)
Definition parse_agrees_statement : Prop :=
  forall input, wfb input = true ->
    parse_obs (iso8601_Parse input) = tp_obs (time_parse rfc3339nano_layout input).
Definition civil_days_statement : Prop :=
  forall y m d, 0 <= y <= 9999 -> 1 <= m <= 12 -> 1 <= d <= 31 ->
    s64 (iso8601_daysSinceEpoch y m d) = unix_days y m d.
Definition leaps_before_step_statement : Prop :=
  forall y, 0 <= y -> leaps_before (y + 1) = leaps_before y + (if is_leap y then 1 else 0).
Definition validate_exact_statement : Prop :=
  forall y m d hh mm ss, 0 <= y <= 9999 -> 0 <= m <= 99 -> 0 <= d <= 99 -> 0 <= hh <= 99 -> 0 <= mm <= 99 -> 0 <= ss <= 99 ->
    isnil (iso8601_validate y m d hh mm ss) =
    (1 <=? m) && (m <=? 12) && (1 <=? d) && (d <=? days_in m y) && (hh <? 24) && (mm <? 60) && (ss <? 60).
Definition valid_grammar_statement : Prop :=
  forall fuel s flags, (10 <= fuel)%nat -> wfb s = true -> 0 <= flags < 2^62 ->
    iso8601_Valid fuel s flags = Some (iso_spec flags s).
