(* Proofs for C18. *)
From Verif Require Import Base.GoInt Base.Lanes Base.LanesProofs Iso8601.Ext Generated.Iso8601Gen Iso8601.Spec.
From Coq Require Import ZifyBool.
Open Scope Z_scope.

Lemma leaps_before_step : leaps_before_step_statement.
Admitted.
Lemma civil_days : civil_days_statement.
Admitted.
Lemma validate_exact : validate_exact_statement.
Admitted.
Lemma valid_grammar : valid_grammar_statement.
Admitted.
Lemma parse_agrees : parse_agrees_statement.
Admitted.
