(* Proofs for C18. *)
From Verif Require Import Base.GoInt Base.Lanes Base.LanesProofs Iso8601.Ext Generated.Iso8601Gen Iso8601.Spec.
From Coq Require Import ZifyBool.
Open Scope Z_scope.

Ltac Zify.zify_post_hook ::= Z.div_mod_to_equations.

(* ---------- small-range machine arithmetic ---------- *)

Lemma add64_small a b : 0 <= a + b < 18446744073709551616 -> add64 a b = a + b.
Proof. intros. unfold add64, w64. apply Z.mod_small. change (2^64) with 18446744073709551616. lia. Qed.
Lemma sub64_small a b : 0 <= a - b < 18446744073709551616 -> sub64 a b = a - b.
Proof. intros. unfold sub64, w64. apply Z.mod_small. change (2^64) with 18446744073709551616. lia. Qed.
Lemma mul64_small a b : 0 <= a * b < 18446744073709551616 -> mul64 a b = a * b.
Proof. intros. unfold mul64, w64. apply Z.mod_small. change (2^64) with 18446744073709551616. lia. Qed.
Lemma s64_small x : -9223372036854775808 <= x < 9223372036854775808 -> s64 x = x.
Proof.
  intros H. unfold s64, w64. change (2^64) with 18446744073709551616; change (2^63) with 9223372036854775808.
  cbv zeta. destruct (Z.ltb_spec (x mod 18446744073709551616) 9223372036854775808); lia.
Qed.
Lemma s64_sub64 a b : -9223372036854775808 <= a - b < 9223372036854775808 -> s64 (sub64 a b) = a - b.
Proof.
  intros H. rewrite <- (s64_small (a - b) H). unfold sub64, s64, w64. cbv zeta. rewrite Z.mod_mod; [reflexivity|]. discriminate.
Qed.

Ltac simp64 := repeat (match goal with
  | |- context [add64 ?a ?b] => rewrite (add64_small a b) by lia
  | |- context [sub64 ?a ?b] => rewrite (sub64_small a b) by lia
  | |- context [mul64 ?a ?b] => rewrite (mul64_small a b) by nia
  end).


Lemma leaps_before_step : leaps_before_step_statement.
Proof.
  intros y Hy. unfold leaps_before, is_leap.
  destruct (y mod 4 =? 0) eqn:E4; destruct (y mod 100 =? 0) eqn:E100; destruct (y mod 400 =? 0) eqn:E400;
  cbn [andb orb negb]; lia.
Qed.

Lemma civil_days : civil_days_statement.
Proof.
  intros y m d Hy Hm Hd.
  unfold iso8601_daysSinceEpoch. cbv zeta.
  unfold unix_days, days_before_year, leaps_before, days_before_month.
  destruct (Z.ltb_spec m 3) as [Hlt|Hge].
  - assert (E1 : sub64 m 3 = m - 3 + 18446744073709551616).
    { unfold sub64, w64. change (2^64) with 18446744073709551616. lia. }
    rewrite E1.
    replace (m - 3 + 18446744073709551616 >? m) with true by lia.
    change (1 =? 1) with true. cbv iota.
    assert (E2 : add64 (m - 3 + 18446744073709551616) 12 = m + 9).
    { unfold add64, w64. change (2^64) with 18446744073709551616. lia. }
    rewrite E2. unfold div64. simp64. rewrite s64_sub64.
    + replace (3 <=? m) with false by lia. rewrite andb_false_r.
      assert (Hc : m = 1 \/ m = 2) by lia. destruct Hc; subst m.
      * change (nth (Z.to_nat (1 - 1)) [0; 31; 59; 90; 120; 151; 181; 212; 243; 273; 304; 334] 0) with 0. lia.
      * change (nth (Z.to_nat (2 - 1)) [0; 31; 59; 90; 120; 151; 181; 212; 243; 273; 304; 334] 0) with 31. lia.
    + lia.
  - rewrite (sub64_small m 3) by lia.
    replace (m - 3 >? m) with false by lia.
    change (0 =? 1) with false. cbv iota.
    unfold div64. simp64. rewrite s64_sub64.
    + replace (3 <=? m) with true by lia. rewrite andb_true_r.
      unfold is_leap.
      assert (Hc: m = 3 \/ m = 4 \/ m = 5 \/ m = 6 \/ m = 7 \/ m = 8 \/ m = 9 \/ m = 10 \/ m = 11 \/ m = 12) by lia.
      destruct (y mod 4 =? 0) eqn:E4; destruct (y mod 100 =? 0) eqn:E100; destruct (y mod 400 =? 0) eqn:E400;
      cbn [andb orb negb];
      repeat (destruct Hc as [Hc|Hc]); subst m;
      match goal with |- context [nth ?a ?l 0] => let v := eval cbv in (nth a l 0) in change (nth a l 0) with v end;
      lia.
    + assert (0 <= ((m - 3) * 62719 + 769) / 2048 <= 400) by lia. lia.
Qed.

(* ---------- validate ---------- *)
Lemma isLeap_eq y : iso8601_isLeapYear y = is_leap y.
Proof. reflexivity. Qed.

Lemma validate_exact : validate_exact_statement.
Proof.
  intros y m d hh mm ss Hy Hm Hd Hhh Hmm Hss.
  unfold iso8601_validate. rewrite isLeap_eq. unfold days_in. cbv zeta.
  destruct (is_leap y).
  all: repeat match goal with |- context [if ?c then _ else _] => destruct c eqn:? end; cbn [isnil]; try lia.
Qed.

(* ---------- Valid ---------- *)
Lemma isDigit_eq c : iso8601_isDigit c = isdig c.
Proof. reflexivity. Qed.

Lemma readByte_spec v c :
  iso8601_readByte v c = match v with x :: r => if x =? c then (r, true) else (v, false) | [] => (v, false) end.
Proof.
  unfold iso8601_readByte. destruct v as [|x r]; [reflexivity|].
  replace (len (x :: r) =? 0) with false by (unfold len; cbn [length]; lia).
  change (at_ (x :: r) 0) with x. change (slice_from (x :: r) 1) with r.
  destruct (x =? c); reflexivity.
Qed.

Fixpoint take_digits (n : nat) (l : bytes) : nat :=
  match n, l with
  | S n', x :: r => if isdig x then S (take_digits n' r) else O
  | _, _ => O
  end.

Definition rd_loop (value : bytes) (min max : Z) :=
  fix loop2_ (f3_ : nat) (i : Z) {struct f3_} : option (bytes * bool) :=
    match f3_ with
    | O => None
    | S f4_ =>
      if (((i <? max) && (i <? (len value))) && (iso8601_isDigit (at_ value i))) then
        loop2_ f4_ (addi64 i 1)
      else (if ((i <? max) && (i <? min)) then Some (value, false) else Some (slice_from value i, true))
    end.

Lemma readDigits_unfold fuel v min max :
  iso8601_readDigits fuel v min max =
  if len v <? min then Some (v, false) else rd_loop v min max fuel 0.
Proof. reflexivity. Qed.

Lemma skipn_nth_cons (k : nat) (v : bytes) : (k < length v)%nat -> skipn k v = nth k v 0 :: skipn (S k) v.
Proof.
  revert v; induction k as [|k IH]; intros [|x r] H; cbn [length] in H; try lia; [reflexivity|].
  cbn [skipn nth]. rewrite IH by lia. reflexivity.
Qed.

Lemma rd_loop_spec v min max n : forall f k, (n < f)%nat -> Z.of_nat (k + n) = max -> max < 1000 ->
  rd_loop v min max f (Z.of_nat k) =
  let j := Z.of_nat (k + take_digits n (skipn k v)) in
  if (j <? max) && (j <? min) then Some (v, false) else Some (slice_from v j, true).
Proof.
  induction n as [|n IH]; intros f k Hf Hmax Hsmall; (destruct f as [|f]; [lia|]); cbn [rd_loop]; cbv zeta.
  - replace (Z.of_nat k <? max) with false by lia. cbn [andb take_digits].
    rewrite Nat.add_0_r. replace (Z.of_nat k <? max) with false by lia. reflexivity.
  - replace (Z.of_nat k <? max) with true by lia. cbn [andb]. unfold len.
    destruct (Z.ltb_spec (Z.of_nat k) (Z.of_nat (length v))) as [Hlt|Hge].
    + rewrite (skipn_nth_cons k v) by lia. unfold at_. rewrite Nat2Z.id. rewrite isDigit_eq.
      cbn [take_digits andb]. destruct (isdig (nth k v 0)).
      * unfold addi64. rewrite s64_small by lia.
        replace (Z.of_nat k + 1) with (Z.of_nat (S k)) by lia.
        rewrite (IH f (S k)) by lia. cbv zeta.
        replace (S k + take_digits n (skipn (S k) v))%nat with (k + S (take_digits n (skipn (S k) v)))%nat by lia.
        reflexivity.
      * rewrite Nat.add_0_r. replace (Z.of_nat k <? max) with true by lia. reflexivity.
    + cbn [andb]. rewrite skipn_all2 by lia. cbn [take_digits]. rewrite Nat.add_0_r.
      replace (Z.of_nat k <? max) with true by lia. reflexivity.
Qed.

Lemma take_digits_le n v : (take_digits n v <= n)%nat /\ (take_digits n v <= length v)%nat.
Proof.
  revert v; induction n as [|n IH]; intros [|x r]; cbn [take_digits length]; try lia.
  destruct (isdig x); [|lia]. specialize (IH r). lia.
Qed.

Lemma take_digits_full n v : take_digits n v = n <-> ((n <=? length v)%nat && forallb isdig (firstn n v) = true).
Proof.
  revert v; induction n as [|n IH]; intros v.
  - cbn. destruct v; cbn; tauto.
  - destruct v as [|x r]; cbn [take_digits length firstn forallb Nat.leb]; [cbn; split; intros; discriminate|].
    destruct (isdig x); cbn [andb].
    + rewrite <- IH. lia.
    + rewrite andb_false_r. split; intros; discriminate.
Qed.

Lemma readDigits_fixed fuel v (n : nat) : (n < fuel)%nat -> (n < 100)%nat ->
  iso8601_readDigits fuel v (Z.of_nat n) (Z.of_nat n) =
  Some (if (n <=? length v)%nat && forallb isdig (firstn n v) then (skipn n v, true) else (v, false)).
Proof.
  intros Hf Hn. rewrite readDigits_unfold. unfold len.
  destruct (Z.ltb_spec (Z.of_nat (length v)) (Z.of_nat n)) as [Hlt|Hge].
  - replace (n <=? length v)%nat with false by lia. reflexivity.
  - change 0 with (Z.of_nat 0). rewrite (rd_loop_spec v _ _ n) by lia. cbv zeta.
    cbn [Nat.add skipn]. rewrite andb_diag.
    pose proof (take_digits_le n v) as [H1 H2]. pose proof (take_digits_full n v) as H3.
    destruct ((n <=? length v)%nat && forallb isdig (firstn n v)).
    + rewrite (proj2 H3 eq_refl). replace (Z.of_nat n <? Z.of_nat n) with false by lia.
      unfold slice_from. rewrite Nat2Z.id. reflexivity.
    + assert (take_digits n v <> n) by (intros E; apply H3 in E; discriminate).
      replace (Z.of_nat (take_digits n v) <? Z.of_nat n) with true by lia. reflexivity.
Qed.

Lemma rd2 fuel v : (10 <= fuel)%nat ->
  iso8601_readDigits fuel v 2 2 =
  Some (match v with a :: b :: r => if isdig a && isdig b then (r, true) else (v, false) | _ => (v, false) end).
Proof.
  intros. change 2 with (Z.of_nat 2). rewrite readDigits_fixed by lia.
  destruct v as [|a [|b r]]; try reflexivity. cbn [length Nat.leb firstn forallb skipn andb].
  rewrite andb_true_r. reflexivity.
Qed.
Lemma rd4 fuel v : (10 <= fuel)%nat ->
  iso8601_readDigits fuel v 4 4 =
  Some (match v with a :: b :: c :: d :: r => if isdig a && isdig b && isdig c && isdig d then (r, true) else (v, false) | _ => (v, false) end).
Proof.
  intros. change 4 with (Z.of_nat 4). rewrite readDigits_fixed by lia.
  destruct v as [|a [|b [|c [|d r]]]]; try reflexivity. cbn [length Nat.leb firstn forallb skipn andb].
  rewrite andb_true_r, !andb_assoc. reflexivity.
Qed.
Lemma rd19 fuel v : (10 <= fuel)%nat ->
  iso8601_readDigits fuel v 1 9 =
  Some (let j := take_digits 9 v in if (1 <=? j)%nat then (skipn j v, true) else (v, false)).
Proof.
  intros Hf. rewrite readDigits_unfold. unfold len.
  destruct v as [|x r]; [reflexivity|].
  replace (Z.of_nat (length (x :: r)) <? 1) with false by (cbn [length]; lia).
  change 0 with (Z.of_nat 0). change 9 with (Z.of_nat (0 + 9)) at 1. rewrite (rd_loop_spec _ _ _ 9) by lia.
  cbv zeta. cbn [Nat.add skipn].
  pose proof (take_digits_le 9 (x :: r)) as [H1 H2].
  destruct (Nat.leb_spec 1 (take_digits 9 (x :: r))).
  - replace (Z.of_nat (take_digits 9 (x :: r)) <? 1) with false by lia. rewrite andb_false_r.
    unfold slice_from. rewrite Nat2Z.id. reflexivity.
  - replace (Z.of_nat (take_digits 9 (x :: r)) <? 1) with true by lia.
    replace (Z.of_nat (take_digits 9 (x :: r)) <? Z.of_nat 9) with true by lia. reflexivity.
Qed.

(* flags *)
Lemma land_small a b : 0 <= a -> 0 <= b < 2^62 -> 0 <= Z.land a b < 2^62.
Proof.
  intros Ha Hb. split; [apply Z.land_nonneg; lia|].
  assert (E : Z.land a b = Z.land a b mod 2^62).
  { rewrite <- Z.land_ones by lia. rewrite <- Z.land_assoc. rewrite (Z.land_ones b) by lia.
    rewrite (Z.mod_small b) by lia. reflexivity. }
  rewrite E. apply Z.mod_pos_bound. lia.
Qed.
Lemma andi64_flag flags F : 0 <= flags -> 0 <= F < 2^62 -> (andi64 flags F =? 0) = negb (has_flag flags F).
Proof.
  intros H1 H2. unfold andi64, has_flag. pose proof (land_small flags F H1 H2) as H.
  change (2^62) with 4611686018427387904 in H.
  rewrite s64_small by lia. rewrite negb_involutive. reflexivity.
Qed.

Definition tail2 (v : bytes) : bool := match v with [c; d] => isdig c && isdig d | _ => false end.
Definition numtail (flags : Z) (v : bytes) : bool :=
  match v with
  | a :: b :: r => isdig a && isdig b &&
      match r with
      | x :: r' => if x =? 58 then tail2 r' else has_flag flags iso8601_AllowNumericTimezone && tail2 r
      | [] => false
      end
  | _ => false
  end.
Definition numz (flags : Z) (v : bytes) : bool :=
  match v with sg :: r => sign_ok sg && numtail flags r | [] => false end.
Definition zonez (flags : Z) (v : bytes) : bool :=
  match v with
  | [] => has_flag flags iso8601_AllowMissingTimezone
  | x :: t => if x =? 90 then (match t with [] => true | _ => false end)
              else if x =? 32 then has_flag flags iso8601_AllowSpaceSeparator && numz flags t
              else numz flags v
  end.
Definition fracz (flags : Z) (v : bytes) : bool :=
  match v with
  | x :: t => if x =? 46 then (let j := take_digits 9 t in (1 <=? j)%nat && zonez flags (skipn j t))
              else has_flag flags iso8601_AllowMissingSubsecond && zonez flags v
  | [] => has_flag flags iso8601_AllowMissingSubsecond && zonez flags []
  end.

Definition vk1 (fuel : nat) (value : bytes) (ok : bool) : option bool :=
  dlet (value, ok) <- iso8601_readDigits fuel value 2 2 in
  if negb ok then Some false else Some (len value =? 0).
Definition vk2 (fuel : nat) (flags : Z) (value : bytes) (ok : bool) : option bool :=
  dlet (value, ok) <- iso8601_readDigits fuel value 2 2 in
  if negb ok then Some false else
  (let '(value, ok) := iso8601_readByte value 58 in
   if negb ok then (if (andi64 flags iso8601_AllowNumericTimezone =? 0) then Some false else vk1 fuel value ok)
   else vk1 fuel value ok).
Definition vk3 (fuel : nat) (flags : Z) (value : bytes) : option bool :=
  let '(value, ok) := iso8601_readByte value 43 in
  if negb ok then
    (let '(value, ok) := iso8601_readByte value 45 in
     if negb ok then Some false else vk2 fuel flags value ok)
  else vk2 fuel flags value ok.
Definition vk4 (fuel : nat) (flags : Z) (value : bytes) (ok : bool) : option bool :=
  if ((len value =? 0) && negb (andi64 flags iso8601_AllowMissingTimezone =? 0)) then Some true else
  (let '(value, ok) := iso8601_readByte value 90 in
   if ok then Some (len value =? 0) else
   if negb (andi64 flags iso8601_AllowSpaceSeparator =? 0)
   then (let '(value, _) := iso8601_readByte value 32 in vk3 fuel flags value)
   else vk3 fuel flags value).
Definition vk5 (fuel : nat) (flags : Z) (value : bytes) (ok : bool) : option bool :=
  dlet (value, ok) <- iso8601_readDigits fuel value 2 2 in
  if negb ok then Some false else
  let '(value, ok) := iso8601_readByte value 58 in
  if negb ok then Some false else
  dlet (value, ok) <- iso8601_readDigits fuel value 2 2 in
  if negb ok then Some false else
  let '(value, ok) := iso8601_readByte value 58 in
  if negb ok then Some false else
  dlet (value, ok) <- iso8601_readDigits fuel value 2 2 in
  if negb ok then Some false else
  let '(value, ok) := iso8601_readByte value 46 in
  if negb ok then
    (if (andi64 flags iso8601_AllowMissingSubsecond =? 0) then Some false else vk4 fuel flags value ok)
  else
    (dlet (value, ok) <- iso8601_readDigits fuel value 1 9 in
     if negb ok then Some false else vk4 fuel flags value ok).

Lemma Valid_unfold fuel value flags :
  iso8601_Valid fuel value flags =
  dlet (value, ok) <- iso8601_readDigits fuel value 4 4 in
  if negb ok then Some false else
  let '(value, ok) := iso8601_readByte value 45 in
  if negb ok then Some false else
  dlet (value, ok) <- iso8601_readDigits fuel value 2 2 in
  if negb ok then Some false else
  let '(value, ok) := iso8601_readByte value 45 in
  if negb ok then Some false else
  dlet (value, ok) <- iso8601_readDigits fuel value 2 2 in
  if negb ok then Some false else
  if ((len value =? 0) && negb (andi64 flags iso8601_AllowMissingTime =? 0)) then Some true else
  let '(value, ok) := iso8601_readByte value 84 in
  if negb ok then
    (if (andi64 flags iso8601_AllowSpaceSeparator =? 0) then Some false else
     let '(value, ok) := iso8601_readByte value 32 in
     if negb ok then Some false else vk5 fuel flags value ok)
  else vk5 fuel flags value ok.
Proof. reflexivity. Qed.

Section ValidSpecs.
  Variables (fuel : nat) (flags : Z).
  Hypothesis Hfuel : (10 <= fuel)%nat.
  Hypothesis Hflags : 0 <= flags < 2^62.

  Lemma flagb F : 0 <= F < 2^62 -> (andi64 flags F =? 0) = negb (has_flag flags F).
  Proof. intros. apply andi64_flag; lia. Qed.

  Lemma vk1_spec v ok : vk1 fuel v ok = Some (tail2 v).
  Proof.
    unfold vk1. rewrite rd2 by assumption.
    destruct v as [|c [|d [|e r]]]; try reflexivity; cbn [obind tail2]; destruct (isdig c && isdig d); reflexivity.
  Qed.

  Lemma vk2_spec v ok : vk2 fuel flags v ok = Some (numtail flags v).
  Proof.
    unfold vk2. rewrite rd2 by assumption.
    destruct v as [|a [|b r]]; try reflexivity. cbn [obind numtail].
    destruct (isdig a && isdig b); [|reflexivity]. cbn [negb andb].
    rewrite readByte_spec. destruct r as [|x r'].
    - cbn [negb]. rewrite flagb by (vm_compute; split; congruence).
      destruct (has_flag flags iso8601_AllowNumericTimezone); [|reflexivity]. cbn [negb]. apply vk1_spec.
    - destruct (x =? 58); cbn [negb].
      + apply vk1_spec.
      + rewrite flagb by (vm_compute; split; congruence).
        destruct (has_flag flags iso8601_AllowNumericTimezone); [|reflexivity]. cbn [negb andb]. apply vk1_spec.
  Qed.

  Lemma vk3_spec v : vk3 fuel flags v = Some (numz flags v).
  Proof.
    unfold vk3. rewrite !readByte_spec. destruct v as [|sg r]; [reflexivity|].
    unfold numz, sign_ok. destruct (sg =? 43); cbn [negb orb andb].
    - apply vk2_spec.
    - rewrite readByte_spec. destruct (sg =? 45); cbn [negb]; [apply vk2_spec | reflexivity].
  Qed.

  Lemma vk4_spec v ok : vk4 fuel flags v ok = Some (zonez flags v).
  Proof.
    unfold vk4. rewrite !flagb by (vm_compute; split; congruence). rewrite !negb_involutive.
    rewrite !readByte_spec. destruct v as [|x t].
    - change (len [] =? 0) with true. cbn [andb zonez].
      destruct (has_flag flags iso8601_AllowMissingTimezone); [reflexivity|].
      destruct (has_flag flags iso8601_AllowSpaceSeparator); apply vk3_spec.
    - replace (len (x :: t) =? 0) with false by (unfold len; cbn [length]; lia). cbn [andb zonez].
      destruct (x =? 90).
      + destruct t; reflexivity.
      + destruct (has_flag flags iso8601_AllowSpaceSeparator) eqn:HF.
        * rewrite readByte_spec. destruct (x =? 32); cbn [andb]; apply vk3_spec.
        * destruct (Z.eqb_spec x 32) as [->|N]; cbn [andb]; rewrite vk3_spec; reflexivity.
  Qed.
End ValidSpecs.

Ltac zbits x := destruct x as [|x|x]; try reflexivity;
  do 7 (try (destruct x as [x|x|]; try reflexivity)).

Lemma zmatch58 {A} (x : Z) (a b : A) : match x with 58 => a | _ => b end = if x =? 58 then a else b.
Proof. zbits x. Qed.
Lemma zmatch45 {A} (x : Z) (a b : A) : match x with 45 => a | _ => b end = if x =? 45 then a else b.
Proof. zbits x. Qed.
Lemma zmatch46 {A} (x : Z) (a b : A) : match x with 46 => a | _ => b end = if x =? 46 then a else b.
Proof. zbits x. Qed.
Lemma zmatch_90_32 {A} (x : Z) (a b c : A) :
  match x with 90 => a | 32 => b | _ => c end = if x =? 90 then a else if x =? 32 then b else c.
Proof. zbits x. Qed.

Ltac batoms := repeat match goal with
  | |- context [isdig ?x] => destruct (isdig x)
  | |- context [has_flag ?f ?g] => destruct (has_flag f g)
  | |- context [sign_ok ?x] => destruct (sign_ok x)
  end; try reflexivity.

Lemma numzone_eq flags v : numzone_ok flags v = numz flags v.
Proof.
  destruct v as [|sg [|a [|b [|x [|c [|d [|e r]]]]]]]; unfold numzone_ok; cbv beta iota;
    rewrite ?zmatch58; unfold numz, numtail, tail2.
  1-4: batoms.
  all: destruct (x =? 58) eqn:E; [replace (isdig x) with false by (unfold isdig; lia)|]; batoms.
Qed.

Lemma zone_eq flags v : zone_ok flags v = zonez flags v.
Proof.
  destruct v as [|x t]; [reflexivity|]. unfold zone_ok; cbv beta iota.
  rewrite zmatch_90_32. rewrite !numzone_eq. unfold zonez.
  destruct (x =? 90) eqn:E; [|reflexivity].
  destruct t; [reflexivity|]. unfold numz. replace (sign_ok x) with false by (unfold sign_ok; lia). reflexivity.
Qed.

Lemma zonez_digit flags x r : isdig x = true -> zonez flags (x :: r) = false.
Proof.
  intros H. unfold zonez, numz. unfold isdig in H.
  replace (x =? 90) with false by lia. replace (x =? 32) with false by lia.
  replace (sign_ok x) with false by (unfold sign_ok; lia). reflexivity.
Qed.

Lemma take_digits_prefix n : forall v k, (k <= take_digits n v)%nat ->
  (k <=? length v)%nat && forallb isdig (firstn k v) = true.
Proof.
  induction n as [|n IH]; intros v k H.
  - cbn [take_digits] in H. assert (k = 0)%nat by lia. subst k. reflexivity.
  - destruct v as [|x r]; cbn [take_digits] in H.
    + assert (k = 0)%nat by lia. subst k. reflexivity.
    + destruct (isdig x) eqn:E.
      * destruct k as [|k]; [reflexivity|]. cbn [length Nat.leb firstn forallb]. rewrite E. cbn [andb].
        apply IH. lia.
      * assert (k = 0)%nat by lia. subst k. reflexivity.
Qed.

Lemma prefix_take_digits k : forall n v, (k <= n)%nat ->
  (k <=? length v)%nat && forallb isdig (firstn k v) = true -> (k <= take_digits n v)%nat.
Proof.
  induction k as [|k IH]; intros n v Hn H; [lia|].
  destruct n as [|n]; [lia|]. destruct v as [|x r]; [discriminate|].
  cbn [length Nat.leb firstn forallb] in H. cbn [take_digits].
  destruct (isdig x); [|rewrite andb_false_r in H; discriminate].
  cbn [andb] in H. specialize (IH n r ltac:(lia) H). lia.
Qed.

Lemma take_digits_next k : forall n v, (k < take_digits n v)%nat ->
  exists x r, skipn k v = x :: r /\ isdig x = true.
Proof.
  induction k as [|k IH]; intros n v H; (destruct n as [|n]; [cbn in H; lia|]);
    (destruct v as [|x r]; [cbn in H; lia|]); cbn [take_digits] in H; destruct (isdig x) eqn:E; try lia.
  - exists x, r. split; [reflexivity|assumption].
  - cbn [skipn]. apply (IH n r). lia.
Qed.

Lemma frac_exists flags t :
  existsb (fun k => (k <=? length t)%nat && forallb isdig (firstn k t) && zone_ok flags (skipn k t))
          [1; 2; 3; 4; 5; 6; 7; 8; 9]%nat =
  (1 <=? take_digits 9 t)%nat && zonez flags (skipn (take_digits 9 t) t).
Proof.
  apply eq_iff_eq_true. rewrite existsb_exists, andb_true_iff.
  pose proof (take_digits_le 9 t) as [L1 L2]. split.
  - intros (k & Hin & HP). apply andb_true_iff in HP. destruct HP as [H1 H2].
    assert (1 <= k <= 9)%nat by (cbn [In] in Hin; lia).
    pose proof (prefix_take_digits k 9 t ltac:(lia) H1) as Hle.
    assert (k = take_digits 9 t).
    { destruct (Nat.eq_dec k (take_digits 9 t)) as [|Hne]; [assumption|exfalso].
      destruct (take_digits_next k 9 t ltac:(lia)) as (x & r & E1 & E2).
      rewrite E1, zone_eq, zonez_digit in H2 by assumption. discriminate. }
    subst k. rewrite zone_eq in H2. split; [apply Nat.leb_le; lia|assumption].
  - intros [H1 H2]. apply Nat.leb_le in H1. exists (take_digits 9 t). split.
    + cbn [In]. lia.
    + rewrite (take_digits_prefix 9 t _ (le_n _)), zone_eq, H2. reflexivity.
Qed.

Lemma frac_eq flags v : frac_zone_ok flags v = fracz flags v.
Proof.
  unfold frac_zone_ok. destruct v as [|x t].
  - rewrite orb_false_r, zone_eq. reflexivity.
  - rewrite zmatch46, zone_eq. unfold fracz. destruct (x =? 46) eqn:E.
    + rewrite frac_exists. cbv zeta.
      replace (zonez flags (x :: t)) with false; [rewrite andb_false_r; reflexivity|].
      unfold zonez, numz. replace (x =? 90) with false by lia. replace (x =? 32) with false by lia.
      replace (sign_ok x) with false by (unfold sign_ok; lia). reflexivity.
    + rewrite orb_false_r. reflexivity.
Qed.

Lemma time_ok_eq a b x c d y e f :
  time_ok [a; b; x; c; d; y; e; f] =
  (isdig a && isdig b) && (x =? 58) && (isdig c && isdig d) && (y =? 58) && (isdig e && isdig f).
Proof.
  unfold time_ok. rewrite !zmatch58. destruct (x =? 58), (y =? 58); batoms.
Qed.
Lemma date_ok_eq a b c d x e f y g h :
  date_ok [a; b; c; d; x; e; f; y; g; h] =
  (isdig a && isdig b && isdig c && isdig d) && (x =? 45) && (isdig e && isdig f) && (y =? 45) && (isdig g && isdig h).
Proof.
  unfold date_ok. rewrite !zmatch45. destruct (x =? 45), (y =? 45); batoms.
Qed.

Section ValidMain.
  Variables (fuel : nat) (flags : Z).
  Hypothesis Hfuel : (10 <= fuel)%nat.
  Hypothesis Hflags : 0 <= flags < 2^62.

  Ltac vstep :=
    match goal with
    | |- context [iso8601_readDigits _ _ 2 2] => rewrite rd2 by assumption; cbn [obind]
    | |- context [iso8601_readDigits _ _ 4 4] => rewrite rd4 by assumption; cbn [obind]
    | |- context [iso8601_readByte _ _] => rewrite readByte_spec
    end; cbv beta iota;
    try match goal with |- context [if ?c then (_, true) else (_, false)] => destruct c eqn:? end;
    cbv beta iota; cbn [negb]; cbv beta iota.

  Lemma vk4_frac r ok :
    (if andi64 flags iso8601_AllowMissingSubsecond =? 0 then Some false else vk4 fuel flags r ok) =
    Some (has_flag flags iso8601_AllowMissingSubsecond && zonez flags r).
  Proof.
    rewrite (andi64_flag flags) by (try apply Hflags; vm_compute; split; congruence).
    destruct (has_flag flags iso8601_AllowMissingSubsecond); cbn [negb andb]; [|reflexivity].
    apply vk4_spec; assumption.
  Qed.

  Lemma vk5_spec v ok :
    vk5 fuel flags v ok =
    Some ((8 <=? length v)%nat && time_ok (firstn 8 v) && frac_zone_ok flags (skipn 8 v)).
  Proof.
    unfold vk5. destruct v as [|a [|b [|x [|c [|d [|y [|e [|f r]]]]]]]].
    1-8: repeat vstep; reflexivity.
    cbn [length Nat.leb firstn skipn andb]. rewrite time_ok_eq, frac_eq.
    do 5 (vstep; [|rewrite ?andb_false_r; reflexivity]). cbn [andb].
    rewrite readByte_spec. unfold fracz. destruct r as [|z t].
    - cbv beta iota. cbn [negb]. cbv iota. apply vk4_frac.
    - destruct (z =? 46); cbv beta iota; cbn [negb]; cbv iota; [|apply vk4_frac].
      rewrite rd19 by assumption. cbn [obind]. cbv zeta.
      destruct (1 <=? take_digits 9 t)%nat; cbv beta iota; cbn [negb andb]; cbv iota; [|reflexivity].
      apply vk4_spec; assumption.
  Qed.

  Lemma valid_main s : iso8601_Valid fuel s flags = Some (iso_spec flags s).
  Proof.
    rewrite Valid_unfold. unfold iso_spec.
    destruct s as [|a [|b [|c [|d [|x [|e [|f [|y [|g [|h r]]]]]]]]]].
    1-10: repeat vstep; reflexivity.
    cbn [length Nat.leb firstn skipn andb]. rewrite date_ok_eq.
    do 5 (vstep; [|rewrite ?andb_false_r; reflexivity]). cbn [andb].
    rewrite (andi64_flag flags) by (try apply Hflags; vm_compute; split; congruence). rewrite negb_involutive.
    destruct r as [|sep r'].
    - change (len [] =? 0) with true. cbn [andb].
      destruct (has_flag flags iso8601_AllowMissingTime); [reflexivity|].
      vstep. rewrite (andi64_flag flags) by (try apply Hflags; vm_compute; split; congruence).
      destruct (has_flag flags iso8601_AllowSpaceSeparator); cbn [negb]; [|reflexivity].
      vstep. reflexivity.
    - replace (len (sep :: r') =? 0) with false by (unfold len; cbn [length]; lia). cbn [andb].
      rewrite readByte_spec. unfold sep_ok. destruct (sep =? 84); cbv beta iota; cbn [negb orb andb]; cbv iota.
      + apply vk5_spec.
      + rewrite (andi64_flag flags) by (try apply Hflags; vm_compute; split; congruence).
        destruct (has_flag flags iso8601_AllowSpaceSeparator); cbn [negb andb]; [|reflexivity].
        rewrite readByte_spec. destruct (sep =? 32); cbv beta iota; cbn [negb andb]; cbv iota; [|reflexivity].
        apply vk5_spec.
  Qed.
End ValidMain.

Lemma valid_grammar : valid_grammar_statement.
Proof. intros fuel s flags Hf _ Hfl. apply valid_main; assumption. Qed.

(* ---------- Parse ---------- *)
Definition fb (input : bytes) : time_t * option iso8601_error :=
  let '(t, err) := time_parse [50; 48; 48; 54; 45; 48; 49; 45; 48; 50; 84; 49; 53; 58; 48; 52; 58; 48; 53; 46; 57; 57; 57; 57; 57; 57; 57; 57; 57; 90; 48; 55; 58; 48; 48] input in
  if negb (isnil err) then (time_zero, Some iso8601_errInvalidTimestamp) else (t, None).

Definition fin (year month day hour minute second nanos : Z) : time_t * option iso8601_error :=
  let err_1 := iso8601_validate year month day hour minute second in
  if negb (isnil err_1) then (time_zero, err_1)
  else (time_unix_utc (addi64 (muli64 (s64 (iso8601_daysSinceEpoch year month day)) 86400)
                              (s64 (add64 (add64 (mul64 hour 3600) (mul64 minute 60)) second))) nanos, None).

Definition floop (input : bytes) (k : Z -> time_t * option iso8601_error) :=
  fix loop4_ (l5_ : list Z) (i6_ : Z) (nanos : Z) {struct l5_} : time_t * option iso8601_error :=
    match l5_ with
    | [] => k nanos
    | h7_ :: t8_ =>
      if ((h7_ <? 48) || (h7_ >? 57)) then fb input
      else loop4_ t8_ (i6_ + 1) (addi64 (muli64 nanos 10) (sub8 h7_ 48))
    end.

Definition fast (input : bytes) (t1 t2 t3 : Z) : time_t * option iso8601_error :=
  let year := add64 (add64 (add64 (mul64 (and64 t1 15) 1000) (mul64 (and64 (shr64 t1 8) 15) 100)) (mul64 (and64 (shr64 t1 16) 15) 10)) (and64 (shr64 t1 24) 15) in
  let month := add64 (mul64 (and64 (shr64 t1 40) 15) 10) (and64 (shr64 t1 48) 15) in
  let day := add64 (mul64 (and64 t2 15) 10) (and64 (shr64 t2 8) 15) in
  let hour := add64 (mul64 (and64 (shr64 t2 24) 15) 10) (and64 (shr64 t2 32) 15) in
  let minute := add64 (mul64 (and64 (shr64 t2 48) 15) 10) (shr64 t2 56) in
  let second := add64 (mul64 (and64 (shr64 t3 8) 15) 10) (shr64 t3 16) in
  if (len input >? 20) then
    floop input (fun nanos => fin year month day hour minute second
                   (muli64 nanos (nth (Z.to_nat (subi64 30 (len input))) iso8601_pow10 0)))
          (slice input 20 (subi64 (len input) 1)) 0 0
  else fin year month day hour minute second 0.

Lemma Parse_unfold input :
  iso8601_Parse input =
  if (((len input >=? 20) && (len input <=? 30)) && (at_ input (subi64 (len input) 1) =? 90)) then
    if ((len input =? 21) || ((len input >? 21) && negb (at_ input 19 =? 46))) then fb input
    else
      let t1 := le64 input in
      let t2 := le64 (slice input 8 16) in
      let t3 := or64 (or64 (or64 (at_ input 16) (shl64 (at_ input 17) 8)) (shl64 (at_ input 18) 16)) 1509949440 in
      if (((negb (iso8601_match t1 iso8601_sep1 iso8601_mask1)) || (negb (iso8601_match t2 iso8601_sep2 iso8601_mask2))) || (negb (iso8601_match t3 iso8601_sep3 iso8601_mask3))) then fb input
      else
        let t1 := xor64 t1 iso8601_replace1 in
        let t2 := xor64 t2 iso8601_replace2 in
        let t3 := xor64 t3 iso8601_replace3 in
        if negb ((or64 (or64 (iso8601_nonNumeric t1) (iso8601_nonNumeric t2)) (iso8601_nonNumeric t3)) =? 0) then fb input
        else fast input (sub64 t1 iso8601_zero) (sub64 t2 iso8601_zero) (sub64 t3 iso8601_zero)
  else fb input.
Proof. reflexivity. Qed.

Lemma fb_obs input : parse_obs (fb input) = tp_obs (time_parse rfc3339nano_layout input).
Proof.
  unfold fb. change [50; 48; 48; 54; 45; 48; 49; 45; 48; 50; 84; 49; 53; 58; 48; 52; 58; 48; 53; 46; 57; 57; 57; 57; 57; 57; 57; 57; 57; 90; 48; 55; 58; 48; 48] with rfc3339nano_layout.
  destruct (time_parse rfc3339nano_layout input) as [t [u|]]; reflexivity.
Qed.

(* ---------- lanes of the three words ---------- *)
Ltac wfb_tac :=
  repeat (apply wfb_zipw_lor || apply wfb_zipw_land || apply wfb_zipw_lxor);
  unfold wfb, is_byte; cbn [forallb]; lia.

Lemma land255 b : 0 <= b < 256 -> Z.land b 255 = b.
Proof. intros. change 255 with (Z.ones 8). rewrite Z.land_ones by lia. apply Z.mod_small. change (2^8) with 256. lia. Qed.

Lemma nonNumeric_eq u : iso8601_nonNumeric u = nonnumeric_mask 8 u.
Proof.
  unfold iso8601_nonNumeric, nonnumeric_mask, and64, or64, sub64, add64, w64, wN.
  replace (lsbN 8 * 48) with iso8601_zero by (vm_compute; reflexivity).
  replace (notN 8 (msbN 8) - lsbN 8 * 57) with ((9187201950435737471 - iso8601_nine) mod 2^64) by (vm_compute; reflexivity).
  replace (256 ^ Z.of_nat 8) with (2^64) by (vm_compute; reflexivity).
  replace (msbN 8) with iso8601_msb by (vm_compute; reflexivity).
  reflexivity.
Qed.

Lemma nonNumeric_zero xs : wfb xs = true -> length xs = 8%nat ->
  (iso8601_nonNumeric (le_load 8 xs) = 0 <-> forallb isdig xs = true).
Proof. intros. rewrite nonNumeric_eq. apply nonnumeric_zero_iff; assumption. Qed.

Lemma sub_zero_eq x : sub64 x iso8601_zero = wN 8 (x - lsbN 8 * 48).
Proof.
  unfold sub64, w64, wN.
  replace (lsbN 8 * 48) with iso8601_zero by (vm_compute; reflexivity).
  replace (256 ^ Z.of_nat 8) with (2^64) by (vm_compute; reflexivity). reflexivity.
Qed.

Lemma sub_zero_digits xs : wfb xs = true -> length xs = 8%nat -> forallb isdig xs = true ->
  sub64 (le_load 8 xs) iso8601_zero = le_load 8 (map (fun b => b - 48) xs).
Proof. intros. rewrite sub_zero_eq. apply digits_sub_zero; assumption. Qed.

Lemma nib xs (k : nat) (s : Z) : wfb xs = true -> length xs = 8%nat -> s = 8 * Z.of_nat k -> (k < 8)%nat ->
  and64 (shr64 (le_load 8 xs) s) 15 = nth k xs 0 mod 16.
Proof.
  intros Hx Lx -> Hk. unfold and64, shr64. replace (8 * Z.of_nat k <? 64) with true by lia.
  apply lane_extract_nibble; assumption.
Qed.
Lemma nib0 xs : wfb xs = true -> length xs = 8%nat ->
  and64 (le_load 8 xs) 15 = nth 0 xs 0 mod 16.
Proof.
  intros Hx Lx. rewrite <- (nib xs 0 0 Hx Lx eq_refl) by lia. unfold shr64. change (0 <? 64) with true.
  rewrite Z.shiftr_0_r. reflexivity.
Qed.
Lemma top7 xs : wfb xs = true -> length xs = 8%nat -> shr64 (le_load 8 xs) 56 = nth 7 xs 0.
Proof.
  intros Hx Lx. unfold shr64. change (56 <? 64) with true. change 56 with (8 * Z.of_nat 7).
  apply lane_extract_top; auto.
Qed.


Notation byte x := (0 <= x < 256) (only parsing).

Lemma t3_eq b16 b17 b18 : byte b16 -> byte b17 -> byte b18 ->
  or64 (or64 (or64 b16 (shl64 b17 8)) (shl64 b18 16)) 1509949440 = le_load 8 [b16; b17; b18; 90; 0; 0; 0; 0].
Proof.
  intros. unfold or64, shl64. change (8 <? 64) with true. change (16 <? 64) with true. cbv iota.
  rewrite !Z.shiftl_mul_pow2 by lia. unfold w64.
  change (2^64) with 18446744073709551616. change (2^8) with 256. change (2^16) with 65536.
  rewrite !Z.mod_small by lia.
  replace b16 with (le_load 8 [b16; 0; 0; 0; 0; 0; 0; 0]) at 1 by (cbn [le_load]; lia).
  replace (b17 * 256) with (le_load 8 [0; b17; 0; 0; 0; 0; 0; 0]) by (cbn [le_load]; lia).
  replace (b18 * 65536) with (le_load 8 [0; 0; b18; 0; 0; 0; 0; 0]) by (cbn [le_load]; lia).
  replace 1509949440 with (le_load 8 [0; 0; 0; 90; 0; 0; 0; 0]) by (vm_compute; reflexivity).
  rewrite !le_load_lor by (try reflexivity; wfb_tac).
  cbn [zipw]. rewrite ?Z.lor_0_r, ?Z.lor_0_l. reflexivity.
Qed.

Lemma match1_eq b0 b1 b2 b3 b4 b5 b6 b7 :
  byte b0 -> byte b1 -> byte b2 -> byte b3 -> byte b4 -> byte b5 -> byte b6 -> byte b7 ->
  iso8601_match (le_load 8 [b0; b1; b2; b3; b4; b5; b6; b7]) iso8601_sep1 iso8601_mask1
  = (b4 =? 45) && (b7 =? 45).
Proof.
  intros. unfold iso8601_match, and64.
  replace iso8601_sep1 with (le_load 8 [0; 0; 0; 0; 255; 0; 0; 255]) by (vm_compute; reflexivity).
  rewrite le_load_land by (try reflexivity; wfb_tac). cbn [zipw].
  rewrite !Z.land_0_r, !land255 by lia. unfold iso8601_mask1. cbn [le_load]. lia.
Qed.
Lemma match2_eq b8 b9 b10 b11 b12 b13 b14 b15 :
  byte b8 -> byte b9 -> byte b10 -> byte b11 -> byte b12 -> byte b13 -> byte b14 -> byte b15 ->
  iso8601_match (le_load 8 [b8; b9; b10; b11; b12; b13; b14; b15]) iso8601_sep2 iso8601_mask2
  = (b10 =? 84) && (b13 =? 58).
Proof.
  intros. unfold iso8601_match, and64.
  replace iso8601_sep2 with (le_load 8 [0; 0; 255; 0; 0; 255; 0; 0]) by (vm_compute; reflexivity).
  rewrite le_load_land by (try reflexivity; wfb_tac). cbn [zipw].
  rewrite !Z.land_0_r, !land255 by lia. unfold iso8601_mask2. cbn [le_load]. lia.
Qed.
Lemma match3_eq b16 b17 b18 : byte b16 -> byte b17 -> byte b18 ->
  iso8601_match (le_load 8 [b16; b17; b18; 90; 0; 0; 0; 0]) iso8601_sep3 iso8601_mask3 = (b16 =? 58).
Proof.
  intros. unfold iso8601_match, and64.
  replace iso8601_sep3 with (le_load 8 [255; 0; 0; 255; 0; 0; 0; 0]) by (vm_compute; reflexivity).
  rewrite le_load_land by (try reflexivity; wfb_tac). cbn [zipw].
  rewrite !Z.land_0_r, !land255 by lia. unfold iso8601_mask3. cbn [le_load]. lia.
Qed.

Lemma xor1_eq b0 b1 b2 b3 b5 b6 : byte b0 -> byte b1 -> byte b2 -> byte b3 -> byte b5 -> byte b6 ->
  xor64 (le_load 8 [b0; b1; b2; b3; 45; b5; b6; 45]) iso8601_replace1 = le_load 8 [b0; b1; b2; b3; 48; b5; b6; 48].
Proof.
  intros. unfold xor64.
  replace iso8601_replace1 with (le_load 8 [0; 0; 0; 0; 29; 0; 0; 29]) by (vm_compute; reflexivity).
  rewrite le_load_lxor by (try reflexivity; wfb_tac). cbn [zipw].
  rewrite !Z.lxor_0_r. reflexivity.
Qed.
Lemma xor2_eq b8 b9 b11 b12 b14 b15 : byte b8 -> byte b9 -> byte b11 -> byte b12 -> byte b14 -> byte b15 ->
  xor64 (le_load 8 [b8; b9; 84; b11; b12; 58; b14; b15]) iso8601_replace2 = le_load 8 [b8; b9; 48; b11; b12; 48; b14; b15].
Proof.
  intros. unfold xor64.
  replace iso8601_replace2 with (le_load 8 [0; 0; 100; 0; 0; 10; 0; 0]) by (vm_compute; reflexivity).
  rewrite le_load_lxor by (try reflexivity; wfb_tac). cbn [zipw].
  rewrite !Z.lxor_0_r. reflexivity.
Qed.
Lemma xor3_eq b17 b18 : byte b17 -> byte b18 ->
  xor64 (le_load 8 [58; b17; b18; 90; 0; 0; 0; 0]) iso8601_replace3 = le_load 8 [48; b17; b18; 48; 48; 48; 48; 48].
Proof.
  intros. unfold xor64.
  replace iso8601_replace3 with (le_load 8 [10; 0; 0; 106; 48; 48; 48; 48]) by (vm_compute; reflexivity).
  rewrite le_load_lxor by (try reflexivity; wfb_tac). cbn [zipw].
  rewrite !Z.lxor_0_r. reflexivity.
Qed.

Lemma shr16_3 a b c : byte a -> byte b -> byte c -> shr64 (le_load 8 [a; b; c; 0; 0; 0; 0; 0]) 16 = c.
Proof.
  intros. unfold shr64. change (16 <? 64) with true. cbv iota. rewrite Z.shiftr_div_pow2 by lia.
  cbn [le_load]. change (2^16) with 65536. lia.
Qed.

(* ---------- the accepted shape: values, validation, seconds ---------- *)
Lemma days_in_le m y : days_in m y <= 31.
Proof. unfold days_in. repeat match goal with |- context [if ?c then _ else _] => destruct c end; lia. Qed.

Lemma month_table_bound k : 0 <= nth k [0; 31; 59; 90; 120; 151; 181; 212; 243; 273; 304; 334] 0 <= 334.
Proof. do 12 (destruct k as [|k]; [cbn [nth]; lia|]). cbn [nth]. destruct k; lia. Qed.

Lemma unix_days_bound y m d : 0 <= y <= 9999 -> 1 <= d <= 31 -> -800000 <= unix_days y m d <= 4000000.
Proof.
  intros Hy Hd. unfold unix_days, days_before_year, leaps_before, days_before_month.
  pose proof (month_table_bound (Z.to_nat (m - 1))).
  destruct (is_leap y && (3 <=? m)); lia.
Qed.

Lemma fin_obs y mo d h mi s nanos :
  0 <= y <= 9999 -> 0 <= mo <= 99 -> 0 <= d <= 99 -> 0 <= h <= 99 -> 0 <= mi <= 99 -> 0 <= s <= 99 ->
  parse_obs (fin y mo d h mi s nanos) =
  if (1 <=? mo) && (mo <=? 12) && (1 <=? d) && (d <=? days_in mo y) && (h <? 24) && (mi <? 60) && (s <? 60)
  then Some (civil_seconds y mo d h mi s, nanos, 0) else None.
Proof.
  intros Hy Hmo Hd Hh Hmi Hs. unfold fin. cbv zeta.
  rewrite <- (validate_exact y mo d h mi s) by assumption.
  destruct (iso8601_validate y mo d h mi s) eqn:E; [reflexivity|]. cbn [isnil negb]. cbv iota.
  pose proof (validate_exact y mo d h mi s Hy Hmo Hd Hh Hmi Hs) as V. rewrite E in V. cbn [isnil] in V.
  pose proof (days_in_le mo y) as Hdi.
  assert (R : 1 <= mo <= 12 /\ 1 <= d <= 31 /\ h < 24 /\ mi < 60 /\ s < 60) by lia.
  destruct R as (R1 & R2 & R3 & R4 & R5).
  rewrite civil_days by lia. pose proof (unix_days_bound y mo d Hy R2) as Hu.
  unfold parse_obs, time_unix_utc, civil_seconds. cbn [fst snd]. do 3 f_equal.
  unfold muli64, addi64. simp64.
  rewrite (s64_small (unix_days y mo d * 86400)) by lia.
  rewrite (s64_small (h * 3600 + mi * 60 + s)) by lia.
  rewrite s64_small by lia. lia.
Qed.

Section Shape.
  Variables c0 c1 c2 c3 c5 c6 c8 c9 c11 c12 c14 c15 c17 c18 : Z.
  Hypothesis D0 : isdig c0 = true.  Hypothesis D1 : isdig c1 = true.
  Hypothesis D2 : isdig c2 = true.  Hypothesis D3 : isdig c3 = true.
  Hypothesis D5 : isdig c5 = true.  Hypothesis D6 : isdig c6 = true.
  Hypothesis D8 : isdig c8 = true.  Hypothesis D9 : isdig c9 = true.
  Hypothesis D11 : isdig c11 = true.  Hypothesis D12 : isdig c12 = true.
  Hypothesis D14 : isdig c14 = true.  Hypothesis D15 : isdig c15 = true.
  Hypothesis D17 : isdig c17 = true.  Hypothesis D18 : isdig c18 = true.

  Definition vY := (c0 - 48) * 1000 + (c1 - 48) * 100 + (c2 - 48) * 10 + (c3 - 48).
  Definition vMo := (c5 - 48) * 10 + (c6 - 48).
  Definition vD := (c8 - 48) * 10 + (c9 - 48).
  Definition vH := (c11 - 48) * 10 + (c12 - 48).
  Definition vMi := (c14 - 48) * 10 + (c15 - 48).
  Definition vS := (c17 - 48) * 10 + (c18 - 48).

  Lemma tp_shape tl :
    time_parse_rfc3339 (c0 :: c1 :: c2 :: c3 :: 45 :: c5 :: c6 :: 45 :: c8 :: c9 :: 84 :: c11 :: c12 :: 58 ::
                        c14 :: c15 :: 58 :: c17 :: c18 :: tl) =
    if (vMo <=? 0) || (12 <? vMo) then None else
    if 24 <=? vH then None else
    if 60 <=? vMi then None else
    if 60 <=? vS then None else
    let '(nsec, v) := getfrac tl in
    match getzone v with
    | None => None
    | Some (off, v) =>
      match v with
      | _ :: _ => None
      | [] => if (vD <? 1) || (days_in vMo vY <? vD) then None
              else Some (civil_seconds vY vMo vD vH vMi vS - off, nsec, off)
      end
    end.
  Proof.
    unfold time_parse_rfc3339, getyear, getnum2, getnum12, lit.
    do 8 (rewrite ?D0, ?D1, ?D2, ?D3, ?D5, ?D6, ?D8, ?D9, ?D11, ?D12, ?D14, ?D15, ?D17, ?D18;
      cbn [andb]; rewrite ?Z.eqb_refl; cbv beta iota).
    reflexivity.
  Qed.
End Shape.

(* ---------- the fraction ---------- *)
Definition fstep (acc c : Z) : Z := acc * 10 + (c - 48).

Lemma len_cons {A} (x : A) l : len (x :: l) = 1 + len l.
Proof. unfold len. cbn [length]. lia. Qed.

Lemma pow10_cons {A} (x : A) l : 10 ^ len (x :: l) = 10 * 10 ^ len l.
Proof. rewrite len_cons. rewrite Z.pow_add_r by (unfold len; lia). reflexivity. Qed.

Lemma pow10_pos {A} (l : list A) : 0 < 10 ^ len l.
Proof. apply Z.pow_pos_nonneg; unfold len; lia. Qed.

Lemma fold_bound mid : forall nanos B, forallb isdig mid = true -> 0 <= nanos <= B ->
  0 <= fold_left fstep mid nanos <= (B + 1) * 10 ^ len mid - 1.
Proof.
  induction mid as [|h t IH]; intros nanos B Hd Hn.
  - cbn [fold_left]. change (10 ^ len []) with 1. lia.
  - cbn [forallb] in Hd. apply andb_true_iff in Hd. destruct Hd as [Hh Ht]. unfold isdig in Hh.
    cbn [fold_left]. rewrite pow10_cons. pose proof (pow10_pos t) as Hp.
    specialize (IH (fstep nanos h) (B * 10 + 9) Ht ltac:(unfold fstep; lia)).
    replace ((B + 1) * (10 * 10 ^ len t)) with ((B * 10 + 9 + 1) * 10 ^ len t) by ring. exact IH.
Qed.

Lemma floop_cons input k h t i n :
  floop input k (h :: t) i n =
  if (h <? 48) || (h >? 57) then fb input else floop input k t (i + 1) (addi64 (muli64 n 10) (sub8 h 48)).
Proof. reflexivity. Qed.

Lemma floop_spec input k mid : forall i nanos B, 0 <= nanos <= B -> (B + 1) * 10 ^ len mid <= 10 ^ 18 ->
  floop input k mid i nanos = if forallb isdig mid then k (fold_left fstep mid nanos) else fb input.
Proof.
  induction mid as [|h t IH]; intros i nanos B Hn HB; [reflexivity|].
  rewrite floop_cons. cbn [forallb fold_left]. rewrite pow10_cons in HB. pose proof (pow10_pos t) as Hp.
  destruct (isdig h) eqn:Hh; unfold isdig in Hh.
  - replace ((h <? 48) || (h >? 57)) with false by lia. cbn [andb].
    assert (Hsm : (B + 1) * 10 <= 10 ^ 18) by nia. change (10 ^ 18) with 1000000000000000000 in *.
    unfold addi64, muli64, sub8, w8. change (2 ^ 8) with 256. rewrite (Z.mod_small (h - 48)) by lia.
    rewrite (s64_small (nanos * 10)) by lia. rewrite s64_small by lia.
    apply (IH _ _ (B * 10 + 9)); [lia|].
    replace ((B * 10 + 9 + 1) * 10 ^ len t) with ((B + 1) * (10 * 10 ^ len t)) by ring. lia.
  - replace ((h <? 48) || (h >? 57)) with true by lia. reflexivity.
Qed.

Lemma span_digits_app mid rest : forallb isdig mid = true -> span_digits (mid ++ 90 :: rest) = (mid, 90 :: rest).
Proof.
  induction mid as [|h t IH]; intros Hd; [reflexivity|].
  cbn [forallb] in Hd. apply andb_true_iff in Hd. destruct Hd as [Hh Ht].
  cbn [app span_digits]. rewrite Hh, (IH Ht). reflexivity.
Qed.

Lemma getfrac_digits mid : forallb isdig mid = true -> mid <> [] -> (length mid <= 9)%nat ->
  getfrac (46 :: mid ++ [90]) = (fold_left fstep mid 0 * 10 ^ (9 - len mid), [90]).
Proof.
  intros Hd Hne Hl. destruct mid as [|d t]; [contradiction|].
  pose proof Hd as Hd'. cbn [forallb] in Hd'. apply andb_true_iff in Hd'. destruct Hd' as [Hh Ht].
  unfold getfrac. cbn [app tl]. change ((46 =? 46) || (46 =? 44)) with true. rewrite Hh. cbn [andb].
  change (d :: t ++ [90]) with ((d :: t) ++ [90]). rewrite span_digits_app by assumption.
  rewrite firstn_all2 by assumption. reflexivity.
Qed.

Lemma pow10_nth (n : nat) : (1 <= n <= 9)%nat ->
  nth (Z.to_nat (9 - Z.of_nat n)) iso8601_pow10 0 = 10 ^ (9 - Z.of_nat n).
Proof.
  intros H. assert (Hc : (n = 1 \/ n = 2 \/ n = 3 \/ n = 4 \/ n = 5 \/ n = 6 \/ n = 7 \/ n = 8 \/ n = 9)%nat) by lia.
  repeat (destruct Hc as [Hc|Hc]); subst n; reflexivity.
Qed.

(* ---------- putting Parse together ---------- *)
Lemma chain_eq {A} (X : A) y mo d h mi s :
  (if (mo <=? 0) || (12 <? mo) then None else
   if 24 <=? h then None else
   if 60 <=? mi then None else
   if 60 <=? s then None else
   if (d <? 1) || (days_in mo y <? d) then None else Some X) =
  if (1 <=? mo) && (mo <=? 12) && (1 <=? d) && (d <=? days_in mo y) && (h <? 24) && (mi <? 60) && (s <? 60)
  then Some X else None.
Proof.
  assert (E : (1 <=? mo) && (mo <=? 12) && (1 <=? d) && (d <=? days_in mo y) && (h <? 24) && (mi <? 60) && (s <? 60) =
              negb ((mo <=? 0) || (12 <? mo)) && negb (24 <=? h) && negb (60 <=? mi) && negb (60 <=? s) &&
              negb ((d <? 1) || (days_in mo y <? d))) by lia.
  rewrite E.
  destruct ((mo <=? 0) || (12 <? mo)); [reflexivity|].
  destruct (24 <=? h); [reflexivity|]. destruct (60 <=? mi); [reflexivity|].
  destruct (60 <=? s); [reflexivity|]. destruct ((d <? 1) || (days_in mo y <? d)); reflexivity.
Qed.

Lemma finish y mo d h mi s nanos tl0 :
  0 <= y <= 9999 -> 0 <= mo <= 99 -> 0 <= d <= 99 -> 0 <= h <= 99 -> 0 <= mi <= 99 -> 0 <= s <= 99 ->
  getfrac tl0 = (nanos, [90]) ->
  parse_obs (fin y mo d h mi s nanos) =
  tp_obs (match
    (if (mo <=? 0) || (12 <? mo) then None else
     if 24 <=? h then None else
     if 60 <=? mi then None else
     if 60 <=? s then None else
     let '(nsec, v) := getfrac tl0 in
     match getzone v with
     | None => None
     | Some (off, v) =>
       match v with
       | _ :: _ => None
       | [] => if (d <? 1) || (days_in mo y <? d) then None
               else Some (civil_seconds y mo d h mi s - off, nsec, off)
       end
     end) with Some t => (t, None) | None => (time_zero, Some tt) end).
Proof.
  intros Hy Hmo Hd Hh Hmi Hs G. rewrite G. cbn [getzone]. cbv beta iota.
  rewrite chain_eq. rewrite fin_obs by assumption.
  destruct ((1 <=? mo) && (mo <=? 12) && (1 <=? d) && (d <=? days_in mo y) && (h <? 24) && (mi <? 60) && (s <? 60));
    [|reflexivity].
  unfold tp_obs. cbn [fst snd]. rewrite Z.sub_0_r. reflexivity.
Qed.

Lemma forallb8 a b c d e f g h : forallb isdig [a; b; c; d; e; f; g; h] = true ->
  isdig a = true /\ isdig b = true /\ isdig c = true /\ isdig d = true /\
  isdig e = true /\ isdig f = true /\ isdig g = true /\ isdig h = true.
Proof. cbn [forallb]. rewrite !andb_true_iff. tauto. Qed.

Lemma split19 (l : bytes) : (19 <= length l)%nat ->
  exists b0 b1 b2 b3 b4 b5 b6 b7 b8 b9 b10 b11 b12 b13 b14 b15 b16 b17 b18 r,
    l = b0 :: b1 :: b2 :: b3 :: b4 :: b5 :: b6 :: b7 :: b8 :: b9 :: b10 :: b11 :: b12 :: b13 :: b14 ::
        b15 :: b16 :: b17 :: b18 :: r.
Proof.
  intros H. do 19 (destruct l as [|? l]; [cbn [length] in H; lia|]). repeat eexists.
Qed.

Lemma decompose input : 20 <= len input <= 30 -> at_ input (subi64 (len input) 1) = 90 ->
  exists b0 b1 b2 b3 b4 b5 b6 b7 b8 b9 b10 b11 b12 b13 b14 b15 b16 b17 b18 r,
    input = b0 :: b1 :: b2 :: b3 :: b4 :: b5 :: b6 :: b7 :: b8 :: b9 :: b10 :: b11 :: b12 :: b13 :: b14 ::
            b15 :: b16 :: b17 :: b18 :: (r ++ [90]) /\ (length r <= 10)%nat.
Proof.
  intros HL HZ. assert (Hne : input <> []) by (intros ->; cbn in HL; lia).
  destruct (exists_last Hne) as (l & z & ->).
  unfold len in *. rewrite app_length in *. cbn [length] in *.
  unfold subi64, at_ in HZ. rewrite s64_small in HZ by lia.
  replace (Z.to_nat (Z.of_nat (length l + 1) - 1)) with (length l) in HZ by lia.
  rewrite app_nth2, Nat.sub_diag in HZ by lia. cbn [nth] in HZ. subst z.
  destruct (split19 l ltac:(lia)) as (b0 & b1 & b2 & b3 & b4 & b5 & b6 & b7 & b8 & b9 & b10 & b11 & b12 &
    b13 & b14 & b15 & b16 & b17 & b18 & r & ->).
  exists b0, b1, b2, b3, b4, b5, b6, b7, b8, b9, b10, b11, b12, b13, b14, b15, b16, b17, b18, r.
  split; [reflexivity|]. cbn [length] in HL. lia.
Qed.

Lemma parse_fast b0 b1 b2 b3 b4 b5 b6 b7 b8 b9 b10 b11 b12 b13 b14 b15 b16 b17 b18 r :
  byte b0 -> byte b1 -> byte b2 -> byte b3 -> byte b4 -> byte b5 -> byte b6 -> byte b7 -> byte b8 -> byte b9 ->
  byte b10 -> byte b11 -> byte b12 -> byte b13 -> byte b14 -> byte b15 -> byte b16 -> byte b17 -> byte b18 ->
  (length r <= 10)%nat ->
  let input := b0 :: b1 :: b2 :: b3 :: b4 :: b5 :: b6 :: b7 :: b8 :: b9 :: b10 :: b11 :: b12 :: b13 :: b14 ::
               b15 :: b16 :: b17 :: b18 :: (r ++ [90]) in
  parse_obs (iso8601_Parse input) = tp_obs (time_parse rfc3339nano_layout input).
Proof.
  intros H0 H1 H2 H3 H4 H5 H6 H7 H8 H9 H10 H11 H12 H13 H14 H15 H16 H17 H18 Hr input.
  rewrite Parse_unfold. cbv zeta.
  destruct ((len input >=? 20) && (len input <=? 30) && (at_ input (subi64 (len input) 1) =? 90)); [|apply fb_obs].
  destruct ((len input =? 21) || (len input >? 21) && negb (at_ input 19 =? 46)) eqn:C; [apply fb_obs|].
  change (le64 input) with (le_load 8 [b0; b1; b2; b3; b4; b5; b6; b7]).
  change (le64 (slice input 8 16)) with (le_load 8 [b8; b9; b10; b11; b12; b13; b14; b15]).
  change (at_ input 16) with b16. change (at_ input 17) with b17. change (at_ input 18) with b18.
  rewrite t3_eq by assumption. rewrite match1_eq, match2_eq, match3_eq by assumption.
  destruct (Z.eqb_spec b4 45) as [E4|]; cbn [andb negb orb]; [|apply fb_obs].
  destruct (Z.eqb_spec b7 45) as [E7|]; cbn [andb negb orb]; [|apply fb_obs].
  destruct (Z.eqb_spec b10 84) as [E10|]; cbn [andb negb orb]; [|apply fb_obs].
  destruct (Z.eqb_spec b13 58) as [E13|]; cbn [andb negb orb]; [|apply fb_obs].
  destruct (Z.eqb_spec b16 58) as [E16|]; cbn [andb negb orb]; [|apply fb_obs].
  subst b4 b7 b10 b13 b16.
  rewrite xor1_eq, xor2_eq, xor3_eq by assumption.
  destruct (or64 (or64 (iso8601_nonNumeric (le_load 8 [b0; b1; b2; b3; 48; b5; b6; 48]))
                       (iso8601_nonNumeric (le_load 8 [b8; b9; 48; b11; b12; 48; b14; b15])))
                 (iso8601_nonNumeric (le_load 8 [48; b17; b18; 48; 48; 48; 48; 48])) =? 0) eqn:N;
    cbn [negb]; [|apply fb_obs].
  apply Z.eqb_eq in N. unfold or64 in N. apply Z.lor_eq_0_iff in N. destruct N as [N N3].
  apply Z.lor_eq_0_iff in N. destruct N as [N1 N2].
  apply nonNumeric_zero in N1; [|wfb_tac|reflexivity].
  apply nonNumeric_zero in N2; [|wfb_tac|reflexivity].
  apply nonNumeric_zero in N3; [|wfb_tac|reflexivity].
  rewrite !sub_zero_digits by (try assumption; try reflexivity; wfb_tac).
  destruct (forallb8 _ _ _ _ _ _ _ _ N1) as (D0 & D1 & D2 & D3 & _ & D5 & D6 & _).
  destruct (forallb8 _ _ _ _ _ _ _ _ N2) as (D8 & D9 & _ & D11 & D12 & _ & D14 & D15).
  destruct (forallb8 _ _ _ _ _ _ _ _ N3) as (_ & D17 & D18 & _).
  clear N1 N2 N3.
  unfold fast. cbn [map]. change (48 - 48) with 0.
  assert (R0 : 48 <= b0 <= 57) by (unfold isdig in D0; lia).
  assert (R1 : 48 <= b1 <= 57) by (unfold isdig in D1; lia).
  assert (R2 : 48 <= b2 <= 57) by (unfold isdig in D2; lia).
  assert (R3 : 48 <= b3 <= 57) by (unfold isdig in D3; lia).
  assert (R5 : 48 <= b5 <= 57) by (unfold isdig in D5; lia).
  assert (R6 : 48 <= b6 <= 57) by (unfold isdig in D6; lia).
  assert (R8 : 48 <= b8 <= 57) by (unfold isdig in D8; lia).
  assert (R9 : 48 <= b9 <= 57) by (unfold isdig in D9; lia).
  assert (R11 : 48 <= b11 <= 57) by (unfold isdig in D11; lia).
  assert (R12 : 48 <= b12 <= 57) by (unfold isdig in D12; lia).
  assert (R14 : 48 <= b14 <= 57) by (unfold isdig in D14; lia).
  assert (R15 : 48 <= b15 <= 57) by (unfold isdig in D15; lia).
  assert (R17 : 48 <= b17 <= 57) by (unfold isdig in D17; lia).
  assert (R18 : 48 <= b18 <= 57) by (unfold isdig in D18; lia).
  rewrite !nib0, !(nib _ 1 8), !(nib _ 2 16), !(nib _ 3 24), !(nib _ 4 32), !(nib _ 5 40), !(nib _ 6 48),
    !top7, !shr16_3 by solve [reflexivity | lia | wfb_tac].
  cbn [nth]. rewrite !Z.mod_small by lia. simp64.
  unfold time_parse. change (bytes_eqb rfc3339nano_layout rfc3339nano_layout) with true. cbv iota.
  subst input. destruct r as [|x [|y mid']].
  - (* no fraction *)
    cbn [app]. match goal with |- context [len ?l >? 20] => change (len l >? 20) with false end. cbv iota.
    rewrite tp_shape by assumption. unfold vY, vMo, vD, vH, vMi, vS.
    apply finish; try lia. reflexivity.
  - (* length 21 *)
    exfalso. match type of C with (?a || _) = false => change a with true in C end. discriminate C.
  - remember (y :: mid') as mid eqn:Em.
    assert (Hm : (1 <= length mid <= 9)%nat) by (subst mid; cbn [length] in *; lia).
    change ((x :: mid) ++ [90]) with (x :: (mid ++ [90])) in *.
    assert (Ex : x = 46).
    { unfold len, at_ in C. change (Z.to_nat 19) with 19%nat in C. cbn [nth length] in C.
      rewrite app_length in C. cbn [length] in C. lia. }
    subst x. clear C.
    match goal with |- context [len ?l >? 20] =>
      replace (len l >? 20) with true by (unfold len; cbn [length]; rewrite app_length; cbn [length]; lia);
      replace (subi64 30 (len l)) with (9 - Z.of_nat (length mid))
        by (unfold subi64, len; cbn [length]; rewrite app_length; cbn [length]; rewrite s64_small; lia);
      replace (subi64 (len l) 1) with (20 + Z.of_nat (length mid))
        by (unfold subi64, len; cbn [length]; rewrite app_length; cbn [length]; rewrite s64_small; lia)
    end.
    cbv iota. rewrite pow10_nth by lia.
    unfold slice. change (Z.to_nat 20) with 20%nat. cbn [skipn].
    replace (Z.to_nat (20 + Z.of_nat (length mid) - 20)) with (length mid + 0)%nat by lia.
    rewrite firstn_app_2. cbn [firstn]. rewrite app_nil_r.
    assert (P18 : (0 + 1) * 10 ^ len mid <= 10 ^ 18).
    { rewrite Z.mul_1_l. apply Z.pow_le_mono_r; unfold len; lia. }
    rewrite (floop_spec _ _ _ _ _ 0) by (try assumption; lia).
    destruct (forallb isdig mid) eqn:Dm; [|apply fb_obs].
    rewrite tp_shape by assumption. unfold vY, vMo, vD, vH, vMi, vS.
    apply finish; try lia.
    rewrite getfrac_digits by (try assumption; try lia; subst mid; discriminate).
    f_equal. unfold muli64, len. rewrite s64_small; [reflexivity|].
    pose proof (fold_bound mid 0 0 Dm ltac:(lia)) as FB. unfold len in FB.
    assert (PP : 10 ^ Z.of_nat (length mid) * 10 ^ (9 - Z.of_nat (length mid)) = 10 ^ 9)
      by (rewrite <- Z.pow_add_r by lia; f_equal; lia).
    assert (0 < 10 ^ (9 - Z.of_nat (length mid))) by (apply Z.pow_pos_nonneg; lia).
    change (10 ^ 9) with 1000000000 in PP. nia.
Qed.

Lemma parse_agrees : parse_agrees_statement.
Proof.
  intros input Hwf.
  destruct ((len input >=? 20) && (len input <=? 30) && (at_ input (subi64 (len input) 1) =? 90)) eqn:W.
  - apply andb_true_iff in W. destruct W as [W1 W3]. apply andb_true_iff in W1. destruct W1 as [W1 W2].
    destruct (decompose input ltac:(lia) ltac:(lia)) as (b0 & b1 & b2 & b3 & b4 & b5 & b6 & b7 & b8 & b9 & b10 & b11 & b12 &
      b13 & b14 & b15 & b16 & b17 & b18 & r & -> & Hr).
    unfold wfb, is_byte in Hwf. cbn [forallb] in Hwf.
    apply parse_fast; try assumption; lia.
  - rewrite Parse_unfold, W. apply fb_obs.
Qed.
