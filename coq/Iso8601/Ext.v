(* Hand-written model of the parts of the Go standard library that iso8601.Parse calls:
   time.Time (projected to the observables the property speaks about), time.Unix(..).UTC()
   and time.Parse specialised to the layout time.RFC3339Nano, transcribed from
   go1.23 src/time/format.go (Parse/parse, getnum, atoi, parseNanoseconds) and time.go
   (Date, daysIn). It is tied to the real time.Parse by the correspondence check of C18. *)
From Verif Require Import Base.GoInt.
Open Scope Z_scope.

(* (unix seconds, nanoseconds, zone offset in seconds east of UTC) *)
Definition time_t : Type := (Z * Z * Z)%type.
Definition time_zero : time_t := (0, 0, 0).
Definition time_unix_utc (sec nanos : Z) : time_t := (sec, nanos, 0).

Definition isdig (c : Z) : bool := (48 <=? c) && (c <=? 57).

(* ---- civil calendar, written as plainly as possible (this is the specification side) ---- *)
Definition is_leap (y : Z) : bool := (y mod 4 =? 0) && (negb (y mod 100 =? 0) || (y mod 400 =? 0)).
(* number of leap years in [0, y) *)
Definition leaps_before (y : Z) : Z := (y + 3) / 4 - (y + 99) / 100 + (y + 399) / 400.
Definition days_before_year (y : Z) : Z := 365 * y + leaps_before y.
Definition days_before_month (leap : bool) (m : Z) : Z :=
  nth (Z.to_nat (m - 1)) [0; 31; 59; 90; 120; 151; 181; 212; 243; 273; 304; 334] 0
  + (if leap && (3 <=? m) then 1 else 0).
Definition days_in (m y : Z) : Z :=
  if m =? 2 then (if is_leap y then 29 else 28)
  else if (m =? 4) || (m =? 6) || (m =? 9) || (m =? 11) then 30 else 31.
(* days from 1970-01-01 to y-m-d; 719528 = days from 0000-01-01 to 1970-01-01 *)
Definition unix_days (y m d : Z) : Z :=
  days_before_year y + days_before_month (is_leap y) m + (d - 1) - 719528.
Definition civil_seconds (y m d hh mm ss : Z) : Z :=
  unix_days y m d * 86400 + hh * 3600 + mm * 60 + ss.

(* ---- time.Parse(time.RFC3339Nano, value) ---- *)
Definition rfc3339nano_layout : bytes :=
  [50; 48; 48; 54; 45; 48; 49; 45; 48; 50; 84; 49; 53; 58; 48; 52; 58; 48; 53; 46; 57; 57; 57; 57; 57; 57; 57; 57; 57; 90; 48; 55; 58; 48; 48].

(* getnum(s, fixed=true) *)
Definition getnum2 (v : bytes) : option (Z * bytes) :=
  match v with
  | a :: b :: r => if isdig a && isdig b then Some ((a - 48) * 10 + (b - 48), r) else None
  | _ => None
  end.
(* getnum(s, fixed=false): one or two digits *)
Definition getnum12 (v : bytes) : option (Z * bytes) :=
  match v with
  | a :: r =>
      if isdig a then
        match r with
        | b :: r' => if isdig b then Some ((a - 48) * 10 + (b - 48), r') else Some (a - 48, r)
        | [] => Some (a - 48, r)
        end
      else None
  | [] => None
  end.
(* stdLongYear: exactly four digits *)
Definition getyear (v : bytes) : option (Z * bytes) :=
  match v with
  | a :: b :: c :: d :: r =>
      if isdig a && isdig b && isdig c && isdig d
      then Some ((a - 48) * 1000 + (b - 48) * 100 + (c - 48) * 10 + (d - 48), r) else None
  | _ => None
  end.
Definition lit (c : Z) (v : bytes) : option bytes :=
  match v with
  | x :: r => if x =? c then Some r else None
  | [] => None
  end.
(* leading run of decimal digits *)
Fixpoint span_digits (v : bytes) : bytes * bytes :=
  match v with
  | x :: r => if isdig x then let '(ds, rest) := span_digits r in (x :: ds, rest) else ([], v)
  | [] => ([], [])
  end.
Definition digits_value (ds : bytes) : Z := fold_left (fun acc c => acc * 10 + (c - 48)) ds 0.
(* stdFracSecond9: optional [.,]d+ ; digits beyond the ninth are dropped *)
Definition getfrac (v : bytes) : Z * bytes :=
  match v with
  | s :: d :: _ =>
      if ((s =? 46) || (s =? 44)) && isdig d then
        let '(ds, rest) := span_digits (tl v) in
        let ds9 := firstn 9 ds in
        (digits_value ds9 * 10 ^ (9 - len ds9), rest)
      else (0, v)
  | _ => (0, v)
  end.
(* stdISO8601ColonTZ: Z | (+|-)hh:mm ; result: (is_utc, offset seconds, rest) *)
Definition getzone (v : bytes) : option (Z * bytes) :=
  match v with
  | 90 :: r => Some (0, r)
  | sg :: h1 :: h2 :: c :: m1 :: m2 :: r =>
      if (c =? 58) && isdig h1 && isdig h2 && isdig m1 && isdig m2 then
        let hr := (h1 - 48) * 10 + (h2 - 48) in
        let mm := (m1 - 48) * 10 + (m2 - 48) in
        if (hr >? 24) || (mm >? 60) then None
        else if sg =? 43 then Some ((hr * 60 + mm) * 60, r)
        else if sg =? 45 then Some (- ((hr * 60 + mm) * 60), r)
        else None
      else None
  | _ => None
  end.

Definition time_parse_rfc3339 (v : bytes) : option time_t :=
  match getyear v with None => None | Some (year, v) =>
  match lit 45 v with None => None | Some v =>
  match getnum2 v with None => None | Some (month, v) =>
  if (month <=? 0) || (12 <? month) then None else
  match lit 45 v with None => None | Some v =>
  match getnum2 v with None => None | Some (day, v) =>
  match lit 84 v with None => None | Some v =>
  match getnum12 v with None => None | Some (hour, v) =>
  if 24 <=? hour then None else
  match lit 58 v with None => None | Some v =>
  match getnum2 v with None => None | Some (minute, v) =>
  if 60 <=? minute then None else
  match lit 58 v with None => None | Some v =>
  match getnum2 v with None => None | Some (sec, v) =>
  if 60 <=? sec then None else
  let '(nsec, v) := getfrac v in
  match getzone v with None => None | Some (off, v) =>
  match v with
  | _ :: _ => None                                   (* extra text *)
  | [] =>
    if (day <? 1) || (days_in month year <? day) then None   (* day out of range *)
    else Some (civil_seconds year month day hour minute sec - off, nsec, off)
  end end end end end end end end end end end end end.

(* as called by the repository: (time.Time, error) with the error collapsed to one class *)
Definition time_parse (layout value : bytes) : time_t * option unit :=
  if bytes_eqb layout rfc3339nano_layout then
    match time_parse_rfc3339 value with
    | Some t => (t, None)
    | None => (time_zero, Some tt)
    end
  else (time_zero, Some tt).
