
type nat =
| O
| S of nat

val length : 'a1 list -> nat

val app : 'a1 list -> 'a1 list -> 'a1 list

val add : nat -> nat -> nat

val sub : nat -> nat -> nat

type positive =
| XI of positive
| XO of positive
| XH

type z =
| Z0
| Zpos of positive
| Zneg of positive

module Nat :
 sig
  val leb : nat -> nat -> bool

  val ltb : nat -> nat -> bool
 end

val firstn : nat -> 'a1 list -> 'a1 list

val skipn : nat -> 'a1 list -> 'a1 list

val repeat : 'a1 -> nat -> 'a1 list

type gslice = { cells : z list; slen : nat }

val gcap : gslice -> nat

val gdata : gslice -> z list

val write_at : z list -> nat -> z list -> z list

val encode_bytes : gslice -> z list -> gslice * bool

val requote : gslice -> nat -> z list -> gslice

val rollback_to : gslice -> nat -> gslice
