
type __ = Obj.t

(** val negb : bool -> bool **)

let negb = function
| true -> false
| false -> true

type nat =
| O
| S of nat

(** val fst : ('a1 * 'a2) -> 'a1 **)

let fst = function
| (x, _) -> x

(** val length : 'a1 list -> nat **)

let rec length = function
| [] -> O
| _ :: l' -> S (length l')

(** val app : 'a1 list -> 'a1 list -> 'a1 list **)

let rec app l m =
  match l with
  | [] -> m
  | a :: l1 -> a :: (app l1 m)

type comparison =
| Eq
| Lt
| Gt

(** val compOpp : comparison -> comparison **)

let compOpp = function
| Eq -> Eq
| Lt -> Gt
| Gt -> Lt

(** val id : __ -> __ **)

let id x =
  x

module Coq__1 = struct
 (** val add : nat -> nat -> nat **)
 let rec add n0 m =
   match n0 with
   | O -> m
   | S p -> S (add p m)
end
include Coq__1

type positive =
| XI of positive
| XO of positive
| XH

type n =
| N0
| Npos of positive

type z =
| Z0
| Zpos of positive
| Zneg of positive

module Nat =
 struct
  (** val eqb : nat -> nat -> bool **)

  let rec eqb n0 m =
    match n0 with
    | O -> (match m with
            | O -> true
            | S _ -> false)
    | S n' -> (match m with
               | O -> false
               | S m' -> eqb n' m')
 end

module Pos =
 struct
  type mask =
  | IsNul
  | IsPos of positive
  | IsNeg
 end

module Coq_Pos =
 struct
  (** val succ : positive -> positive **)

  let rec succ = function
  | XI p -> XO (succ p)
  | XO p -> XI p
  | XH -> XO XH

  (** val add : positive -> positive -> positive **)

  let rec add x y =
    match x with
    | XI p ->
      (match y with
       | XI q -> XO (add_carry p q)
       | XO q -> XI (add p q)
       | XH -> XO (succ p))
    | XO p ->
      (match y with
       | XI q -> XI (add p q)
       | XO q -> XO (add p q)
       | XH -> XI p)
    | XH -> (match y with
             | XI q -> XO (succ q)
             | XO q -> XI q
             | XH -> XO XH)

  (** val add_carry : positive -> positive -> positive **)

  and add_carry x y =
    match x with
    | XI p ->
      (match y with
       | XI q -> XI (add_carry p q)
       | XO q -> XO (add_carry p q)
       | XH -> XI (succ p))
    | XO p ->
      (match y with
       | XI q -> XO (add_carry p q)
       | XO q -> XI (add p q)
       | XH -> XO (succ p))
    | XH ->
      (match y with
       | XI q -> XI (succ q)
       | XO q -> XO (succ q)
       | XH -> XI XH)

  (** val pred_double : positive -> positive **)

  let rec pred_double = function
  | XI p -> XI (XO p)
  | XO p -> XI (pred_double p)
  | XH -> XH

  (** val pred_N : positive -> n **)

  let pred_N = function
  | XI p -> Npos (XO p)
  | XO p -> Npos (pred_double p)
  | XH -> N0

  type mask = Pos.mask =
  | IsNul
  | IsPos of positive
  | IsNeg

  (** val succ_double_mask : mask -> mask **)

  let succ_double_mask = function
  | IsNul -> IsPos XH
  | IsPos p -> IsPos (XI p)
  | IsNeg -> IsNeg

  (** val double_mask : mask -> mask **)

  let double_mask = function
  | IsPos p -> IsPos (XO p)
  | x0 -> x0

  (** val double_pred_mask : positive -> mask **)

  let double_pred_mask = function
  | XI p -> IsPos (XO (XO p))
  | XO p -> IsPos (XO (pred_double p))
  | XH -> IsNul

  (** val sub_mask : positive -> positive -> mask **)

  let rec sub_mask x y =
    match x with
    | XI p ->
      (match y with
       | XI q -> double_mask (sub_mask p q)
       | XO q -> succ_double_mask (sub_mask p q)
       | XH -> IsPos (XO p))
    | XO p ->
      (match y with
       | XI q -> succ_double_mask (sub_mask_carry p q)
       | XO q -> double_mask (sub_mask p q)
       | XH -> IsPos (pred_double p))
    | XH -> (match y with
             | XH -> IsNul
             | _ -> IsNeg)

  (** val sub_mask_carry : positive -> positive -> mask **)

  and sub_mask_carry x y =
    match x with
    | XI p ->
      (match y with
       | XI q -> succ_double_mask (sub_mask_carry p q)
       | XO q -> double_mask (sub_mask p q)
       | XH -> IsPos (pred_double p))
    | XO p ->
      (match y with
       | XI q -> double_mask (sub_mask_carry p q)
       | XO q -> succ_double_mask (sub_mask_carry p q)
       | XH -> double_pred_mask p)
    | XH -> IsNeg

  (** val mul : positive -> positive -> positive **)

  let rec mul x y =
    match x with
    | XI p -> add y (XO (mul p y))
    | XO p -> XO (mul p y)
    | XH -> y

  (** val iter : ('a1 -> 'a1) -> 'a1 -> positive -> 'a1 **)

  let rec iter f x = function
  | XI n' -> f (iter f (iter f x n') n')
  | XO n' -> iter f (iter f x n') n'
  | XH -> f x

  (** val div2 : positive -> positive **)

  let div2 = function
  | XI p0 -> p0
  | XO p0 -> p0
  | XH -> XH

  (** val div2_up : positive -> positive **)

  let div2_up = function
  | XI p0 -> succ p0
  | XO p0 -> p0
  | XH -> XH

  (** val compare_cont : comparison -> positive -> positive -> comparison **)

  let rec compare_cont r x y =
    match x with
    | XI p ->
      (match y with
       | XI q -> compare_cont r p q
       | XO q -> compare_cont Gt p q
       | XH -> Gt)
    | XO p ->
      (match y with
       | XI q -> compare_cont Lt p q
       | XO q -> compare_cont r p q
       | XH -> Gt)
    | XH -> (match y with
             | XH -> r
             | _ -> Lt)

  (** val compare : positive -> positive -> comparison **)

  let compare =
    compare_cont Eq

  (** val eqb : positive -> positive -> bool **)

  let rec eqb p q =
    match p with
    | XI p0 -> (match q with
                | XI q0 -> eqb p0 q0
                | _ -> false)
    | XO p0 -> (match q with
                | XO q0 -> eqb p0 q0
                | _ -> false)
    | XH -> (match q with
             | XH -> true
             | _ -> false)

  (** val coq_Nsucc_double : n -> n **)

  let coq_Nsucc_double = function
  | N0 -> Npos XH
  | Npos p -> Npos (XI p)

  (** val coq_Ndouble : n -> n **)

  let coq_Ndouble = function
  | N0 -> N0
  | Npos p -> Npos (XO p)

  (** val coq_lor : positive -> positive -> positive **)

  let rec coq_lor p q =
    match p with
    | XI p0 ->
      (match q with
       | XI q0 -> XI (coq_lor p0 q0)
       | XO q0 -> XI (coq_lor p0 q0)
       | XH -> p)
    | XO p0 ->
      (match q with
       | XI q0 -> XI (coq_lor p0 q0)
       | XO q0 -> XO (coq_lor p0 q0)
       | XH -> XI p0)
    | XH -> (match q with
             | XO q0 -> XI q0
             | _ -> q)

  (** val coq_land : positive -> positive -> n **)

  let rec coq_land p q =
    match p with
    | XI p0 ->
      (match q with
       | XI q0 -> coq_Nsucc_double (coq_land p0 q0)
       | XO q0 -> coq_Ndouble (coq_land p0 q0)
       | XH -> Npos XH)
    | XO p0 ->
      (match q with
       | XI q0 -> coq_Ndouble (coq_land p0 q0)
       | XO q0 -> coq_Ndouble (coq_land p0 q0)
       | XH -> N0)
    | XH -> (match q with
             | XO _ -> N0
             | _ -> Npos XH)

  (** val ldiff : positive -> positive -> n **)

  let rec ldiff p q =
    match p with
    | XI p0 ->
      (match q with
       | XI q0 -> coq_Ndouble (ldiff p0 q0)
       | XO q0 -> coq_Nsucc_double (ldiff p0 q0)
       | XH -> Npos (XO p0))
    | XO p0 ->
      (match q with
       | XI q0 -> coq_Ndouble (ldiff p0 q0)
       | XO q0 -> coq_Ndouble (ldiff p0 q0)
       | XH -> Npos p)
    | XH -> (match q with
             | XO _ -> Npos XH
             | _ -> N0)

  (** val coq_lxor : positive -> positive -> n **)

  let rec coq_lxor p q =
    match p with
    | XI p0 ->
      (match q with
       | XI q0 -> coq_Ndouble (coq_lxor p0 q0)
       | XO q0 -> coq_Nsucc_double (coq_lxor p0 q0)
       | XH -> Npos (XO p0))
    | XO p0 ->
      (match q with
       | XI q0 -> coq_Nsucc_double (coq_lxor p0 q0)
       | XO q0 -> coq_Ndouble (coq_lxor p0 q0)
       | XH -> Npos (XI p0))
    | XH ->
      (match q with
       | XI q0 -> Npos (XO q0)
       | XO q0 -> Npos (XI q0)
       | XH -> N0)

  (** val iter_op : ('a1 -> 'a1 -> 'a1) -> positive -> 'a1 -> 'a1 **)

  let rec iter_op op0 p a =
    match p with
    | XI p0 -> op0 a (iter_op op0 p0 (op0 a a))
    | XO p0 -> iter_op op0 p0 (op0 a a)
    | XH -> a

  (** val to_nat : positive -> nat **)

  let to_nat x =
    iter_op Coq__1.add x (S O)

  (** val of_succ_nat : nat -> positive **)

  let rec of_succ_nat = function
  | O -> XH
  | S x -> succ (of_succ_nat x)
 end

module N =
 struct
  (** val succ_double : n -> n **)

  let succ_double = function
  | N0 -> Npos XH
  | Npos p -> Npos (XI p)

  (** val double : n -> n **)

  let double = function
  | N0 -> N0
  | Npos p -> Npos (XO p)

  (** val succ_pos : n -> positive **)

  let succ_pos = function
  | N0 -> XH
  | Npos p -> Coq_Pos.succ p

  (** val sub : n -> n -> n **)

  let sub n0 m =
    match n0 with
    | N0 -> N0
    | Npos n' ->
      (match m with
       | N0 -> n0
       | Npos m' ->
         (match Coq_Pos.sub_mask n' m' with
          | Coq_Pos.IsPos p -> Npos p
          | _ -> N0))

  (** val compare : n -> n -> comparison **)

  let compare n0 m =
    match n0 with
    | N0 -> (match m with
             | N0 -> Eq
             | Npos _ -> Lt)
    | Npos n' -> (match m with
                  | N0 -> Gt
                  | Npos m' -> Coq_Pos.compare n' m')

  (** val leb : n -> n -> bool **)

  let leb x y =
    match compare x y with
    | Gt -> false
    | _ -> true

  (** val pos_div_eucl : positive -> n -> n * n **)

  let rec pos_div_eucl a b =
    match a with
    | XI a' ->
      let (q, r) = pos_div_eucl a' b in
      let r' = succ_double r in
      if leb b r' then ((succ_double q), (sub r' b)) else ((double q), r')
    | XO a' ->
      let (q, r) = pos_div_eucl a' b in
      let r' = double r in
      if leb b r' then ((succ_double q), (sub r' b)) else ((double q), r')
    | XH ->
      (match b with
       | N0 -> (N0, (Npos XH))
       | Npos p -> (match p with
                    | XH -> ((Npos XH), N0)
                    | _ -> (N0, (Npos XH))))

  (** val coq_lor : n -> n -> n **)

  let coq_lor n0 m =
    match n0 with
    | N0 -> m
    | Npos p -> (match m with
                 | N0 -> n0
                 | Npos q -> Npos (Coq_Pos.coq_lor p q))

  (** val coq_land : n -> n -> n **)

  let coq_land n0 m =
    match n0 with
    | N0 -> N0
    | Npos p -> (match m with
                 | N0 -> N0
                 | Npos q -> Coq_Pos.coq_land p q)

  (** val ldiff : n -> n -> n **)

  let ldiff n0 m =
    match n0 with
    | N0 -> N0
    | Npos p -> (match m with
                 | N0 -> n0
                 | Npos q -> Coq_Pos.ldiff p q)

  (** val coq_lxor : n -> n -> n **)

  let coq_lxor n0 m =
    match n0 with
    | N0 -> m
    | Npos p -> (match m with
                 | N0 -> n0
                 | Npos q -> Coq_Pos.coq_lxor p q)
 end

module Z =
 struct
  (** val double : z -> z **)

  let double = function
  | Z0 -> Z0
  | Zpos p -> Zpos (XO p)
  | Zneg p -> Zneg (XO p)

  (** val succ_double : z -> z **)

  let succ_double = function
  | Z0 -> Zpos XH
  | Zpos p -> Zpos (XI p)
  | Zneg p -> Zneg (Coq_Pos.pred_double p)

  (** val pred_double : z -> z **)

  let pred_double = function
  | Z0 -> Zneg XH
  | Zpos p -> Zpos (Coq_Pos.pred_double p)
  | Zneg p -> Zneg (XI p)

  (** val pos_sub : positive -> positive -> z **)

  let rec pos_sub x y =
    match x with
    | XI p ->
      (match y with
       | XI q -> double (pos_sub p q)
       | XO q -> succ_double (pos_sub p q)
       | XH -> Zpos (XO p))
    | XO p ->
      (match y with
       | XI q -> pred_double (pos_sub p q)
       | XO q -> double (pos_sub p q)
       | XH -> Zpos (Coq_Pos.pred_double p))
    | XH ->
      (match y with
       | XI q -> Zneg (XO q)
       | XO q -> Zneg (Coq_Pos.pred_double q)
       | XH -> Z0)

  (** val add : z -> z -> z **)

  let add x y =
    match x with
    | Z0 -> y
    | Zpos x' ->
      (match y with
       | Z0 -> x
       | Zpos y' -> Zpos (Coq_Pos.add x' y')
       | Zneg y' -> pos_sub x' y')
    | Zneg x' ->
      (match y with
       | Z0 -> x
       | Zpos y' -> pos_sub y' x'
       | Zneg y' -> Zneg (Coq_Pos.add x' y'))

  (** val opp : z -> z **)

  let opp = function
  | Z0 -> Z0
  | Zpos x0 -> Zneg x0
  | Zneg x0 -> Zpos x0

  (** val sub : z -> z -> z **)

  let sub m n0 =
    add m (opp n0)

  (** val mul : z -> z -> z **)

  let mul x y =
    match x with
    | Z0 -> Z0
    | Zpos x' ->
      (match y with
       | Z0 -> Z0
       | Zpos y' -> Zpos (Coq_Pos.mul x' y')
       | Zneg y' -> Zneg (Coq_Pos.mul x' y'))
    | Zneg x' ->
      (match y with
       | Z0 -> Z0
       | Zpos y' -> Zneg (Coq_Pos.mul x' y')
       | Zneg y' -> Zpos (Coq_Pos.mul x' y'))

  (** val pow_pos : z -> positive -> z **)

  let pow_pos z0 =
    Coq_Pos.iter (mul z0) (Zpos XH)

  (** val pow : z -> z -> z **)

  let pow x = function
  | Z0 -> Zpos XH
  | Zpos p -> pow_pos x p
  | Zneg _ -> Z0

  (** val compare : z -> z -> comparison **)

  let compare x y =
    match x with
    | Z0 -> (match y with
             | Z0 -> Eq
             | Zpos _ -> Lt
             | Zneg _ -> Gt)
    | Zpos x' -> (match y with
                  | Zpos y' -> Coq_Pos.compare x' y'
                  | _ -> Gt)
    | Zneg x' ->
      (match y with
       | Zneg y' -> compOpp (Coq_Pos.compare x' y')
       | _ -> Lt)

  (** val leb : z -> z -> bool **)

  let leb x y =
    match compare x y with
    | Gt -> false
    | _ -> true

  (** val ltb : z -> z -> bool **)

  let ltb x y =
    match compare x y with
    | Lt -> true
    | _ -> false

  (** val geb : z -> z -> bool **)

  let geb x y =
    match compare x y with
    | Lt -> false
    | _ -> true

  (** val gtb : z -> z -> bool **)

  let gtb x y =
    match compare x y with
    | Gt -> true
    | _ -> false

  (** val eqb : z -> z -> bool **)

  let eqb x y =
    match x with
    | Z0 -> (match y with
             | Z0 -> true
             | _ -> false)
    | Zpos p -> (match y with
                 | Zpos q -> Coq_Pos.eqb p q
                 | _ -> false)
    | Zneg p -> (match y with
                 | Zneg q -> Coq_Pos.eqb p q
                 | _ -> false)

  (** val to_nat : z -> nat **)

  let to_nat = function
  | Zpos p -> Coq_Pos.to_nat p
  | _ -> O

  (** val of_nat : nat -> z **)

  let of_nat = function
  | O -> Z0
  | S n1 -> Zpos (Coq_Pos.of_succ_nat n1)

  (** val of_N : n -> z **)

  let of_N = function
  | N0 -> Z0
  | Npos p -> Zpos p

  (** val pos_div_eucl : positive -> z -> z * z **)

  let rec pos_div_eucl a b =
    match a with
    | XI a' ->
      let (q, r) = pos_div_eucl a' b in
      let r' = add (mul (Zpos (XO XH)) r) (Zpos XH) in
      if ltb r' b
      then ((mul (Zpos (XO XH)) q), r')
      else ((add (mul (Zpos (XO XH)) q) (Zpos XH)), (sub r' b))
    | XO a' ->
      let (q, r) = pos_div_eucl a' b in
      let r' = mul (Zpos (XO XH)) r in
      if ltb r' b
      then ((mul (Zpos (XO XH)) q), r')
      else ((add (mul (Zpos (XO XH)) q) (Zpos XH)), (sub r' b))
    | XH -> if leb (Zpos (XO XH)) b then (Z0, (Zpos XH)) else ((Zpos XH), Z0)

  (** val div_eucl : z -> z -> z * z **)

  let div_eucl a b =
    match a with
    | Z0 -> (Z0, Z0)
    | Zpos a' ->
      (match b with
       | Z0 -> (Z0, a)
       | Zpos _ -> pos_div_eucl a' b
       | Zneg b' ->
         let (q, r) = pos_div_eucl a' (Zpos b') in
         (match r with
          | Z0 -> ((opp q), Z0)
          | _ -> ((opp (add q (Zpos XH))), (add b r))))
    | Zneg a' ->
      (match b with
       | Z0 -> (Z0, a)
       | Zpos _ ->
         let (q, r) = pos_div_eucl a' b in
         (match r with
          | Z0 -> ((opp q), Z0)
          | _ -> ((opp (add q (Zpos XH))), (sub b r)))
       | Zneg b' -> let (q, r) = pos_div_eucl a' (Zpos b') in (q, (opp r)))

  (** val modulo : z -> z -> z **)

  let modulo a b =
    let (_, r) = div_eucl a b in r

  (** val quotrem : z -> z -> z * z **)

  let quotrem a b =
    match a with
    | Z0 -> (Z0, Z0)
    | Zpos a0 ->
      (match b with
       | Z0 -> (Z0, a)
       | Zpos b0 ->
         let (q, r) = N.pos_div_eucl a0 (Npos b0) in ((of_N q), (of_N r))
       | Zneg b0 ->
         let (q, r) = N.pos_div_eucl a0 (Npos b0) in
         ((opp (of_N q)), (of_N r)))
    | Zneg a0 ->
      (match b with
       | Z0 -> (Z0, a)
       | Zpos b0 ->
         let (q, r) = N.pos_div_eucl a0 (Npos b0) in
         ((opp (of_N q)), (opp (of_N r)))
       | Zneg b0 ->
         let (q, r) = N.pos_div_eucl a0 (Npos b0) in
         ((of_N q), (opp (of_N r))))

  (** val quot : z -> z -> z **)

  let quot a b =
    fst (quotrem a b)

  (** val div2 : z -> z **)

  let div2 = function
  | Z0 -> Z0
  | Zpos p -> (match p with
               | XH -> Z0
               | _ -> Zpos (Coq_Pos.div2 p))
  | Zneg p -> Zneg (Coq_Pos.div2_up p)

  (** val shiftl : z -> z -> z **)

  let shiftl a = function
  | Z0 -> a
  | Zpos p -> Coq_Pos.iter (mul (Zpos (XO XH))) a p
  | Zneg p -> Coq_Pos.iter div2 a p

  (** val coq_lor : z -> z -> z **)

  let coq_lor a b =
    match a with
    | Z0 -> b
    | Zpos a0 ->
      (match b with
       | Z0 -> a
       | Zpos b0 -> Zpos (Coq_Pos.coq_lor a0 b0)
       | Zneg b0 -> Zneg (N.succ_pos (N.ldiff (Coq_Pos.pred_N b0) (Npos a0))))
    | Zneg a0 ->
      (match b with
       | Z0 -> a
       | Zpos b0 -> Zneg (N.succ_pos (N.ldiff (Coq_Pos.pred_N a0) (Npos b0)))
       | Zneg b0 ->
         Zneg
           (N.succ_pos (N.coq_land (Coq_Pos.pred_N a0) (Coq_Pos.pred_N b0))))

  (** val coq_land : z -> z -> z **)

  let coq_land a b =
    match a with
    | Z0 -> Z0
    | Zpos a0 ->
      (match b with
       | Z0 -> Z0
       | Zpos b0 -> of_N (Coq_Pos.coq_land a0 b0)
       | Zneg b0 -> of_N (N.ldiff (Npos a0) (Coq_Pos.pred_N b0)))
    | Zneg a0 ->
      (match b with
       | Z0 -> Z0
       | Zpos b0 -> of_N (N.ldiff (Npos b0) (Coq_Pos.pred_N a0))
       | Zneg b0 ->
         Zneg (N.succ_pos (N.coq_lor (Coq_Pos.pred_N a0) (Coq_Pos.pred_N b0))))

  (** val coq_lxor : z -> z -> z **)

  let coq_lxor a b =
    match a with
    | Z0 -> b
    | Zpos a0 ->
      (match b with
       | Z0 -> a
       | Zpos b0 -> of_N (Coq_Pos.coq_lxor a0 b0)
       | Zneg b0 ->
         Zneg (N.succ_pos (N.coq_lxor (Npos a0) (Coq_Pos.pred_N b0))))
    | Zneg a0 ->
      (match b with
       | Z0 -> a
       | Zpos b0 ->
         Zneg (N.succ_pos (N.coq_lxor (Coq_Pos.pred_N a0) (Npos b0)))
       | Zneg b0 -> of_N (N.coq_lxor (Coq_Pos.pred_N a0) (Coq_Pos.pred_N b0)))
 end

(** val nth : nat -> 'a1 list -> 'a1 -> 'a1 **)

let rec nth n0 l default =
  match n0 with
  | O -> (match l with
          | [] -> default
          | x :: _ -> x)
  | S m -> (match l with
            | [] -> default
            | _ :: t -> nth m t default)

(** val nth_error : 'a1 list -> nat -> 'a1 option **)

let rec nth_error l = function
| O -> (match l with
        | [] -> None
        | x :: _ -> Some x)
| S n1 -> (match l with
           | [] -> None
           | _ :: l0 -> nth_error l0 n1)

(** val flat_map : ('a1 -> 'a2 list) -> 'a1 list -> 'a2 list **)

let rec flat_map f = function
| [] -> []
| x :: t -> app (f x) (flat_map f t)

(** val firstn : nat -> 'a1 list -> 'a1 list **)

let rec firstn n0 l =
  match n0 with
  | O -> []
  | S n1 -> (match l with
             | [] -> []
             | a :: l0 -> a :: (firstn n1 l0))

(** val skipn : nat -> 'a1 list -> 'a1 list **)

let rec skipn n0 l =
  match n0 with
  | O -> l
  | S n1 -> (match l with
             | [] -> []
             | _ :: l0 -> skipn n1 l0)

(** val w8 : z -> z **)

let w8 x =
  Z.modulo x (Z.pow (Zpos (XO XH)) (Zpos (XO (XO (XO XH)))))

(** val w32 : z -> z **)

let w32 x =
  Z.modulo x (Z.pow (Zpos (XO XH)) (Zpos (XO (XO (XO (XO (XO XH)))))))

(** val w64 : z -> z **)

let w64 x =
  Z.modulo x (Z.pow (Zpos (XO XH)) (Zpos (XO (XO (XO (XO (XO (XO XH))))))))

(** val s32 : z -> z **)

let s32 x =
  let y = w32 x in
  if Z.ltb y (Z.pow (Zpos (XO XH)) (Zpos (XI (XI (XI (XI XH))))))
  then y
  else Z.sub y (Z.pow (Zpos (XO XH)) (Zpos (XO (XO (XO (XO (XO XH)))))))

(** val s64 : z -> z **)

let s64 x =
  let y = w64 x in
  if Z.ltb y (Z.pow (Zpos (XO XH)) (Zpos (XI (XI (XI (XI (XI XH)))))))
  then y
  else Z.sub y (Z.pow (Zpos (XO XH)) (Zpos (XO (XO (XO (XO (XO (XO XH))))))))

(** val add64 : z -> z -> z **)

let add64 a b =
  w64 (Z.add a b)

(** val sub64 : z -> z -> z **)

let sub64 a b =
  w64 (Z.sub a b)

(** val mul64 : z -> z -> z **)

let mul64 a b =
  w64 (Z.mul a b)

(** val and64 : z -> z -> z **)

let and64 =
  Z.coq_land

(** val or64 : z -> z -> z **)

let or64 =
  Z.coq_lor

(** val xor64 : z -> z -> z **)

let xor64 =
  Z.coq_lxor

(** val not64 : z -> z **)

let not64 a =
  Z.sub
    (Z.sub (Z.pow (Zpos (XO XH)) (Zpos (XO (XO (XO (XO (XO (XO XH))))))))
      (Zpos XH)) a

(** val add32 : z -> z -> z **)

let add32 a b =
  w32 (Z.add a b)

(** val sub32 : z -> z -> z **)

let sub32 a b =
  w32 (Z.sub a b)

(** val mul32 : z -> z -> z **)

let mul32 a b =
  w32 (Z.mul a b)

(** val and32 : z -> z -> z **)

let and32 =
  Z.coq_land

(** val or32 : z -> z -> z **)

let or32 =
  Z.coq_lor

(** val not32 : z -> z **)

let not32 a =
  Z.sub
    (Z.sub (Z.pow (Zpos (XO XH)) (Zpos (XO (XO (XO (XO (XO XH))))))) (Zpos
      XH)) a

(** val shl32 : z -> z -> z **)

let shl32 a n0 =
  if Z.ltb n0 (Zpos (XO (XO (XO (XO (XO XH))))))
  then w32 (Z.shiftl a n0)
  else Z0

(** val sub8 : z -> z -> z **)

let sub8 a b =
  w8 (Z.sub a b)

(** val addi64 : z -> z -> z **)

let addi64 a b =
  s64 (Z.add a b)

(** val divi64 : z -> z -> z **)

let divi64 a b =
  s64 (Z.quot a b)

type bytes = z list

(** val len : 'a1 list -> z **)

let len l =
  Z.of_nat (length l)

(** val at_ : bytes -> z -> z **)

let at_ b i =
  nth (Z.to_nat i) b Z0

(** val slice_from : 'a1 list -> z -> 'a1 list **)

let slice_from b i =
  skipn (Z.to_nat i) b

(** val slice_to : 'a1 list -> z -> 'a1 list **)

let slice_to b j =
  firstn (Z.to_nat j) b

(** val slice : 'a1 list -> z -> z -> 'a1 list **)

let slice b i j =
  firstn (Z.to_nat (Z.sub j i)) (skipn (Z.to_nat i) b)

(** val le_load : nat -> bytes -> z **)

let rec le_load n0 b =
  match n0 with
  | O -> Z0
  | S n' ->
    (match b with
     | [] -> Z0
     | x :: r ->
       Z.add x
         (Z.mul (Zpos (XO (XO (XO (XO (XO (XO (XO (XO XH)))))))))
           (le_load n' r)))

(** val le64 : bytes -> z **)

let le64 b =
  le_load (S (S (S (S (S (S (S (S O)))))))) b

(** val le32 : bytes -> z **)

let le32 b =
  le_load (S (S (S (S O)))) b

(** val le16 : bytes -> z **)

let le16 b =
  le_load (S (S O)) b

(** val isnil : 'a1 option -> bool **)

let isnil = function
| Some _ -> false
| None -> true

(** val obind : 'a1 option -> ('a1 -> 'a2 option) -> 'a2 option **)

let obind o f =
  match o with
  | Some a -> f a
  | None -> None

(** val ctz_pos : positive -> z **)

let rec ctz_pos = function
| XO p' -> Z.add (Zpos XH) (ctz_pos p')
| _ -> Z0

(** val ctz : z -> z -> z **)

let ctz dflt = function
| Z0 -> dflt
| Zpos p -> ctz_pos p
| Zneg _ -> Z0

type json_err =
| JErrSyntax
| JErrUnexpectedEOF
| JErrType
| JErrOverflow
| JErrOther

(** val index_byte_from : z -> bytes -> z -> z **)

let rec index_byte_from i b c =
  match b with
  | [] -> Zneg XH
  | x :: r -> if Z.eqb x c then i else index_byte_from (Z.add i (Zpos XH)) r c

(** val index_byte : bytes -> z -> z **)

let index_byte b c =
  index_byte_from Z0 b c

(** val ctz64 : z -> z **)

let ctz64 x =
  ctz (Zpos (XO (XO (XO (XO (XO (XO XH))))))) x

(** val asm_hasLessConstL64 : z **)

let asm_hasLessConstL64 =
  Zpos (XI (XO (XO (XO (XO (XO (XO (XO (XI (XO (XO (XO (XO (XO (XO (XO (XI
    (XO (XO (XO (XO (XO (XO (XO (XI (XO (XO (XO (XO (XO (XO (XO (XI (XO (XO
    (XO (XO (XO (XO (XO (XI (XO (XO (XO (XO (XO (XO (XO (XI (XO (XO (XO (XO
    (XO (XO (XO XH))))))))))))))))))))))))))))))))))))))))))))))))))))))))

(** val asm_hasLessConstR64 : z **)

let asm_hasLessConstR64 =
  Zpos (XO (XO (XO (XO (XO (XO (XO (XI (XO (XO (XO (XO (XO (XO (XO (XI (XO
    (XO (XO (XO (XO (XO (XO (XI (XO (XO (XO (XO (XO (XO (XO (XI (XO (XO (XO
    (XO (XO (XO (XO (XI (XO (XO (XO (XO (XO (XO (XO (XI (XO (XO (XO (XO (XO
    (XO (XO (XI (XO (XO (XO (XO (XO (XO (XO
    XH)))))))))))))))))))))))))))))))))))))))))))))))))))))))))))))))

(** val asm_hasLessConstL32 : z **)

let asm_hasLessConstL32 =
  Zpos (XI (XO (XO (XO (XO (XO (XO (XO (XI (XO (XO (XO (XO (XO (XO (XO (XI
    (XO (XO (XO (XO (XO (XO (XO XH))))))))))))))))))))))))

(** val asm_hasLessConstR32 : z **)

let asm_hasLessConstR32 =
  Zpos (XO (XO (XO (XO (XO (XO (XO (XI (XO (XO (XO (XO (XO (XO (XO (XI (XO
    (XO (XO (XO (XO (XO (XO (XI (XO (XO (XO (XO (XO (XO (XO
    XH)))))))))))))))))))))))))))))))

(** val asm_hasMoreConstL64 : z **)

let asm_hasMoreConstL64 =
  Zpos (XI (XO (XO (XO (XO (XO (XO (XO (XI (XO (XO (XO (XO (XO (XO (XO (XI
    (XO (XO (XO (XO (XO (XO (XO (XI (XO (XO (XO (XO (XO (XO (XO (XI (XO (XO
    (XO (XO (XO (XO (XO (XI (XO (XO (XO (XO (XO (XO (XO (XI (XO (XO (XO (XO
    (XO (XO (XO XH))))))))))))))))))))))))))))))))))))))))))))))))))))))))

(** val asm_hasMoreConstR64 : z **)

let asm_hasMoreConstR64 =
  Zpos (XO (XO (XO (XO (XO (XO (XO (XI (XO (XO (XO (XO (XO (XO (XO (XI (XO
    (XO (XO (XO (XO (XO (XO (XI (XO (XO (XO (XO (XO (XO (XO (XI (XO (XO (XO
    (XO (XO (XO (XO (XI (XO (XO (XO (XO (XO (XO (XO (XI (XO (XO (XO (XO (XO
    (XO (XO (XI (XO (XO (XO (XO (XO (XO (XO
    XH)))))))))))))))))))))))))))))))))))))))))))))))))))))))))))))))

(** val asm_hasMoreConstL32 : z **)

let asm_hasMoreConstL32 =
  Zpos (XI (XO (XO (XO (XO (XO (XO (XO (XI (XO (XO (XO (XO (XO (XO (XO (XI
    (XO (XO (XO (XO (XO (XO (XO XH))))))))))))))))))))))))

(** val asm_hasMoreConstR32 : z **)

let asm_hasMoreConstR32 =
  Zpos (XO (XO (XO (XO (XO (XO (XO (XI (XO (XO (XO (XO (XO (XO (XO (XI (XO
    (XO (XO (XO (XO (XO (XO (XI (XO (XO (XO (XO (XO (XO (XO
    XH)))))))))))))))))))))))))))))))

(** val asm_hasLess64 : z -> z -> bool **)

let asm_hasLess64 x n0 =
  negb
    (Z.eqb
      (and64 (and64 (sub64 x (mul64 asm_hasLessConstL64 n0)) (not64 x))
        asm_hasLessConstR64) Z0)

(** val asm_hasLess32 : z -> z -> bool **)

let asm_hasLess32 x n0 =
  negb
    (Z.eqb
      (and32 (and32 (sub32 x (mul32 asm_hasLessConstL32 n0)) (not32 x))
        asm_hasLessConstR32) Z0)

(** val asm_hasMore64 : z -> z -> bool **)

let asm_hasMore64 x n0 =
  negb
    (Z.eqb
      (and64
        (or64
          (add64 x
            (mul64 asm_hasMoreConstL64
              (sub64 (Zpos (XI (XI (XI (XI (XI (XI XH))))))) n0))) x)
        asm_hasMoreConstR64) Z0)

(** val asm_hasMore32 : z -> z -> bool **)

let asm_hasMore32 x n0 =
  negb
    (Z.eqb
      (and32
        (or32
          (add32 x
            (mul32 asm_hasMoreConstL32
              (sub32 (Zpos (XI (XI (XI (XI (XI (XI XH))))))) n0))) x)
        asm_hasMoreConstR32) Z0)

(** val asm_ValidPrintString : nat -> bytes -> bool option **)

let asm_ValidPrintString fuel s =
  let i = Z0 in
  let n0 = w64 (len s) in
  let k4_ = fun i0 ->
    let k3_ = fun i1 ->
      if Z.eqb i1 n0
      then Some true
      else let p = slice_from s i1 in
           let k1_ = fun x -> Some
             (negb
               ((||) (asm_hasLess32 x (Zpos (XO (XO (XO (XO (XO XH)))))))
                 (asm_hasMore32 x (Zpos (XO (XI (XI (XI (XI (XI XH))))))))))
           in
           let tag2_ = sub64 n0 i1 in
           if Z.eqb tag2_ (Zpos (XI XH))
           then let x =
                  or32
                    (or32 (Zpos (XO (XO (XO (XO (XO (XO (XO (XO (XO (XO (XO
                      (XO (XO (XO (XO (XO (XO (XO (XO (XO (XO (XO (XO (XO (XO
                      (XO (XO (XO (XO XH))))))))))))))))))))))))))))))
                      (le16 p))
                    (shl32 (at_ p (Zpos (XO XH))) (Zpos (XO (XO (XO (XO
                      XH))))))
                in
                k1_ x
           else if Z.eqb tag2_ (Zpos (XO XH))
                then let x =
                       or32 (Zpos (XO (XO (XO (XO (XO (XO (XO (XO (XO (XO (XO
                         (XO (XO (XO (XO (XO (XO (XO (XO (XO (XO (XI (XO (XO
                         (XO (XO (XO (XO (XO XH))))))))))))))))))))))))))))))
                         (le16 p)
                     in
                     k1_ x
                else if Z.eqb tag2_ (Zpos XH)
                     then let x =
                            or32 (Zpos (XO (XO (XO (XO (XO (XO (XO (XO (XO
                              (XO (XO (XO (XO (XI (XO (XO (XO (XO (XO (XO (XO
                              (XI (XO (XO (XO (XO (XO (XO (XO
                              XH)))))))))))))))))))))))))))))) (at_ p Z0)
                          in
                          k1_ x
                     else Some true
    in
    if Z.leb (add64 i0 (Zpos (XO (XO XH)))) n0
    then if (||)
              (asm_hasLess32 (le32 (slice_from s i0)) (Zpos (XO (XO (XO (XO
                (XO XH)))))))
              (asm_hasMore32 (le32 (slice_from s i0)) (Zpos (XO (XI (XI (XI
                (XI (XI XH))))))))
         then Some false
         else let i1 = add64 i0 (Zpos (XO (XO XH))) in k3_ i1
    else k3_ i0
  in
  let rec loop5_ f6_ i0 =
    match f6_ with
    | O -> None
    | S f7_ ->
      if Z.leb (add64 i0 (Zpos (XO (XO (XO XH))))) n0
      then if (||)
                (asm_hasLess64 (le64 (slice_from s i0)) (Zpos (XO (XO (XO (XO
                  (XO XH)))))))
                (asm_hasMore64 (le64 (slice_from s i0)) (Zpos (XO (XI (XI (XI
                  (XI (XI XH))))))))
           then Some false
           else let i1 = add64 i0 (Zpos (XO (XO (XO XH)))) in loop5_ f7_ i1
      else k4_ i0
  in loop5_ fuel i

(** val asm_ValidPrint : nat -> bytes -> bool option **)

let asm_ValidPrint fuel b =
  obind (asm_ValidPrintString fuel (Obj.magic id b)) (fun r1_ -> Some r1_)

(** val run_fuel : bool option -> bool **)

let run_fuel = function
| Some r -> r
| None -> false

(** val asmt_ValidPrint : bytes -> bool **)

let asmt_ValidPrint b =
  run_fuel (asm_ValidPrint (S (length b)) b)

(** val ascii_ValidPrint : bytes -> bool **)

let ascii_ValidPrint =
  asmt_ValidPrint

(** val json_UseNumber : z **)

let json_UseNumber =
  Zpos (XO XH)

(** val json_DontCopyString : z **)

let json_DontCopyString =
  Zpos (XO (XO XH))

(** val json_DontCopyNumber : z **)

let json_DontCopyNumber =
  Zpos (XO (XO (XO XH)))

(** val json_DontCopyRawMessage : z **)

let json_DontCopyRawMessage =
  Zpos (XO (XO (XO (XO XH))))

(** val json_validAsciiPrint : z **)

let json_validAsciiPrint =
  Zpos (XO (XO (XO (XO (XO (XO (XO (XO (XO (XO (XO (XO (XO (XO (XO (XO (XO
    (XO (XO (XO (XO (XO (XO (XO (XO (XO (XO (XO XH))))))))))))))))))))))))))))

(** val json_noBackslash : z **)

let json_noBackslash =
  Zpos (XO (XO (XO (XO (XO (XO (XO (XO (XO (XO (XO (XO (XO (XO (XO (XO (XO
    (XO (XO (XO (XO (XO (XO (XO (XO (XO (XO (XO (XO
    XH)))))))))))))))))))))))))))))

(** val json_Undefined : z **)

let json_Undefined =
  Z0

(** val json_String : z **)

let json_String =
  Zpos (XO (XO (XO XH)))

(** val json_Unescaped : z **)

let json_Unescaped =
  Zpos (XI (XO (XO XH)))

(** val json_ParseFlags_has : z -> z -> bool **)

let json_ParseFlags_has flags f =
  negb (Z.eqb (and32 flags f) Z0)

(** val json_decoder_parseUintHex :
    z -> bytes -> (z * bytes) * json_err option **)

let json_decoder_parseUintHex _ b =
  let value = Z0 in
  let count = Z0 in
  if Z.eqb (len b) Z0
  then ((Z0, b), (Some JErrSyntax))
  else let k1_ = fun value0 count0 -> ((value0, (slice_from b count0)), None)
       in
       let rec loop2_ l3_ i4_ value0 count0 =
         match l3_ with
         | [] -> k1_ value0 count0
         | h5_ :: t6_ ->
           let k7_ = fun x ->
             if Z.gtb value0 (Zpos (XI (XI (XI (XI (XI (XI (XI (XI (XI (XI
                  (XI (XI (XI (XI (XI (XI (XI (XI (XI (XI (XI (XI (XI (XI (XI
                  (XI (XI (XI (XI (XI (XI (XI (XI (XI (XI (XI (XI (XI (XI (XI
                  (XI (XI (XI (XI (XI (XI (XI (XI (XI (XI (XI (XI (XI (XI (XI
                  (XI (XI (XI (XI
                  XH))))))))))))))))))))))))))))))))))))))))))))))))))))))))))))
             then ((Z0, b), (Some JErrSyntax))
             else let value1 = mul64 value0 (Zpos (XO (XO (XO (XO XH))))) in
                  if Z.gtb value1
                       (sub64 (Zpos (XI (XI (XI (XI (XI (XI (XI (XI (XI (XI
                         (XI (XI (XI (XI (XI (XI (XI (XI (XI (XI (XI (XI (XI
                         (XI (XI (XI (XI (XI (XI (XI (XI (XI (XI (XI (XI (XI
                         (XI (XI (XI (XI (XI (XI (XI (XI (XI (XI (XI (XI (XI
                         (XI (XI (XI (XI (XI (XI (XI (XI (XI (XI (XI (XI (XI
                         (XI
                         XH))))))))))))))))))))))))))))))))))))))))))))))))))))))))))))))))
                         x)
                  then ((Z0, b), (Some JErrSyntax))
                  else let value2 = add64 value1 x in
                       let count1 = addi64 count0 (Zpos XH) in
                       loop2_ t6_ (Z.add i4_ (Zpos XH)) value2 count1
           in
           if (&&) (Z.geb h5_ (Zpos (XO (XO (XO (XO (XI XH)))))))
                (Z.leb h5_ (Zpos (XI (XO (XO (XI (XI XH)))))))
           then let x = sub8 h5_ (Zpos (XO (XO (XO (XO (XI XH)))))) in k7_ x
           else if (&&) (Z.geb h5_ (Zpos (XI (XO (XO (XO (XO (XO XH))))))))
                     (Z.leb h5_ (Zpos (XO (XI (XI (XO (XO (XO XH))))))))
                then let x =
                       add64
                         (sub8 h5_ (Zpos (XI (XO (XO (XO (XO (XO XH))))))))
                         (Zpos (XO (XI (XO XH))))
                     in
                     k7_ x
                else if (&&)
                          (Z.geb h5_ (Zpos (XI (XO (XO (XO (XO (XI XH))))))))
                          (Z.leb h5_ (Zpos (XO (XI (XI (XO (XO (XI XH))))))))
                     then let x =
                            add64
                              (sub8 h5_ (Zpos (XI (XO (XO (XO (XO (XI
                                XH)))))))) (Zpos (XO (XI (XO XH))))
                          in
                          k7_ x
                     else if Z.eqb i4_ Z0
                          then ((Z0, b), (Some JErrSyntax))
                          else k1_ value0 count0
       in loop2_ b Z0 value count

(** val json_decoder_parseUnicode :
    z -> bytes -> (z * z) * json_err option **)

let json_decoder_parseUnicode d b =
  if Z.ltb (len b) (Zpos (XO (XO XH)))
  then ((Z0, (len b)), (Some JErrSyntax))
  else let (p, err) =
         json_decoder_parseUintHex d (slice_to b (Zpos (XO (XO XH))))
       in
       let (u, r) = p in
       if negb (isnil err)
       then ((Z0, (Zpos (XO (XO XH)))), (Some JErrSyntax))
       else if negb (Z.eqb (len r) Z0)
            then ((Z0, (Zpos (XO (XO XH)))), (Some JErrSyntax))
            else (((s32 u), (Zpos (XO (XO XH)))), None)

(** val json_decoder_parseString :
    nat -> z -> bytes -> (((bytes * bytes) * z) * json_err option) option **)

let json_decoder_parseString fuel d b =
  let k8_ = fun n_1 ->
    if (&&)
         ((||) (json_ParseFlags_has (Obj.magic id d) json_noBackslash)
           (Z.ltb
             (index_byte (slice b (Zpos XH) n_1) (Zpos (XO (XO (XI (XI (XI
               (XO XH)))))))) Z0))
         ((||) (json_ParseFlags_has (Obj.magic id d) json_validAsciiPrint)
           (ascii_ValidPrint (slice b (Zpos XH) n_1)))
    then Some ((((slice_to b n_1), (slice_from b n_1)), json_Unescaped), None)
    else let i = Zpos XH in
         let k1_ = fun _ -> Some ((([], (slice_from b (len b))),
           json_Undefined), (Some JErrSyntax))
         in
         let rec loop2_ f3_ i0 =
           match f3_ with
           | O -> None
           | S f4_ ->
             if Z.ltb i0 (len b)
             then let k5_ = fun i1 ->
                    let i2 = addi64 i1 (Zpos XH) in loop2_ f4_ i2
                  in
                  let tag6_ = at_ b i0 in
                  if Z.eqb tag6_ (Zpos (XO (XO (XI (XI (XI (XO XH)))))))
                  then let i1 = addi64 i0 (Zpos XH) in
                       if Z.ltb i1 (len b)
                       then let tag7_ = at_ b i1 in
                            if (||)
                                 ((||)
                                   ((||)
                                     ((||)
                                       ((||)
                                         ((||)
                                           ((||)
                                             (Z.eqb tag7_ (Zpos (XO (XI (XO
                                               (XO (XO XH)))))))
                                             (Z.eqb tag7_ (Zpos (XO (XO (XI
                                               (XI (XI (XO XH)))))))))
                                           (Z.eqb tag7_ (Zpos (XI (XI (XI (XI
                                             (XO XH))))))))
                                         (Z.eqb tag7_ (Zpos (XO (XI (XI (XI
                                           (XO (XI XH)))))))))
                                       (Z.eqb tag7_ (Zpos (XO (XI (XO (XO (XI
                                         (XI XH)))))))))
                                     (Z.eqb tag7_ (Zpos (XO (XO (XI (XO (XI
                                       (XI XH)))))))))
                                   (Z.eqb tag7_ (Zpos (XO (XI (XI (XO (XO (XI
                                     XH)))))))))
                                 (Z.eqb tag7_ (Zpos (XO (XI (XO (XO (XO (XI
                                   XH))))))))
                            then k5_ i1
                            else if Z.eqb tag7_ (Zpos (XI (XO (XI (XO (XI (XI
                                      XH)))))))
                                 then let (p, err) =
                                        json_decoder_parseUnicode d
                                          (slice_from b (addi64 i1 (Zpos XH)))
                                      in
                                      let (_, n0) = p in
                                      if negb (isnil err)
                                      then Some ((([],
                                             (slice_from b
                                               (addi64 (addi64 i1 (Zpos XH))
                                                 n0))), json_Undefined), err)
                                      else let i2 = addi64 i1 n0 in k5_ i2
                                 else Some ((([], b), json_Undefined), (Some
                                        JErrSyntax))
                       else k5_ i1
                  else if Z.eqb tag6_ (Zpos (XO (XI (XO (XO (XO XH))))))
                       then Some ((((slice_to b (addi64 i0 (Zpos XH))),
                              (slice_from b (addi64 i0 (Zpos XH)))),
                              json_String), None)
                       else if Z.ltb (at_ b i0) (Zpos (XO (XO (XO (XO (XO
                                 XH))))))
                            then Some ((([], b), json_Undefined), (Some
                                   JErrSyntax))
                            else k5_ i0
             else k1_ i0
         in loop2_ fuel i
  in
  if Z.ltb (len b) (Zpos (XO XH))
  then Some ((([], (slice_from b (len b))), json_Undefined), (Some
         JErrUnexpectedEOF))
  else if negb (Z.eqb (at_ b Z0) (Zpos (XO (XI (XO (XO (XO XH)))))))
       then Some ((([], b), json_Undefined), (Some JErrSyntax))
       else let n_1 = Z0 in
            let k9_ = fun _ ->
              let n_2 =
                addi64
                  (index_byte (slice_from b (Zpos XH)) (Zpos (XO (XI (XO (XO
                    (XO XH))))))) (Zpos (XO XH))
              in
              if Z.leb n_2 (Zpos XH)
              then Some ((([], (slice_from b (len b))), json_Undefined),
                     (Some JErrSyntax))
              else k8_ n_2
            in
            if Z.geb (len b) (Zpos (XI (XO (XO XH))))
            then let u =
                   xor64 (le64 (slice_from b (Zpos XH))) (Zpos (XO (XI (XO
                     (XO (XO (XI (XO (XO (XO (XI (XO (XO (XO (XI (XO (XO (XO
                     (XI (XO (XO (XO (XI (XO (XO (XO (XI (XO (XO (XO (XI (XO
                     (XO (XO (XI (XO (XO (XO (XI (XO (XO (XO (XI (XO (XO (XO
                     (XI (XO (XO (XO (XI (XO (XO (XO (XI (XO (XO (XO (XI (XO
                     (XO (XO
                     XH))))))))))))))))))))))))))))))))))))))))))))))))))))))))))))))
                 in
                 let mask_1 =
                   and64
                     (and64
                       (sub64 u (Zpos (XI (XO (XO (XO (XO (XO (XO (XO (XI (XO
                         (XO (XO (XO (XO (XO (XO (XI (XO (XO (XO (XO (XO (XO
                         (XO (XI (XO (XO (XO (XO (XO (XO (XO (XI (XO (XO (XO
                         (XO (XO (XO (XO (XI (XO (XO (XO (XO (XO (XO (XO (XI
                         (XO (XO (XO (XO (XO (XO (XO
                         XH))))))))))))))))))))))))))))))))))))))))))))))))))))))))))
                       (not64 u)) (Zpos (XO (XO (XO (XO (XO (XO (XO (XI (XO
                     (XO (XO (XO (XO (XO (XO (XI (XO (XO (XO (XO (XO (XO (XO
                     (XI (XO (XO (XO (XO (XO (XO (XO (XI (XO (XO (XO (XO (XO
                     (XO (XO (XI (XO (XO (XO (XO (XO (XO (XO (XI (XO (XO (XO
                     (XO (XO (XO (XO (XI (XO (XO (XO (XO (XO (XO (XO
                     XH))))))))))))))))))))))))))))))))))))))))))))))))))))))))))))))))
                 in
                 if negb (Z.eqb mask_1 Z0)
                 then let n_2 =
                        addi64
                          (divi64 (ctz64 mask_1) (Zpos (XO (XO (XO XH)))))
                          (Zpos (XO XH))
                      in
                      k8_ n_2
                 else if Z.geb (len b) (Zpos (XI (XO (XO (XO XH)))))
                      then let u0 =
                             xor64
                               (le64 (slice_from b (Zpos (XI (XO (XO XH))))))
                               (Zpos (XO (XI (XO (XO (XO (XI (XO (XO (XO (XI
                               (XO (XO (XO (XI (XO (XO (XO (XI (XO (XO (XO
                               (XI (XO (XO (XO (XI (XO (XO (XO (XI (XO (XO
                               (XO (XI (XO (XO (XO (XI (XO (XO (XO (XI (XO
                               (XO (XO (XI (XO (XO (XO (XI (XO (XO (XO (XI
                               (XO (XO (XO (XI (XO (XO (XO
                               XH))))))))))))))))))))))))))))))))))))))))))))))))))))))))))))))
                           in
                           let mask0 =
                             and64
                               (and64
                                 (sub64 u0 (Zpos (XI (XO (XO (XO (XO (XO (XO
                                   (XO (XI (XO (XO (XO (XO (XO (XO (XO (XI
                                   (XO (XO (XO (XO (XO (XO (XO (XI (XO (XO
                                   (XO (XO (XO (XO (XO (XI (XO (XO (XO (XO
                                   (XO (XO (XO (XI (XO (XO (XO (XO (XO (XO
                                   (XO (XI (XO (XO (XO (XO (XO (XO (XO
                                   XH))))))))))))))))))))))))))))))))))))))))))))))))))))))))))
                                 (not64 u0)) (Zpos (XO (XO (XO (XO (XO (XO
                               (XO (XI (XO (XO (XO (XO (XO (XO (XO (XI (XO
                               (XO (XO (XO (XO (XO (XO (XI (XO (XO (XO (XO
                               (XO (XO (XO (XI (XO (XO (XO (XO (XO (XO (XO
                               (XI (XO (XO (XO (XO (XO (XO (XO (XI (XO (XO
                               (XO (XO (XO (XO (XO (XI (XO (XO (XO (XO (XO
                               (XO (XO
                               XH))))))))))))))))))))))))))))))))))))))))))))))))))))))))))))))))
                           in
                           if negb (Z.eqb mask0 Z0)
                           then let n_2 =
                                  addi64
                                    (divi64 (ctz64 mask0) (Zpos (XO (XO (XO
                                      XH))))) (Zpos (XO (XI (XO XH))))
                                in
                                k8_ n_2
                           else k9_ n_1
                      else k9_ n_1
            else k9_ n_1

type prov =
| PSrc
| PFresh
| PEmpty

type buf =
| BSrc
| BNew

type lkind =
| KStr
| KNum
| KRaw
| KBytes
| KKey
| KQStr
| KQNum
| KIStr
| KINum
| KIKey
| KTok

(** val has : z -> z -> bool **)

let has =
  json_ParseFlags_has

(** val tok_unescaped : bytes -> bool **)

let tok_unescaped tok =
  match json_decoder_parseString (S (length tok)) Z0 tok with
  | Some p ->
    let (p0, o) = p in
    let (_, k) = p0 in
    (match o with
     | Some _ -> false
     | None -> Z.eqb k json_Unescaped)
  | None -> false

(** val tok_empty : bytes -> bool **)

let tok_empty tok =
  Z.leb (len tok) (Zpos (XO XH))

(** val unquote : buf -> bytes -> buf * bool **)

let unquote w tok =
  if tok_unescaped tok then (w, false) else (BNew, true)

(** val prov_of_buf : buf -> prov **)

let prov_of_buf = function
| BSrc -> PSrc
| BNew -> PFresh

(** val decode_string : z -> buf -> bytes -> prov **)

let decode_string flags w tok =
  let (s, new0) = unquote w tok in
  if tok_empty tok
  then PEmpty
  else if (||) new0 (has flags json_DontCopyString)
       then prov_of_buf s
       else PFresh

(** val decode_number : z -> buf -> prov **)

let decode_number flags w =
  if has flags json_DontCopyNumber then prov_of_buf w else PFresh

(** val decode_raw : z -> buf -> prov **)

let decode_raw flags w =
  if has flags json_DontCopyRawMessage then prov_of_buf w else PFresh

(** val decode_bytes : bytes -> prov **)

let decode_bytes tok =
  if tok_empty tok then PEmpty else PFresh

(** val from_string : buf -> bytes -> buf **)

let from_string w outer =
  fst (unquote w outer)

(** val tok_string : bytes -> prov **)

let tok_string tok =
  if (&&) (tok_unescaped tok) (Z.ltb (Zpos XH) (len tok))
  then if tok_empty tok then PEmpty else PSrc
  else if tok_empty tok then PEmpty else PFresh

type gtree =
| GStr of bytes
| GNum of bytes
| GLit of bytes
| GArr of gtree list
| GObj of (bytes * gtree) list

type dtree =
| DStr of bytes
| DNum of bytes
| DBytes of bytes
| DSc of bytes
| DQStr of bytes * bytes
| DQNum of bytes * bytes
| DRaw of gtree
| DAny of gtree
| DList of dtree list
| DMap of ((bool * bytes) * dtree) list
| DStruct of dtree list

(** val g_leaves : z -> buf -> gtree -> (lkind * prov) list **)

let rec g_leaves flags w = function
| GStr tok -> (KIStr, (decode_string flags w tok)) :: []
| GNum _ ->
  if has flags json_UseNumber
  then (KINum, (decode_number flags w)) :: []
  else []
| GLit _ -> []
| GArr kids -> flat_map (g_leaves flags w) kids
| GObj ents ->
  flat_map (fun e ->
    let (k, g') = e in
    (KIKey, (decode_string flags w k)) :: (g_leaves flags w g')) ents

(** val d_leaves : z -> buf -> dtree -> (lkind * prov) list **)

let rec d_leaves flags w = function
| DStr tok -> (KStr, (decode_string flags w tok)) :: []
| DNum _ -> (KNum, (decode_number flags w)) :: []
| DBytes tok -> (KBytes, (decode_bytes tok)) :: []
| DSc _ -> []
| DQStr (outer, inner) ->
  (KQStr, (decode_string flags (from_string w outer) inner)) :: []
| DQNum (outer, _) ->
  (KQNum, (decode_number flags (from_string w outer))) :: []
| DRaw _ -> (KRaw, (decode_raw flags w)) :: []
| DAny g -> g_leaves flags w g
| DList kids -> flat_map (d_leaves flags w) kids
| DMap ents ->
  flat_map (fun e ->
    let (y, d') = e in
    let (sk, k) = y in
    app (if sk then (KKey, (decode_string flags w k)) :: [] else [])
      (d_leaves flags w d')) ents
| DStruct fields -> flat_map (d_leaves flags w) fields

(** val leaves : z -> dtree -> (lkind * prov) list **)

let leaves flags d =
  d_leaves flags BSrc d

(** val g_tok_strings : gtree -> (lkind * prov) list **)

let rec g_tok_strings = function
| GStr tok -> (KTok, (tok_string tok)) :: []
| GArr kids -> flat_map g_tok_strings kids
| GObj ents ->
  flat_map (fun e ->
    let (k, g') = e in (KTok, (tok_string k)) :: (g_tok_strings g')) ents
| _ -> []

(** val alias_flag : lkind -> z -> bool **)

let alias_flag k flags =
  match k with
  | KNum -> has flags json_DontCopyNumber
  | KRaw -> has flags json_DontCopyRawMessage
  | KBytes -> false
  | KQNum -> has flags json_DontCopyNumber
  | KINum -> has flags json_DontCopyNumber
  | KTok -> true
  | _ -> has flags json_DontCopyString

type region =
| RInput of nat
| RDecBuf of nat * nat
| RPool of nat
| RFresh of nat

type event =
| EvWrite of nat * region
| EvGive of lkind * z * region * bool
| EvLend of nat * region
| EvUserWrite of region

type phase =
| PhGot
| PhAppended
| PhDone

type op =
| OGet of nat * nat option
| OAppend of nat * bool
| OCopyOut of nat
| OWriteOut of nat
| OPut of nat
| ODrop of nat
| OParse of nat * nat * z * dtree
| ODecRead of nat * nat * bool
| ODecode of nat * nat * z * dtree
| OTokString of nat * nat * bytes
| OUserWrite of region

type mstate = { next : nat; pool : nat list;
                held : (nat * (nat * phase)) list; decs : (nat * nat) list }

(** val init : mstate **)

let init =
  { next = O; pool = []; held = []; decs = [] }

(** val lookup : nat -> (nat * 'a1) list -> 'a1 option **)

let rec lookup t = function
| [] -> None
| p :: r -> let (t', a) = p in if Nat.eqb t t' then Some a else lookup t r

(** val remove_key : nat -> (nat * 'a1) list -> (nat * 'a1) list **)

let rec remove_key t = function
| [] -> []
| p :: r ->
  let (t', a) = p in
  if Nat.eqb t t' then remove_key t r else (t', a) :: (remove_key t r)

(** val set_key : nat -> 'a1 -> (nat * 'a1) list -> (nat * 'a1) list **)

let set_key t a l =
  (t, a) :: (remove_key t l)

(** val remove_nth : nat -> 'a1 list -> 'a1 list **)

let rec remove_nth i = function
| [] -> []
| x :: r -> (match i with
             | O -> r
             | S j -> x :: (remove_nth j r))

(** val gen_of : nat -> mstate -> nat **)

let gen_of dec s =
  match lookup dec s.decs with
  | Some g -> g
  | None -> O

(** val give :
    nat -> region -> z -> (lkind * prov) list -> nat -> event list ->
    nat * event list **)

let rec give t src flags ls n0 acc =
  match ls with
  | [] -> (n0, acc)
  | p :: r ->
    let (k, p0) = p in
    (match p0 with
     | PSrc -> give t src flags r n0 ((EvGive (k, flags, src, false)) :: acc)
     | PFresh ->
       give t src flags r (S n0) ((EvGive (k, flags, (RFresh n0),
         true)) :: ((EvWrite (t, (RFresh n0))) :: acc))
     | PEmpty -> give t src flags r n0 acc)

(** val with_next : mstate -> nat -> mstate **)

let with_next s n0 =
  { next = n0; pool = s.pool; held = s.held; decs = s.decs }

(** val step : mstate -> op -> mstate * event list **)

let step s = function
| OGet (t, choice) ->
  (match lookup t s.held with
   | Some _ -> (s, [])
   | None ->
     (match choice with
      | Some i ->
        (match nth_error s.pool i with
         | Some b ->
           ({ next = s.next; pool = (remove_nth i s.pool); held =
             (set_key t (b, PhGot) s.held); decs = s.decs }, [])
         | None -> (s, []))
      | None ->
        ({ next = (S s.next); pool = s.pool; held =
          (set_key t (s.next, PhGot) s.held); decs = s.decs }, [])))
| OAppend (t, grow) ->
  (match lookup t s.held with
   | Some p ->
     let (b, p0) = p in
     (match p0 with
      | PhDone -> (s, [])
      | _ ->
        if grow
        then ({ next = (S s.next); pool = s.pool; held =
               (set_key t (s.next, PhAppended) s.held); decs = s.decs },
               ((EvWrite (t, (RPool s.next))) :: []))
        else ({ next = s.next; pool = s.pool; held =
               (set_key t (b, PhAppended) s.held); decs = s.decs }, ((EvWrite
               (t, (RPool b))) :: [])))
   | None -> (s, []))
| OCopyOut t ->
  (match lookup t s.held with
   | Some p ->
     let (b, p0) = p in
     (match p0 with
      | PhAppended ->
        ({ next = (S s.next); pool = s.pool; held =
          (set_key t (b, PhDone) s.held); decs = s.decs }, ((EvGive (KRaw,
          Z0, (RFresh s.next), true)) :: ((EvWrite (t, (RFresh
          s.next))) :: [])))
      | _ -> (s, []))
   | None -> (s, []))
| OWriteOut t ->
  (match lookup t s.held with
   | Some p ->
     let (b, p0) = p in
     (match p0 with
      | PhAppended ->
        ({ next = s.next; pool = s.pool; held =
          (set_key t (b, PhDone) s.held); decs = s.decs }, ((EvLend (t,
          (RPool b))) :: []))
      | _ -> (s, []))
   | None -> (s, []))
| OPut t ->
  (match lookup t s.held with
   | Some p ->
     let (b, p0) = p in
     (match p0 with
      | PhGot -> (s, [])
      | _ ->
        ({ next = s.next; pool = (b :: s.pool); held = (remove_key t s.held);
          decs = s.decs }, []))
   | None -> (s, []))
| ODrop t ->
  (match lookup t s.held with
   | Some _ ->
     ({ next = s.next; pool = s.pool; held = (remove_key t s.held); decs =
       s.decs }, [])
   | None -> (s, []))
| OParse (t, i, flags, d) ->
  let (n0, ev) = give t (RInput i) flags (leaves flags d) s.next [] in
  ((with_next s n0), ev)
| ODecRead (t, dec, grow) ->
  let g = gen_of dec s in
  if grow
  then ({ next = s.next; pool = s.pool; held = s.held; decs =
         (set_key dec (S g) s.decs) }, ((EvWrite (t, (RDecBuf (dec, (S
         g))))) :: ((EvWrite (t, (RDecBuf (dec, (S g))))) :: ((EvWrite (t,
         (RDecBuf (dec, g)))) :: []))))
  else (s, ((EvWrite (t, (RDecBuf (dec, g)))) :: ((EvWrite (t, (RDecBuf (dec,
         g)))) :: [])))
| ODecode (t, dec, flags, d) ->
  let (n0, ev) =
    give t (RDecBuf (dec, (gen_of dec s))) flags (leaves flags d) s.next []
  in
  ((with_next s n0), ev)
| OTokString (t, i, tok) ->
  let (n0, ev) =
    give t (RInput i) Z0 ((KTok, (tok_string tok)) :: []) s.next []
  in
  ((with_next s n0), ev)
| OUserWrite r -> (s, ((EvUserWrite r) :: []))

(** val run : mstate -> event list -> op list -> mstate * event list **)

let rec run s tr = function
| [] -> (s, tr)
| o :: r -> let (s', ev) = step s o in run s' (app ev tr) r
