
type __ = Obj.t

val negb : bool -> bool

type nat =
| O
| S of nat

val fst : ('a1 * 'a2) -> 'a1

val snd : ('a1 * 'a2) -> 'a2

val length : 'a1 list -> nat

val app : 'a1 list -> 'a1 list -> 'a1 list

type comparison =
| Eq
| Lt
| Gt

val compOpp : comparison -> comparison

val id : __ -> __

val add : nat -> nat -> nat

val mul : nat -> nat -> nat

val sub : nat -> nat -> nat

type positive =
| XI of positive
| XO of positive
| XH

type n =
| N0
| Npos of positive

type z =
| Z0
| Zpos of positive
| Zneg of positive

val eqb : bool -> bool -> bool

module Nat :
 sig
  val eqb : nat -> nat -> bool

  val leb : nat -> nat -> bool

  val ltb : nat -> nat -> bool
 end

module Pos :
 sig
  type mask =
  | IsNul
  | IsPos of positive
  | IsNeg
 end

module Coq_Pos :
 sig
  val succ : positive -> positive

  val add : positive -> positive -> positive

  val add_carry : positive -> positive -> positive

  val pred_double : positive -> positive

  val pred_N : positive -> n

  type mask = Pos.mask =
  | IsNul
  | IsPos of positive
  | IsNeg

  val succ_double_mask : mask -> mask

  val double_mask : mask -> mask

  val double_pred_mask : positive -> mask

  val sub_mask : positive -> positive -> mask

  val sub_mask_carry : positive -> positive -> mask

  val mul : positive -> positive -> positive

  val iter : ('a1 -> 'a1) -> 'a1 -> positive -> 'a1

  val div2 : positive -> positive

  val div2_up : positive -> positive

  val size : positive -> positive

  val compare_cont : comparison -> positive -> positive -> comparison

  val compare : positive -> positive -> comparison

  val eqb : positive -> positive -> bool

  val coq_Nsucc_double : n -> n

  val coq_Ndouble : n -> n

  val coq_lor : positive -> positive -> positive

  val coq_land : positive -> positive -> n

  val ldiff : positive -> positive -> n

  val coq_lxor : positive -> positive -> n

  val iter_op : ('a1 -> 'a1 -> 'a1) -> positive -> 'a1 -> 'a1

  val to_nat : positive -> nat

  val of_succ_nat : nat -> positive
 end

module N :
 sig
  val succ_double : n -> n

  val double : n -> n

  val succ_pos : n -> positive

  val sub : n -> n -> n

  val compare : n -> n -> comparison

  val leb : n -> n -> bool

  val pos_div_eucl : positive -> n -> n * n

  val coq_lor : n -> n -> n

  val coq_land : n -> n -> n

  val ldiff : n -> n -> n

  val coq_lxor : n -> n -> n
 end

module Z :
 sig
  val double : z -> z

  val succ_double : z -> z

  val pred_double : z -> z

  val pos_sub : positive -> positive -> z

  val add : z -> z -> z

  val opp : z -> z

  val sub : z -> z -> z

  val mul : z -> z -> z

  val pow_pos : z -> positive -> z

  val pow : z -> z -> z

  val compare : z -> z -> comparison

  val leb : z -> z -> bool

  val ltb : z -> z -> bool

  val geb : z -> z -> bool

  val gtb : z -> z -> bool

  val eqb : z -> z -> bool

  val max : z -> z -> z

  val min : z -> z -> z

  val to_nat : z -> nat

  val of_nat : nat -> z

  val of_N : n -> z

  val pos_div_eucl : positive -> z -> z * z

  val div_eucl : z -> z -> z * z

  val div : z -> z -> z

  val modulo : z -> z -> z

  val quotrem : z -> z -> z * z

  val quot : z -> z -> z

  val even : z -> bool

  val div2 : z -> z

  val log2 : z -> z

  val shiftl : z -> z -> z

  val shiftr : z -> z -> z

  val coq_lor : z -> z -> z

  val coq_land : z -> z -> z

  val coq_lxor : z -> z -> z
 end

val tl : 'a1 list -> 'a1 list

val nth : nat -> 'a1 list -> 'a1 -> 'a1

val rev : 'a1 list -> 'a1 list

val map : ('a1 -> 'a2) -> 'a1 list -> 'a2 list

val fold_left : ('a1 -> 'a2 -> 'a1) -> 'a2 list -> 'a1 -> 'a1

val existsb : ('a1 -> bool) -> 'a1 list -> bool

val forallb : ('a1 -> bool) -> 'a1 list -> bool

val firstn : nat -> 'a1 list -> 'a1 list

val skipn : nat -> 'a1 list -> 'a1 list

val repeat : 'a1 -> nat -> 'a1 list

val w8 : z -> z

val w16 : z -> z

val w32 : z -> z

val w64 : z -> z

val s8 : z -> z

val s16 : z -> z

val s32 : z -> z

val s64 : z -> z

val add64 : z -> z -> z

val sub64 : z -> z -> z

val mul64 : z -> z -> z

val div64 : z -> z -> z

val rem64 : z -> z -> z

val and64 : z -> z -> z

val or64 : z -> z -> z

val xor64 : z -> z -> z

val not64 : z -> z

val shl64 : z -> z -> z

val shr64 : z -> z -> z

val add32 : z -> z -> z

val sub32 : z -> z -> z

val mul32 : z -> z -> z

val and32 : z -> z -> z

val or32 : z -> z -> z

val not32 : z -> z

val shl32 : z -> z -> z

val sub8 : z -> z -> z

val and8 : z -> z -> z

val or8 : z -> z -> z

val xor8 : z -> z -> z

val addi64 : z -> z -> z

val subi64 : z -> z -> z

val muli64 : z -> z -> z

val divi64 : z -> z -> z

val andi64 : z -> z -> z

val xori64 : z -> z -> z

val shri64 : z -> z -> z

val negi64 : z -> z

type bytes = z list

val is_byte : z -> bool

val wfb : bytes -> bool

val len : 'a1 list -> z

val at_ : bytes -> z -> z

val slice_from : 'a1 list -> z -> 'a1 list

val slice_to : 'a1 list -> z -> 'a1 list

val slice : 'a1 list -> z -> z -> 'a1 list

val le_load : nat -> bytes -> z

val le64 : bytes -> z

val le32 : bytes -> z

val le16 : bytes -> z

val upd : bytes -> z -> z -> bytes

val splice : bytes -> z -> bytes -> bytes

val isnil : 'a1 option -> bool

val bytes_eqb : bytes -> bytes -> bool

val obind : 'a1 option -> ('a1 -> 'a2 option) -> 'a2 option

type time_t = (z * z) * z

val time_zero : time_t

val time_unix_utc : z -> z -> time_t

val isdig : z -> bool

val is_leap : z -> bool

val leaps_before : z -> z

val days_before_year : z -> z

val days_before_month : bool -> z -> z

val days_in : z -> z -> z

val unix_days : z -> z -> z -> z

val civil_seconds : z -> z -> z -> z -> z -> z -> z

val rfc3339nano_layout : bytes

val getnum2 : bytes -> (z * bytes) option

val getnum12 : bytes -> (z * bytes) option

val getyear : bytes -> (z * bytes) option

val lit : z -> bytes -> bytes option

val span_digits : bytes -> bytes * bytes

val digits_value : bytes -> z

val getfrac : bytes -> z * bytes

val getzone : bytes -> (z * bytes) option

val time_parse_rfc3339 : bytes -> time_t option

val time_parse : bytes -> bytes -> time_t * unit option

val iso8601_mask1 : z

val iso8601_mask2 : z

val iso8601_mask3 : z

val iso8601_sep1 : z

val iso8601_sep2 : z

val iso8601_sep3 : z

val iso8601_replace1 : z

val iso8601_replace2 : z

val iso8601_replace3 : z

val iso8601_msb : z

val iso8601_zero : z

val iso8601_nine : z

val iso8601_AllowSpaceSeparator : z

val iso8601_AllowMissingTime : z

val iso8601_AllowMissingSubsecond : z

val iso8601_AllowMissingTimezone : z

val iso8601_AllowNumericTimezone : z

type iso8601_error =
| Iso8601_errInvalidTimestamp
| Iso8601_errMonthOutOfRange
| Iso8601_errDayOutOfRange
| Iso8601_errHourOutOfRange
| Iso8601_errMinuteOutOfRange
| Iso8601_errSecondOutOfRange

val iso8601_pow10 : z list

val iso8601_isLeapYear : z -> bool

val iso8601_validate : z -> z -> z -> z -> z -> z -> iso8601_error option

val iso8601_match : z -> z -> z -> bool

val iso8601_nonNumeric : z -> z

val iso8601_daysSinceEpoch : z -> z -> z -> z

val iso8601_isDigit : z -> bool

val iso8601_readByte : bytes -> z -> bytes * bool

val iso8601_readDigits : nat -> bytes -> z -> z -> (bytes * bool) option

val iso8601_Valid : nat -> bytes -> z -> bool option

val iso8601_Parse : bytes -> time_t * iso8601_error option

val has_flag : z -> z -> bool

val date_ok : bytes -> bool

val time_ok : bytes -> bool

val sign_ok : z -> bool

val numzone_ok : z -> bytes -> bool

val zone_ok : z -> bytes -> bool

val frac_zone_ok : z -> bytes -> bool

val sep_ok : z -> z -> bool

val iso_spec : z -> bytes -> bool

val asm_hasLessConstL64 : z

val asm_hasLessConstR64 : z

val asm_hasLessConstL32 : z

val asm_hasLessConstR32 : z

val asm_hasMoreConstL64 : z

val asm_hasMoreConstR64 : z

val asm_hasMoreConstL32 : z

val asm_hasMoreConstR32 : z

val asm_lowerCase : z list

val asm_hasLess64 : z -> z -> bool

val asm_hasLess32 : z -> z -> bool

val asm_hasMore64 : z -> z -> bool

val asm_hasMore32 : z -> z -> bool

val asm_ValidByte : z -> bool

val asm_ValidRune : z -> bool

val asm_ValidPrintByte : z -> bool

val asm_ValidPrintRune : z -> bool

val asm_ValidString : nat -> bytes -> bool option

val asm_Valid : nat -> bytes -> bool option

val asm_ValidPrintString : nat -> bytes -> bool option

val asm_ValidPrint : nat -> bytes -> bool option

val asm_EqualFoldString : nat -> bytes -> bytes -> bool option

val asm_EqualFold : nat -> bytes -> bytes -> bool option

val asm_HasPrefixFold : nat -> bytes -> bytes -> bool option

val asm_HasSuffixFold : nat -> bytes -> bytes -> bool option

val asm_HasPrefixFoldString : nat -> bytes -> bytes -> bool option

val asm_HasSuffixFoldString : nat -> bytes -> bytes -> bool option

val run_fuel : bool option -> bool

val asmt_Valid : bytes -> bool

val asmt_ValidString : bytes -> bool

val asmt_ValidPrint : bytes -> bool

val asmt_ValidPrintString : bytes -> bool

val asmt_EqualFold : bytes -> bytes -> bool

val asmt_EqualFoldString : bytes -> bytes -> bool

val asmt_HasPrefixFold : bytes -> bytes -> bool

val asmt_HasPrefixFoldString : bytes -> bytes -> bool

val asmt_HasSuffixFold : bytes -> bytes -> bool

val asmt_HasSuffixFoldString : bytes -> bytes -> bool

val ascii_Valid : bytes -> bool

val ascii_ValidByte : z -> bool

val ascii_ValidRune : z -> bool

val ascii_ValidString : bytes -> bool

val ascii_ValidPrint : bytes -> bool

val ascii_ValidPrintByte : z -> bool

val ascii_ValidPrintRune : z -> bool

val ascii_ValidPrintString : bytes -> bool

val ascii_EqualFold : bytes -> bytes -> bool

val ascii_HasPrefixFold : bytes -> bytes -> bool

val ascii_HasSuffixFold : bytes -> bytes -> bool

val ascii_EqualFoldString : bytes -> bytes -> bool

val ascii_HasPrefixFoldString : bytes -> bytes -> bool

val ascii_HasSuffixFoldString : bytes -> bytes -> bool

val is_ascii : z -> bool

val is_print : z -> bool

val lower : z -> z

val forallb2 : (z -> z -> bool) -> bytes -> bytes -> bool

val fold_eq : bytes -> bytes -> bool

val has_prefix_fold : bytes -> bytes -> bool

val has_suffix_fold : bytes -> bytes -> bool

val bitlen64 : z -> z

val le_bytes : nat -> z -> bytes

val put_le32 : bytes -> z -> bytes

val put_le64 : bytes -> z -> bytes

val proto_zeroSize : z

val proto_noflags : z

val proto_inline : z

val proto_wantzero : z

val proto_toplevel : z

val proto_varint : z

val proto_fixed64 : z

val proto_varlen : z

val proto_fixed32 : z

val proto_embedded : z

val proto_repeated : z

val proto_zigzag : z

type proto_error =
| Proto_errVarintOverflow
| Proto_ErrWireTypeUnknown
| Proto_ErrShortBuffer
| Proto_ErrUnexpectedEOF

val proto_encodeZigZag64 : z -> z

val proto_decodeZigZag64 : z -> z

val proto_sizeOfVarint : z -> z

val proto_sizeOfVarlen : z -> z

val proto_sizeOfTag : z -> z -> z

val proto_encodeVarint : bytes -> z -> (z * proto_error option) * bytes

val proto_encodeLE32 : bytes -> z -> (z * proto_error option) * bytes

val proto_encodeLE64 : bytes -> z -> (z * proto_error option) * bytes

val proto_encodeTag : bytes -> z -> z -> (z * proto_error option) * bytes

val proto_decodeVarint : bytes -> (z * z) * proto_error option

val proto_decodeLE32 : bytes -> (z * z) * proto_error option

val proto_decodeLE64 : bytes -> (z * z) * proto_error option

val proto_decodeTag : bytes -> ((z * z) * z) * proto_error option

val proto_decodeVarlen : bytes -> (bytes * z) * proto_error option

val proto_flags_has : z -> z -> bool

val proto_flags_with : z -> z -> z

val proto_flags_without : z -> z -> z

val proto_flags_uint64 : z -> z -> z

val proto_flags_int64 : z -> z -> z

type 'a res =
| Ok of 'a
| Panic
| OutOfFuel

val rbind : 'a1 res -> ('a1 -> 'a2 res) -> 'a2 res

val cfrom : bytes -> z -> bytes res

val cslice : bytes -> z -> z -> bytes res

type ptag = { tag_wire : z; tag_number : z; tag_repeated : bool;
              tag_zigzag : bool }

type gty =
| TBool
| TInt
| TInt32
| TInt64
| TUint
| TUint32
| TUint64
| TFloat32
| TFloat64
| TString
| TBytes
| TByteArray of nat
| TPtr of gty
| TStruct of gfield list
| TSlice of gty
| TMap of gty * gty
| TRawMessage
and gfield =
| GField of bool * ptag option * gty

type val0 =
| VBool of bool
| VInt of z
| VStr of bytes
| VBytes of bool * bytes
| VArr of bytes
| VPtr of val0 option
| VStruct of val0 list
| VSlice of val0 list
| VMap of bool * (val0 * val0) list
| VRaw of bool * bytes

type codec =
| CBool
| CInt
| CInt32
| CInt64
| CUint
| CUint32
| CUint64
| CFixed32
| CFixed64
| CFloat32
| CFloat64
| CString
| CBytes
| CByteArray of nat
| CPtr of gty * codec
| CStruct of bool * sfield list
| CSlice of z * z * bool * gty * codec
| CMap of z * z * z * gty * gty * codec * codec
| CMessage
| CUnsupported
and sfield =
| SField of z * z * z * gty * codec

val wire : codec -> z

val base_ty : gty -> gty

val is_struct : gty -> bool

val inlined_ty : gty -> bool

val zero_val : gty -> val0

val pointers_to : gty -> codec -> codec

val codec_of : gty -> codec

val sf_number : sfield -> z

val sf_tagsize : sfield -> z

val sf_flags : sfield -> z

val sf_ty : sfield -> gty

val sf_codec : sfield -> codec

val sf_embedded : sfield -> bool

val sf_repeated : sfield -> bool

val make_flags : sfield -> z -> z

val has : z -> z -> bool

val without : z -> z -> z

val with_ : z -> z -> z

val all_zero : bytes -> bool

val f32_nonzero : z -> bool

val f64_nonzero : z -> bool

val f32_signbit : z -> bool

val f64_signbit : z -> bool

val size_of : codec -> val0 option -> z -> z

type eres = ((z * proto_error option) * bytes) res

val ret : z -> proto_error option -> bytes -> eres

val in_from : bytes -> z -> (bytes -> eres) -> eres

val in_window : bytes -> z -> z -> (bytes -> eres) -> eres

val lift3 : ((z * proto_error option) * bytes) -> eres

val copy_at : bytes -> z -> bytes -> (z * bytes) res

val encode_varlen_bytes : bytes -> bytes -> eres

val encode : codec -> bytes -> val0 option -> z -> eres

type dres = ((z * proto_error option) * val0) res

val dret : z -> proto_error option -> val0 -> dres

val err_overflow : proto_error option

val err_mismatch : proto_error option

val val_eqb : val0 -> val0 -> bool

val map_assign : (val0 * val0) list -> val0 -> val0 -> (val0 * val0) list

val nth_field : sfield list -> val0 list -> z -> (nat * sfield) option

val max_number : sfield list -> z

val set_nth : val0 list -> nat -> val0 -> val0 list

val decode : nat -> codec -> bytes -> val0 -> z -> dres

val top_flags : z

val size0 : gty -> val0 -> z

val marshal : gty -> val0 -> bytes option res

val marshalTo : gty -> bytes -> val0 -> eres

val unmarshal : nat -> gty -> bytes -> val0 -> val0 option res

val elem_ok : gty -> bool

val type_ok : gty -> bool

val distinct : z list -> bool

val numbers_ok : codec -> bool

val lim : z

val wf_val : gty -> val0 -> bool

val norm : val0 -> val0

val empty_enc : val0 -> bool

val representable : val0 -> bool

val keys_distinct : val0 -> bool

val ctz_pos : positive -> z

val ctz : z -> z -> z

type json_err =
| JErrSyntax
| JErrUnexpectedEOF
| JErrType
| JErrOverflow
| JErrOther

val index_byte_from : z -> bytes -> z -> z

val index_byte : bytes -> z -> z

val ctz64 : z -> z

val chunks64_fuel : nat -> bytes -> z list

val chunks64 : bytes -> z list

val json_validAsciiPrint : z

val json_noBackslash : z

val json_Undefined : z

val json_Null : z

val json_False : z

val json_True : z

val json_Uint : z

val json_Int : z

val json_Float : z

val json_String : z

val json_Unescaped : z

val json_Array : z

val json_Object : z

val json_minBufferSize : z

val json_minReadSize : z

val json_sp : z

val json_ht : z

val json_nl : z

val json_cr : z

val json_lsb : z

val json_msb : z

val json_ParseFlags_has : z -> z -> bool

val json_skipSpacesN : bytes -> bytes * z

val json_skipSpaces : bytes -> bytes

val json_trimTrailingSpacesN : nat -> bytes -> bytes option

val json_trimTrailingSpaces : nat -> bytes -> bytes option

val json_internalParseFlags : nat -> bytes -> z option

val json_hasNullPrefix : bytes -> bool

val json_hasTruePrefix : bytes -> bool

val json_hasFalsePrefix : bytes -> bool

val json_decoder_parseFalse :
  z -> bytes -> ((bytes * bytes) * z) * json_err option

val json_decoder_parseNull :
  z -> bytes -> ((bytes * bytes) * z) * json_err option

val json_decoder_parseNumber :
  nat -> z -> bytes -> (((bytes * bytes) * z) * json_err option) option

val json_decoder_parseUintHex : z -> bytes -> (z * bytes) * json_err option

val json_decoder_parseUnicode : z -> bytes -> (z * z) * json_err option

val json_decoder_parseString :
  nat -> z -> bytes -> (((bytes * bytes) * z) * json_err option) option

val json_decoder_parseTrue :
  z -> bytes -> ((bytes * bytes) * z) * json_err option

val json_decoder_parseArray :
  nat -> z -> bytes -> (((bytes * bytes) * z) * json_err option) option

val json_decoder_parseObject :
  nat -> z -> bytes -> (((bytes * bytes) * z) * json_err option) option

val json_decoder_parseValue :
  nat -> z -> bytes -> (((bytes * bytes) * z) * json_err option) option

val json_expand : z -> z

val json_below : z -> z -> z

val json_contains : z -> z -> z

val json_escapeIndex : nat -> bytes -> bool -> z option

val json_Valid : nat -> bytes -> bool option

val is_ws : z -> bool

val skip_ws : bytes -> bytes

val is_digit : z -> bool

val is_hex : z -> bool

val is_escape_letter : z -> bool

val g_string : bytes -> bytes option

val skip_digits : bytes -> bytes

val g_frac : bytes -> bytes option

val g_exp : bytes -> bytes option

val g_number : bytes -> bytes option

val g_value : nat -> bytes -> bytes option

val g_valid : bytes -> bool

val max_depth_from : z -> z -> bool -> bool -> bytes -> z

val max_depth : bytes -> z

val std_valid : bytes -> bool

val needs_escape_json : bool -> z -> bool

val first_index : (z -> bool) -> z -> bytes -> z

type terr =
| EEOF
| EUnexpectedEOF
| EOther
| EMissing
| EMismatch

type 'a tres =
| TOk of 'a
| TErr of terr
| TPanic
| TOutOfFuel

val tbind : 'a1 tres -> ('a1 -> 'a2 tres) -> 'a2 tres

val dont_expect_eof : 'a1 tres -> 'a1 tres

type tty =
| ThBool
| ThI8
| ThI16
| ThI32
| ThI64
| ThF64
| ThStr
| ThBytes
| ThList of tty
| ThSet of tty
| ThMap of tty * tty
| ThStruct of tfield list
| ThPtr of tty
and tfield =
| TField of z * z * tty

type tval =
| TvBool of bool
| TvInt of z
| TvBytes of bool * bytes
| TvList of bool * tval list
| TvSet of bool * tval list
| TvMap of bool * (tval * tval) list
| TvStruct of tval list
| TvPtr of tval option

type proto =
| PBinary
| PCompact

val f_enum : z

val f_required : z

val f_optional : z

val f_strict : z

val has_flag0 : z -> z -> bool

val c_STOP : z

val c_TRUE : z

val c_BOOL : z

val c_I8 : z

val c_I16 : z

val c_I32 : z

val c_I64 : z

val c_DOUBLE : z

val c_BINARY : z

val c_LIST : z

val c_SET : z

val c_MAP : z

val c_STRUCT : z

val type_of : tty -> z

val fld_id : tfield -> z

val fld_flags : tfield -> z

val fld_ty : tfield -> tty

val be_bytes : nat -> z -> bytes

val uvarint_fuel : nat -> z -> bytes

val uvarint : z -> bytes

val zz64 : z -> z

val varint : z -> bytes

val w_i16 : proto -> z -> bytes

val w_i32 : proto -> z -> bytes

val w_i64 : proto -> z -> bytes

val w_f64 : proto -> z -> bytes

val w_len : proto -> z -> bytes

val w_bytes : proto -> bytes -> bytes

val w_field : proto -> z -> z -> bytes

val w_list : proto -> z -> z -> bytes

val w_map : proto -> z -> z -> z -> bytes

val is_zero : tval -> bool

val is_zero_at : tty -> tval -> bool

val is_zero_t : tty -> tval -> bool

val zero_of : tty -> tval

val insert_by_id :
  (tfield * 'a1) -> (tfield * 'a1) list -> (tfield * 'a1) list

val sort_by_id : (tfield * 'a1) list -> (tfield * 'a1) list

val deref_bool : tval -> bool

val enc : proto -> tty -> tval -> bytes

val tMarshal : proto -> tty -> tval -> bytes

type 'a rd = bytes -> ('a * bytes) tres

val r_byte : z rd

val r_full : nat -> bytes rd

val be_val : bytes -> z

val r_uvarint_loop : nat -> z -> z -> z -> bytes -> (z * bytes) tres

val r_uvarint : z -> z rd

val unzz : z -> z

val r_varint : z -> z -> z rd

val r_i16 : proto -> z rd

val r_i32 : proto -> z rd

val r_i64 : proto -> z rd

val r_f64 : proto -> z rd

val r_len : proto -> z rd

val r_bytes : proto -> bytes rd

val r_field : proto -> ((z * z) * bool) rd

val r_list : proto -> (z * z) rd

val r_map : proto -> ((z * z) * z) rd

val skip : nat -> proto -> z -> bytes -> bytes tres

val set_nth0 : tval list -> nat -> tval -> tval list

val tval_eqb : tval -> tval -> bool

val map_set : (tval * tval) list -> tval -> tval -> (tval * tval) list

val set_add : tval list -> tval -> tval list

val wrap_ptrs : tty -> tval -> tval

val dec : nat -> proto -> tty -> z -> tval -> bytes -> (tval * bytes) tres

val tUnmarshal : nat -> proto -> tty -> bytes -> tval tres

val tlim : z

val is_key_ty : tty -> bool

val distinctZ : z list -> bool

val zero_size : tty -> bool

val ty_ok : tty -> bool

val tval_wf : tty -> tval -> bool

val tnorm : tty -> tval -> tval

val spec_code : proto -> tty -> z

type deviations = { dev_typecodes : bool; dev_stop3 : bool;
                    dev_double_be : bool }

val no_dev : deviations

val pkg_dev : deviations

val le_bytes8 : nat -> z -> bytes

val code_of : deviations -> proto -> tty -> z

val s_i32 : proto -> z -> bytes

val s_list_header : proto -> z -> z -> bytes

val spec_enc : deviations -> proto -> tty -> tval -> bytes

type rerr =
| REOF
| RUnexpectedEOF
| RFail

type script = (bytes * rerr option) list

val read_once : rerr -> script -> z -> (bytes * rerr option) * script

val read_full :
  nat -> rerr -> script -> z -> bytes -> (bytes * rerr option) * script

type dstate = { d_buffer : bytes; d_cap : z; d_remain : bytes; d_offset : 
                z; d_err : rerr option; d_reader : script; d_term : rerr }

val d_init : script -> rerr -> dstate

type dresult =
| DValue of bytes
| DError of rerr
| DSyntax
| DOutOfFuel

val is_num_kind : z -> bool

val read_value : nat -> nat -> z -> z -> dstate -> dresult * dstate

val decode_all :
  nat -> nat -> nat -> dstate -> bytes list -> z list -> (bytes
  list * dresult) * z list

type tstate = { t_delim : z; t_value : bytes; t_err : bool; t_depth : 
                z; t_index : z; t_iskey : bool; t_iskey_next : bool;
                t_json : bytes; t_stack : (z * z) list; t_kind : z }

val t_init : bytes -> tstate

val stack_depth : (z * z) list -> z

val stack_index : (z * z) list -> z

val stack_top_is : (z * z) list -> z -> bool

val stack_pop : (z * z) list -> z -> (z * z) list option

val stack_incr : (z * z) list -> (z * z) list

val t_next : nat -> z -> tstate -> (bool * tstate) option

type token = { k_value : bytes; k_delim : z; k_depth : z; k_index : z;
               k_iskey : bool; k_kind : z; k_remaining : z }

val t_run :
  nat -> nat -> z -> tstate -> token list -> (token list * tstate) option

val tokenize : bytes -> (token list * tstate) option

type stoken = { st_value : bytes; st_depth : z; st_index : z;
                st_iskey : bool; st_constrained : bool }

val mk_scalar : bytes -> z -> z -> bool -> stoken

val mk_punct : z -> stoken

val consumed : bytes -> bytes -> bytes

val g_tokens : nat -> bytes -> z -> z -> bool -> (stoken list * bytes) option

val spec_tokens : bytes -> stoken list option

val frame : nat -> bytes -> bytes list * bool
