
val negb : bool -> bool

type nat =
| O
| S of nat

val fst : ('a1 * 'a2) -> 'a1

val snd : ('a1 * 'a2) -> 'a2

val length : 'a1 list -> nat

val app : 'a1 list -> 'a1 list -> 'a1 list

type comparison =
| Eq
| Lt
| Gt

val compOpp : comparison -> comparison

val add : nat -> nat -> nat

type positive =
| XI of positive
| XO of positive
| XH

type n =
| N0
| Npos of positive

type z =
| Z0
| Zpos of positive
| Zneg of positive

module Nat :
 sig
  val max : nat -> nat -> nat
 end

module Pos :
 sig
  type mask =
  | IsNul
  | IsPos of positive
  | IsNeg
 end

module Coq_Pos :
 sig
  val succ : positive -> positive

  val add : positive -> positive -> positive

  val add_carry : positive -> positive -> positive

  val pred_double : positive -> positive

  val pred_N : positive -> n

  type mask = Pos.mask =
  | IsNul
  | IsPos of positive
  | IsNeg

  val succ_double_mask : mask -> mask

  val double_mask : mask -> mask

  val double_pred_mask : positive -> mask

  val sub_mask : positive -> positive -> mask

  val sub_mask_carry : positive -> positive -> mask

  val mul : positive -> positive -> positive

  val iter : ('a1 -> 'a1) -> 'a1 -> positive -> 'a1

  val div2 : positive -> positive

  val div2_up : positive -> positive

  val size : positive -> positive

  val compare_cont : comparison -> positive -> positive -> comparison

  val compare : positive -> positive -> comparison

  val eqb : positive -> positive -> bool

  val coq_Nsucc_double : n -> n

  val coq_Ndouble : n -> n

  val coq_lor : positive -> positive -> positive

  val coq_land : positive -> positive -> n

  val ldiff : positive -> positive -> n

  val coq_lxor : positive -> positive -> n

  val iter_op : ('a1 -> 'a1 -> 'a1) -> positive -> 'a1 -> 'a1

  val to_nat : positive -> nat

  val of_succ_nat : nat -> positive
 end

module N :
 sig
  val succ_double : n -> n

  val double : n -> n

  val succ_pos : n -> positive

  val sub : n -> n -> n

  val compare : n -> n -> comparison

  val leb : n -> n -> bool

  val pos_div_eucl : positive -> n -> n * n

  val coq_lor : n -> n -> n

  val coq_land : n -> n -> n

  val ldiff : n -> n -> n

  val coq_lxor : n -> n -> n
 end

module Z :
 sig
  val double : z -> z

  val succ_double : z -> z

  val pred_double : z -> z

  val pos_sub : positive -> positive -> z

  val add : z -> z -> z

  val opp : z -> z

  val sub : z -> z -> z

  val mul : z -> z -> z

  val pow_pos : z -> positive -> z

  val pow : z -> z -> z

  val compare : z -> z -> comparison

  val leb : z -> z -> bool

  val ltb : z -> z -> bool

  val geb : z -> z -> bool

  val gtb : z -> z -> bool

  val eqb : z -> z -> bool

  val min : z -> z -> z

  val to_nat : z -> nat

  val of_nat : nat -> z

  val of_N : n -> z

  val pos_div_eucl : positive -> z -> z * z

  val div_eucl : z -> z -> z * z

  val div : z -> z -> z

  val modulo : z -> z -> z

  val quotrem : z -> z -> z * z

  val quot : z -> z -> z

  val rem : z -> z -> z

  val div2 : z -> z

  val log2 : z -> z

  val shiftl : z -> z -> z

  val shiftr : z -> z -> z

  val coq_lor : z -> z -> z

  val coq_land : z -> z -> z

  val coq_lxor : z -> z -> z
 end

val nth : nat -> 'a1 list -> 'a1 -> 'a1

val fold_right : ('a2 -> 'a1 -> 'a1) -> 'a1 -> 'a2 list -> 'a1

val firstn : nat -> 'a1 list -> 'a1 list

val skipn : nat -> 'a1 list -> 'a1 list

val repeat : 'a1 -> nat -> 'a1 list

val w8 : z -> z

val w32 : z -> z

val w64 : z -> z

val s32 : z -> z

val s64 : z -> z

val add64 : z -> z -> z

val and64 : z -> z -> z

val or64 : z -> z -> z

val xor64 : z -> z -> z

val shl64 : z -> z -> z

val shr64 : z -> z -> z

val xor32 : z -> z -> z

val shl32 : z -> z -> z

val shr32 : z -> z -> z

val and8 : z -> z -> z

val or8 : z -> z -> z

val addi64 : z -> z -> z

val divi64 : z -> z -> z

val andi64 : z -> z -> z

val xori64 : z -> z -> z

val shri64 : z -> z -> z

val negi64 : z -> z

val andi32 : z -> z -> z

val xori32 : z -> z -> z

val shri32 : z -> z -> z

val negi32 : z -> z

type bytes = z list

val len : 'a1 list -> z

val at_ : bytes -> z -> z

val slice_from : 'a1 list -> z -> 'a1 list

val slice_to : 'a1 list -> z -> 'a1 list

val slice : 'a1 list -> z -> z -> 'a1 list

val le_load : nat -> bytes -> z

val le64 : bytes -> z

val le32 : bytes -> z

val upd : bytes -> z -> z -> bytes

val splice : bytes -> z -> bytes -> bytes

val bitlen64 : z -> z

val le_bytes : nat -> z -> bytes

val put_le32 : bytes -> z -> bytes

val put_le64 : bytes -> z -> bytes

val proto_varint : z

val proto_fixed64 : z

val proto_varlen : z

val proto_fixed32 : z

type proto_error =
| Proto_errVarintOverflow
| Proto_ErrWireTypeUnknown
| Proto_ErrShortBuffer
| Proto_ErrUnexpectedEOF

val proto_EncodeTag : z -> z -> z

val proto_encodeZigZag64 : z -> z

val proto_encodeZigZag32 : z -> z

val proto_decodeZigZag64 : z -> z

val proto_decodeZigZag32 : z -> z

val proto_sizeOfVarint : z -> z

val proto_encodeVarint : bytes -> z -> (z * proto_error option) * bytes

val proto_decodeVarint : bytes -> (z * z) * proto_error option

val proto_decodeLE32 : bytes -> (z * z) * proto_error option

val proto_decodeLE64 : bytes -> (z * z) * proto_error option

type rerr =
| EEof
| EVarintOverflow
| EWireType
| ETrailing

type 'a rres =
| ROk of 'a
| RErr of rerr
| RPanic
| RFuel

val rrbind : 'a1 rres -> ('a1 -> 'a2 rres) -> 'a2 rres

val err_of : proto_error -> rerr

val rfrom : bytes -> z -> bytes rres

val rslice : bytes -> z -> z -> bytes rres

val decodeTag : z -> z * z

val parse : bytes -> (((z * z) * bytes) * bytes) rres

val append : bytes -> z -> z -> bytes -> bytes rres

val appendVarint : bytes -> z -> z -> bytes rres

type fieldset = z list

val makeFieldset_words : z -> z

val zero_words : z -> fieldset

val makeFieldset : z -> fieldset rres

val fs_len : fieldset -> z

val fs_index : z -> z * z

val fs_has : fieldset -> z -> bool rres

val set_word : fieldset -> nat -> z -> fieldset

val fs_set : fieldset -> z -> fieldset rres

type gokind =
| GInt
| GInt32
| GInt64
| GUint
| GUint32
| GUint64

type pbkind =
| KInt32
| KInt64
| KSint32
| KSint64
| KUint32
| KUint64
| KFix32
| KFix64
| KSfix32
| KSfix64

type rewriter =
| RwRaw of bytes
| RwMulti of rewriter list
| RwMessage of z * (z * rewriter) list
| RwEmbedded of z * z * (z * rewriter) list
| RwBitOr of gokind * pbkind * z * z

val lookup : (z * rewriter) list -> z -> rewriter option

val tlookup : z -> (z * rewriter) list -> z -> rewriter option

type rwfun = rewriter -> bytes -> bytes -> bytes rres

val msg_loop :
  rwfun -> nat -> z -> (z * rewriter) list -> fieldset -> bytes -> bytes ->
  (fieldset * bytes) rres

val msg_tail : rwfun -> (z * rewriter) list -> fieldset -> bytes -> bytes rres

val msg_rewrite :
  rwfun -> z -> (z * rewriter) list -> bytes -> bytes -> bytes rres

val embed_splice : z -> z -> bytes -> bytes rres

val kind_wire : pbkind -> z

val bitor_decode : pbkind -> bytes -> z rres

val conv : gokind -> z -> z

val bitor_in : gokind -> pbkind -> z -> z

val bitor_value : pbkind -> z -> z

val appendFixed32 : bytes -> z -> z -> bytes rres

val appendFixed64 : bytes -> z -> z -> bytes rres

val bitor_field : pbkind -> z -> z -> bytes rres

val rewrite : nat -> rewriter -> bytes -> bytes -> bytes rres

val depth : rewriter -> nat

val rewrite0 : rewriter -> bytes -> bytes -> bytes rres
