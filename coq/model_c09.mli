
val negb : bool -> bool

type nat =
| O
| S of nat

val fst : ('a1 * 'a2) -> 'a1

val snd : ('a1 * 'a2) -> 'a2

val length : 'a1 list -> nat

val app : 'a1 list -> 'a1 list -> 'a1 list

module Nat :
 sig
  val eqb : nat -> nat -> bool
 end

val nth_error : 'a1 list -> nat -> 'a1 option

val rev : 'a1 list -> 'a1 list

val map : ('a1 -> 'a2) -> 'a1 list -> 'a2 list

val repeat : 'a1 -> nat -> 'a1 list

type ty = nat

type oid = nat

type mid = nat

type tid = nat

type cobj = { c_ty : ty; c_kids : oid list; c_done : bool; c_owner : 
              tid; c_cid : nat }

type mobj = { m_ents : (ty * oid) list; m_owner : tid }

type loc =
| LC of oid
| LM of mid

type event =
| EvAlloc of tid * loc
| EvRead of tid * loc
| EvWrite of tid * loc
| EvLoad of tid * mid option
| EvStore of tid * mid
| EvLock of tid
| EvUnlock of tid
| EvUse of tid * oid

val lookup : ty -> (ty * oid) list -> oid option

val remove_key : ty -> (ty * oid) list -> (ty * oid) list

val upd : ty -> oid -> (ty * oid) list -> (ty * oid) list

val upd_absent : ty -> oid -> (ty * oid) list -> (ty * oid) list

val set_nth : nat -> 'a1 -> 'a1 list -> 'a1 list

type frame =
| Fr of ty * oid * ty list

type build = { b_cid : nat; b_seen : (ty * oid) list; b_stack : frame list;
               b_roots : ty list; b_built : (ty * oid) list }

type pc =
| PIdle
| PLoaded of ty * mid option
| PWantLock of ty
| PLocked of ty
| PLoaded2 of ty * mid option
| PBuild of ty * mid option * build
| PCopy of ty * mid option * mid * (ty * oid) list * (ty * oid) list
| PUnlock of ty * oid
| PStuck

type thread = { th_pc : pc; th_todo : ty list; th_res : (ty * oid) list }

type state = { s_codecs : cobj list; s_maps : mobj list; s_ptr : mid option;
               s_mutex : tid option; s_threads : thread list; s_ncid : 
               nat; s_pubs : mid list }

val ents_of : state -> mid option -> (ty * oid) list

val snap_reads : tid -> mid option -> event list

val set_thread : state -> tid -> thread -> state

val with_pc : thread -> pc -> thread

val add_kid : cobj list -> oid -> oid -> cobj list

val mark_done : cobj list -> oid -> cobj list

val map_insert :
  mobj list -> mid -> ((ty * oid) list -> (ty * oid) list) -> mobj list

val build_step :
  (ty -> ty list) -> (ty -> bool) -> tid -> cobj list -> build -> (cobj
  list * build) * event list

val start_build :
  (ty -> ty list) -> state -> tid -> thread -> ty -> mid option -> state

val finish_call : thread -> ty -> oid -> thread

val step :
  (ty -> ty list) -> (ty -> bool) -> (ty -> ty list) -> bool -> tid -> state
  -> state * event list

val run :
  (ty -> ty list) -> (ty -> bool) -> (ty -> ty list) -> bool -> tid list ->
  state -> state

val init : ty list list -> state

val solo :
  (ty -> ty list) -> (ty -> bool) -> (ty -> ty list) -> bool -> ty -> nat ->
  state

type tree =
| Node of ty * tree list
| Cut
| Bad

val unfold : nat -> cobj list -> oid -> tree

val run_until_idle :
  (ty -> ty list) -> (ty -> bool) -> (ty -> ty list) -> bool -> nat -> state
  -> state

val seq_hist :
  (ty -> ty list) -> (ty -> bool) -> (ty -> ty list) -> bool -> nat -> ty
  list -> state -> (bool * nat) list

val seq_obs :
  (ty -> ty list) -> (ty -> bool) -> (ty -> ty list) -> bool -> nat -> ty
  list -> (bool * nat) list

val spec_tree : (ty -> ty list) -> nat -> ty -> tree

val roots_one : ty -> ty list

val roots_pair : (ty -> ty) -> (ty -> ty) -> ty -> ty list

type pobj = nat

type ptid = nat

type action =
| AGet
| AUse of nat
| APut of nat
| APutKeep of nat

type pthread = { p_prog : action list; p_held : pobj list }

type pstate = { ps_pool : pobj list; ps_next : pobj; ps_threads : pthread list }

type pevent =
| PvGet of ptid * pobj * bool
| PvUse of ptid * pobj
| PvPut of ptid * pobj

type sentry =
| SRun of ptid * nat option
| SDrop of nat

val remove_nth : nat -> 'a1 list -> 'a1 list

val pset_nth : nat -> 'a1 -> 'a1 list -> 'a1 list

val pstep : sentry -> pstate -> pstate * pevent list

val prun : sentry list -> pstate -> pstate

val pinit : action list list -> pstate
