(* Go machine integers as unbounded Z with the wrap written where Go wraps.
   Definitions only (plus trivial range lemmas); used by the generated files
   (Generated/*.v) and by every hand-written model. *)
From Coq Require Export ZArith List Bool Lia.
Export ListNotations.
Open Scope Z_scope.

Definition w8  (x : Z) : Z := x mod 2^8.
Definition w16 (x : Z) : Z := x mod 2^16.
Definition w32 (x : Z) : Z := x mod 2^32.
Definition w64 (x : Z) : Z := x mod 2^64.

(* two's complement reinterpretation of an unsigned word as signed *)
Definition s8  (x : Z) : Z := let y := w8 x in if y <? 2^7 then y else y - 2^8.
Definition s16 (x : Z) : Z := let y := w16 x in if y <? 2^15 then y else y - 2^16.
Definition s32 (x : Z) : Z := let y := w32 x in if y <? 2^31 then y else y - 2^32.
Definition s64 (x : Z) : Z := let y := w64 x in if y <? 2^63 then y else y - 2^64.

(* uint64 *)
Definition add64 a b := w64 (a + b).
Definition sub64 a b := w64 (a - b).
Definition mul64 a b := w64 (a * b).
Definition div64 a b := a / b.           (* unsigned operands; b = 0 panics in Go: callers guard *)
Definition rem64 a b := a mod b.
Definition and64 a b := Z.land a b.
Definition or64  a b := Z.lor a b.
Definition xor64 a b := Z.lxor a b.
Definition not64 a := 2^64 - 1 - a.
Definition andnot64 a b := Z.land a (not64 b).
Definition shl64 a n := if n <? 64 then w64 (Z.shiftl a n) else 0.
Definition shr64 a n := if n <? 64 then Z.shiftr a n else 0.
Definition neg64 a := w64 (- a).

(* uint32 *)
Definition add32 a b := w32 (a + b).
Definition sub32 a b := w32 (a - b).
Definition mul32 a b := w32 (a * b).
Definition div32 a b := a / b.
Definition rem32 a b := a mod b.
Definition and32 a b := Z.land a b.
Definition or32  a b := Z.lor a b.
Definition xor32 a b := Z.lxor a b.
Definition not32 a := 2^32 - 1 - a.
Definition andnot32 a b := Z.land a (not32 b).
Definition shl32 a n := if n <? 32 then w32 (Z.shiftl a n) else 0.
Definition shr32 a n := if n <? 32 then Z.shiftr a n else 0.
Definition neg32 a := w32 (- a).

(* uint16 *)
Definition add16 a b := w16 (a + b).
Definition sub16 a b := w16 (a - b).
Definition mul16 a b := w16 (a * b).
Definition div16 a b := a / b.
Definition rem16 a b := a mod b.
Definition and16 a b := Z.land a b.
Definition or16  a b := Z.lor a b.
Definition xor16 a b := Z.lxor a b.
Definition not16 a := 2^16 - 1 - a.
Definition andnot16 a b := Z.land a (not16 b).
Definition shl16 a n := if n <? 16 then w16 (Z.shiftl a n) else 0.
Definition shr16 a n := if n <? 16 then Z.shiftr a n else 0.
Definition neg16 a := w16 (- a).

(* uint8 / byte *)
Definition add8 a b := w8 (a + b).
Definition sub8 a b := w8 (a - b).
Definition mul8 a b := w8 (a * b).
Definition div8 a b := a / b.
Definition rem8 a b := a mod b.
Definition and8 a b := Z.land a b.
Definition or8  a b := Z.lor a b.
Definition xor8 a b := Z.lxor a b.
Definition not8 a := 2^8 - 1 - a.
Definition andnot8 a b := Z.land a (not8 b).
Definition shl8 a n := if n <? 8 then w8 (Z.shiftl a n) else 0.
Definition shr8 a n := if n <? 8 then Z.shiftr a n else 0.
Definition neg8 a := w8 (- a).

(* signed: int / int64 (64-bit on the supported platform), int32, int16, int8.
   Values are kept as signed Z in range; every operation re-normalises. *)
Definition addi64 a b := s64 (a + b).
Definition subi64 a b := s64 (a - b).
Definition muli64 a b := s64 (a * b).
Definition divi64 a b := s64 (Z.quot a b).   (* Go truncates toward zero *)
Definition remi64 a b := Z.rem a b.
Definition andi64 a b := s64 (Z.land a b).
Definition ori64  a b := s64 (Z.lor a b).
Definition xori64 a b := s64 (Z.lxor a b).
Definition noti64 a := - a - 1.
Definition andnoti64 a b := s64 (Z.land a (- b - 1)).
Definition shli64 a n := if n <? 64 then s64 (Z.shiftl a n) else 0.
Definition shri64 a n := if n <? 64 then Z.shiftr a n else (if a <? 0 then -1 else 0). (* arithmetic *)
Definition negi64 a := s64 (- a).

Definition addi32 a b := s32 (a + b).
Definition subi32 a b := s32 (a - b).
Definition muli32 a b := s32 (a * b).
Definition divi32 a b := s32 (Z.quot a b).
Definition remi32 a b := Z.rem a b.
Definition andi32 a b := s32 (Z.land a b).
Definition ori32  a b := s32 (Z.lor a b).
Definition xori32 a b := s32 (Z.lxor a b).
Definition noti32 a := - a - 1.
Definition andnoti32 a b := s32 (Z.land a (- b - 1)).
Definition shli32 a n := if n <? 32 then s32 (Z.shiftl a n) else 0.
Definition shri32 a n := if n <? 32 then Z.shiftr a n else (if a <? 0 then -1 else 0).
Definition negi32 a := s32 (- a).

(* byte strings *)
Definition bytes := list Z.
Definition is_byte (b : Z) : bool := (0 <=? b) && (b <? 256).
Definition wfb (bs : bytes) : bool := forallb is_byte bs.

Definition len {A} (l : list A) : Z := Z.of_nat (length l).
Definition at_ (b : bytes) (i : Z) : Z := nth (Z.to_nat i) b 0.
Definition slice_from {A} (b : list A) (i : Z) : list A := skipn (Z.to_nat i) b.
Definition slice_to {A} (b : list A) (j : Z) : list A := firstn (Z.to_nat j) b.
Definition slice {A} (b : list A) (i j : Z) : list A := firstn (Z.to_nat (j - i)) (skipn (Z.to_nat i) b).

(* little-endian loads, as encoding/binary.LittleEndian and the unsafe loads of the repo *)
Fixpoint le_load (n : nat) (b : bytes) : Z :=
  match n with
  | O => 0
  | S n' => match b with
            | [] => 0
            | x :: r => x + 256 * le_load n' r
            end
  end.
Definition le64 (b : bytes) : Z := le_load 8 b.
Definition le32 (b : bytes) : Z := le_load 4 b.
Definition le16 (b : bytes) : Z := le_load 2 b.

Definition b2z (b : bool) : Z := if b then 1 else 0.

(* helpers used by the generated code *)
Definition upd (b : bytes) (i : Z) (v : Z) : bytes :=
  firstn (Z.to_nat i) b ++ match skipn (Z.to_nat i) b with [] => [] | _ :: r => v :: r end.
Definition splice (b : bytes) (i : Z) (w : bytes) : bytes :=
  firstn (Z.to_nat i) b ++ w ++ skipn (Z.to_nat i + length w) b.
Definition isnil {A} (o : option A) : bool := match o with None => true | Some _ => false end.
Fixpoint bytes_eqb (a b : bytes) : bool :=
  match a, b with
  | [], [] => true
  | x :: a', y :: b' => (x =? y) && bytes_eqb a' b'
  | _, _ => false
  end.
Definition obind {A B} (o : option A) (f : A -> option B) : option B :=
  match o with None => None | Some a => f a end.
Notation "'dlet' x <- e 'in' k" := (obind e (fun x => k))
  (at level 200, x pattern, e at level 100, k at level 200, right associativity).
