(* Proofs about byte lanes and the SWAR tricks defined in Lanes.v. *)
From Verif Require Import Base.GoInt Base.Lanes.
From Coq Require Import ZifyBool.
Open Scope Z_scope.

Definition isdigitb (b : Z) : bool := (48 <=? b) && (b <=? 57).

(* json escapeIndex: the combined mask of one 8-byte chunk, and the byte-wise predicate it must equal *)
Definition escape_mask (n : nat) (x : Z) (html : bool) : Z :=
  let m := Z.lor (Z.lor (Z.lor x (below_w n x 32)) (contains_w n x 34)) (contains_w n x 92) in
  let m' := if html
            then Z.lor m (Z.lor (Z.lor (contains_w n x 60) (contains_w n x 62)) (contains_w n x 38))
            else m in
  Z.land m' (msbN n).
Definition needs_escape (html : bool) (b : Z) : bool :=
  (b <? 32) || (127 <? b) || (b =? 34) || (b =? 92) ||
  (html && ((b =? 60) || (b =? 62) || (b =? 38))).

(* ---------- loads ---------- *)
Lemma le_load_bound n xs : wfb xs = true -> 0 <= le_load n xs < 256 ^ Z.of_nat n.
Admitted.
Lemma le_load_firstn n xs : le_load n xs = le_load n (firstn n xs).
Admitted.
Lemma le_load_inj n xs ys :
  wfb xs = true -> wfb ys = true -> length xs = n -> length ys = n ->
  le_load n xs = le_load n ys -> xs = ys.
Admitted.
Lemma le_load_land n xs ys :
  wfb xs = true -> wfb ys = true -> length xs = n -> length ys = n ->
  Z.land (le_load n xs) (le_load n ys) = le_load n (zipw Z.land xs ys).
Admitted.
Lemma le_load_lor n xs ys :
  wfb xs = true -> wfb ys = true -> length xs = n -> length ys = n ->
  Z.lor (le_load n xs) (le_load n ys) = le_load n (zipw Z.lor xs ys).
Admitted.
Lemma le_load_lxor n xs ys :
  wfb xs = true -> wfb ys = true -> length xs = n -> length ys = n ->
  Z.lxor (le_load n xs) (le_load n ys) = le_load n (zipw Z.lxor xs ys).
Admitted.
Lemma le_load_zero_iff n xs :
  wfb xs = true -> length xs = n ->
  (le_load n xs = 0 <-> forallb (fun b => b =? 0) xs = true).
Admitted.
Lemma expandN_mul n c : expandN n c = lsbN n * c.
Admitted.
Lemma notN_lanes n xs :
  wfb xs = true -> length xs = n ->
  notN n (le_load n xs) = le_load n (map (fun b => 255 - b) xs).
Admitted.
Lemma sub_lanes_spec n xs c :
  wfb xs = true -> length xs = n -> 0 <= c < 256 ->
  wN n (le_load n xs - lsbN n * c) = le_load n (sub_lanes 0 xs c).
Admitted.
Lemma add_lanes_spec n xs c :
  wfb xs = true -> length xs = n -> 0 <= c < 256 ->
  wN n (le_load n xs + lsbN n * c) = le_load n (add_lanes 0 xs c).
Admitted.
(* shifting out k lanes and masking recovers lane k *)
Lemma lane_extract n xs k :
  wfb xs = true -> length xs = n -> (k < n)%nat ->
  Z.land (Z.shiftr (le_load n xs) (8 * Z.of_nat k)) 255 = nth k xs 0.
Admitted.
Lemma lane_extract_nibble n xs k :
  wfb xs = true -> length xs = n -> (k < n)%nat ->
  Z.land (Z.shiftr (le_load n xs) (8 * Z.of_nat k)) 15 = (nth k xs 0) mod 16.
Admitted.
Lemma lane_extract_top n xs k :
  wfb xs = true -> length xs = n -> n = S k ->
  Z.shiftr (le_load n xs) (8 * Z.of_nat k) = nth k xs 0.
Admitted.

(* ---------- words whose lanes carry a flag in bit 7 ---------- *)
Lemma msb_flags_zero_iff n xs :
  wfb xs = true -> length xs = n ->
  (Z.land (le_load n xs) (msbN n) = 0 <-> forallb (fun b => b <? 128) xs = true).
Admitted.
Lemma msb_flags_ctz n xs d :
  wfb xs = true -> length xs = n ->
  Z.land (le_load n xs) (msbN n) <> 0 ->
  ctz d (Z.land (le_load n xs) (msbN n)) / 8 = Z.of_nat (find_index (fun b => 128 <=? b) xs).
Admitted.

(* ---------- the tricks ---------- *)
(* hasLess: some byte < c  (1 <= c <= 128); the lowest flagged lane is the FIRST such byte *)
Theorem hasless_zero_iff n xs c :
  wfb xs = true -> length xs = n -> 1 <= c <= 128 ->
  (hasless_mask n (le_load n xs) c = 0 <-> forallb (fun b => c <=? b) xs = true).
Admitted.
Theorem hasless_index n xs c d :
  wfb xs = true -> length xs = n -> 1 <= c <= 128 ->
  hasless_mask n (le_load n xs) c <> 0 ->
  ctz d (hasless_mask n (le_load n xs) c) / 8 = Z.of_nat (find_index (fun b => b <? c) xs).
Admitted.
(* hasMore: some byte > c  (0 <= c <= 127) *)
Theorem hasmore_zero_iff n xs c :
  wfb xs = true -> length xs = n -> 0 <= c <= 127 ->
  (hasmore_mask n (le_load n xs) c = 0 <-> forallb (fun b => b <=? c) xs = true).
Admitted.
(* iso8601 nonNumeric *)
Theorem nonnumeric_zero_iff n xs :
  wfb xs = true -> length xs = n ->
  (nonnumeric_mask n (le_load n xs) = 0 <-> forallb isdigitb xs = true).
Admitted.
(* subtracting '0' from an all-digit word does not borrow *)
Theorem digits_sub_zero n xs :
  wfb xs = true -> length xs = n -> forallb isdigitb xs = true ->
  wN n (le_load n xs - lsbN n * 48) = le_load n (map (fun b => b - 48) xs).
Admitted.
(* json escapeIndex on one chunk *)
Theorem escape_mask_zero_iff n xs html :
  wfb xs = true -> length xs = n ->
  (escape_mask n (le_load n xs) html = 0 <-> forallb (fun b => negb (needs_escape html b)) xs = true).
Admitted.
Theorem escape_mask_index n xs html d :
  wfb xs = true -> length xs = n ->
  escape_mask n (le_load n xs) html <> 0 ->
  ctz d (escape_mask n (le_load n xs) html) / 8 = Z.of_nat (find_index (needs_escape html) xs).
Admitted.
