(* Proofs about byte lanes and the SWAR tricks defined in Lanes.v. *)
From Verif Require Import Base.GoInt Base.Lanes.
From Coq Require Import ZifyBool.
Open Scope Z_scope.

Definition isdigitb (b : Z) : bool := (48 <=? b) && (b <=? 57).

(* json escapeIndex: the combined mask of one 8-byte chunk, and the byte-wise predicate it must equal *)
Definition escape_mask (n : nat) (x : Z) (html : bool) : Z :=
  let m := Z.lor (Z.lor (Z.lor x (below_w n x 32)) (contains_w n x 34)) (contains_w n x 92) in
  let m' := if html
            then Z.lor m (Z.lor (Z.lor (contains_w n x 60) (contains_w n x 62)) (contains_w n x 38))
            else m in
  Z.land m' (msbN n).
Definition needs_escape (html : bool) (b : Z) : bool :=
  (b <? 32) || (127 <? b) || (b =? 34) || (b =? 92) ||
  (html && ((b =? 60) || (b =? 62) || (b =? 38))).

(* ---------- helpers: bytes, powers, lists ---------- *)
Lemma wfb_cons x r : wfb (x :: r) = true <-> (0 <= x < 256) /\ wfb r = true.
Proof.
  unfold wfb; cbn [forallb]; unfold is_byte; rewrite !andb_true_iff, Z.leb_le, Z.ltb_lt.
  tauto.
Qed.

Lemma wfb_nil : wfb [] = true.
Proof. reflexivity. Qed.

Lemma pow256_S n : 256 ^ Z.of_nat (S n) = 256 * 256 ^ Z.of_nat n.
Proof. rewrite Nat2Z.inj_succ, Z.pow_succ_r by lia. reflexivity. Qed.

Lemma pow256_pos n : 0 < 256 ^ Z.of_nat n.
Proof. apply Z.pow_pos_nonneg; lia. Qed.

Lemma le_load_cons n x r : le_load (S n) (x :: r) = x + 256 * le_load n r.
Proof. reflexivity. Qed.

Lemma le_load_nil n : le_load n [] = 0.
Proof. destruct n; reflexivity. Qed.

(* every byte satisfies a boolean predicate that holds on 0..255 (finite sweep) *)
Definition all_bytes : list Z := map Z.of_nat (seq 0 256).
Lemma byte_sweep (P : Z -> bool) :
  forallb P all_bytes = true -> forall b, 0 <= b < 256 -> P b = true.
Proof.
  intros H b Hb. rewrite forallb_forall in H. apply H.
  unfold all_bytes. rewrite in_map_iff. exists (Z.to_nat b). split; [lia|].
  apply in_seq. lia.
Qed.
Lemma byte_sweep2 (P : Z -> Z -> bool) :
  forallb (fun c => forallb (P c) all_bytes) all_bytes = true ->
  forall c b, 0 <= c < 256 -> 0 <= b < 256 -> P c b = true.
Proof.
  intros H c b Hc Hb.
  pose proof (byte_sweep _ H c Hc) as H1. cbv beta in H1.
  exact (byte_sweep _ H1 b Hb).
Qed.

(* ---------- loads ---------- *)
Lemma le_load_bound n xs : wfb xs = true -> 0 <= le_load n xs < 256 ^ Z.of_nat n.
Proof.
  revert xs; induction n as [|n IH]; intros xs H.
  - cbn. lia.
  - pose proof (pow256_pos n) as HP. rewrite pow256_S.
    destruct xs as [|x r]; cbn [le_load]; [lia|].
    apply wfb_cons in H. destruct H as [Hx Hr]. specialize (IH r Hr). lia.
Qed.

Lemma le_load_nonneg n xs : wfb xs = true -> 0 <= le_load n xs.
Proof. intros H. apply (le_load_bound n xs H). Qed.

Lemma le_load_firstn n xs : le_load n xs = le_load n (firstn n xs).
Proof.
  revert xs; induction n as [|n IH]; intros xs; [reflexivity|].
  destruct xs as [|x r]; [reflexivity|].
  cbn [firstn le_load]. rewrite <- IH. reflexivity.
Qed.

Lemma le_load_inj n xs ys :
  wfb xs = true -> wfb ys = true -> length xs = n -> length ys = n ->
  le_load n xs = le_load n ys -> xs = ys.
Proof.
  revert n ys; induction xs as [|x r IH]; intros n ys Hx Hy Lx Ly E.
  - cbn in Lx. subst n. destruct ys; [reflexivity|discriminate].
  - destruct n as [|n]; [discriminate|]. destruct ys as [|y s]; [discriminate|].
    apply wfb_cons in Hx. apply wfb_cons in Hy. destruct Hx as [Bx Hx], Hy as [By Hy].
    cbn [le_load] in E. cbn [length] in Lx, Ly.
    assert (x = y /\ le_load n r = le_load n s) as [E1 E2] by lia.
    subst y. f_equal. apply (IH n); auto.
Qed.

(* bits of a word split into its low lane and the rest *)
Lemma divmod_lane x a : 0 <= x < 256 -> (x + 256 * a) mod 256 = x /\ (x + 256 * a) / 256 = a.
Proof.
  intros H. split.
  - symmetry. apply Z.mod_unique with (q := a); lia.
  - symmetry. apply Z.div_unique with (r := x); lia.
Qed.

Lemma testbit_lane x a i : 0 <= x < 256 -> 0 <= i ->
  Z.testbit (x + 256 * a) i = if i <? 8 then Z.testbit x i else Z.testbit a (i - 8).
Proof.
  intros Hx Hi. destruct (divmod_lane x a Hx) as [Hm Hd].
  destruct (Z.ltb_spec i 8).
  - transitivity (Z.testbit ((x + 256 * a) mod 2 ^ 8) i).
    + rewrite Z.mod_pow2_bits_low by lia. reflexivity.
    + change (2 ^ 8) with 256. rewrite Hm. reflexivity.
  - transitivity (Z.testbit ((x + 256 * a) / 2 ^ 8) (i - 8)).
    + rewrite Z.div_pow2_bits by lia. f_equal; lia.
    + change (2 ^ 8) with 256. rewrite Hd. reflexivity.
Qed.

Lemma byte_high_bits x i : 0 <= x < 256 -> 8 <= i -> Z.testbit x i = false.
Proof.
  intros Hx Hi. rewrite <- (Z.mod_small x (2 ^ 8)) by (change (2 ^ 8) with 256; lia).
  apply Z.mod_pow2_bits_high. lia.
Qed.

Section BitOp.
  Variable f : Z -> Z -> Z.
  Variable fb : bool -> bool -> bool.
  Hypothesis f_spec : forall a b i, Z.testbit (f a b) i = fb (Z.testbit a i) (Z.testbit b i).
  Hypothesis fb_ff : fb false false = false.
  Hypothesis f_nonneg : forall a b, 0 <= a -> 0 <= b -> 0 <= f a b.

  Lemma bitop_byte x y : 0 <= x < 256 -> 0 <= y < 256 -> 0 <= f x y < 256.
  Proof.
    intros Hx Hy. split; [apply f_nonneg; lia|].
    assert (E : f x y = f x y mod 2 ^ 8).
    { apply Z.bits_inj'. intros i Hi. destruct (Z.ltb_spec i 8).
      - rewrite Z.mod_pow2_bits_low by lia. reflexivity.
      - rewrite Z.mod_pow2_bits_high by lia.
        rewrite f_spec, !byte_high_bits by lia. exact fb_ff. }
    rewrite E. change (2 ^ 8) with 256. apply Z.mod_pos_bound. lia.
  Qed.

  Lemma bitop_lane x y a b : 0 <= x < 256 -> 0 <= y < 256 ->
    f (x + 256 * a) (y + 256 * b) = f x y + 256 * f a b.
  Proof.
    intros Hx Hy. pose proof (bitop_byte x y Hx Hy) as Hf.
    apply Z.bits_inj'. intros i Hi.
    rewrite f_spec, !testbit_lane by lia.
    destruct (i <? 8); rewrite f_spec; reflexivity.
  Qed.

  Hypothesis f_00 : f 0 0 = 0.

  Lemma le_load_zipw n xs ys :
    wfb xs = true -> wfb ys = true -> length xs = n -> length ys = n ->
    f (le_load n xs) (le_load n ys) = le_load n (zipw f xs ys).
  Proof.
    revert n ys; induction xs as [|x r IH]; intros n ys Hx Hy Lx Ly.
    - cbn in Lx; subst n. cbn. exact f_00.
    - destruct n as [|n]; [discriminate|]. destruct ys as [|y s]; [discriminate|].
      apply wfb_cons in Hx. apply wfb_cons in Hy. destruct Hx as [Bx Hx], Hy as [By Hy].
      cbn [length] in Lx, Ly. cbn [zipw le_load].
      rewrite bitop_lane by assumption. rewrite (IH n) by (auto; lia). reflexivity.
  Qed.

  Lemma wfb_zipw xs ys : wfb xs = true -> wfb ys = true -> wfb (zipw f xs ys) = true.
  Proof.
    revert ys; induction xs as [|x r IH]; intros ys Hx Hy; [reflexivity|].
    destruct ys as [|y s]; [reflexivity|].
    apply wfb_cons in Hx. apply wfb_cons in Hy. destruct Hx as [Bx Hx], Hy as [By Hy].
    cbn [zipw]. apply wfb_cons. split; [apply bitop_byte; assumption|auto].
  Qed.
End BitOp.

Lemma length_zipw f xs ys : length xs = length ys -> length (zipw f xs ys) = length xs.
Proof.
  revert ys; induction xs as [|x r IH]; intros ys H; [reflexivity|].
  destruct ys as [|y s]; [discriminate|]. cbn [zipw length] in *. rewrite IH; lia.
Qed.

Lemma zipw_repeat f xs c : zipw f xs (repeat c (length xs)) = map (fun b => f b c) xs.
Proof. induction xs as [|x r IH]; [reflexivity|]. cbn [length repeat zipw map]. rewrite IH. reflexivity. Qed.

Lemma land_byte x y : 0 <= x < 256 -> 0 <= y < 256 -> 0 <= Z.land x y < 256.
Proof. apply (bitop_byte Z.land andb Z.land_spec eq_refl). intros; apply Z.land_nonneg; auto. Qed.
Lemma lor_byte x y : 0 <= x < 256 -> 0 <= y < 256 -> 0 <= Z.lor x y < 256.
Proof. apply (bitop_byte Z.lor orb Z.lor_spec eq_refl). intros; apply Z.lor_nonneg; auto. Qed.
Lemma lxor_byte x y : 0 <= x < 256 -> 0 <= y < 256 -> 0 <= Z.lxor x y < 256.
Proof. apply (bitop_byte Z.lxor xorb Z.lxor_spec eq_refl). intros; apply Z.lxor_nonneg; lia. Qed.

Lemma wfb_zipw_land xs ys : wfb xs = true -> wfb ys = true -> wfb (zipw Z.land xs ys) = true.
Proof. apply (wfb_zipw Z.land andb Z.land_spec eq_refl). intros; apply Z.land_nonneg; auto. Qed.
Lemma wfb_zipw_lor xs ys : wfb xs = true -> wfb ys = true -> wfb (zipw Z.lor xs ys) = true.
Proof. apply (wfb_zipw Z.lor orb Z.lor_spec eq_refl). intros; apply Z.lor_nonneg; auto. Qed.
Lemma wfb_zipw_lxor xs ys : wfb xs = true -> wfb ys = true -> wfb (zipw Z.lxor xs ys) = true.
Proof. apply (wfb_zipw Z.lxor xorb Z.lxor_spec eq_refl). intros; apply Z.lxor_nonneg; lia. Qed.

Lemma le_load_land n xs ys :
  wfb xs = true -> wfb ys = true -> length xs = n -> length ys = n ->
  Z.land (le_load n xs) (le_load n ys) = le_load n (zipw Z.land xs ys).
Proof.
  apply (le_load_zipw Z.land andb Z.land_spec eq_refl); [|reflexivity].
  intros; apply Z.land_nonneg; auto.
Qed.
Lemma le_load_lor n xs ys :
  wfb xs = true -> wfb ys = true -> length xs = n -> length ys = n ->
  Z.lor (le_load n xs) (le_load n ys) = le_load n (zipw Z.lor xs ys).
Proof.
  apply (le_load_zipw Z.lor orb Z.lor_spec eq_refl); [|reflexivity].
  intros; apply Z.lor_nonneg; auto.
Qed.
Lemma le_load_lxor n xs ys :
  wfb xs = true -> wfb ys = true -> length xs = n -> length ys = n ->
  Z.lxor (le_load n xs) (le_load n ys) = le_load n (zipw Z.lxor xs ys).
Proof.
  apply (le_load_zipw Z.lxor xorb Z.lxor_spec eq_refl); [|reflexivity].
  intros; apply Z.lxor_nonneg; lia.
Qed.
Lemma le_load_zero_iff n xs :
  wfb xs = true -> length xs = n ->
  (le_load n xs = 0 <-> forallb (fun b => b =? 0) xs = true).
Proof.
  revert n; induction xs as [|x r IH]; intros n Hx Lx.
  - cbn in Lx; subst n. cbn. tauto.
  - destruct n as [|n]; [discriminate|]. cbn [length] in Lx.
    apply wfb_cons in Hx. destruct Hx as [Bx Hx].
    pose proof (le_load_nonneg n r Hx) as HL.
    cbn [le_load forallb]. rewrite andb_true_iff, Z.eqb_eq, <- (IH n) by (auto; lia). lia.
Qed.
Lemma expandN_mul n c : expandN n c = lsbN n * c.
Proof.
  unfold expandN, lsbN. induction n as [|n IH]; [reflexivity|].
  cbn [repeat le_load]. rewrite IH. ring.
Qed.
Lemma notN_lanes n xs :
  wfb xs = true -> length xs = n ->
  notN n (le_load n xs) = le_load n (map (fun b => 255 - b) xs).
Proof.
  unfold notN. revert n; induction xs as [|x r IH]; intros n Hx Lx.
  - cbn in Lx; subst n. reflexivity.
  - destruct n as [|n]; [discriminate|]. cbn [length] in Lx.
    apply wfb_cons in Hx. destruct Hx as [Bx Hx].
    cbn [map le_load]. rewrite <- (IH n) by (auto; lia). rewrite pow256_S. ring.
Qed.

Lemma mod_lane u K P : 0 <= u < 256 -> 0 < P ->
  (u + 256 * K) mod (256 * P) = u + 256 * (K mod P).
Proof.
  intros Hu HP. symmetry. apply Z.mod_unique with (q := K / P).
  - left. pose proof (Z.mod_pos_bound K P HP). lia.
  - pose proof (Z.div_mod K P ltac:(lia)) as E. rewrite E at 1. ring.
Qed.

Lemma sub_lanes_spec_gen n xs c bor :
  wfb xs = true -> length xs = n -> 0 <= c < 256 -> 0 <= bor <= 1 ->
  wN n (le_load n xs - lsbN n * c - bor) = le_load n (sub_lanes bor xs c).
Proof.
  unfold wN, lsbN. revert n bor; induction xs as [|x r IH]; intros n bor Hx Lx Hc Hb.
  - cbn in Lx; subst n. cbn. apply Z.mod_1_r.
  - destruct n as [|n]; [discriminate|]. cbn [length] in Lx.
    apply wfb_cons in Hx. destruct Hx as [Bx Hx].
    cbn [repeat le_load sub_lanes].
    set (d := x - c - bor).
    rewrite <- (IH n) by (auto; try lia; destruct (d <? 0); lia).
    rewrite pow256_S. rewrite <- mod_lane by (try apply pow256_pos; apply Z.mod_pos_bound; lia).
    f_equal.
    assert (Hd : d = d mod 256 - 256 * (if d <? 0 then 1 else 0)).
    { destruct (Z.ltb_spec d 0).
      - replace (d mod 256) with (d + 256); [lia|].
        apply Z.mod_unique with (q := -1); lia.
      - rewrite Z.mod_small by lia. lia. }
    set (L := le_load n r) in *. set (S := le_load n (repeat 1 n)) in *.
    set (b' := if d <? 0 then 1 else 0) in *.
    replace (x + 256 * L - (1 + 256 * S) * c - bor) with (d + 256 * (L - S * c)) by (unfold d; ring).
    rewrite Hd at 1. ring.
Qed.

Lemma sub_lanes_spec n xs c :
  wfb xs = true -> length xs = n -> 0 <= c < 256 ->
  wN n (le_load n xs - lsbN n * c) = le_load n (sub_lanes 0 xs c).
Proof.
  intros. rewrite <- sub_lanes_spec_gen by (auto; lia). f_equal. ring.
Qed.

Lemma add_lanes_spec_gen n xs c car :
  wfb xs = true -> length xs = n -> 0 <= c < 256 -> 0 <= car <= 1 ->
  wN n (le_load n xs + lsbN n * c + car) = le_load n (add_lanes car xs c).
Proof.
  unfold wN, lsbN. revert n car; induction xs as [|x r IH]; intros n car Hx Lx Hc Hb.
  - cbn in Lx; subst n. cbn. apply Z.mod_1_r.
  - destruct n as [|n]; [discriminate|]. cbn [length] in Lx.
    apply wfb_cons in Hx. destruct Hx as [Bx Hx].
    cbn [repeat le_load add_lanes].
    set (d := x + c + car).
    rewrite <- (IH n) by (auto; try lia; destruct (256 <=? d); lia).
    rewrite pow256_S. rewrite <- mod_lane by (try apply pow256_pos; apply Z.mod_pos_bound; lia).
    f_equal.
    assert (Hd : d = d mod 256 + 256 * (if 256 <=? d then 1 else 0)).
    { destruct (Z.leb_spec 256 d).
      - replace (d mod 256) with (d - 256); [lia|].
        apply Z.mod_unique with (q := 1); lia.
      - rewrite Z.mod_small by lia. lia. }
    set (L := le_load n r) in *. set (S := le_load n (repeat 1 n)) in *.
    set (b' := if 256 <=? d then 1 else 0) in *.
    replace (x + 256 * L + (1 + 256 * S) * c + car) with (d + 256 * (L + S * c)) by (unfold d; ring).
    rewrite Hd at 1. ring.
Qed.

Lemma add_lanes_spec n xs c :
  wfb xs = true -> length xs = n -> 0 <= c < 256 ->
  wN n (le_load n xs + lsbN n * c) = le_load n (add_lanes 0 xs c).
Proof.
  intros. rewrite <- add_lanes_spec_gen by (auto; lia). f_equal. ring.
Qed.

(* shifting out k lanes and masking recovers lane k *)
Lemma shiftr_lane x L m : 0 <= x < 256 -> 0 <= m ->
  Z.shiftr (x + 256 * L) (8 + m) = Z.shiftr L m.
Proof.
  intros Hx Hm. rewrite <- Z.shiftr_shiftr by lia. f_equal.
  rewrite Z.shiftr_div_pow2 by lia. change (2 ^ 8) with 256. apply divmod_lane; assumption.
Qed.

Lemma lane_shift n xs k : wfb xs = true -> length xs = n -> (k < n)%nat ->
  exists L, 0 <= L /\ (n = S k -> L = 0) /\ 0 <= nth k xs 0 < 256 /\
    Z.shiftr (le_load n xs) (8 * Z.of_nat k) = nth k xs 0 + 256 * L.
Proof.
  revert n xs; induction k as [|k IH]; intros n xs Hx Lx Hk.
  - destruct n as [|n]; [lia|]. destruct xs as [|x r]; [discriminate|].
    apply wfb_cons in Hx; destruct Hx as [Bx Hx].
    exists (le_load n r). cbn [nth le_load]. split; [apply le_load_nonneg; auto|].
    split; [intros E; injection E as ->; reflexivity|]. split; [assumption|].
    change (8 * Z.of_nat 0) with 0. apply Z.shiftr_0_r.
  - destruct n as [|n]; [lia|]. destruct xs as [|x r]; [discriminate|].
    apply wfb_cons in Hx; destruct Hx as [Bx Hx]. cbn [length] in Lx.
    destruct (IH n r Hx ltac:(lia) ltac:(lia)) as (L & HL & Htop & Hb & E).
    exists L. cbn [nth le_load]. split; [assumption|].
    split; [intros E'; apply Htop; lia|]. split; [assumption|].
    replace (8 * Z.of_nat (S k)) with (8 + 8 * Z.of_nat k) by lia.
    rewrite shiftr_lane by lia. exact E.
Qed.

Lemma lane_extract n xs k :
  wfb xs = true -> length xs = n -> (k < n)%nat ->
  Z.land (Z.shiftr (le_load n xs) (8 * Z.of_nat k)) 255 = nth k xs 0.
Proof.
  intros Hx Lx Hk. destruct (lane_shift n xs k Hx Lx Hk) as (L & HL & _ & Hb & E).
  rewrite E. change 255 with (Z.ones 8). rewrite Z.land_ones by lia.
  change (2 ^ 8) with 256. apply divmod_lane; assumption.
Qed.
Lemma lane_extract_nibble n xs k :
  wfb xs = true -> length xs = n -> (k < n)%nat ->
  Z.land (Z.shiftr (le_load n xs) (8 * Z.of_nat k)) 15 = (nth k xs 0) mod 16.
Proof.
  intros Hx Lx Hk. destruct (lane_shift n xs k Hx Lx Hk) as (L & HL & _ & Hb & E).
  rewrite E. change 15 with (Z.ones 4). rewrite Z.land_ones by lia.
  change (2 ^ 4) with 16.
  replace (nth k xs 0 + 256 * L) with (nth k xs 0 + (16 * L) * 16) by ring.
  apply Z.mod_add. lia.
Qed.
Lemma lane_extract_top n xs k :
  wfb xs = true -> length xs = n -> n = S k ->
  Z.shiftr (le_load n xs) (8 * Z.of_nat k) = nth k xs 0.
Proof.
  intros Hx Lx Hk. destruct (lane_shift n xs k Hx Lx ltac:(lia)) as (L & HL & Htop & Hb & E).
  rewrite E, (Htop Hk). ring.
Qed.

(* ---------- words whose lanes carry a msb_flag in bit 7 ---------- *)
Definition msb_flag (b : Z) : Z := if b <? 128 then 0 else 128.

Lemma land128 b : 0 <= b < 256 -> Z.land b 128 = msb_flag b.
Proof.
  intros Hb. apply Z.eqb_eq.
  apply (byte_sweep (fun b => Z.land b 128 =? msb_flag b)); [vm_compute; reflexivity|assumption].
Qed.

Lemma wfb_In xs a : wfb xs = true -> In a xs -> 0 <= a < 256.
Proof.
  unfold wfb. rewrite forallb_forall. intros H Ha. specialize (H a Ha).
  unfold is_byte in H. lia.
Qed.

Lemma wfb_repeat c n : 0 <= c < 256 -> wfb (repeat c n) = true.
Proof.
  intros Hc. induction n as [|n IH]; [reflexivity|].
  cbn [repeat]. apply wfb_cons. auto.
Qed.

Lemma wfb_map f xs : (forall b, 0 <= b < 256 -> 0 <= f b < 256) ->
  wfb xs = true -> wfb (map f xs) = true.
Proof.
  intros Hf. induction xs as [|x r IH]; intros H; [reflexivity|].
  apply wfb_cons in H. destruct H as [Bx Hr]. cbn [map]. apply wfb_cons. auto.
Qed.

Lemma flag_byte b : 0 <= msb_flag b < 256.
Proof. unfold msb_flag. destruct (b <? 128); lia. Qed.

Lemma land_msbN n xs : wfb xs = true -> length xs = n ->
  Z.land (le_load n xs) (msbN n) = le_load n (map msb_flag xs).
Proof.
  intros Hx Lx. unfold msbN.
  rewrite le_load_land by (auto using wfb_repeat, repeat_length; apply wfb_repeat; lia).
  subst n. rewrite zipw_repeat. f_equal. apply map_ext_in.
  intros a Ha. apply land128. eapply wfb_In; eauto.
Qed.

Lemma wfb_map_flag xs : wfb (map msb_flag xs) = true.
Proof.
  induction xs as [|x r IH]; [reflexivity|]. cbn [map]. apply wfb_cons.
  split; [apply flag_byte|assumption].
Qed.

Lemma flags_zero_iff n xs : length xs = n ->
  (le_load n (map msb_flag xs) = 0 <-> forallb (fun b => b <? 128) xs = true).
Proof.
  revert n; induction xs as [|x r IH]; intros n Lx.
  - cbn in Lx; subst n. cbn. tauto.
  - destruct n as [|n]; [discriminate|]. cbn [length] in Lx.
    pose proof (le_load_nonneg n _ (wfb_map_flag r)) as HL.
    cbn [map le_load forallb]. rewrite andb_true_iff, <- (IH n) by lia.
    unfold msb_flag at 1. destruct (Z.ltb_spec x 128); lia.
Qed.

Lemma msb_flags_zero_iff n xs :
  wfb xs = true -> length xs = n ->
  (Z.land (le_load n xs) (msbN n) = 0 <-> forallb (fun b => b <? 128) xs = true).
Proof. intros Hx Lx. rewrite land_msbN by assumption. apply flags_zero_iff; assumption. Qed.

Lemma ctz_128 d L : 0 <= L -> ctz d (128 + 256 * L) = 7.
Proof.
  destruct L as [|p|p]; try lia; intros _; [reflexivity|].
  change (128 + 256 * Z.pos p) with (Z.pos p~1~0~0~0~0~0~0~0). cbn [ctz ctz_pos]. lia.
Qed.
Lemma ctz_256 d L : 0 < L -> ctz d (256 * L) = 8 + ctz d L.
Proof.
  destruct L as [|p|p]; try lia; intros _.
  change (256 * Z.pos p) with (Z.pos p~0~0~0~0~0~0~0~0). cbn [ctz ctz_pos]. lia.
Qed.

Lemma flags_ctz n xs d : length xs = n ->
  le_load n (map msb_flag xs) <> 0 ->
  ctz d (le_load n (map msb_flag xs)) / 8 = Z.of_nat (find_index (fun b => 128 <=? b) xs).
Proof.
  revert n; induction xs as [|x r IH]; intros n Lx.
  - cbn in Lx; subst n. cbn. lia.
  - destruct n as [|n]; [discriminate|]. cbn [length] in Lx.
    pose proof (le_load_nonneg n _ (wfb_map_flag r)) as HL.
    cbn [map le_load find_index]. specialize (IH n ltac:(lia)).
    set (L := le_load n (map msb_flag r)) in *. unfold msb_flag.
    destruct (Z.ltb_spec x 128); intros NZ.
    + replace (128 <=? x) with false by lia.
      rewrite Z.add_0_l in *. rewrite ctz_256 by lia.
      rewrite Nat2Z.inj_succ, <- IH by lia.
      replace (8 + ctz d L) with (1 * 8 + ctz d L) by ring.
      rewrite Z.div_add_l by lia. lia.
    + replace (128 <=? x) with true by lia.
      rewrite ctz_128 by assumption. reflexivity.
Qed.

Lemma msb_flags_ctz n xs d :
  wfb xs = true -> length xs = n ->
  Z.land (le_load n xs) (msbN n) <> 0 ->
  ctz d (Z.land (le_load n xs) (msbN n)) / 8 = Z.of_nat (find_index (fun b => 128 <=? b) xs).
Proof. intros Hx Lx. rewrite land_msbN by assumption. apply flags_ctz; assumption. Qed.

(* ---------- lane lists of the borrow/carry chains ---------- *)
Lemma wfb_sub_lanes bor xs c : wfb (sub_lanes bor xs c) = true.
Proof.
  revert bor; induction xs as [|x r IH]; intros bor; [reflexivity|].
  cbn [sub_lanes]. apply wfb_cons. split; [apply Z.mod_pos_bound; lia|apply IH].
Qed.
Lemma wfb_add_lanes car xs c : wfb (add_lanes car xs c) = true.
Proof.
  revert car; induction xs as [|x r IH]; intros car; [reflexivity|].
  cbn [add_lanes]. apply wfb_cons. split; [apply Z.mod_pos_bound; lia|apply IH].
Qed.
Lemma length_sub_lanes bor xs c : length (sub_lanes bor xs c) = length xs.
Proof.
  revert bor; induction xs as [|x r IH]; intros bor; [reflexivity|].
  cbn [sub_lanes length]. rewrite IH. reflexivity.
Qed.
Lemma length_add_lanes car xs c : length (add_lanes car xs c) = length xs.
Proof.
  revert car; induction xs as [|x r IH]; intros car; [reflexivity|].
  cbn [add_lanes length]. rewrite IH. reflexivity.
Qed.

(* A lane-list transformer F whose output lane has bit 7 clear on every good input lane
   (and then continues as on the tail, i.e. nothing is borrowed or carried), and bit 7
   set on the first bad lane: the msb_flag word of F xs is zero iff all lanes are good, and
   its lowest flagged lane is the first bad lane. *)
Section FirstBad.
  Variables (good bad : Z -> bool) (F : bytes -> bytes).
  Hypothesis Hgb : forall x, 0 <= x < 256 -> bad x = negb (good x).
  Hypothesis Fnil : F [] = [].
  Hypothesis Fgood : forall x r, 0 <= x < 256 -> good x = true ->
    exists h, h < 128 /\ F (x :: r) = h :: F r.
  Hypothesis Fbad : forall x r, 0 <= x < 256 -> good x = false ->
    exists h t, 128 <= h /\ F (x :: r) = h :: t.
  Hypothesis Fwfb : forall xs, wfb xs = true -> wfb (F xs) = true.
  Hypothesis Flen : forall xs, length (F xs) = length xs.

  Lemma first_bad xs : wfb xs = true ->
    forallb (fun b => b <? 128) (F xs) = forallb good xs /\
    find_index (fun b => 128 <=? b) (F xs) = find_index bad xs.
  Proof.
    induction xs as [|x r IH]; intros H.
    - rewrite Fnil. split; reflexivity.
    - apply wfb_cons in H. destruct H as [Bx Hr]. destruct (IH Hr) as [IH1 IH2].
      cbn [forallb find_index]. rewrite (Hgb x Bx).
      destruct (good x) eqn:G; cbn [negb andb].
      + destruct (Fgood x r Bx G) as (h & Hh & E). rewrite E. cbn [forallb find_index].
        replace (h <? 128) with true by lia. replace (128 <=? h) with false by lia.
        cbn [andb]. split; congruence.
      + destruct (Fbad x r Bx G) as (h & t & Hh & E). rewrite E. cbn [forallb find_index].
        replace (h <? 128) with false by lia. replace (128 <=? h) with true by lia.
        split; reflexivity.
  Qed.

  Lemma first_bad_zero n xs : wfb xs = true -> length xs = n ->
    (Z.land (le_load n (F xs)) (msbN n) = 0 <-> forallb good xs = true).
  Proof.
    intros Hx Lx. rewrite msb_flags_zero_iff by (auto; rewrite Flen; assumption).
    destruct (first_bad xs Hx) as [E _]. rewrite E. tauto.
  Qed.

  Lemma first_bad_index n xs d : wfb xs = true -> length xs = n ->
    Z.land (le_load n (F xs)) (msbN n) <> 0 ->
    ctz d (Z.land (le_load n (F xs)) (msbN n)) / 8 = Z.of_nat (find_index bad xs).
  Proof.
    intros Hx Lx NZ. rewrite msb_flags_ctz by (auto; rewrite Flen; assumption).
    destruct (first_bad xs Hx) as [_ E]. rewrite E. reflexivity.
  Qed.
End FirstBad.

(* ---------- the tricks ---------- *)
Lemma wfb_map_not xs : wfb xs = true -> wfb (map (fun b => 255 - b) xs) = true.
Proof. apply wfb_map. intros; lia. Qed.
Lemma wfb_map_lxor c xs : 0 <= c < 256 -> wfb xs = true -> wfb (map (fun b => Z.lxor b c) xs) = true.
Proof. intros Hc. apply wfb_map. intros; apply lxor_byte; assumption. Qed.

(* hasLess *)
Definition hasless_F (c : Z) (xs : bytes) : bytes :=
  zipw Z.land (sub_lanes 0 xs c) (map (fun b => 255 - b) xs).

Lemma hasless_lanes n xs c : wfb xs = true -> length xs = n -> 0 <= c < 256 ->
  hasless_mask n (le_load n xs) c = Z.land (le_load n (hasless_F c xs)) (msbN n).
Proof.
  intros Hx Lx Hc. unfold hasless_mask, hasless_F.
  rewrite sub_lanes_spec, notN_lanes by assumption.
  rewrite le_load_land; auto using wfb_sub_lanes, wfb_map_not.
  - rewrite length_sub_lanes; assumption.
  - rewrite map_length; assumption.
Qed.

Lemma hasless_lane c x : 1 <= c <= 128 -> 0 <= x < 256 ->
  (if c <=? x then Z.land ((x - c - 0) mod 256) (255 - x) <? 128
   else 128 <=? Z.land ((x - c - 0) mod 256) (255 - x)) = true.
Proof.
  intros Hc Hx.
  pose proof (byte_sweep2
    (fun c x => implb ((1 <=? c) && (c <=? 128))
       (if c <=? x then Z.land ((x - c - 0) mod 256) (255 - x) <? 128
        else 128 <=? Z.land ((x - c - 0) mod 256) (255 - x)))
    ltac:(vm_compute; reflexivity) c x ltac:(lia) Hx) as H.
  cbv beta in H. replace ((1 <=? c) && (c <=? 128)) with true in H by lia. exact H.
Qed.

Lemma hasless_first_bad c : 1 <= c <= 128 ->
  (forall x r, 0 <= x < 256 -> (c <=? x) = true ->
     exists h, h < 128 /\ hasless_F c (x :: r) = h :: hasless_F c r) /\
  (forall x r, 0 <= x < 256 -> (c <=? x) = false ->
     exists h t, 128 <= h /\ hasless_F c (x :: r) = h :: t).
Proof.
  intros Hc. split; intros x r Bx G; pose proof (hasless_lane c x Hc Bx) as HL;
    rewrite G in HL; unfold hasless_F; cbn [sub_lanes map zipw].
  - replace (x - c - 0 <? 0) with false by lia.
    eexists; split; [|reflexivity]. lia.
  - do 2 eexists; split; [|reflexivity]. lia.
Qed.

Lemma hasless_wfb c xs : wfb xs = true -> wfb (hasless_F c xs) = true.
Proof. intros. apply wfb_zipw_land; auto using wfb_sub_lanes, wfb_map_not. Qed.
Lemma hasless_len c xs : length (hasless_F c xs) = length xs.
Proof.
  unfold hasless_F. rewrite length_zipw; rewrite length_sub_lanes; [reflexivity|].
  rewrite map_length; reflexivity.
Qed.

Theorem hasless_zero_iff n xs c :
  wfb xs = true -> length xs = n -> 1 <= c <= 128 ->
  (hasless_mask n (le_load n xs) c = 0 <-> forallb (fun b => c <=? b) xs = true).
Proof.
  intros Hx Lx Hc. rewrite hasless_lanes by (auto; lia).
  destruct (hasless_first_bad c Hc) as [Hg Hb].
  apply (first_bad_zero (fun b => c <=? b) (fun b => b <? c) (hasless_F c));
    auto using hasless_wfb, hasless_len.
  intros; lia.
Qed.
Theorem hasless_index n xs c d :
  wfb xs = true -> length xs = n -> 1 <= c <= 128 ->
  hasless_mask n (le_load n xs) c <> 0 ->
  ctz d (hasless_mask n (le_load n xs) c) / 8 = Z.of_nat (find_index (fun b => b <? c) xs).
Proof.
  intros Hx Lx Hc. rewrite hasless_lanes by (auto; lia).
  destruct (hasless_first_bad c Hc) as [Hg Hb].
  apply (first_bad_index (fun b => c <=? b) (fun b => b <? c) (hasless_F c));
    auto using hasless_wfb, hasless_len.
  intros; lia.
Qed.

(* hasMore *)
Definition hasmore_F (c : Z) (xs : bytes) : bytes :=
  zipw Z.lor (add_lanes 0 xs (127 - c)) xs.

Lemma hasmore_lanes n xs c : wfb xs = true -> length xs = n -> 0 <= c <= 127 ->
  hasmore_mask n (le_load n xs) c = Z.land (le_load n (hasmore_F c xs)) (msbN n).
Proof.
  intros Hx Lx Hc. unfold hasmore_mask, hasmore_F.
  rewrite add_lanes_spec by (auto; lia).
  rewrite le_load_lor; auto using wfb_add_lanes.
  rewrite length_add_lanes; assumption.
Qed.

Lemma hasmore_lane c x : 0 <= c <= 127 -> 0 <= x < 256 ->
  (if x <=? c then negb (256 <=? x + (127 - c) + 0) && (Z.lor ((x + (127 - c) + 0) mod 256) x <? 128)
   else 128 <=? Z.lor ((x + (127 - c) + 0) mod 256) x) = true.
Proof.
  intros Hc Hx.
  pose proof (byte_sweep2
    (fun c x => implb (c <=? 127)
       (if x <=? c then negb (256 <=? x + (127 - c) + 0) && (Z.lor ((x + (127 - c) + 0) mod 256) x <? 128)
        else 128 <=? Z.lor ((x + (127 - c) + 0) mod 256) x))
    ltac:(vm_compute; reflexivity) c x ltac:(lia) Hx) as H.
  cbv beta in H. replace (c <=? 127) with true in H by lia. exact H.
Qed.

Lemma hasmore_first_bad c : 0 <= c <= 127 ->
  (forall x r, 0 <= x < 256 -> (x <=? c) = true ->
     exists h, h < 128 /\ hasmore_F c (x :: r) = h :: hasmore_F c r) /\
  (forall x r, 0 <= x < 256 -> (x <=? c) = false ->
     exists h t, 128 <= h /\ hasmore_F c (x :: r) = h :: t).
Proof.
  intros Hc. split; intros x r Bx G; pose proof (hasmore_lane c x Hc Bx) as HL;
    rewrite G in HL; unfold hasmore_F; cbn [add_lanes zipw].
  - apply andb_prop in HL. destruct HL as [H1 H2]. apply negb_true_iff in H1. rewrite H1.
    eexists; split; [|reflexivity]. lia.
  - do 2 eexists; split; [|reflexivity]. lia.
Qed.

Lemma hasmore_wfb c xs : wfb xs = true -> wfb (hasmore_F c xs) = true.
Proof. intros. apply wfb_zipw_lor; auto using wfb_add_lanes. Qed.
Lemma hasmore_len c xs : length (hasmore_F c xs) = length xs.
Proof. unfold hasmore_F. rewrite length_zipw; rewrite length_add_lanes; reflexivity. Qed.

Theorem hasmore_zero_iff n xs c :
  wfb xs = true -> length xs = n -> 0 <= c <= 127 ->
  (hasmore_mask n (le_load n xs) c = 0 <-> forallb (fun b => b <=? c) xs = true).
Proof.
  intros Hx Lx Hc. rewrite hasmore_lanes by auto.
  destruct (hasmore_first_bad c Hc) as [Hg Hb].
  apply (first_bad_zero (fun b => b <=? c) (fun b => negb (b <=? c)) (hasmore_F c));
    auto using hasmore_wfb, hasmore_len.
Qed.

(* iso8601 nonNumeric *)
Definition nonnum_F (xs : bytes) : bytes :=
  zipw Z.lor (zipw Z.lor (sub_lanes 0 xs 48) (add_lanes 0 xs 70)) xs.

Lemma map_repeat_const {A B} (f : A -> B) c n : map f (repeat c n) = repeat (f c) n.
Proof. induction n as [|n IH]; [reflexivity|]. cbn [repeat map]. rewrite IH. reflexivity. Qed.

Lemma not_msb_minus n : notN n (msbN n) - lsbN n * 57 = lsbN n * 70.
Proof.
  unfold msbN. rewrite notN_lanes by (try apply repeat_length; apply wfb_repeat; lia).
  rewrite map_repeat_const. change (255 - 128) with 127.
  change (le_load n (repeat 127 n)) with (expandN n 127). rewrite expandN_mul. ring.
Qed.

Lemma nonnum_lanes n xs : wfb xs = true -> length xs = n ->
  nonnumeric_mask n (le_load n xs) = Z.land (le_load n (nonnum_F xs)) (msbN n).
Proof.
  intros Hx Lx. unfold nonnumeric_mask, nonnum_F.
  rewrite not_msb_minus.
  rewrite sub_lanes_spec, add_lanes_spec by (auto; lia).
  rewrite !le_load_lor; auto using wfb_add_lanes, wfb_sub_lanes, wfb_zipw_lor;
    rewrite ?length_zipw; rewrite ?length_add_lanes, ?length_sub_lanes; auto.
Qed.

Lemma nonnum_lane x : 0 <= x < 256 ->
  (if isdigitb x
   then negb (x - 48 - 0 <? 0) && negb (256 <=? x + 70 + 0) &&
        (Z.lor (Z.lor ((x - 48 - 0) mod 256) ((x + 70 + 0) mod 256)) x <? 128)
   else 128 <=? Z.lor (Z.lor ((x - 48 - 0) mod 256) ((x + 70 + 0) mod 256)) x) = true.
Proof.
  intros Hx.
  exact (byte_sweep
    (fun x => if isdigitb x
       then negb (x - 48 - 0 <? 0) && negb (256 <=? x + 70 + 0) &&
            (Z.lor (Z.lor ((x - 48 - 0) mod 256) ((x + 70 + 0) mod 256)) x <? 128)
       else 128 <=? Z.lor (Z.lor ((x - 48 - 0) mod 256) ((x + 70 + 0) mod 256)) x)
    ltac:(vm_compute; reflexivity) x Hx).
Qed.

Lemma nonnum_first_bad :
  (forall x r, 0 <= x < 256 -> isdigitb x = true ->
     exists h, h < 128 /\ nonnum_F (x :: r) = h :: nonnum_F r) /\
  (forall x r, 0 <= x < 256 -> isdigitb x = false ->
     exists h t, 128 <= h /\ nonnum_F (x :: r) = h :: t).
Proof.
  split; intros x r Bx G; pose proof (nonnum_lane x Bx) as HL;
    rewrite G in HL; unfold nonnum_F; cbn [sub_lanes add_lanes zipw].
  - rewrite !andb_true_iff, !negb_true_iff in HL. destruct HL as [[H1 H2] H3].
    rewrite H1, H2. eexists; split; [|reflexivity]. lia.
  - do 2 eexists; split; [|reflexivity]. lia.
Qed.

Lemma nonnum_wfb xs : wfb xs = true -> wfb (nonnum_F xs) = true.
Proof. intros. unfold nonnum_F. auto using wfb_zipw_lor, wfb_add_lanes, wfb_sub_lanes. Qed.
Lemma nonnum_len xs : length (nonnum_F xs) = length xs.
Proof.
  unfold nonnum_F. rewrite !length_zipw; rewrite ?length_zipw;
    rewrite ?length_sub_lanes, ?length_add_lanes; reflexivity.
Qed.

Theorem nonnumeric_zero_iff n xs :
  wfb xs = true -> length xs = n ->
  (nonnumeric_mask n (le_load n xs) = 0 <-> forallb isdigitb xs = true).
Proof.
  intros Hx Lx. rewrite nonnum_lanes by auto.
  destruct nonnum_first_bad as [Hg Hb].
  apply (first_bad_zero isdigitb (fun b => negb (isdigitb b)) nonnum_F);
    auto using nonnum_wfb, nonnum_len.
Qed.

(* subtracting '0' from an all-digit word does not borrow *)
Theorem digits_sub_zero n xs :
  wfb xs = true -> length xs = n -> forallb isdigitb xs = true ->
  wN n (le_load n xs - lsbN n * 48) = le_load n (map (fun b => b - 48) xs).
Proof.
  intros Hx Lx Hd. rewrite sub_lanes_spec by (auto; lia). f_equal.
  clear n Lx Hx. induction xs as [|x r IH]; [reflexivity|].
  cbn [forallb] in Hd. apply andb_prop in Hd. destruct Hd as [D1 D2].
  unfold isdigitb in D1. cbn [sub_lanes map].
  replace (x - 48 - 0 <? 0) with false by lia.
  rewrite (IH D2). f_equal. rewrite Z.mod_small; lia.
Qed.

(* json escapeIndex on one chunk *)
Definition cont_L (c : Z) (xs : bytes) : bytes := sub_lanes 0 (map (fun b => Z.lxor b c) xs) 1.

Lemma contains_lanes n xs c : wfb xs = true -> length xs = n -> 0 <= c < 256 ->
  contains_w n (le_load n xs) c = le_load n (cont_L c xs).
Proof.
  intros Hx Lx Hc. unfold contains_w, cont_L.
  rewrite <- expandN_mul. unfold expandN.
  rewrite le_load_lxor by (auto using repeat_length; apply wfb_repeat; assumption).
  subst n. rewrite zipw_repeat.
  replace (lsbN (length xs)) with (lsbN (length xs) * 1) by ring.
  apply sub_lanes_spec; [apply wfb_map_lxor; assumption|apply map_length|lia].
Qed.

Lemma cont_wfb c xs : wfb (cont_L c xs) = true.
Proof. apply wfb_sub_lanes. Qed.
Lemma cont_len c xs : length (cont_L c xs) = length xs.
Proof. unfold cont_L. rewrite length_sub_lanes. apply map_length. Qed.

Lemma length_zipw_n f xs ys n : length xs = n -> length ys = n -> length (zipw f xs ys) = n.
Proof. intros H1 H2. rewrite length_zipw; congruence. Qed.

Ltac lanes_solve_len :=
  repeat apply length_zipw_n;
  rewrite ?cont_len, ?length_sub_lanes, ?length_add_lanes, ?map_length; auto.

Definition esc_F0 (xs : bytes) : bytes :=
  zipw Z.lor (zipw Z.lor (zipw Z.lor xs (sub_lanes 0 xs 32)) (cont_L 34 xs)) (cont_L 92 xs).
Definition esc_F (html : bool) (xs : bytes) : bytes :=
  if html
  then zipw Z.lor (esc_F0 xs) (zipw Z.lor (zipw Z.lor (cont_L 60 xs) (cont_L 62 xs)) (cont_L 38 xs))
  else esc_F0 xs.

Lemma esc_wfb html xs : wfb xs = true -> wfb (esc_F html xs) = true.
Proof.
  intros. unfold esc_F, esc_F0.
  destruct html; auto 10 using wfb_zipw_lor, wfb_sub_lanes, cont_wfb.
Qed.
Lemma esc_F0_len xs : length (esc_F0 xs) = length xs.
Proof. unfold esc_F0. lanes_solve_len. Qed.
Lemma esc_len html xs : length (esc_F html xs) = length xs.
Proof.
  unfold esc_F. destruct html; [|apply esc_F0_len].
  apply length_zipw_n; [apply esc_F0_len|lanes_solve_len].
Qed.

Lemma escape_lanes n xs html : wfb xs = true -> length xs = n ->
  escape_mask n (le_load n xs) html = Z.land (le_load n (esc_F html xs)) (msbN n).
Proof.
  intros Hx Lx. unfold escape_mask, esc_F.
  assert (E0 : Z.lor (Z.lor (Z.lor (le_load n xs) (below_w n (le_load n xs) 32))
                 (contains_w n (le_load n xs) 34)) (contains_w n (le_load n xs) 92)
               = le_load n (esc_F0 xs)).
  { unfold below_w, esc_F0. rewrite sub_lanes_spec by (auto; lia).
    rewrite !contains_lanes by (auto; lia).
    rewrite !le_load_lor; auto using wfb_zipw_lor, wfb_sub_lanes, cont_wfb; lanes_solve_len. }
  cbv zeta. rewrite E0. destruct html; [|reflexivity].
  pose proof (esc_wfb false xs Hx) as W0. pose proof (esc_F0_len xs) as L0.
  change (esc_F false xs) with (esc_F0 xs) in W0.
  rewrite !contains_lanes by (auto; lia).
  rewrite !le_load_lor; auto using wfb_zipw_lor, cont_wfb; lanes_solve_len; congruence.
Qed.

Definition esc_cl (c x : Z) : Z := (Z.lxor x c - 1 - 0) mod 256.      (* lane of contains *)
Definition esc_cb (c x : Z) : bool := Z.lxor x c - 1 - 0 <? 0.       (* its borrow *)
Definition esc_h0 (x : Z) : Z :=
  Z.lor (Z.lor (Z.lor x ((x - 32 - 0) mod 256)) (esc_cl 34 x)) (esc_cl 92 x).
Definition esc_h (html : bool) (x : Z) : Z :=
  if html then Z.lor (esc_h0 x) (Z.lor (Z.lor (esc_cl 60 x) (esc_cl 62 x)) (esc_cl 38 x)) else esc_h0 x.

Lemma esc_lane html x : 0 <= x < 256 ->
  (if needs_escape html x then 128 <=? esc_h html x
   else negb (x - 32 - 0 <? 0) && negb (esc_cb 34 x) && negb (esc_cb 92 x) &&
        negb (html && esc_cb 60 x) && negb (html && esc_cb 62 x) && negb (html && esc_cb 38 x) &&
        (esc_h html x <? 128)) = true.
Proof.
  intros Hx.
  destruct html;
  [ exact (byte_sweep
      (fun x => if needs_escape true x then 128 <=? esc_h true x
         else negb (x - 32 - 0 <? 0) && negb (esc_cb 34 x) && negb (esc_cb 92 x) &&
              negb (true && esc_cb 60 x) && negb (true && esc_cb 62 x) && negb (true && esc_cb 38 x) &&
              (esc_h true x <? 128))
      ltac:(vm_compute; reflexivity) x Hx)
  | exact (byte_sweep
      (fun x => if needs_escape false x then 128 <=? esc_h false x
         else negb (x - 32 - 0 <? 0) && negb (esc_cb 34 x) && negb (esc_cb 92 x) &&
              negb (false && esc_cb 60 x) && negb (false && esc_cb 62 x) && negb (false && esc_cb 38 x) &&
              (esc_h false x <? 128))
      ltac:(vm_compute; reflexivity) x Hx) ].
Qed.

Lemma cont_cons c x r :
  cont_L c (x :: r) = esc_cl c x :: sub_lanes (if esc_cb c x then 1 else 0) (map (fun b => Z.lxor b c) r) 1.
Proof. reflexivity. Qed.

Lemma esc_first_bad html :
  (forall x r, 0 <= x < 256 -> negb (needs_escape html x) = true ->
     exists h, h < 128 /\ esc_F html (x :: r) = h :: esc_F html r) /\
  (forall x r, 0 <= x < 256 -> negb (needs_escape html x) = false ->
     exists h t, 128 <= h /\ esc_F html (x :: r) = h :: t).
Proof.
  split; intros x r Bx G; pose proof (esc_lane html x Bx) as HL.
  - apply negb_true_iff in G. rewrite G in HL.
    rewrite !andb_true_iff, !negb_true_iff in HL.
    destruct HL as [[[[[[H1 H2] H3] H4] H5] H6] H7].
    exists (esc_h html x). split; [lia|].
    unfold esc_F, esc_F0. rewrite !cont_cons. cbn [sub_lanes zipw].
    destruct html; cbn [andb] in H4, H5, H6.
    + rewrite H1, H2, H3, H4, H5, H6. reflexivity.
    + rewrite H1, H2, H3. reflexivity.
  - apply negb_false_iff in G. rewrite G in HL.
    exists (esc_h html x). unfold esc_F, esc_F0. rewrite !cont_cons. cbn [sub_lanes zipw].
    destruct html; (eexists; split; [lia|reflexivity]).
Qed.

Theorem escape_mask_zero_iff n xs html :
  wfb xs = true -> length xs = n ->
  (escape_mask n (le_load n xs) html = 0 <-> forallb (fun b => negb (needs_escape html b)) xs = true).
Proof.
  intros Hx Lx. rewrite escape_lanes by auto.
  destruct (esc_first_bad html) as [Hg Hb].
  apply (first_bad_zero (fun b => negb (needs_escape html b)) (needs_escape html) (esc_F html));
    auto using esc_wfb, esc_len.
  - intros; symmetry; apply negb_involutive.
  - destruct html; reflexivity.
Qed.
Theorem escape_mask_index n xs html d :
  wfb xs = true -> length xs = n ->
  escape_mask n (le_load n xs) html <> 0 ->
  ctz d (escape_mask n (le_load n xs) html) / 8 = Z.of_nat (find_index (needs_escape html) xs).
Proof.
  intros Hx Lx. rewrite escape_lanes by auto.
  destruct (esc_first_bad html) as [Hg Hb].
  apply (first_bad_index (fun b => negb (needs_escape html b)) (needs_escape html) (esc_F html));
    auto using esc_wfb, esc_len.
  - intros; symmetry; apply negb_involutive.
  - destruct html; reflexivity.
Qed.

