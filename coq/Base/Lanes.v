(* Little-endian byte lanes of machine words and the SWAR ("SIMD within a register")
   bit tricks used by the repository, each proved for words of ANY number of lanes
   (so for all 2^64 64-bit words and all 2^32 32-bit words at once). *)
From Verif Require Import Base.GoInt.
From Coq Require Import ZifyBool.
Open Scope Z_scope.

(* ---------- definitions (stable interface; used by models and property files) ---------- *)

Definition lsbN (n : nat) : Z := le_load n (repeat 1 n).      (* 0x01 in every lane *)
Definition msbN (n : nat) : Z := le_load n (repeat 128 n).    (* 0x80 in every lane *)
Definition expandN (n : nat) (c : Z) : Z := le_load n (repeat c n).
Definition wN (n : nat) (x : Z) : Z := x mod 256 ^ Z.of_nat n.
Definition notN (n : nat) (x : Z) : Z := 256 ^ Z.of_nat n - 1 - x.

Fixpoint zipw (f : Z -> Z -> Z) (xs ys : bytes) : bytes :=
  match xs, ys with
  | x :: xr, y :: yr => f x y :: zipw f xr yr
  | _, _ => []
  end.

(* lane-wise x - c*lsb with borrow, and x + c*lsb with carry *)
Fixpoint sub_lanes (bor : Z) (xs : bytes) (c : Z) : bytes :=
  match xs with
  | [] => []
  | x :: r => let d := x - c - bor in (d mod 256) :: sub_lanes (if d <? 0 then 1 else 0) r c
  end.
Fixpoint add_lanes (car : Z) (xs : bytes) (c : Z) : bytes :=
  match xs with
  | [] => []
  | x :: r => let d := x + c + car in (d mod 256) :: add_lanes (if 256 <=? d then 1 else 0) r c
  end.

(* bits.TrailingZeros64 / 32 on a non-negative word: number of trailing zero bits, [dflt] for 0 *)
Fixpoint ctz_pos (p : positive) : Z :=
  match p with
  | xO p' => 1 + ctz_pos p'
  | _ => 0
  end.
Definition ctz (dflt : Z) (x : Z) : Z :=
  match x with
  | Z0 => dflt
  | Zpos p => ctz_pos p
  | Zneg _ => 0
  end.

(* index of the first element satisfying p, or the length when there is none *)
Fixpoint find_index (p : Z -> bool) (xs : bytes) : nat :=
  match xs with
  | [] => O
  | x :: r => if p x then O else S (find_index p r)
  end.

(* The word-level tricks, written over a word of n lanes exactly as the Go code writes
   them for n = 8 (uint64) and n = 4 (uint32). *)
(* segmentio/asm hasLess64/32:  (x - L*c) & ^x & R *)
Definition hasless_mask (n : nat) (x c : Z) : Z :=
  Z.land (Z.land (wN n (x - lsbN n * c)) (notN n x)) (msbN n).
(* segmentio/asm hasMore64/32:  ((x + L*(127-c)) | x) & R *)
Definition hasmore_mask (n : nat) (x c : Z) : Z :=
  Z.land (Z.lor (wN n (x + lsbN n * (127 - c))) x) (msbN n).
(* iso8601 nonNumeric: ((u - zero) | (u + (^msb - nine)) | u) & msb  with zero = lsb*'0', nine = lsb*'9' *)
Definition nonnumeric_mask (n : nat) (u : Z) : Z :=
  Z.land (Z.lor (Z.lor (wN n (u - lsbN n * 48)) (wN n (u + (notN n (msbN n) - lsbN n * 57)))) u) (msbN n).
(* json below(n,b) = n - expand(b);  contains(n,b) = (n ^ expand(b)) - lsb *)
Definition below_w (n : nat) (x c : Z) : Z := wN n (x - lsbN n * c).
Definition contains_w (n : nat) (x c : Z) : Z := wN n (Z.lxor x (lsbN n * c) - lsbN n).
