(* C01/C02 string core: facts about the UTF-8 models of Json/StrExt.v and the step equations of the specification
   functions of Json/StrSpec.v, shared by the proof files StrEncProofs / StrSpecProofs / StrDecProofs. *)
From Coq Require Import Lia ZArith List Bool.
From Verif Require Import Base.GoInt Json.Ext Generated.JsonParseGen Json.Grammar Json.Spec Json.StrExt
  Generated.JsonStringGen Json.StrModel Json.StrSpec Json.ValidProofs.
Import ListNotations.
Open Scope Z_scope.

(* ---------- decoding one rune ---------- *)
Definition hi_byte (x : Z) : bool := 128 <=? x.

Lemma in_rng_iff lo hi c : in_rng lo hi c = true <-> lo <= c <= hi.
Proof. unfold in_rng. rewrite andb_true_iff, !Z.leb_le. tauto. Qed.
Lemma is_cont_iff c : is_cont c = true <-> 128 <= c <= 191.
Proof. apply in_rng_iff. Qed.

Lemma enc2 c0 c1 : 194 <= c0 <= 223 -> 128 <= c1 <= 191 ->
  utf8_encode_rune ((c0 - 192) * 64 + (c1 - 128)) = [c0; c1].
Proof.
  intros H0 H1. unfold utf8_encode_rune. set (r := (c0 - 192) * 64 + (c1 - 128)).
  assert (R : 128 <= r < 2048) by (unfold r; lia).
  destruct (Z.leb_spec 0 r); [|lia]. destruct (Z.ltb_spec r 128); [lia|]. cbn [andb].
  destruct (Z.leb_spec 128 r); [|lia]. destruct (Z.ltb_spec r 2048); [|lia]. cbn [andb].
  assert (D : r / 64 = c0 - 192 /\ r mod 64 = c1 - 128) by (unfold r; Z.div_mod_to_equations; lia).
  destruct D as [D1 D2]. rewrite D1, D2. f_equal; [lia|]. f_equal. lia.
Qed.

Lemma enc3 c0 c1 c2 : 224 <= c0 <= 239 -> 128 <= c1 <= 191 -> 128 <= c2 <= 191 ->
  (c0 = 224 -> 160 <= c1) -> (c0 = 237 -> c1 <= 159) ->
  utf8_encode_rune ((c0 - 224) * 4096 + (c1 - 128) * 64 + (c2 - 128)) = [c0; c1; c2].
Proof.
  intros H0 H1 H2 A B. unfold utf8_encode_rune. set (r := (c0 - 224) * 4096 + (c1 - 128) * 64 + (c2 - 128)).
  assert (R : 2048 <= r < 65536) by (unfold r; lia).
  assert (S : r < 55296 \/ 57344 <= r) by (unfold r; lia).
  destruct (Z.leb_spec 0 r); [|lia]. destruct (Z.ltb_spec r 128); [lia|]. cbn [andb].
  destruct (Z.leb_spec 128 r); [|lia]. destruct (Z.ltb_spec r 2048); [lia|]. cbn [andb].
  assert (C : ((2048 <=? r) && (r <? 55296)) || ((57344 <=? r) && (r <? 65536)) = true).
  { apply orb_true_iff. destruct S; [left|right]; apply andb_true_iff; split;
      try (apply Z.leb_le; lia); apply Z.ltb_lt; lia. }
  rewrite C.
  assert (D : r / 4096 = c0 - 224 /\ (r / 64) mod 64 = c1 - 128 /\ r mod 64 = c2 - 128)
    by (unfold r; Z.div_mod_to_equations; lia).
  destruct D as (D1 & D2 & D3). rewrite D1, D2, D3. repeat (f_equal; try lia).
Qed.

Lemma enc4 c0 c1 c2 c3 : 240 <= c0 <= 244 -> 128 <= c1 <= 191 -> 128 <= c2 <= 191 -> 128 <= c3 <= 191 ->
  (c0 = 240 -> 144 <= c1) -> (c0 = 244 -> c1 <= 143) ->
  utf8_encode_rune ((c0 - 240) * 262144 + (c1 - 128) * 4096 + (c2 - 128) * 64 + (c3 - 128)) = [c0; c1; c2; c3].
Proof.
  intros H0 H1 H2 H3 A B. unfold utf8_encode_rune.
  set (r := (c0 - 240) * 262144 + (c1 - 128) * 4096 + (c2 - 128) * 64 + (c3 - 128)).
  assert (R : 65536 <= r <= 1114111) by (unfold r; lia).
  destruct (Z.leb_spec 0 r); [|lia]. destruct (Z.ltb_spec r 128); [lia|]. cbn [andb].
  destruct (Z.leb_spec 128 r); [|lia]. destruct (Z.ltb_spec r 2048); [lia|]. cbn [andb].
  destruct (Z.leb_spec 2048 r); [|lia]. destruct (Z.ltb_spec r 55296); [lia|]. cbn [andb orb].
  destruct (Z.leb_spec 57344 r); [|lia]. destruct (Z.ltb_spec r 65536); [lia|]. cbn [andb].
  destruct (Z.leb_spec 65536 r); [|lia]. destruct (Z.leb_spec r 1114111); [|lia]. cbn [andb].
  assert (D : r / 262144 = c0 - 240 /\ (r / 4096) mod 64 = c1 - 128 /\ (r / 64) mod 64 = c2 - 128 /\ r mod 64 = c3 - 128)
    by (unfold r; Z.div_mod_to_equations; lia).
  destruct D as (D1 & D2 & D3 & D4). rewrite D1, D2, D3, D4. repeat (f_equal; try lia).
Qed.

(* the three ways a non-empty input can start *)
Inductive rune_case (s : bytes) : Prop :=
| RC_ascii c r : s = c :: r -> c < 128 -> utf8_decode_rune s = (c, 1) -> rune_case s
| RC_bad c r : s = c :: r -> 128 <= c -> utf8_decode_rune s = (65533, 1) -> rune_case s
| RC_multi w r rune : s = w ++ r -> 2 <= len w <= 4 -> utf8_decode_rune s = (rune, len w) ->
    forallb hi_byte w = true -> utf8_encode_rune rune = w -> 128 <= rune -> rune_case s.

Lemma rune_cases c0 r : rune_case (c0 :: r).
Proof.
  destruct (Z.ltb_spec c0 128) as [A|A].
  { apply (RC_ascii _ c0 r); auto. unfold utf8_decode_rune. destruct (Z.ltb_spec c0 128); [reflexivity|lia]. }
  destruct (utf8_decode_rune (c0 :: r)) as [rn sz] eqn:ER. pose proof ER as D. unfold utf8_decode_rune in ER.
  assert (BAD : (65533, 1) = (rn, sz) -> rune_case (c0 :: r)).
  { intros E. apply (RC_bad _ c0 r); auto. rewrite D. symmetry. exact E. }
  destruct (Z.ltb_spec c0 128) as [A'|_]; [lia|].
  destruct (in_rng 194 223 c0) eqn:R2.
  { apply in_rng_iff in R2. destruct r as [|c1 r]; [apply BAD; exact ER|].
    destruct (is_cont c1) eqn:C1; [|apply BAD; exact ER]. apply is_cont_iff in C1.
    apply (RC_multi _ [c0; c1] r ((c0 - 192) * 64 + (c1 - 128))); try reflexivity.
    - cbn. lia.
    - rewrite D. symmetry. exact ER.
    - cbn [forallb]. unfold hi_byte. rewrite !andb_true_iff, !Z.leb_le. lia.
    - apply enc2; lia.
    - lia. }
  destruct (in_rng 224 239 c0) eqn:R3.
  { apply in_rng_iff in R3. destruct r as [|c1 [|c2 r]]; try (apply BAD; exact ER).
    match type of ER with context [if ?c then _ else _] => destruct c eqn:C end; [|apply BAD; exact ER].
    apply andb_true_iff in C. destruct C as [C1 C2]. apply in_rng_iff in C1. apply is_cont_iff in C2.
    assert (X1 : 128 <= c1 <= 191) by (destruct (c0 =? 224), (c0 =? 237); lia).
    assert (X2 : c0 = 224 -> 160 <= c1) by (intros E; subst c0; cbn in C1; lia).
    assert (X3 : c0 = 237 -> c1 <= 159) by (intros E; subst c0; cbn in C1; lia).
    apply (RC_multi _ [c0; c1; c2] r ((c0 - 224) * 4096 + (c1 - 128) * 64 + (c2 - 128))); try reflexivity.
    - cbn. lia.
    - rewrite D. symmetry. exact ER.
    - cbn [forallb]. unfold hi_byte. rewrite !andb_true_iff, !Z.leb_le. lia.
    - apply enc3; auto; lia.
    - lia. }
  destruct (in_rng 240 244 c0) eqn:R4.
  { apply in_rng_iff in R4. destruct r as [|c1 [|c2 [|c3 r]]]; try (apply BAD; exact ER).
    match type of ER with context [if ?c then _ else _] => destruct c eqn:C end; [|apply BAD; exact ER].
    apply andb_true_iff in C. destruct C as [C C3]. apply andb_true_iff in C. destruct C as [C1 C2].
    apply in_rng_iff in C1. apply is_cont_iff in C2. apply is_cont_iff in C3.
    assert (X1 : 128 <= c1 <= 191) by (destruct (c0 =? 240), (c0 =? 244); lia).
    assert (X2 : c0 = 240 -> 144 <= c1) by (intros E; subst c0; cbn in C1; lia).
    assert (X3 : c0 = 244 -> c1 <= 143) by (intros E; subst c0; cbn in C1; lia).
    apply (RC_multi _ [c0; c1; c2; c3] r ((c0 - 240) * 262144 + (c1 - 128) * 4096 + (c2 - 128) * 64 + (c3 - 128)));
      try reflexivity.
    - cbn. lia.
    - rewrite D. symmetry. exact ER.
    - cbn [forallb]. unfold hi_byte. rewrite !andb_true_iff, !Z.leb_le. lia.
    - apply enc4; auto; lia.
    - lia. }
  apply BAD. exact ER.
Qed.

(* induction over a byte string rune by rune *)
Lemma rune_ind (P : bytes -> Prop) :
  P [] ->
  (forall c r, c < 128 -> utf8_decode_rune (c :: r) = (c, 1) -> P r -> P (c :: r)) ->
  (forall c r, 128 <= c -> utf8_decode_rune (c :: r) = (65533, 1) -> P r -> P (c :: r)) ->
  (forall w r rune, 2 <= len w <= 4 -> utf8_decode_rune (w ++ r) = (rune, len w) -> forallb hi_byte w = true ->
     utf8_encode_rune rune = w -> 128 <= rune -> P r -> P (w ++ r)) ->
  forall s, P s.
Proof.
  intros H0 H1 H2 H3 s.
  assert (G : forall n s, (length s <= n)%nat -> P s).
  { induction n as [|n IH]; intros s' L.
    - destruct s'; [exact H0|cbn in L; lia].
    - destruct s' as [|c0 r]; [exact H0|]. cbn [length] in L.
      destruct (rune_cases c0 r) as [c r' E A D|c r' E A D|w r' rune E LW D HB EN RN].
      + injection E as -> ->. apply H1; auto. apply IH. lia.
      + injection E as -> ->. apply H2; auto. apply IH. lia.
      + rewrite E. rewrite E in D. apply (H3 w r' rune); auto. apply IH.
        assert (length (c0 :: r) = length w + length r')%nat by (rewrite E; apply app_length).
        cbn [length] in H. unfold len in LW. lia. }
  apply (G (length s)). lia.
Qed.

(* a rune that is followed by an ASCII byte is decoded without looking at what follows that byte *)
Lemma decode_before_ascii p t tail : p <> [] -> t < 128 -> utf8_decode_rune (p ++ t :: tail) = utf8_decode_rune p.
Proof.
  intros NE T. destruct p as [|c0 p]; [congruence|]. cbn [app]. unfold utf8_decode_rune.
  assert (NC : is_cont t = false).
  { destruct (is_cont t) eqn:X; [apply is_cont_iff in X; lia|reflexivity]. }
  assert (NR : forall lo hi, 128 <= lo -> in_rng lo hi t = false).
  { intros lo hi L. destruct (in_rng lo hi t) eqn:X; [apply in_rng_iff in X; lia|reflexivity]. }
  assert (NR1 : forall c : Z, in_rng (if c0 =? c then 160 else 128) (if c0 =? 237 then 159 else 191) t = false).
  { intros c. apply NR. destruct (c0 =? c); lia. }
  assert (NR2 : forall c : Z, in_rng (if c0 =? c then 144 else 128) (if c0 =? 244 then 143 else 191) t = false).
  { intros c. apply NR. destruct (c0 =? c); lia. }
  destruct (c0 <? 128); [reflexivity|].
  destruct (in_rng 194 223 c0).
  { destruct p as [|c1 p]; cbn [app]; [rewrite NC; reflexivity|reflexivity]. }
  destruct (in_rng 224 239 c0).
  { destruct p as [|c1 [|c2 p]]; cbn [app]; try reflexivity.
    - destruct tail; [reflexivity|]. rewrite NR1. reflexivity.
    - rewrite NC, andb_false_r. reflexivity. }
  destruct (in_rng 240 244 c0).
  { destruct p as [|c1 [|c2 [|c3 p]]]; cbn [app]; try reflexivity.
    - destruct tail as [|x [|y tail]]; try reflexivity. rewrite NR2. reflexivity.
    - destruct tail; [reflexivity|]. rewrite NC, andb_false_r. reflexivity.
    - rewrite NC, andb_false_r. reflexivity. }
  reflexivity.
Qed.

(* U+2028 / U+2029 are exactly the byte sequences E2 80 A8 / E2 80 A9 *)
Lemma ls_ps_bytes w rune : utf8_encode_rune rune = w -> 128 <= rune ->
  ((rune =? 8232) || (rune =? 8233) = true <-> exists x, w = [226; 128; x] /\ (x = 168 \/ x = 169)).
Proof.
  intros E R. split.
  - intros H. apply orb_true_iff in H. destruct H as [H|H]; apply Z.eqb_eq in H; rewrite H in E; cbn in E; rewrite <- E;
      eexists; (split; [reflexivity|auto]).
  - intros (x & Ew & Hx). rewrite Ew in E. clear Ew. unfold utf8_encode_rune in E.
    destruct ((0 <=? rune) && (rune <? 128)); [discriminate|].
    destruct ((128 <=? rune) && (rune <? 2048)); [discriminate|].
    destruct (((2048 <=? rune) && (rune <? 55296)) || ((57344 <=? rune) && (rune <? 65536))) eqn:C.
    + pose proof (f_equal (fun l => nth 0 l 0) E) as E1. pose proof (f_equal (fun l => nth 1 l 0) E) as E2.
      pose proof (f_equal (fun l => nth 2 l 0) E) as E3. cbn [nth] in E1, E2, E3.
      clear C.
      assert (rune = 8192 + (x - 128)) by (Z.div_mod_to_equations; lia).
      assert (rune = 8232 \/ rune = 8233) by lia.
      apply orb_true_iff. rewrite !Z.eqb_eq. assumption.
    + destruct ((65536 <=? rune) && (rune <=? 1114111)); [discriminate|].
      pose proof (f_equal (fun l => nth 0 l 0) E) as E1. cbn [nth] in E1. lia.
Qed.

(* ---------- copy mode of the three specification functions ---------- *)
Lemma sanitize_copy (w : bytes) : forall r : bytes, sanitize_from (length w) (w ++ r) = w ++ sanitize_from 0 r.
Proof. induction w as [|x w IH]; intros r; [reflexivity|]. cbn [length app sanitize_from]. rewrite IH. reflexivity. Qed.
Lemma escape_copy html (w : bytes) : forall r : bytes, std_escape_body html (length w) (w ++ r) = w ++ std_escape_body html 0 r.
Proof. induction w as [|x w IH]; intros r; [reflexivity|]. cbn [length app std_escape_body]. rewrite IH. reflexivity. Qed.
Lemma pre_pre p q o : pre p (pre q o) = pre (p ++ q) o.
Proof. destruct o as [[v r]|]; [|reflexivity]. cbn. rewrite app_assoc. reflexivity. Qed.
Lemma pre_nil o : pre [] o = o.
Proof. destruct o as [[v r]|]; reflexivity. Qed.
Lemma unquote_copy (w : bytes) : forall r : bytes, uq_body (length w) (w ++ r) = pre w (uq_body 0 r).
Proof.
  induction w as [|x w IH]; intros r; [rewrite pre_nil; reflexivity|].
  cbn [length app uq_body]. rewrite IH, pre_pre. reflexivity.
Qed.

Lemma copy_count (w : bytes) : 2 <= len w -> exists x w', w = x :: w' /\ Z.to_nat (len w - 1) = length w'.
Proof.
  intros L. destruct w as [|x w']; [cbn in L; lia|]. exists x, w'. split; [reflexivity|].
  rewrite len_cons. unfold len. lia.
Qed.

(* ---------- step equations of sanitize ---------- *)
Lemma sanitize_ascii c r : c < 128 -> sanitize_from 0 (c :: r) = c :: sanitize_from 0 r.
Proof.
  intros A. cbn [sanitize_from]. destruct (rune_cases c r) as [c' r' E _ D|c' r' E B _|w r' rune E LW _ HB _ _].
  - rewrite D. destruct (Z.leb_spec 128 c); [lia|]. reflexivity.
  - injection E as -> ->. lia.
  - destruct w as [|x w]; [cbn in LW; lia|]. injection E as -> _. cbn [forallb hi_byte] in HB.
    apply andb_true_iff in HB. unfold hi_byte in HB. lia.
Qed.
Lemma sanitize_bad c r : 128 <= c -> utf8_decode_rune (c :: r) = (65533, 1) ->
  sanitize_from 0 (c :: r) = [239; 191; 189] ++ sanitize_from 0 r.
Proof.
  intros A D. cbn [sanitize_from]. rewrite D. destruct (Z.leb_spec 128 c); [|lia]. reflexivity.
Qed.
Lemma sanitize_multi w r rune : 2 <= len w <= 4 -> utf8_decode_rune (w ++ r) = (rune, len w) ->
  sanitize_from 0 (w ++ r) = w ++ sanitize_from 0 r.
Proof.
  intros LW D. destruct (copy_count w ltac:(lia)) as (x & w' & -> & CC). cbn [app] in *. cbn [sanitize_from].
  rewrite D. destruct (Z.eqb_spec (len (x :: w')) 1) as [X|_]; [lia|]. rewrite andb_false_r, CC, sanitize_copy.
  reflexivity.
Qed.

(* ---------- step equations of the standard escaping ---------- *)
Lemma escape_ascii html c r : c < 128 ->
  std_escape_body html 0 (c :: r) = (if std_safe html c then [c] else std_escape_ascii c) ++ std_escape_body html 0 r.
Proof. intros A. cbn [std_escape_body]. destruct (Z.ltb_spec c 128); [reflexivity|lia]. Qed.
(* the special case of the standard escaping, with boolean tests instead of patterns *)
Definition lsps (c : Z) (r : bytes) : option (Z * bytes) :=
  match r with
  | y :: x :: r' => if (y =? 128) && ((c =? 226) && ((x =? 168) || (x =? 169))) then Some (x, r') else None
  | _ => None
  end.
Lemma match128_ne {T} (y : Z) (A B : T) : y <> 128 -> match y with 128 => A | _ => B end = B.
Proof.
  intros N. destruct y as [|p|p]; try reflexivity.
  repeat (match goal with q : positive |- _ => destruct q; try reflexivity end). congruence.
Qed.
Lemma escape_hi html c r : 128 <= c ->
  std_escape_body html 0 (c :: r) =
    match lsps c r with
    | Some (x, r') => [92; 117; 50; 48; 50; x - 112] ++ std_escape_body html 0 r'
    | None =>
      let '(_, size) := utf8_decode_rune (c :: r) in
      if size =? 1 then [92; 117; 102; 102; 102; 100] ++ std_escape_body html 0 r
      else c :: std_escape_body html (Z.to_nat (size - 1)) r
    end.
Proof.
  intros A. cbn [std_escape_body]. destruct (Z.ltb_spec c 128); [lia|].
  destruct r as [|y [|x r']]; try reflexivity.
  - cbn [lsps]. destruct y as [|q|q]; try reflexivity.
    repeat (match goal with q : positive |- _ => destruct q; try reflexivity end).
  - cbn [lsps]. destruct (Z.eqb_spec y 128) as [->|N].
    + cbn [andb]. destruct ((c =? 226) && ((x =? 168) || (x =? 169))); reflexivity.
    + cbn [andb]. apply match128_ne. exact N.
Qed.

Lemma escape_bad html c r : 128 <= c -> utf8_decode_rune (c :: r) = (65533, 1) ->
  std_escape_body html 0 (c :: r) = [92; 117; 102; 102; 102; 100] ++ std_escape_body html 0 r.
Proof.
  intros A D. rewrite escape_hi by assumption. rewrite D.
  destruct (lsps c r) as [[x r']|] eqn:L; [|reflexivity].
  unfold lsps in L. destruct r as [|y [|x0 r0]]; try discriminate L.
  destruct ((y =? 128) && ((c =? 226) && ((x0 =? 168) || (x0 =? 169)))) eqn:C; [|discriminate L].
  apply andb_true_iff in C. destruct C as [C0 C]. apply andb_true_iff in C. destruct C as [C1 C2].
  apply Z.eqb_eq in C0, C1. subst y c.
  apply orb_true_iff in C2. destruct C2 as [C2|C2]; apply Z.eqb_eq in C2; subst x0; cbn in D; discriminate D.
Qed.

Definition esc_seq (w : bytes) : bytes :=
  match w with
  | [c; y; x] => if (y =? 128) && ((c =? 226) && ((x =? 168) || (x =? 169))) then [92; 117; 50; 48; 50; x - 112] else w
  | _ => w
  end.
Lemma escape_multi html w r rune : 2 <= len w <= 4 -> utf8_decode_rune (w ++ r) = (rune, len w) ->
  forallb hi_byte w = true ->
  std_escape_body html 0 (w ++ r) = esc_seq w ++ std_escape_body html 0 r.
Proof.
  intros LW D HB. destruct (copy_count w ltac:(lia)) as (c & w' & -> & CC). cbn [app] in *.
  cbn [forallb] in HB. apply andb_true_iff in HB. destruct HB as [HB _]. unfold hi_byte in HB. apply Z.leb_le in HB.
  rewrite escape_hi by assumption. rewrite D.
  destruct (Z.eqb_spec (len (c :: w')) 1) as [X|_]; [lia|]. rewrite CC, escape_copy.
  destruct (lsps c (w' ++ r)) as [[x r']|] eqn:L.
  - unfold lsps in L. destruct (w' ++ r) as [|y [|x0 r0]] eqn:EW; try discriminate L.
    destruct ((y =? 128) && ((c =? 226) && ((x0 =? 168) || (x0 =? 169)))) eqn:C; [|discriminate L].
    injection L as -> ->.
    pose proof C as C'. apply andb_true_iff in C'. destruct C' as [C0 C']. apply andb_true_iff in C'. destruct C' as [C1 C2].
    apply Z.eqb_eq in C0, C1. subst y c.
    (* the decoder reads a three-byte rune here, so w = E2 80 x *)
    assert (SZ : len (226 :: w') = 3).
    { pose proof D as DD.
      apply orb_true_iff in C2. destruct C2 as [C2|C2]; apply Z.eqb_eq in C2; subst x.
      - change (utf8_decode_rune (226 :: 128 :: 168 :: r')) with (8232, 3) in DD. congruence.
      - change (utf8_decode_rune (226 :: 128 :: 169 :: r')) with (8233, 3) in DD. congruence. }
    destruct w' as [|a [|b [|e w']]]; rewrite ?len_cons in SZ; try (cbn in SZ; lia).
    2:{ pose proof (len_nonneg w'). lia. }
    cbn [app] in EW. injection EW as -> -> ->. cbn [esc_seq]. rewrite C. reflexivity.
  - assert (E : esc_seq (c :: w') = c :: w'); [|rewrite E; reflexivity].
    unfold esc_seq. destruct w' as [|y [|x [|e w']]]; try reflexivity.
    cbn [app lsps] in L. destruct ((y =? 128) && ((c =? 226) && ((x =? 168) || (x =? 169)))); [discriminate L|reflexivity].
Qed.

(* ---------- step equations of the standard unquoting ---------- *)
Lemma uq_quote r : uq_body 0 (34 :: r) = Some ([], r).
Proof. reflexivity. Qed.
Lemma uq_ctl c r : c < 32 -> uq_body 0 (c :: r) = None \/ c = 34 \/ c = 92.
Proof.
  intros A. cbn [uq_body]. destruct (Z.eqb_spec c 34); [lia|]. destruct (Z.eqb_spec c 92); [lia|].
  destruct (Z.ltb_spec c 32); [left; reflexivity|lia].
Qed.
Lemma uq_ascii c r : 32 <= c < 128 -> c <> 34 -> c <> 92 -> uq_body 0 (c :: r) = pre [c] (uq_body 0 r).
Proof.
  intros A N1 N2. cbn [uq_body]. destruct (Z.eqb_spec c 34); [lia|]. destruct (Z.eqb_spec c 92); [lia|].
  destruct (Z.ltb_spec c 32); [lia|]. destruct (Z.ltb_spec c 128); [reflexivity|lia].
Qed.
Lemma uq_hi c r : 128 <= c ->
  uq_body 0 (c :: r) =
    let '(_, size) := utf8_decode_rune (c :: r) in
    if size =? 1 then pre [239; 191; 189] (uq_body 0 r) else pre [c] (uq_body (Z.to_nat (size - 1)) r).
Proof.
  intros A. cbn [uq_body]. destruct (Z.eqb_spec c 34); [lia|]. destruct (Z.eqb_spec c 92); [lia|].
  destruct (Z.ltb_spec c 32); [lia|]. destruct (Z.ltb_spec c 128); [lia|reflexivity].
Qed.
Lemma uq_bad c r : 128 <= c -> utf8_decode_rune (c :: r) = (65533, 1) ->
  uq_body 0 (c :: r) = pre [239; 191; 189] (uq_body 0 r).
Proof. intros A D. rewrite uq_hi by assumption. rewrite D. reflexivity. Qed.
Lemma uq_multi w r rune : 2 <= len w <= 4 -> utf8_decode_rune (w ++ r) = (rune, len w) -> forallb hi_byte w = true ->
  uq_body 0 (w ++ r) = pre w (uq_body 0 r).
Proof.
  intros LW D HB. destruct (copy_count w ltac:(lia)) as (c & w' & -> & CC). cbn [app] in *.
  cbn [forallb] in HB. apply andb_true_iff in HB. destruct HB as [HB _]. unfold hi_byte in HB. apply Z.leb_le in HB.
  rewrite uq_hi by assumption. rewrite D. destruct (Z.eqb_spec (len (c :: w')) 1) as [X|_]; [lia|].
  rewrite CC, unquote_copy, pre_pre. reflexivity.
Qed.
Lemma uq_escape e r : is_escape_letter e = true -> uq_body 0 (92 :: e :: r) = pre [unescape_letter e] (uq_body 0 r).
Proof. intros A. cbn [uq_body]. change (92 =? 34) with false. change (92 =? 92) with true. cbv iota. rewrite A. reflexivity. Qed.

(* the same case analysis for the grammar of Json/Grammar.v *)
Lemma g_string_ge32 c r : 32 <= c -> c <> 34 -> c <> 92 -> g_string (c :: r) = g_string r.
Proof.
  intros A N1 N2. rewrite g_string_eq. destruct (Z.eqb_spec c 34); [lia|]. destruct (Z.eqb_spec c 92); [lia|].
  destruct (Z.ltb_spec c 32); [lia|reflexivity].
Qed.
Lemma g_string_hi (w : bytes) : forall r, forallb hi_byte w = true -> g_string (w ++ r) = g_string r.
Proof.
  induction w as [|x w IH]; intros r HB; [reflexivity|]. cbn [forallb] in HB. apply andb_true_iff in HB.
  destruct HB as [H1 H2]. unfold hi_byte in H1. apply Z.leb_le in H1. cbn [app]. rewrite g_string_ge32 by lia. apply IH, H2.
Qed.
