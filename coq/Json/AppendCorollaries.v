(* Corollaries of Json/AppendModel.v in the form the property C15 is worded: what encodeBytes appends does not
   depend on the destination (Append(b, v) = b ++ Append(nil, v)), whatever its length and spare capacity;
   the reallocation happens exactly when the spare capacity is smaller than the encoded size, and then the new
   array has exactly the capacity needed. *)
From Verif Require Import Base.GoInt Json.AppendModel.
From Coq Require Import Lia.
Open Scope nat_scope.

Definition gnil : gslice := {| cells := []; slen := 0 |}.

Lemma gnil_wf : wf_slice gnil.
Proof. unfold wf_slice, gnil; simpl; lia. Qed.

Lemma encode_bytes_gdata b body : wf_slice b ->
  gdata (fst (encode_bytes b body)) = gdata b ++ 34%Z :: body ++ [34%Z].
Proof.
  intros Hwf. pose proof (encode_bytes_data b body Hwf) as H.
  destruct (encode_bytes b body) as [r re]. simpl. tauto.
Qed.

(* Append(b, v) = b ++ Append(nil, v): every destination length, every spare capacity *)
Lemma encode_bytes_oblivious b body : wf_slice b ->
  gdata (fst (encode_bytes b body)) = gdata b ++ gdata (fst (encode_bytes gnil body)).
Proof.
  intros Hwf. rewrite (encode_bytes_gdata b body Hwf), (encode_bytes_gdata gnil body gnil_wf). reflexivity.
Qed.

(* two destinations with the same data, whatever their capacities and whatever lies beyond their lengths, give the same data *)
Lemma encode_bytes_cap_irrelevant b1 b2 body : wf_slice b1 -> wf_slice b2 -> gdata b1 = gdata b2 ->
  gdata (fst (encode_bytes b1 body)) = gdata (fst (encode_bytes b2 body)).
Proof.
  intros H1 H2 He. rewrite (encode_bytes_gdata b1 body H1), (encode_bytes_gdata b2 body H2), He. reflexivity.
Qed.

(* the array is replaced exactly when the spare capacity is below the encoded size len(body)+2 *)
Lemma encode_bytes_realloc_iff b body :
  snd (encode_bytes b body) = true <-> gcap b - slen b < length body + 2.
Proof.
  unfold encode_bytes.
  destruct (Nat.ltb_spec (gcap b - slen b) (length body + 2)) as [Hlt|Hge]; simpl; split; intros H; try lia; try discriminate; reflexivity.
Qed.

(* and then the new array is exactly as long as the result: no over-allocation, no shortfall *)
Lemma encode_bytes_realloc_cap b body : wf_slice b -> snd (encode_bytes b body) = true ->
  gcap (fst (encode_bytes b body)) = slen b + length body + 2 /\
  slen (fst (encode_bytes b body)) = slen b + length body + 2.
Proof.
  intros Hwf Hre. pose proof (proj1 (encode_bytes_realloc_iff b body) Hre) as Hlt.
  unfold encode_bytes in *.
  destruct (Nat.ltb_spec (gcap b - slen b) (length body + 2)) as [_|Hge]; [|lia].
  simpl. unfold gcap; simpl. split; [|lia].
  unfold wf_slice, gcap in *.
  rewrite write_at_length.
  - rewrite app_length, repeat_length. unfold gdata. rewrite firstn_length. lia.
  - rewrite app_length, repeat_length. unfold gdata. rewrite firstn_length. simpl. rewrite app_length. simpl. lia.
Qed.
