(* C02 structural part: whatever the document is, the decoder of the value-tree model (Json/TreeModel.v) returns a
   value of the target type: integers in the range of the type, arrays of the declared length, maps as
   association lists strictly increasing in the key, structs with one value of the right type per field.
   Proved in Json/TreeShapeProofs.v. Definitions and examples only. *)
From Verif Require Import Base.GoInt Json.Grammar Json.FlagsModel Json.StrSpec Json.NumSpec Json.TreeModel Json.TreeSpec.
Open Scope Z_scope.

(* the Go values of a type: like jwf of TreeModel.v, but strings (and map keys) are arbitrary and map keys are
   only required to be strictly increasing *)
Fixpoint jshape (t : jty) (v : jval) : bool :=
  match t, v with
  | JBool, VBool _ => true
  | JInt s w, VInt z => int_in s w z
  | JStr, VStr _ => true
  | JPtr _, VNil => true
  | JPtr t', VPtr v' => jshape t' v'
  | JSlice _, VNil => true
  | JSlice t', VList l => forallb (jshape t') l
  | JArr n t', VList l => Nat.eqb (length l) n && forallb (jshape t') l
  | JMap _, VNil => true
  | JMap t', VMap m => keys_sorted (map fst m) && forallb (fun kv => jshape t' (snd kv)) m
  | JStruct fs, VStruct l => jshapes fs l
  | _, _ => false
  end
with jshapes (fs : jfields) (l : list jval) : bool :=
  match fs, l with
  | FNil, [] => true
  | FCons _ _ t r, v :: l' => jshape t v && jshapes r l'
  | _, _ => false
  end.

(* ========================================= statements ========================================= *)
(* the zero value of a type of the universe is a value of the type *)
Definition tree_zero_shape_statement : Prop := forall t, ty_ok t = true -> jshape t (jzero t) = true.

(* the well-formed values of TreeModel.v are values of the type *)
Definition tree_wf_shape_statement : Prop := forall t v, jwf t v = true -> jshape t v = true.

(* decoding into a target that holds a value of the type leaves a value of the type, for every input, every fuel *)
Definition tree_dec_shape_value_statement : Prop :=
  forall (t : jty) (fuel : nat) (cur : jval) (b : bytes) (v : jval) (r : bytes),
    ty_ok t = true -> jshape t cur = true -> dec t fuel cur b = DOk (v, r) -> jshape t v = true.

(* Unmarshal into a fresh zero value: whenever it succeeds the result is a value of the type *)
Definition tree_dec_shape_statement : Prop :=
  forall (fuel : nat) (t : jty) (b : bytes) (v : jval),
    ty_ok t = true -> jdec fuel t b = DOk v -> jshape t v = true.

(* inserting into a key-sorted association list keeps it key-sorted *)
Definition map_put_sorted_statement : Prop :=
  forall (k : bytes) (v : jval) (m : list (bytes * jval)),
    keys_sorted (map fst m) = true -> keys_sorted (map fst (map_put k v m)) = true.

(* Go string comparison is a strict total order *)
Definition bytes_ltb_trans_statement : Prop :=
  forall a b c, bytes_ltb a b = true -> bytes_ltb b c = true -> bytes_ltb a c = true.
Definition bytes_ltb_total_statement : Prop :=
  forall a b, bytes_ltb a b = false -> bytes_eqb a b = false -> bytes_ltb b a = true.

(* ========================================= examples ========================================= *)
Example shape_ex1 : jshape ex_t ex_v = true /\ jshape ex_t (jzero ex_t) = true /\ jshape ex_t3 ex_v3 = true.
Proof. vm_compute. repeat split. Qed.
(* an ill-formed string is a value of type string but not a value of the encoder universe *)
Example shape_ex2 : jshape JStr (VStr [255]) = true /\ jwf JStr (VStr [300]) = false /\ jshape JStr (VStr [300]) = true.
Proof. vm_compute. repeat split. Qed.
(* not values of the type: an integer out of range, an array of the wrong length, unsorted keys, a missing field *)
Example shape_ex3 :
  jshape (JInt false 8) (VInt 256) = false /\ jshape (JInt true 8) (VInt (-129)) = false /\
  jshape (JArr 2 JBool) (VList [VBool true]) = false /\
  jshape (JMap JBool) (VMap [([98], VBool true); ([97], VBool true)]) = false /\
  jshape (JMap JBool) (VMap [([97], VBool true); ([97], VBool true)]) = false /\
  jshape ex_t (VStruct [VInt 1]) = false.
Proof. vm_compute. repeat split. Qed.
(* the document of TreeSpec.v (duplicate key, null, unknown key, surplus and missing array elements) *)
Example shape_ex4 :
  match jdec 100 ex_t
    [123; 34; 97; 34; 58; 49; 44; 34; 122; 122; 34; 58; 91; 49; 44; 123; 34; 113; 34; 58; 110; 117; 108; 108; 125; 93; 44;
     34; 97; 34; 58; 110; 117; 108; 108; 44; 34; 101; 34; 58; 123; 34; 107; 34; 58; 91; 55; 44; 56; 44; 57; 93; 44;
     34; 106; 34; 58; 91; 53; 93; 125; 125] with
  | DOk v => jshape ex_t v
  | _ => false
  end = true.
Proof. vm_compute. reflexivity. Qed.
(* without ty_ok the zero value need not be a value of the type: a width below zero *)
Example shape_ex5 : jshape (JInt false (-1)) (jzero (JInt false (-1))) = false.
Proof. vm_compute. reflexivity. Qed.
