(* C14 structural part: the statements about the value-tree model with flags of Json/TreeFlagsModel.v
   (json flags change representation or copying, never meaning). Proved in Json/TreeFlagsProofs.v (with
   Json/TreeFlagsDecProofs.v and Json/TreeFlagsEncProofs.v). Definitions and examples only. *)
From Coq Require Import Permutation.
From Verif Require Import Base.GoInt Json.Grammar Json.FlagsModel Json.StrSpec Json.NumSpec Json.TreeModel Json.TreeSpec
  Json.TreeFlagsModel.
Open Scope Z_scope.

(* ========================================= the default flags ========================================= *)
(* json.Marshal = Append with EscapeHTML and SortMapKeys (json/json.go Marshal): the model of TreeModel.v *)
Definition flags_default_toks_statement : Prop :=
  forall (t : jty) (v : jval), jtoks_f true sorted_ord t v = jtoks t v.
Definition flags_default_statement : Prop :=
  forall (t : jty) (v : jval), jenc_f true sorted_ord t v = jenc t v.
(* json.Unmarshal = Parse with no flag *)
Definition parse_default_inner_statement : Prop :=
  forall (t : jty) (fuel : nat) (cur : jval) (b : bytes), dec_f false false t fuel cur b = dec t fuel cur b.
Definition parse_default_statement : Prop :=
  forall (fuel : nat) (t : jty) (b : bytes), jdec_f false false fuel t b = jdec fuel t b.

(* struct keys: for the field names of the universe the plain and the HTML key fragment of json/codec.go are the same
   bytes, the name between quotes: that is what the model writes whatever the flag *)
Definition key_fragment_statement : Prop :=
  forall (html : bool) (name : bytes), name_ok name = true -> std_escape html name = quote name.

(* the sorted order is an admissible order; so are the two unsorted ones of the examples *)
Definition ord_examples_statement : Prop := ord_ok sorted_ord /\ ord_ok rev_ord /\ ord_ok rot_ord.

(* ========================================= AppendFlags ========================================= *)
(* Append with any flag subset writes a text that Unmarshal decodes to the same value as the default output:
   for every EscapeHTML setting, every admissible order of the map members (SortMapKeys clear), every type of the
   universe, every value of the type, every fuel above the length *)
Definition append_flags_meaning_statement : Prop :=
  forall (html : bool) (ord : ord_t) (t : jty) (v : jval) (fuel : nat),
    ord_ok ord -> ty_ok t = true -> jwf t v = true -> (length (jenc_f html ord t v) < fuel)%nat ->
    jdec fuel t (jenc_f html ord t v) = DOk (jnorm t v).
(* ... literally the value of the default output *)
Definition append_flags_same_value_statement : Prop :=
  forall (html : bool) (ord : ord_t) (t : jty) (v : jval),
    ord_ok ord -> ty_ok t = true -> jwf t v = true ->
    jdec (jdec_fuel (jenc_f html ord t v)) t (jenc_f html ord t v) = jdec (jdec_fuel (jenc t v)) t (jenc t v).

(* ... and a JSON text of the RFC 8259 grammar *)
Definition append_flags_valid_statement : Prop :=
  forall (html : bool) (ord : ord_t) (t : jty) (v : jval),
    ord_ok ord -> ty_ok t = true -> jwf t v = true -> g_valid (jenc_f html ord t v) = true.

(* EscapeHTML: the bytes 3c 3e 26 *)
Definition is_html (c : Z) : bool := (c =? 60) || (c =? 62) || (c =? 38).
(* every 3c / 3e / 26 byte replaced by its six-byte escape (backslash u 0 0 3 c, ... 3 e, ... 2 6); every other byte kept *)
Fixpoint html_expand (b : bytes) : bytes :=
  match b with
  | [] => []
  | c :: r => (if is_html c then [92; 117; 48; 48; hexdigit (c / 16); hexdigit (c mod 16)] else [c]) ++ html_expand r
  end.
(* applied to string tokens only *)
Definition tok_html (tok : bytes) : bytes := match tok with 34 :: _ => html_expand tok | _ => tok end.

(* one string: the HTML-escaped literal is the plain literal with every raw 3c 3e 26 byte replaced by its escape;
   nothing else differs (U+2028 and U+2029 are escaped in both, control bytes and ill-formed UTF-8 likewise) *)
Definition escape_html_string_statement : Prop :=
  forall s : bytes, wfb s = true -> std_escape true s = html_expand (std_escape false s).
(* the whole encoding: with and without EscapeHTML the token lists have the same structure, token by token; the
   tokens that are not string literals are identical, the string literals are related as above. For every admissible
   order oracle (the same on both sides), in particular with SortMapKeys set *)
Definition escape_html_only_strings_statement : Prop :=
  forall (ord : ord_t) (t : jty) (v : jval),
    ord_ok ord -> ty_ok t = true -> jwf t v = true ->
    jtoks_f true ord t v = map tok_html (jtoks_f false ord t v).
(* a value whose strings and keys hold none of the three bytes is written identically *)
Fixpoint no_html (t : jty) (v : jval) : bool :=
  match t, v with
  | JStr, VStr s => negb (existsb is_html s)
  | JPtr t', VPtr v' => no_html t' v'
  | JSlice t', VList l => forallb (no_html t') l
  | JArr _ t', VList l => forallb (no_html t') l
  | JMap t', VMap m => forallb (fun kv => negb (existsb is_html (fst kv)) && no_html t' (snd kv)) m
  | JStruct fs, VStruct l => no_html_fs fs l
  | _, _ => true
  end
with no_html_fs (fs : jfields) (l : list jval) : bool :=
  match fs, l with
  | FCons _ _ t r, v :: l' => no_html t v && no_html_fs r l'
  | _, _ => true
  end.

Definition no_html_same_bytes_statement : Prop :=
  forall (ord : ord_t) (t : jty) (v : jval),
    ord_ok ord -> no_html t v = true -> jenc_f false ord t v = jenc_f true ord t v.

(* SortMapKeys clear: the members written for a map are a permutation of the members written in sorted order
   (each member: key, colon, the tokens of the value under the same flags) *)
Definition map_members (html : bool) (ord : ord_t) (t' : jty) (m : list (bytes * jval)) : list (list bytes) :=
  map (fun kv => [std_escape html (fst kv); [58]] ++ jtoks_f html ord t' (snd kv)) m.
Definition unsorted_is_permutation_statement : Prop :=
  forall (html : bool) (ord : ord_t) (t' : jty) (m : list (bytes * jval)),
    ord_ok ord ->
    exists ms : list (list bytes),
      Permutation ms (map_members html ord t' (sort_kv m)) /\
      jtoks_f html ord (JMap t') (VMap m) = [[123]] ++ sep_toks ms ++ [[125]].
(* with at most one entry per map the output is byte-identical to the sorted one *)
Definition unsorted_small_maps_statement : Prop :=
  forall (html : bool) (ord : ord_t) (t : jty) (v : jval),
    ord_ok ord -> small_maps t v = true -> jenc_f html ord t v = jenc_f html sorted_ord t v.

(* ========================================= ParseFlags ========================================= *)
(* on the package's own output, under any AppendFlags, with any white space between the tokens, the decoder under
   DontMatchCaseInsensitiveStructFields and / or DisallowUnknownFields returns the value the default decoder returns:
   the encoder writes exact field names and no unknown key *)
Definition parse_flags_ws_meaning_statement : Prop :=
  forall (nocase strict html : bool) (ord : ord_t) (ws : nat -> bytes) (t : jty) (v : jval) (fuel : nat),
    ord_ok ord -> ws_ok ws -> ty_ok t = true -> jwf t v = true ->
    (length (render ws 0%nat (jtoks_f html ord t v)) < fuel)%nat ->
    jdec_f nocase strict fuel t (render ws 0%nat (jtoks_f html ord t v)) = DOk (jnorm t v).
Definition parse_flags_meaning_statement : Prop :=
  forall (nocase strict html : bool) (ord : ord_t) (t : jty) (v : jval) (fuel : nat),
    ord_ok ord -> ty_ok t = true -> jwf t v = true -> (length (jenc_f html ord t v) < fuel)%nat ->
    jdec_f nocase strict fuel t (jenc_f html ord t v) = DOk (jnorm t v).

(* ---- SortMapKeys clear, in full generality: EVERY map occurrence is written in an order of its own ---- *)
(* Go randomises the iteration order per iteration, so two equal maps inside one value may be written in different
   orders; an order oracle that is a function of the member list cannot express that. [penc html t v toks]: the token
   list toks is an encoding of v in which the members of every map occurrence come in SOME order (a permutation of
   the sorted members, chosen independently at every occurrence); everything else is as in jtoks_f *)
Fixpoint penc (html : bool) (t : jty) (v : jval) (toks : list bytes) {struct t} : Prop :=
  match t, v with
  | JBool, VBool b => toks = [if b then tok_true else tok_false]
  | JInt _ _, VInt z => toks = [z_to_dec z]
  | JStr, VStr s => toks = [std_escape html s]
  | JPtr t', VPtr v' => penc html t' v' toks
  | JSlice t', VList l =>
      exists gs, Forall2 (penc html t') l gs /\ toks = [[91]] ++ sep_toks gs ++ [[93]]
  | JArr _ t', VList l =>
      exists gs, Forall2 (penc html t') l gs /\ toks = [[91]] ++ sep_toks gs ++ [[93]]
  | JMap t', VMap m =>
      exists es gs, Permutation es (sort_kv m) /\
        Forall2 (fun kv g => exists tv, penc html t' (snd kv) tv /\ g = [std_escape html (fst kv); [58]] ++ tv) es gs /\
        toks = [[123]] ++ sep_toks gs ++ [[125]]
  | JStruct fs, VStruct l =>
      exists gs, pmembers html fs l gs /\ toks = [[123]] ++ sep_toks gs ++ [[125]]
  | _, _ => toks = [tok_null]
  end
with pmembers (html : bool) (fs : jfields) (l : list jval) (gs : list (list bytes)) {struct fs} : Prop :=
  match fs, l with
  | FCons name omit t r, v :: l' =>
      if omit && jempty v then pmembers html r l' gs
      else exists tv gs', penc html t v tv /\ pmembers html r l' gs' /\ gs = ([quote name; [58]] ++ tv) :: gs'
  | _, _ => gs = []
  end.

(* what the oracle model writes is such an encoding *)
Definition penc_of_ord_statement : Prop :=
  forall (html : bool) (ord : ord_t) (t : jty) (v : jval), ord_ok ord -> penc html t v (jtoks_f html ord t v).
(* every such encoding, with any white space between the tokens, decodes under every setting of the two struct-key
   flags to the value the default output decodes to *)
Definition parse_flags_rel_meaning_statement : Prop :=
  forall (nocase strict html : bool) (ws : nat -> bytes) (t : jty) (v : jval) (toks : list bytes) (fuel : nat),
    ws_ok ws -> ty_ok t = true -> jwf t v = true -> penc html t v toks ->
    (length (render ws 0%nat toks) < fuel)%nat ->
    jdec_f nocase strict fuel t (render ws 0%nat toks) = DOk (jnorm t v).
(* ... in particular under the default flags (Unmarshal), and it is a JSON text of the grammar *)
Definition append_rel_meaning_statement : Prop :=
  forall (html : bool) (ws : nat -> bytes) (t : jty) (v : jval) (toks : list bytes) (fuel : nat),
    ws_ok ws -> ty_ok t = true -> jwf t v = true -> penc html t v toks ->
    (length (render ws 0%nat toks) < fuel)%nat ->
    jdec fuel t (render ws 0%nat toks) = DOk (jnorm t v) /\ g_valid (render ws 0%nat toks) = true.
(* the relation is strictly more general than the oracle: the slice of two equal maps, the first written in the order
   a, b and the second in the order b, a, is such an encoding and is written by no admissible order oracle *)
Definition px_t : jty := JSlice (JMap JBool).
Definition px_m : list (bytes * jval) := [([97], VBool true); ([98], VBool false)].
Definition px_v : jval := VList [VMap px_m; VMap px_m].
Definition px_toks : list bytes :=
  [[91]; [123]; [34; 97; 34]; [58]; tok_true; [44]; [34; 98; 34]; [58]; tok_false; [125]; [44];
         [123]; [34; 98; 34]; [58]; tok_false; [44]; [34; 97; 34]; [58]; tok_true; [125]; [93]].
Definition penc_more_general_statement : Prop :=
  penc false px_t px_v px_toks /\ (forall html ord, ord_ok ord -> jtoks_f html ord px_t px_v <> px_toks) /\
  jdec_f true true 100 px_t (concat px_toks) = DOk px_v.

(* ---- every document ---- *)
(* DisallowUnknownFields only rejects: a document (ANY document, not only the package's output) that is accepted with
   the flag set decodes to the same value without it; and a document accepted under DisallowUnknownFields together with
   DontMatchCaseInsensitiveStructFields (every key is then the exact name of a field) decodes to that value under
   every setting of the two flags. Source flags (n1, strict), target flags (n2, s2): n1 set, or n2 clear. *)
Definition strict_success_stable_inner_statement : Prop :=
  forall (n1 n2 s2 : bool) (t : jty) (fuel : nat) (cur : jval) (b : bytes) (x : jval * bytes),
    n1 = true \/ n2 = false ->
    dec_f n1 true t fuel cur b = DOk x -> dec_f n2 s2 t fuel cur b = DOk x.
Definition strict_success_stable_statement : Prop :=
  forall (n1 n2 s2 : bool) (fuel : nat) (t : jty) (b : bytes) (v : jval),
    n1 = true \/ n2 = false ->
    jdec_f n1 true fuel t b = DOk v -> jdec_f n2 s2 fuel t b = DOk v.
(* the two readings *)
Definition strict_only_rejects_statement : Prop :=
  forall (nocase : bool) (fuel : nat) (t : jty) (b : bytes) (v : jval),
    jdec_f nocase true fuel t b = DOk v -> jdec_f nocase false fuel t b = DOk v.
Definition exact_strict_universal_statement : Prop :=
  forall (nocase strict : bool) (fuel : nat) (t : jty) (b : bytes) (v : jval),
    jdec_f true true fuel t b = DOk v -> jdec_f nocase strict fuel t b = DOk v /\ jdec fuel t b = DOk v.
(* the remaining pair is not stable: a document accepted under DisallowUnknownFields alone may change its value when
   DontMatchCaseInsensitiveStructFields is added (bx_case_doc below: the key AB stops selecting the field ab) *)
Definition strict_success_not_stable_statement : Prop :=
  ~ (forall (s2 : bool) (fuel : nat) (t : jty) (b : bytes) (v : jval),
       jdec_f false true fuel t b = DOk v -> jdec_f true s2 fuel t b = DOk v).

(* the converse direction fails, as it must: on documents the encoder does not write the two flags DO change the
   result. Boundary witnesses: struct { ab int8; c bool } *)
Definition bx_t : jty := JStruct (FCons [97; 98] false (JInt true 8) (FCons [99] false JBool FNil)).
(* the member AB = 7, c = true: the key AB differs from the field name ab by case *)
Definition bx_case_doc : bytes := [123; 34; 65; 66; 34; 58; 55; 44; 34; 99; 34; 58; 116; 114; 117; 101; 125].
(* the member zz = [1], c = true: zz names no field *)
Definition bx_unknown_doc : bytes := [123; 34; 122; 122; 34; 58; 91; 49; 93; 44; 34; 99; 34; 58; 116; 114; 117; 101; 125].
(* a key differing by case selects the field under the default flags, is an unknown key (field left zero) under
   DontMatchCaseInsensitiveStructFields, and an error when DisallowUnknownFields is set as well *)
Definition nocase_changes_foreign_documents_statement : Prop :=
  jdec_f false false 100 bx_t bx_case_doc = DOk (VStruct [VInt 7; VBool true]) /\
  jdec_f false true 100 bx_t bx_case_doc = DOk (VStruct [VInt 7; VBool true]) /\
  jdec_f true false 100 bx_t bx_case_doc = DOk (VStruct [VInt 0; VBool true]) /\
  jdec_f true true 100 bx_t bx_case_doc = DErr.
(* an unknown key is skipped without DisallowUnknownFields and an error exactly with it *)
Definition strict_changes_foreign_documents_statement : Prop :=
  jdec_f false false 100 bx_t bx_unknown_doc = DOk (VStruct [VInt 0; VBool true]) /\
  jdec_f true false 100 bx_t bx_unknown_doc = DOk (VStruct [VInt 0; VBool true]) /\
  jdec_f false true 100 bx_t bx_unknown_doc = DErr /\
  jdec_f true true 100 bx_t bx_unknown_doc = DErr.
(* so the equation of parse_flags_meaning does not extend to every document *)
Definition parse_flags_all_documents_refuted_statement : Prop :=
  ~ (forall (nocase strict : bool) (fuel : nat) (t : jty) (b : bytes),
       ty_ok t = true -> jdec_f nocase strict fuel t b = jdec fuel t b).
(* neither does the equality of the bytes under different AppendFlags: EscapeHTML and the order change the bytes *)
Definition append_flags_bytes_refuted_statement : Prop :=
  ~ (forall (html : bool) (ord : ord_t) (t : jty) (v : jval),
       ord_ok ord -> ty_ok t = true -> jwf t v = true -> jenc_f html ord t v = jenc t v).

(* ========================================= examples: the hypotheses are satisfiable ========================================= *)
(* map[string]map[string]string with three entries per level, keys and strings holding 3c 3e 26, U+2028 (e2 80 a8),
   a quote; the association lists are key-sorted (jwf), the oracles rev_ord / rot_ord write them in other orders *)
Definition fx_t : jty := JMap (JMap JStr).
Definition fx_inner : list (bytes * jval) :=
  [([38], VStr [60; 98; 62]); ([97], VStr [226; 128; 168; 38]); ([98; 60], VStr [34; 120])].
Definition fx_v : jval := VMap [([60; 62], VMap fx_inner); ([107], VMap []); ([122], VMap [([113], VStr [38; 38])])].
(* struct { a []string; m map[string]*int16 omitempty } *)
Definition fx_t2 : jty := JStruct (FCons [97] false (JSlice JStr) (FCons [109] true (JMap (JPtr (JInt true 16))) FNil)).
Definition fx_v2 : jval :=
  VStruct [VList [VStr [60]; VStr [226; 128; 169]]; VMap [([62], VNil); ([99], VPtr (VInt (-3))); ([100], VPtr (VInt 9))]].

Example fx_hyps : ty_ok fx_t = true /\ jwf fx_t fx_v = true /\ ty_ok fx_t2 = true /\ jwf fx_t2 fx_v2 = true
  /\ small_maps fx_t fx_v = false /\ small_maps fx_t2 fx_v2 = false.
Proof. vm_compute. repeat split. Qed.
(* the four encodings of fx_v2: a, then m with the keys 3e, c, d *)
Example fx_enc_default : jenc_f true sorted_ord fx_t2 fx_v2 =
  [123; 34; 97; 34; 58; 91; 34; 92; 117; 48; 48; 51; 99; 34; 44; 34; 92; 117; 50; 48; 50; 57; 34; 93; 44;
   34; 109; 34; 58; 123; 34; 92; 117; 48; 48; 51; 101; 34; 58; 110; 117; 108; 108; 44; 34; 99; 34; 58; 45; 51; 44;
   34; 100; 34; 58; 57; 125; 125].
Proof. vm_compute. reflexivity. Qed.
(* EscapeHTML clear: 3c and 3e raw, U+2029 still escaped *)
Example fx_enc_plain : jenc_f false sorted_ord fx_t2 fx_v2 =
  [123; 34; 97; 34; 58; 91; 34; 60; 34; 44; 34; 92; 117; 50; 48; 50; 57; 34; 93; 44;
   34; 109; 34; 58; 123; 34; 62; 34; 58; 110; 117; 108; 108; 44; 34; 99; 34; 58; 45; 51; 44;
   34; 100; 34; 58; 57; 125; 125].
Proof. vm_compute. reflexivity. Qed.
(* SortMapKeys clear, the members in the order d, c, 3e *)
Example fx_enc_rev : jenc_f false rev_ord fx_t2 fx_v2 =
  [123; 34; 97; 34; 58; 91; 34; 60; 34; 44; 34; 92; 117; 50; 48; 50; 57; 34; 93; 44;
   34; 109; 34; 58; 123; 34; 100; 34; 58; 57; 44; 34; 99; 34; 58; 45; 51; 44; 34; 62; 34; 58; 110; 117; 108; 108; 125; 125].
Proof. vm_compute. reflexivity. Qed.
(* the statements on the examples *)
Example fx_meaning :
  jdec 200 fx_t (jenc_f false rev_ord fx_t fx_v) = DOk fx_v /\ jdec 200 fx_t (jenc_f true rot_ord fx_t fx_v) = DOk fx_v
  /\ jdec 200 fx_t (jenc fx_t fx_v) = DOk fx_v /\ jnorm fx_t fx_v = fx_v
  /\ jenc_f false rev_ord fx_t fx_v <> jenc fx_t fx_v /\ jenc_f true rot_ord fx_t fx_v <> jenc fx_t fx_v
  /\ jenc_f false sorted_ord fx_t fx_v <> jenc fx_t fx_v.
Proof. vm_compute. repeat split; discriminate. Qed.
Example fx_valid : g_valid (jenc_f false rev_ord fx_t fx_v) = true /\ g_valid (jenc_f true rot_ord fx_t2 fx_v2) = true.
Proof. vm_compute. repeat split. Qed.
Example fx_html : jtoks_f true rot_ord fx_t fx_v = map tok_html (jtoks_f false rot_ord fx_t fx_v)
  /\ jtoks_f true sorted_ord fx_t2 fx_v2 = map tok_html (jtoks_f false sorted_ord fx_t2 fx_v2)
  /\ std_escape true [60; 226; 128; 168; 38; 9] = html_expand (std_escape false [60; 226; 128; 168; 38; 9])
  /\ std_escape false [60; 226; 128; 168; 38; 9] = [34; 60; 92; 117; 50; 48; 50; 56; 38; 92; 116; 34]
  /\ html_expand [60; 62; 38] = [92; 117; 48; 48; 51; 99; 92; 117; 48; 48; 51; 101; 92; 117; 48; 48; 50; 54].
Proof. vm_compute. repeat split. Qed.
Example fx_parse :
  jdec_f true true 200 fx_t2 (jenc_f false rev_ord fx_t2 fx_v2) = DOk fx_v2
  /\ jdec_f true false 200 fx_t2 (jenc_f true rot_ord fx_t2 fx_v2) = DOk fx_v2
  /\ jdec_f false true 200 fx_t2 (render ex_ws 0%nat (jtoks_f false rev_ord fx_t2 fx_v2)) = DOk fx_v2
  /\ jdec_f true true 300 ex_t (jenc_f false rev_ord ex_t ex_v) = DOk ex_v.
Proof. vm_compute. repeat split. Qed.
(* one entry per map: the oracle has nothing to permute *)
Example fx_small : small_maps ex_t3 (VMap [([97], VMap [([98], VNil)])]) = true
  /\ jenc_f false rev_ord ex_t3 (VMap [([97], VMap [([98], VNil)])]) = jenc_f false sorted_ord ex_t3 (VMap [([97], VMap [([98], VNil)])]).
Proof. vm_compute. repeat split. Qed.
