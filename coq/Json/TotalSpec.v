(* C06, decode side: totality statements (never fuel exhaustion, i.e. termination within the stated number of
   steps, with a result) for the machine-translated recogniser and the hand-written Tokenizer / Decoder models.
   They are corollaries of what C05, C17 and C11 prove. Definitions only. *)
From Verif Require Import Base.GoInt Json.Ext Generated.JsonParseGen Json.Grammar Json.Spec Json.StreamModel Json.StateSpec.
Open Scope Z_scope.

(* json.Valid returns on EVERY byte string *)
Definition valid_total_statement : Prop :=
  forall b, wfb b = true -> len b < 2 ^ 62 -> exists r, json_Valid (2 * length b + 8) b = Some r.
(* parseValue -- the scanner behind Unmarshal, Parse, RawMessage, skipped members, MarshalJSON output checks and the
   Decoder framing -- returns on EVERY byte string, for every sound flags word: a value and a remainder, or an error *)
Definition parse_value_total_statement : Prop :=
  forall b d, wfb b = true -> len b < 2 ^ 62 -> flags_sound d b ->
    exists v r k e, json_decoder_parseValue (2 * length b + 4) d b = Some (v, r, k, e).
(* Tokenizer: iterating Next over EVERY byte string ends *)
Definition tokenizer_total_statement : Prop :=
  forall b, wfb b = true -> len b < 2 ^ 62 -> exists ks st, tokenize b = Some (ks, st).
(* Decoder: EVERY reader script ending with io.EOF is decoded to the end: never fuel exhaustion *)
Definition decoder_total_statement : Prop :=
  forall s, wfb (script_data s) = true -> len (script_data s) < 2 ^ 30 -> script_clean s ->
    snd (fst (all_values s REOF)) <> DOutOfFuel.
