(* C02 structural part: the value-tree decoder of Json/TreeModel.v accepts only JSON texts of the grammar of
   Json/Grammar.v (statements of Json/TreeDecSpec.v).
   Structure:
     A. the recogniser: an accepted value is a proper prefix; fuel sufficiency (the length of the input is enough);
     B. the element loop and the member loop of g_value, one step at a time;
     C. the scalar decoders: literals, integers, strings;
     D. the loops of the decoder;
     E. the main lemma by mutual induction on the type; g_valid; the statements. *)
From Verif Require Import Base.GoInt Json.Grammar Json.FlagsModel Json.StrSpec Json.NumSpec Json.TreeModel Json.TreeDecSpec.
From Verif Require Import Json.ValidProofs Json.StrSpecProofs.
From Coq Require Import Lia ZifyBool ZifyNat.
Open Scope Z_scope.

(* ================= A. the recogniser ================= *)
Lemma g_string_shorter : forall n k r, (length k <= n)%nat -> g_string k = Some r -> (length r < length k)%nat.
Proof.
  induction n as [|n IH]; intros k r L H.
  { destruct k; [discriminate H|cbn [length] in L; lia]. }
  destruct k as [|c k]; [discriminate H|]. cbn [length] in *. rewrite g_string_eq in H.
  destruct (c =? 34); [injection H as H; subst; lia|].
  destruct (c =? 92).
  - destruct k as [|e k]; [discriminate|]. cbn [length] in *.
    destruct (is_escape_letter e); [specialize (IH k r ltac:(lia) H); lia|].
    destruct (e =? 117); [|discriminate].
    destruct k as [|h1 [|h2 [|h3 [|h4 k]]]]; try discriminate. cbn [length] in *.
    destruct (is_hex h1 && is_hex h2 && is_hex h3 && is_hex h4); [|discriminate].
    specialize (IH k r ltac:(lia) H). lia.
  - destruct (c <? 32); [discriminate|]. specialize (IH k r ltac:(lia) H). lia.
Qed.
Lemma g_string_lt k r : g_string k = Some r -> (length r < length k)%nat.
Proof. apply (g_string_shorter (length k)). lia. Qed.

Lemma g_frac_le b r : g_frac b = Some r -> (length r <= length b)%nat.
Proof.
  rewrite g_frac_eq. destruct b as [|c t]; [intros H; injection H as H; subst; lia|].
  destruct (c =? 46).
  - destruct t as [|d t']; [discriminate|]. destruct (is_digit d); [|discriminate].
    intros H. injection H as H. subst r. pose proof (skip_digits_length t'). cbn [length]. lia.
  - intros H. injection H as H. subst r. lia.
Qed.
Lemma g_exp_le b r : g_exp b = Some r -> (length r <= length b)%nat.
Proof.
  destruct b as [|e t]; [intros H; injection H as H; subst; lia|]. unfold g_exp.
  destruct ((e =? 101) || (e =? 69)).
  - assert (K : forall t', match t' with d :: r' => if is_digit d then Some (skip_digits r') else None | [] => None end = Some r ->
              (length r <= length t')%nat).
    { intros [|d t'] K; [discriminate|]. destruct (is_digit d); [|discriminate]. injection K as K. subst r.
      pose proof (skip_digits_length t'). cbn [length]. lia. }
    destruct t as [|s t']; [discriminate|].
    destruct ((s =? 43) || (s =? 45)); intros H; [apply K in H|apply (K (s :: t')) in H]; cbn [length] in *; lia.
  - intros H. injection H as H. subst r. lia.
Qed.
Lemma g_fe_le b r : match g_frac b with Some x => g_exp x | None => None end = Some r -> (length r <= length b)%nat.
Proof.
  destruct (g_frac b) as [x|] eqn:F; [|discriminate]. intros H. apply g_frac_le in F. apply g_exp_le in H. lia.
Qed.
Lemma g_number_body_lt b r : g_number_body b = Some r -> (length r < length b)%nat.
Proof.
  destruct b as [|c t]; [discriminate|]. unfold g_number_body. cbn [length].
  destruct (c =? 48); [intros H; apply g_fe_le in H; lia|].
  destruct (is_digit c); [|discriminate]. intros H. apply g_fe_le in H. pose proof (skip_digits_length t). lia.
Qed.
Lemma g_number_lt b r : g_number b = Some r -> (length r < length b)%nat.
Proof.
  rewrite g_number_eq. destruct b as [|c t]; [discriminate|].
  destruct (c =? 45); intros H; apply g_number_body_lt in H; cbn [length] in *; lia.
Qed.
Lemma strip_prefix_len p b r : strip_prefix p b = Some r -> length b = (length p + length r)%nat.
Proof. intros H. apply strip_prefix_app in H. subst b. apply app_length. Qed.

(* the loops, with their own sufficiency notions *)
Definition elems_ok (b r : bytes) : Prop :=
  (length r < length b)%nat /\ forall f n : nat, (length b <= f)%nat -> (length b <= n)%nat -> g_elems f n b = Some r.
Definition after_elem_ok (b r : bytes) : Prop :=
  (length r < length b)%nat /\ forall f n : nat, (length b <= f)%nat -> (length b <= n)%nat -> g_after_elem f n b = Some r.
Definition members_ok (b r : bytes) : Prop :=
  (length r < length b)%nat /\ forall f n : nat, (length b <= f)%nat -> (length b <= n)%nat -> g_members f n b = Some r.
Definition after_member_ok (b r : bytes) : Prop :=
  (length r < length b)%nat /\ forall f n : nat, (length b <= f)%nat -> (length b <= n)%nat -> g_after_member f n b = Some r.

(* ================= B. one step of the loops ================= *)
Lemma elems_step b r1 r : gval b r1 -> after_elem_ok r1 r -> elems_ok b r.
Proof.
  intros [L1 G1] [L2 G2]. split; [lia|]. intros f n Lf Ln. destruct n as [|n']; [lia|].
  rewrite g_elems_eq, (G1 f Lf). apply G2; lia.
Qed.
Lemma after_elem_close b r : skip_ws b = 93 :: r -> after_elem_ok b r.
Proof.
  intros E. pose proof (skip_ws_length b) as SL. rewrite E in SL. cbn [length] in SL. split; [lia|].
  intros f n _ _. unfold g_after_elem. rewrite E. reflexivity.
Qed.
Lemma after_elem_comma b r' r : skip_ws b = 44 :: r' -> elems_ok (skip_ws r') r -> after_elem_ok b r.
Proof.
  intros E [L G]. pose proof (skip_ws_length b) as SL. rewrite E in SL. cbn [length] in SL.
  pose proof (skip_ws_length r') as SL'. split; [lia|].
  intros f n Lf Ln. unfold g_after_elem. rewrite E. change (44 =? 44) with true. cbv iota. apply G; lia.
Qed.
Lemma g_elems_close f n r : g_elems f n (93 :: r) = None.
Proof.
  destruct n as [|n]; [reflexivity|]. rewrite g_elems_eq. destruct f as [|f]; [reflexivity|].
  rewrite g_value_other by reflexivity. rewrite g_number_bad by reflexivity. reflexivity.
Qed.
Lemma g_elems_nil f n : g_elems f n [] = None.
Proof. destruct n; [reflexivity|]. rewrite g_elems_eq, g_value_nil. reflexivity. Qed.
Lemma g_members_close f n r : g_members f n (125 :: r) = None.
Proof. destruct n as [|n]; reflexivity. Qed.
Lemma g_members_nil f n : g_members f n [] = None.
Proof. destruct n; reflexivity. Qed.

Lemma arr_close b r : skip_ws b = 93 :: r -> gval (91 :: b) r.
Proof.
  intros E. pose proof (skip_ws_length b) as SL. rewrite E in SL. cbn [length] in SL. split; [cbn [length]; lia|].
  intros f Lf. cbn [length] in Lf. destruct f as [|f]; [lia|]. rewrite g_value_array, E. reflexivity.
Qed.
Lemma arr_elems b r : elems_ok (skip_ws b) r -> gval (91 :: b) r.
Proof.
  intros [L G]. pose proof (skip_ws_length b) as SL. unfold gval. cbn [length]. split; [lia|].
  intros f Lf. destruct f as [|f]; [lia|]. rewrite g_value_array.
  specialize (G f f ltac:(lia) ltac:(lia)).
  destruct (skip_ws b) as [|c r']; [assumption|].
  destruct (c =? 93) eqn:E; [|assumption]. apply Z.eqb_eq in E. subst c. rewrite g_elems_close in G. discriminate.
Qed.

Lemma members_step k r1 r2 r3 r : g_string k = Some r1 -> skip_ws r1 = 58 :: r2 -> gval (skip_ws r2) r3 ->
  after_member_ok r3 r -> members_ok (34 :: k) r.
Proof.
  intros GS E [L1 G1] [L2 G2]. pose proof (g_string_lt _ _ GS) as LS.
  pose proof (skip_ws_length r1) as SL1. rewrite E in SL1. cbn [length] in SL1.
  pose proof (skip_ws_length r2) as SL2. unfold members_ok. cbn [length]. split; [lia|].
  intros f n Lf Ln. destruct n as [|n']; [lia|]. rewrite g_members_eq. unfold g_str_tok.
  change (34 =? 34) with true. cbv iota. rewrite GS. unfold g_after_key. rewrite E.
  change (58 =? 58) with true. cbv iota. rewrite (G1 f) by lia. apply G2; lia.
Qed.
Lemma after_member_close b r : skip_ws b = 125 :: r -> after_member_ok b r.
Proof.
  intros E. pose proof (skip_ws_length b) as SL. rewrite E in SL. cbn [length] in SL. split; [lia|].
  intros f n _ _. unfold g_after_member. rewrite E. reflexivity.
Qed.
Lemma after_member_comma b r' r : skip_ws b = 44 :: r' -> members_ok (skip_ws r') r -> after_member_ok b r.
Proof.
  intros E [L G]. pose proof (skip_ws_length b) as SL. rewrite E in SL. cbn [length] in SL.
  pose proof (skip_ws_length r') as SL'. split; [lia|].
  intros f n Lf Ln. unfold g_after_member. rewrite E. change (44 =? 44) with true. cbv iota. apply G; lia.
Qed.
Lemma obj_close b r : skip_ws b = 125 :: r -> gval (123 :: b) r.
Proof.
  intros E. pose proof (skip_ws_length b) as SL. rewrite E in SL. cbn [length] in SL. split; [cbn [length]; lia|].
  intros f Lf. cbn [length] in Lf. destruct f as [|f]; [lia|]. rewrite g_value_object, E. reflexivity.
Qed.
Lemma obj_members b r : members_ok (skip_ws b) r -> gval (123 :: b) r.
Proof.
  intros [L G]. pose proof (skip_ws_length b) as SL. unfold gval. cbn [length]. split; [lia|].
  intros f Lf. destruct f as [|f]; [lia|]. rewrite g_value_object.
  specialize (G f f ltac:(lia) ltac:(lia)).
  destruct (skip_ws b) as [|c r']; [assumption|].
  destruct (c =? 125) eqn:E; [|assumption]. apply Z.eqb_eq in E. subst c. rewrite g_members_close in G. discriminate.
Qed.

(* fuel sufficiency of the loops, given sufficiency of the values at the fuel of the loop *)
Lemma g_elems_suff f : (forall b r, g_value f b = Some r -> gval b r) ->
  forall n b r, g_elems f n b = Some r -> elems_ok b r.
Proof.
  intros IH. induction n as [|n IHn]; intros b r H; [discriminate H|].
  rewrite g_elems_eq in H. destruct (g_value f b) as [r1|] eqn:G; [|discriminate].
  apply (elems_step b r1 r (IH _ _ G)). unfold g_after_elem in H.
  destruct (skip_ws r1) as [|c r'] eqn:E; [discriminate|].
  destruct (c =? 44) eqn:C1.
  - apply Z.eqb_eq in C1. subst c. apply (after_elem_comma r1 r' r E). apply IHn. assumption.
  - destruct (c =? 93) eqn:C2; [|discriminate]. apply Z.eqb_eq in C2. subst c. injection H as H. subst r'.
    apply after_elem_close. assumption.
Qed.
Lemma g_members_suff f : (forall b r, g_value f b = Some r -> gval b r) ->
  forall n b r, g_members f n b = Some r -> members_ok b r.
Proof.
  intros IH. induction n as [|n IHn]; intros b r H; [discriminate H|].
  rewrite g_members_eq in H. unfold g_str_tok in H. destruct b as [|q k]; [discriminate|].
  destruct (q =? 34) eqn:Q; [|discriminate]. apply Z.eqb_eq in Q. subst q.
  destruct (g_string k) as [r1|] eqn:GS; [|discriminate]. unfold g_after_key in H.
  destruct (skip_ws r1) as [|c r2] eqn:E; [discriminate|].
  destruct (c =? 58) eqn:C; [|discriminate]. apply Z.eqb_eq in C. subst c.
  destruct (g_value f (skip_ws r2)) as [r3|] eqn:G; [|discriminate].
  apply (members_step k r1 r2 r3 r GS E (IH _ _ G)). unfold g_after_member in H.
  destruct (skip_ws r3) as [|c r'] eqn:E3; [discriminate|].
  destruct (c =? 44) eqn:C1.
  - apply Z.eqb_eq in C1. subst c. apply (after_member_comma r3 r' r E3). apply IHn. assumption.
  - destruct (c =? 125) eqn:C2; [|discriminate]. apply Z.eqb_eq in C2. subst c. injection H as H. subst r'.
    apply after_member_close. assumption.
Qed.

Lemma gval_prefix p c t r : strip_prefix p t = Some r ->
  (forall f, g_value (S f) (c :: t) = strip_prefix p t) -> gval (c :: t) r.
Proof.
  intros H G. pose proof (strip_prefix_len _ _ _ H) as L. unfold gval. cbn [length]. split; [lia|].
  intros f Lf. destruct f as [|f]; [lia|]. rewrite G. assumption.
Qed.

Lemma g_value_sufficient : g_value_sufficient_statement.
Proof.
  intros f. induction f as [|f IH]; intros b r H; [discriminate H|].
  destruct b as [|c r0]; [rewrite g_value_nil in H; discriminate|].
  destruct (Z.eqb_spec c 110).
  { subst c. rewrite g_value_null in H. apply (gval_prefix _ _ _ _ H). intros; apply g_value_null. }
  destruct (Z.eqb_spec c 116).
  { subst c. rewrite g_value_true in H. apply (gval_prefix _ _ _ _ H). intros; apply g_value_true. }
  destruct (Z.eqb_spec c 102).
  { subst c. rewrite g_value_false in H. apply (gval_prefix _ _ _ _ H). intros; apply g_value_false. }
  destruct (Z.eqb_spec c 34).
  { subst c. rewrite g_value_string in H. pose proof (g_string_lt _ _ H). unfold gval. cbn [length]. split; [lia|].
    intros f' Lf. destruct f' as [|f']; [lia|]. rewrite g_value_string. assumption. }
  destruct (Z.eqb_spec c 91).
  { subst c. rewrite g_value_array in H. destruct (skip_ws r0) as [|c r'] eqn:E.
    - rewrite g_elems_nil in H. discriminate.
    - destruct (c =? 93) eqn:C.
      + apply Z.eqb_eq in C. subst c. injection H as H. subst r'. apply arr_close. assumption.
      + apply arr_elems. rewrite E. apply (g_elems_suff f IH f). assumption. }
  destruct (Z.eqb_spec c 123).
  { subst c. rewrite g_value_object in H. destruct (skip_ws r0) as [|c r'] eqn:E.
    - rewrite g_members_nil in H. discriminate.
    - destruct (c =? 125) eqn:C.
      + apply Z.eqb_eq in C. subst c. injection H as H. subst r'. apply obj_close. assumption.
      + apply obj_members. rewrite E. apply (g_members_suff f IH f). assumption. }
  rewrite g_value_other in H by lia. split; [apply g_number_lt; assumption|].
  intros f' Lf. destruct f' as [|f']; [cbn [length] in Lf; lia|]. rewrite g_value_other by lia. assumption.
Qed.

(* ================= C. the scalar decoders ================= *)
(* matches on byte literals as boolean tests: walk the binary digits of the byte (7 levels cover all constants < 128) *)
Local Tactic Notation "zdeep" ident(c) :=
  destruct c as [|c|c];
  [ | do 7 (try (destruct c as [c|c|])) | ].

Lemma nullp_eq c t : nullp (c :: t) = if c =? 110 then strip_prefix [117; 108; 108] t else None.
Proof.
  zdeep c; try reflexivity. cbn [Z.eqb Pos.eqb].
  destruct t as [|c t]; [reflexivity|]. zdeep c; try reflexivity.
  destruct t as [|c t]; [reflexivity|]. zdeep c; try reflexivity.
  destruct t as [|c t]; [reflexivity|]. zdeep c; reflexivity.
Qed.
Lemma nullp_gval b r : nullp b = Some r -> gval b r.
Proof.
  destruct b as [|c t]; [discriminate|]. rewrite nullp_eq. destruct (c =? 110) eqn:C; [|discriminate].
  apply Z.eqb_eq in C. subst c. intros H. apply (gval_prefix _ _ _ _ H). intros; apply g_value_null.
Qed.

Lemma dec_bool_eq c t : dec_bool (c :: t) =
  if c =? 116 then match strip_prefix [114; 117; 101] t with Some r => DOk (VBool true, r) | None => DErr end
  else if c =? 102 then match strip_prefix [97; 108; 115; 101] t with Some r => DOk (VBool false, r) | None => DErr end
  else DErr.
Proof.
  zdeep c; try reflexivity; cbn [Z.eqb Pos.eqb].
  - destruct t as [|c t]; [reflexivity|]. zdeep c; try reflexivity.
    destruct t as [|c t]; [reflexivity|]. zdeep c; try reflexivity.
    destruct t as [|c t]; [reflexivity|]. zdeep c; try reflexivity.
    destruct t as [|c t]; [reflexivity|]. zdeep c; reflexivity.
  - destruct t as [|c t]; [reflexivity|]. zdeep c; try reflexivity.
    destruct t as [|c t]; [reflexivity|]. zdeep c; try reflexivity.
    destruct t as [|c t]; [reflexivity|]. zdeep c; reflexivity.
Qed.
Lemma dec_bool_gval b v r : dec_bool b = DOk (v, r) -> gval b r.
Proof.
  destruct b as [|c t]; [discriminate|]. rewrite dec_bool_eq. destruct (c =? 116) eqn:C1.
  { apply Z.eqb_eq in C1. subst c. destruct (strip_prefix [114; 117; 101] t) as [x|] eqn:H; [|discriminate].
    intros E. injection E as _ E. subst x. apply (gval_prefix _ _ _ _ H). intros; apply g_value_true. }
  destruct (c =? 102) eqn:C2; [|discriminate].
  apply Z.eqb_eq in C2. subst c. destruct (strip_prefix [97; 108; 115; 101] t) as [x|] eqn:H; [|discriminate].
  intros E. injection E as _ E. subst x. apply (gval_prefix _ _ _ _ H). intros; apply g_value_false.
Qed.

(* integers *)
Lemma nlzb_eq c x : no_leading_zero_b (c :: x) = if c =? 48 then match x with [] => true | _ :: _ => false end else true.
Proof. unfold no_leading_zero_b. zdeep c; try reflexivity. Qed.
Lemma take_nil_skip t : take_digits t = [] -> skip_digits t = t.
Proof. destruct t as [|c t]; [reflexivity|]. cbn [take_digits skip_digits]. destruct (is_digit c); [discriminate|reflexivity]. Qed.
Lemma g_frac_pass rest : match rest with c :: _ => (c =? 46) || (c =? 101) || (c =? 69) | [] => false end = false ->
  match g_frac rest with Some x => g_exp x | None => None end = Some rest.
Proof.
  intros H. rewrite g_frac_eq. destruct rest as [|c t]; [reflexivity|].
  destruct (c =? 46) eqn:C; [discriminate H|]. unfold g_exp. cbn [orb] in H. rewrite H. reflexivity.
Qed.
Lemma int_body body : no_leading_zero_b (take_digits body) = true ->
  match skip_digits body with c :: _ => (c =? 46) || (c =? 101) || (c =? 69) | [] => false end = false ->
  g_number_body body = Some (skip_digits body) /\ exists d t, body = d :: t /\ is_digit d = true.
Proof.
  intros NZ ST. destruct body as [|c t]; [discriminate NZ|]. cbn [take_digits skip_digits] in *.
  destruct (is_digit c) eqn:D; [|discriminate NZ]. split; [|exists c, t; split; [reflexivity|exact D]].
  unfold g_number_body. rewrite D. rewrite nlzb_eq in NZ. destruct (c =? 48).
  - destruct (take_digits t) eqn:TD; [|discriminate NZ]. apply take_nil_skip in TD. rewrite TD in *.
    apply g_frac_pass. assumption.
  - apply g_frac_pass. assumption.
Qed.
Lemma dec_int_gval s w b v r : dec_int s w b = DOk (v, r) -> gval b r.
Proof.
  unfold dec_int. intros H.
  assert (K : forall (neg : bool) (body : bytes), b = (if neg then [45] else []) ++ body -> (neg = false -> match body with c :: _ => c <> 45 | [] => True end) ->
     (let ds := take_digits body in
      let rest := skip_digits body in
      let v0 := if neg then - digits_value ds else digits_value ds in
      if neg && negb s then DErr
      else if negb (no_leading_zero_b ds) then DErr
      else if match rest with c :: _ => (c =? 46) || (c =? 101) || (c =? 69) | [] => false end then DErr
      else if int_in s w v0 then DOk (VInt v0, rest) else DErr) = DOk (v, r) -> gval b r).
  { clear H. intros neg body Eb Hneg H. cbv zeta in H.
    destruct (neg && negb s); [discriminate|].
    destruct (no_leading_zero_b (take_digits body)) eqn:NZ; [|discriminate]. cbn [negb] in H.
    destruct (match skip_digits body with c :: _ => (c =? 46) || (c =? 101) || (c =? 69) | [] => false end) eqn:ST; [discriminate|].
    destruct (int_in s w _); [|discriminate]. injection H as _ H. subst r.
    destruct (int_body body NZ ST) as (GB & d & t & Ed & D).
    apply (g_value_sufficient 1%nat). subst body.
    assert (GN : g_number b = Some (skip_digits (d :: t))).
    { rewrite g_number_eq. subst b. destruct neg; cbn [app].
      - exact GB.
      - specialize (Hneg eq_refl). cbn in Hneg. destruct (Z.eqb_spec d 45); [contradiction|]. exact GB. }
    rewrite <- GN. subst b. unfold is_digit in D. destruct neg; cbn [app]; apply g_value_other; [reflexivity|lia]. }
  destruct b as [|c t].
  - apply (K false []); [reflexivity|intros; exact I|exact H].
  - unfold starts_with in H. destruct (Z.eqb_spec c 45) as [C|C].
    + subst c. apply (K true t); [reflexivity|discriminate|exact H].
    + apply (K false (c :: t)); [reflexivity|intros _; exact C|exact H].
Qed.

(* strings *)
Lemma uq_lit_eq c k : uq_lit (c :: k) = if c =? 34 then uq_body 0 k else None.
Proof. unfold uq_lit. zdeep c; reflexivity. Qed.
Lemma uq_lit_g b s r : uq_lit b = Some (s, r) -> exists k, b = 34 :: k /\ g_string k = Some r.
Proof.
  destruct b as [|c k]; [discriminate|]. rewrite uq_lit_eq. destruct (c =? 34) eqn:C; [|discriminate].
  apply Z.eqb_eq in C. subst c. intros H. exists k. split; [reflexivity|].
  pose proof (unquote_grammar_all k) as A. rewrite H in A. unfold agree in A.
  destruct (g_string k) as [x|]; [subst x; reflexivity|contradiction].
Qed.
Lemma dec_str_gval b v r : dec_str b = DOk (v, r) -> gval b r.
Proof.
  unfold dec_str. destruct (uq_lit b) as [[s x]|] eqn:U; [|discriminate]. intros H. injection H as _ H. subst x.
  apply uq_lit_g in U. destruct U as (k & E & G). subst b. apply (g_value_sufficient 1%nat). exact G.
Qed.

(* ================= D. the loops of the decoder ================= *)
(* the state of a loop: after the opening bracket (first) or after an element *)
Definition Qarr (first : bool) (b r : bytes) : Prop := if first then gval (91 :: b) r else after_elem_ok b r.
Definition Qobj (first : bool) (b r : bytes) : Prop := if first then gval (123 :: b) r else after_member_ok b r.

Lemma starts_with_inv c b r : starts_with c b = Some r -> b = c :: r.
Proof.
  unfold starts_with. destruct b as [|x t]; [discriminate|]. destruct (Z.eqb_spec x c); [|discriminate].
  intros H. injection H as H. subst. reflexivity.
Qed.
Lemma Qarr_close first b r : skip_ws b = 93 :: r -> Qarr first b r.
Proof. intros E. destruct first; [apply arr_close|apply after_elem_close]; assumption. Qed.
Lemma Qobj_close first b r : skip_ws b = 125 :: r -> Qobj first b r.
Proof. intros E. destruct first; [apply obj_close|apply after_member_close]; assumption. Qed.
Lemma Qarr_sep (first : bool) b b1 r :
  (if first then DOk (skip_ws b) else match starts_with 44 (skip_ws b) with Some x => DOk (skip_ws x) | None => DErr end) = DOk b1 ->
  elems_ok b1 r -> Qarr first b r.
Proof.
  destruct first; intros S E.
  - injection S as S. subst b1. apply arr_elems. assumption.
  - destruct (starts_with 44 (skip_ws b)) as [x|] eqn:S44; [|discriminate]. injection S as S. subst b1.
    apply starts_with_inv in S44. apply (after_elem_comma b x r S44 E).
Qed.
Lemma Qobj_sep (first : bool) b b1 r :
  (if first then DOk (skip_ws b) else match starts_with 44 (skip_ws b) with Some x => DOk (skip_ws x) | None => DErr end) = DOk b1 ->
  members_ok b1 r -> Qobj first b r.
Proof.
  destruct first; intros S E.
  - injection S as S. subst b1. apply obj_members. assumption.
  - destruct (starts_with 44 (skip_ws b)) as [x|] eqn:S44; [|discriminate]. injection S as S. subst b1.
    apply starts_with_inv in S44. apply (after_member_comma b x r S44 E).
Qed.

Lemma slice_loop_ok dec1 : (forall b v r, dec1 b = DOk (v, r) -> gval b r) ->
  forall fuel first b l r, dec_slice_loop dec1 fuel first b = DOk (l, r) -> Qarr first b r.
Proof.
  intros HD. induction fuel as [|f IH]; intros first b l r H; [discriminate H|].
  cbn [dec_slice_loop] in H. cbv zeta in H.
  destruct (starts_with 93 (skip_ws b)) as [x|] eqn:S93.
  { injection H as _ H. subst x. apply starts_with_inv in S93. apply Qarr_close. assumption. }
  destruct (if first then DOk (skip_ws b) else match starts_with 44 (skip_ws b) with Some x => DOk (skip_ws x) | None => DErr end)
    as [b1| |] eqn:SEP; cbn [dbind] in H; try discriminate H.
  destruct (dec1 b1) as [[v1 r1]| |] eqn:D1; cbn [dbind fst snd] in H; try discriminate H.
  destruct (dec_slice_loop dec1 f false r1) as [[l2 r2]| |] eqn:LP; cbn [dbind fst snd] in H; try discriminate H.
  injection H as _ H. subst r2.
  apply (Qarr_sep first b b1 r SEP). apply (elems_step b1 r1 r (HD _ _ _ D1)). apply (IH false r1 l2 r LP).
Qed.

Lemma dec_surplus_eq gf f first b : dec_surplus gf (S f) first b =
  match skip_ws b with
  | [] => DErr
  | c :: r =>
    if c =? 93 then DOk r
    else dbind (if first then DOk (c :: r) else if c =? 44 then DOk (skip_ws r) else DErr) (fun b1 =>
         match g_value gf b1 with None => DErr | Some r' => dec_surplus gf f false r' end)
  end.
Proof. cbn [dec_surplus]. destruct (skip_ws b) as [|c r]; [reflexivity|]. zdeep c; reflexivity. Qed.

Lemma surplus_ok gf : forall fuel first b r, dec_surplus gf fuel first b = DOk r -> Qarr first b r.
Proof.
  induction fuel as [|f IH]; intros first b r H; [discriminate H|].
  rewrite dec_surplus_eq in H. destruct (skip_ws b) as [|c t] eqn:E; [discriminate H|].
  destruct (c =? 93) eqn:C93.
  { apply Z.eqb_eq in C93. subst c. injection H as H. subst t. apply Qarr_close. assumption. }
  assert (K : forall b1, match g_value gf b1 with None => DErr | Some r' => dec_surplus gf f false r' end = DOk r ->
                         elems_ok b1 r).
  { intros b1 K. destruct (g_value gf b1) as [r1|] eqn:G; [|discriminate K].
    apply (elems_step b1 r1 r (g_value_sufficient _ _ _ G)). apply (IH false r1 r K). }
  destruct first; cbn [dbind] in H.
  - apply K in H. unfold Qarr. apply arr_elems. rewrite E. assumption.
  - destruct (c =? 44) eqn:C44; cbn [dbind] in H; [|discriminate H]. apply Z.eqb_eq in C44. subst c.
    apply K in H. apply (after_elem_comma b t r E H).
Qed.

Lemma arr_loop_ok dec1 zero gf : (forall c b v r, dec1 c b = DOk (v, r) -> gval b r) ->
  forall curs first b l r, dec_arr_loop dec1 zero gf first curs b = DOk (l, r) -> Qarr first b r.
Proof.
  intros HD. induction curs as [|c curs IH]; intros first b l r H.
  { cbn [dec_arr_loop] in H. destruct (dec_surplus gf gf first b) as [x| |] eqn:S; cbn [dbind] in H; try discriminate H.
    injection H as _ H. subst x. apply (surplus_ok gf gf first b r S). }
  cbn [dec_arr_loop] in H. cbv zeta in H.
  destruct (starts_with 93 (skip_ws b)) as [x|] eqn:S93.
  { injection H as _ H. subst x. apply starts_with_inv in S93. apply Qarr_close. assumption. }
  assert (K : forall b1, dbind (dec1 c b1) (fun vr =>
      dbind (dec_arr_loop dec1 zero gf false curs (snd vr)) (fun lr => DOk (fst vr :: fst lr, snd lr))) = DOk (l, r) ->
      elems_ok b1 r).
  { intros b1 K. destruct (dec1 c b1) as [[v1 r1]| |] eqn:D1; cbn [dbind fst snd] in K; try discriminate K.
    destruct (dec_arr_loop dec1 zero gf false curs r1) as [[l2 r2]| |] eqn:LP; cbn [dbind fst snd] in K; try discriminate K.
    injection K as _ K. subst r2.
    apply (elems_step b1 r1 r (HD _ _ _ _ D1)). apply (IH false r1 l2 r LP). }
  destruct first.
  - apply K in H. unfold Qarr. apply arr_elems. assumption.
  - destruct (starts_with 44 (skip_ws b)) as [x|] eqn:S44; [|discriminate H]. apply K in H.
    apply starts_with_inv in S44. apply (after_elem_comma b x r S44 H).
Qed.

Lemma map_loop_ok dec1 : (forall b v r, dec1 b = DOk (v, r) -> gval b r) ->
  forall fuel first m b m' r, dec_map_loop dec1 fuel first m b = DOk (m', r) -> Qobj first b r.
Proof.
  intros HD. induction fuel as [|f IH]; intros first m b m' r H; [discriminate H|].
  cbn [dec_map_loop] in H. cbv zeta in H.
  destruct (starts_with 125 (skip_ws b)) as [x|] eqn:S125.
  { injection H as _ H. subst x. apply starts_with_inv in S125. apply Qobj_close. assumption. }
  destruct (if first then DOk (skip_ws b) else match starts_with 44 (skip_ws b) with Some x => DOk (skip_ws x) | None => DErr end)
    as [b1| |] eqn:SEP; cbn [dbind] in H; try discriminate H.
  destruct (uq_lit b1) as [[k r1]|] eqn:U; [|discriminate H].
  destruct (starts_with 58 (skip_ws r1)) as [r2|] eqn:S58; [|discriminate H].
  destruct (dec1 (skip_ws r2)) as [[v1 r3]| |] eqn:D1; cbn [dbind fst snd] in H; try discriminate H.
  apply uq_lit_g in U. destruct U as (k0 & Eb1 & GS). apply starts_with_inv in S58.
  apply (Qobj_sep first b b1 r SEP). subst b1.
  apply (members_step k0 r1 r2 r3 r GS S58 (HD _ _ _ D1)). apply (IH false _ r3 m' r H).
Qed.

Lemma struct_loop_ok decf names gf :
  (forall k curs b curs' r, decf k curs b = DOk (Some (curs', r)) -> gval b r) ->
  forall fuel first curs b l r, dec_struct_loop decf names gf fuel first curs b = DOk (l, r) -> Qobj first b r.
Proof.
  intros HD. induction fuel as [|f IH]; intros first curs b l r H; [discriminate H|].
  cbn [dec_struct_loop] in H. cbv zeta in H.
  destruct (starts_with 125 (skip_ws b)) as [x|] eqn:S125.
  { injection H as _ H. subst x. apply starts_with_inv in S125. apply Qobj_close. assumption. }
  destruct (if first then DOk (skip_ws b) else match starts_with 44 (skip_ws b) with Some x => DOk (skip_ws x) | None => DErr end)
    as [b1| |] eqn:SEP; cbn [dbind] in H; try discriminate H.
  destruct (uq_lit b1) as [[k r1]|] eqn:U; [|discriminate H].
  destruct (starts_with 58 (skip_ws r1)) as [r2|] eqn:S58; [|discriminate H].
  apply uq_lit_g in U. destruct U as (k0 & Eb1 & GS). apply starts_with_inv in S58.
  apply (Qobj_sep first b b1 r SEP). subst b1.
  destruct (resolve_key names k) as [k'|]; [|discriminate H].
  destruct (decf k' curs (skip_ws r2)) as [[[curs' r3]|]| |] eqn:DF; cbn [dbind] in H; try discriminate H.
  - apply (members_step k0 r1 r2 r3 r GS S58 (HD _ _ _ _ _ DF)). apply (IH false curs' r3 l r H).
  - destruct (g_value gf (skip_ws r2)) as [r3|] eqn:G; [|discriminate H].
    apply (members_step k0 r1 r2 r3 r GS S58 (g_value_sufficient _ _ _ G)). apply (IH false curs r3 l r H).
Qed.

(* ================= E. the main lemma ================= *)
Scheme jty_dmut := Induction for jty Sort Prop
  with jfields_dmut := Induction for jfields Sort Prop.

Definition Pd (t : jty) : Prop :=
  forall fuel cur b v r, dec t fuel cur b = DOk (v, r) -> gval b r.
Definition Pdf (fs : jfields) : Prop :=
  forall fuel k curs b curs' r, dec_field fs fuel k curs b = DOk (Some (curs', r)) -> gval b r.

Lemma wrap_ptr_inv x v r : wrap_ptr x = DOk (v, r) -> exists v', x = DOk (v', r).
Proof.
  unfold wrap_ptr. destruct x as [[v1 r1]| |]; cbn [dbind fst snd]; try discriminate.
  intros H. injection H as _ H. subst r1. exists v1. reflexivity.
Qed.

Lemma dec_all_gval : forall t, Pd t.
Proof.
  apply (jty_dmut Pd Pdf); unfold Pd, Pdf.
  - (* bool *)
    intros fuel cur b v r H. cbn [dec] in H. destruct (nullp b) as [x|] eqn:N.
    + injection H as _ H. subst x. apply nullp_gval. assumption.
    + apply (dec_bool_gval b v r H).
  - (* integers *)
    intros s w fuel cur b v r H. cbn [dec] in H. destruct (nullp b) as [x|] eqn:N.
    + injection H as _ H. subst x. apply nullp_gval. assumption.
    + apply (dec_int_gval s w b v r H).
  - (* string *)
    intros fuel cur b v r H. cbn [dec] in H. destruct (nullp b) as [x|] eqn:N.
    + injection H as _ H. subst x. apply nullp_gval. assumption.
    + apply (dec_str_gval b v r H).
  - (* pointer *)
    intros t IH fuel cur b v r H. cbn [dec] in H. destruct (nullp b) as [x|] eqn:N.
    + assert (K : DOk (VNil, x) = DOk (v, r) \/ exists c v', dec t fuel c b = DOk (v', r)).
      { destruct cur; try (left; exact H). destruct t; try (left; exact H).
        right. apply wrap_ptr_inv in H. destruct H as (v' & H). exists cur, v'. exact H. }
      destruct K as [K|(c & v' & K)].
      * injection K as _ K. subst x. apply nullp_gval. assumption.
      * apply (IH fuel c b v' r K).
    + apply wrap_ptr_inv in H. destruct H as (v' & H). apply (IH fuel _ b v' r H).
  - (* slice *)
    intros t IH fuel cur b v r H. cbn [dec] in H. destruct (nullp b) as [x|] eqn:N.
    + injection H as _ H. subst x. apply nullp_gval. assumption.
    + destruct (starts_with 91 b) as [r0|] eqn:S; [|discriminate H]. apply starts_with_inv in S. subst b.
      destruct (dec_slice_loop (dec t fuel (jzero t)) fuel true r0) as [[l r1]| |] eqn:LP; cbn [dbind fst snd] in H;
        try discriminate H.
      injection H as _ H. subst r1.
      apply (slice_loop_ok (dec t fuel (jzero t)) (IH fuel (jzero t)) fuel true r0 l r LP).
  - (* array *)
    intros n t IH fuel cur b v r H. cbn [dec] in H. destruct (nullp b) as [x|] eqn:N.
    + injection H as _ H. subst x. apply nullp_gval. assumption.
    + destruct (starts_with 91 b) as [r0|] eqn:S; [|discriminate H]. apply starts_with_inv in S. subst b.
      cbv zeta in H.
      destruct (dec_arr_loop (dec t fuel) (jzero t) fuel true (match cur with VList l => l | _ => repeat (jzero t) n end) r0)
        as [[l r1]| |] eqn:LP; cbn [dbind fst snd] in H; try discriminate H.
      injection H as _ H. subst r1.
      apply (arr_loop_ok (dec t fuel) (jzero t) fuel (IH fuel) _ true r0 l r LP).
  - (* map *)
    intros t IH fuel cur b v r H. cbn [dec] in H. destruct (nullp b) as [x|] eqn:N.
    + injection H as _ H. subst x. apply nullp_gval. assumption.
    + destruct (starts_with 123 b) as [r0|] eqn:S; [|discriminate H]. apply starts_with_inv in S. subst b.
      cbv zeta in H.
      destruct (dec_map_loop (dec t fuel (jzero t)) fuel true (match cur with VMap m => m | _ => [] end) r0)
        as [[m' r1]| |] eqn:LP; cbn [dbind fst snd] in H; try discriminate H.
      injection H as _ H. subst r1.
      apply (map_loop_ok (dec t fuel (jzero t)) (IH fuel (jzero t)) fuel true _ r0 m' r LP).
  - (* struct *)
    intros fs IH fuel cur b v r H. cbn [dec] in H. destruct (nullp b) as [x|] eqn:N.
    + injection H as _ H. subst x. apply nullp_gval. assumption.
    + destruct (starts_with 123 b) as [r0|] eqn:S; [|discriminate H]. apply starts_with_inv in S. subst b.
      cbv zeta in H.
      destruct (dec_struct_loop (dec_field fs fuel) (jnames fs) fuel fuel true (match cur with VStruct l => l | _ => jzeros fs end) r0)
        as [[l r1]| |] eqn:LP; cbn [dbind fst snd] in H; try discriminate H.
      injection H as _ H. subst r1.
      apply (struct_loop_ok (dec_field fs fuel) (jnames fs) fuel (IH fuel) fuel true _ r0 l r LP).
  - (* no field *)
    intros fuel k curs b curs' r H. cbn [dec_field] in H. discriminate H.
  - (* a field *)
    intros name omit t IHt rest IHr fuel k curs b curs' r H. cbn [dec_field] in H.
    destruct curs as [|c curs0]; [discriminate H|].
    destruct (bytes_eqb k name).
    + destruct (negb (jmergeable t) && negb (jis_zero t c)); [discriminate H|].
      destruct (dec t fuel c b) as [[v1 r1]| |] eqn:D; cbn [dbind fst snd] in H; try discriminate H.
      injection H as _ H. subst r1. apply (IHt fuel c b v1 r D).
    + destruct (dec_field rest fuel k curs0 b) as [[[l r1]|]| |] eqn:DF; cbn [dbind] in H; try discriminate H.
      injection H as _ H. subst r1. apply (IHr fuel k curs0 b l r DF).
Qed.

Lemma tree_dec_value : tree_dec_value_statement.
Proof. intros t fuel cur b v r H. apply (dec_all_gval t fuel cur b v r H). Qed.

Lemma tree_dec_valid : tree_dec_valid_statement.
Proof.
  intros fuel t b v H. unfold jdec in H.
  destruct (dec t fuel (jzero t) (skip_ws b)) as [[v1 r]| |] eqn:D; try discriminate H.
  destruct (skip_ws r) as [|c x] eqn:E; [|discriminate H].
  destruct (tree_dec_value t fuel (jzero t) (skip_ws b) v1 r D) as [_ G].
  unfold g_valid. rewrite (G (S (length b))).
  - rewrite E. reflexivity.
  - pose proof (skip_ws_length b). lia.
Qed.

Lemma tree_dec_invalid : tree_dec_invalid_statement.
Proof.
  intros fuel t b G v H. apply tree_dec_valid in H. rewrite H in G. discriminate G.
Qed.

Print Assumptions g_value_sufficient.
Print Assumptions tree_dec_value.
Print Assumptions tree_dec_valid.
Print Assumptions tree_dec_invalid.
