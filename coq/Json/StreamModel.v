(* Hand-written executable models of the two stateful JSON front ends, over the MACHINE-TRANSLATED
   scanners of Generated/JsonParseGen.v:
     - json.Decoder.readValue / Decode framing (json/json.go): buffer discipline, refill, compaction,
       doubling, error stickiness, InputOffset accounting, Buffered;
     - json.Tokenizer.Next / Reset (json/token.go): delimiter state machine, scope stack, IsKey/Depth/Index.
   Definitions only. *)
From Verif Require Import Base.GoInt Generated.AsmAsciiGen Ascii.AsmTotal Generated.AsciiGen Json.Ext Generated.JsonParseGen.
Open Scope Z_scope.

(* ================= Decoder ================= *)
Inductive rerr : Set := REOF | RUnexpectedEOF | RFail.       (* io.EOF, io.ErrUnexpectedEOF, the reader's own error *)
(* the reader as a script of Read results: each call returns some bytes (possibly none) and maybe an error;
   after the script is exhausted the reader keeps returning (0, io.EOF) *)
Definition script := list (bytes * option rerr).

(* one Read into a destination of n bytes *)
Definition read_once (term : rerr) (s : script) (n : Z) : bytes * option rerr * script :=
  match s with
  | [] => ([], Some term, [])                       (* the terminal condition repeats for ever *)
  | (data, e) :: r =>
      if len data <=? n then (data, e, r)
      else (slice_to data n, None, (slice_from data n, e) :: r)      (* the destination is full: the rest stays *)
  end.
(* io.ReadFull(r, dst) with len(dst) = n: read until full or error; EOF after some bytes is ErrUnexpectedEOF *)
Fixpoint read_full (fuel : nat) (term : rerr) (s : script) (n : Z) (acc : bytes) : bytes * option rerr * script :=
  match fuel with
  | O => (acc, Some RFail, s)
  | S f =>
      if n <=? 0 then (acc, None, s) else
      let '(d, e, s') := read_once term s n in
      let acc := acc ++ d in
      match e with
      | Some err =>
          if len d =? n then (acc, None, s')        (* ReadAtLeast: n >= min clears the error *)
          else (acc, Some (match err with REOF => if len acc =? 0 then REOF else RUnexpectedEOF | x => x end), s')
      | None => read_full f term s' (n - len d) acc
      end
  end.

Record dstate := {
  d_buffer : bytes;          (* dec.buffer[:len] *)
  d_cap : Z;                 (* cap(dec.buffer); 0 = nil *)
  d_remain : bytes;          (* dec.remain: a suffix of the buffer *)
  d_offset : Z;              (* dec.inputOffset *)
  d_err : option rerr;       (* dec.err *)
  d_reader : script;
  d_term : rerr              (* what the reader returns once the script is exhausted: io.EOF or its own error *)
}.
Definition d_init (s : script) (term : rerr) : dstate :=
  {| d_buffer := []; d_cap := 0; d_remain := []; d_offset := 0; d_err := None; d_reader := s; d_term := term |}.

Inductive dresult : Type :=
| DValue (v : bytes)                    (* raw bytes of the value *)
| DError (e : rerr)                     (* the reader's condition: EOF / unexpected EOF / reader failure *)
| DSyntax                               (* a syntax error *)
| DOutOfFuel.

Definition is_num_kind (k : Z) : bool := (4 <=? k) && (k <=? 7).    (* Kind.Class() == Num *)

(* readValue *)
Fixpoint read_value (fuel : nat) (pfuel : nat) (flags : Z) (dflags : Z) (st : dstate) : dresult * dstate :=
  match fuel with
  | O => (DOutOfFuel, st)
  | S f =>
      (* try to parse what is buffered *)
      let attempt : option (dresult * dstate) :=
        if len (d_remain st) =? 0 then None else
        match json_decoder_parseValue pfuel dflags (d_remain st) with
        | None => Some (DOutOfFuel, st)
        | Some (v, r, k, err) =>
            match err with
            | None =>
                if negb (len r =? 0) || (match d_err st with Some REOF => true | _ => false end) || negb (is_num_kind k) then
                  let '(rem', n) := json_skipSpacesN r in
                  Some (DValue v, {| d_buffer := d_buffer st; d_cap := d_cap st; d_remain := rem';
                                     d_offset := d_offset st + len v + n; d_err := d_err st; d_reader := d_reader st; d_term := d_term st |})
                else None                                   (* a number at the end of the buffer: need more input *)
            | Some _ => if negb (len r =? 0) then Some (DSyntax, st) else None
            end
        end in
      match attempt with
      | Some r => r
      | None =>
          match d_err st with
          | Some e =>
              (match e with
               | REOF => if negb (len (d_remain st) =? 0) then DError RUnexpectedEOF else DError REOF
               | x => DError x
               end, st)
          | None =>
              (* refill: compact the tail to the front, grow when less than minReadSize is free, ReadFull *)
              let '(buf, cap) :=
                if d_cap st =? 0 then ([], json_minBufferSize)
                else (d_remain st, d_cap st) in
              let cap := if (cap - len buf) <? json_minReadSize then 2 * cap else cap in
              let '(data, rerr0, rd) := read_full (S (length (d_reader st))) (d_term st) (d_reader st) (cap - len buf) [] in
              let n := len data in
              let buf := buf ++ data in
              let err := if n >? 0 then None
                         else match rerr0 with Some RUnexpectedEOF => Some REOF | x => x end in
              let '(rem', ns) := json_skipSpacesN buf in
              let dflags' := match json_internalParseFlags pfuel rem' with Some d => Z.lor flags d | None => flags end in
              read_value f pfuel flags dflags'
                {| d_buffer := buf; d_cap := cap; d_remain := rem'; d_offset := d_offset st + ns; d_err := err; d_reader := rd; d_term := d_term st |}
          end
      end
  end.

(* run the decoder to the end: the list of raw values, the terminal condition, and the offsets after each value *)
Fixpoint decode_all (steps : nat) (fuel pfuel : nat) (st : dstate) (acc : list bytes) (offs : list Z)
  : list bytes * dresult * list Z :=
  match steps with
  | O => (rev acc, DOutOfFuel, rev offs)
  | S k =>
      match read_value fuel pfuel 0 0 st with
      | (DValue v, st') => decode_all k fuel pfuel st' (v :: acc) (d_offset st' :: offs)
      | (r, _) => (rev acc, r, rev offs)
      end
  end.

(* ================= Tokenizer ================= *)
Record tstate := {
  t_delim : Z; t_value : bytes; t_err : bool; t_depth : Z; t_index : Z; t_iskey : bool;
  t_iskey_next : bool;                      (* t.isKey *)
  t_json : bytes;
  t_stack : list (Z * Z);                   (* scope stack, innermost LAST: (typ, len); inArray = 0, inObject = 1 *)
  t_kind : Z
}.
Definition t_init (b : bytes) : tstate :=
  {| t_delim := 0; t_value := []; t_err := false; t_depth := 0; t_index := 0; t_iskey := false; t_iskey_next := false;
     t_json := b; t_stack := []; t_kind := 0 |}.
Definition stack_depth (s : list (Z * Z)) : Z := len s.
Definition stack_index (s : list (Z * Z)) : Z := match rev s with [] => 0 | (_, n) :: _ => n - 1 end.
Definition stack_top_is (s : list (Z * Z)) (typ : Z) : bool := match rev s with [] => false | (t, _) :: _ => t =? typ end.
Definition stack_pop (s : list (Z * Z)) (expect : Z) : option (list (Z * Z)) :=
  match rev s with
  | [] => None
  | (t, _) :: r => if t =? expect then Some (rev r) else None
  end.
Definition stack_incr (s : list (Z * Z)) : list (Z * Z) :=
  match rev s with [] => [] | (t, n) :: r => rev ((t, n + 1) :: r) end.

(* Next: returns (true/false, new state). pfuel: fuel for the translated scanners; d: the whole-input flags *)
Definition t_next (pfuel : nat) (d : Z) (st : tstate) : option (bool * tstate) :=
  if t_err st then Some (false, st) else
  let j := json_skipSpaces (t_json st) in              (* the inlined skipSpaces loop *)
  match j with
  | [] => Some (false, t_init [])                      (* t.Reset(nil) *)
  | c :: _ =>
      let scalar (r : option (bytes * bytes * Z * option json_err)) : option (tstate * Z) :=
        match r with
        | None => None
        | Some (v, rest, k, e) =>
            Some ({| t_delim := 0; t_value := v; t_err := negb (isnil e); t_depth := t_depth st; t_index := t_index st;
                     t_iskey := t_iskey st; t_iskey_next := t_iskey_next st; t_json := rest; t_stack := t_stack st; t_kind := t_kind st |}, k)
        end in
      let step : option (tstate * Z) :=
        if c =? 34 then scalar (json_decoder_parseString pfuel d j)
        else if c =? 110 then scalar (Some (json_decoder_parseNull d j))
        else if c =? 116 then scalar (Some (json_decoder_parseTrue d j))
        else if c =? 102 then scalar (Some (json_decoder_parseFalse d j))
        else if (c =? 45) || ((48 <=? c) && (c <=? 57)) then scalar (json_decoder_parseNumber pfuel d j)
        else if (c =? 123) || (c =? 125) || (c =? 91) || (c =? 93) || (c =? 58) || (c =? 44) then
          Some ({| t_delim := c; t_value := [c]; t_err := false; t_depth := t_depth st; t_index := t_index st;
                   t_iskey := t_iskey st; t_iskey_next := t_iskey_next st; t_json := slice_from j 1; t_stack := t_stack st; t_kind := t_kind st |},
                if c =? 123 then json_Object else if c =? 91 then json_Array else 0)
        else
          Some ({| t_delim := 0; t_value := [c]; t_err := true; t_depth := t_depth st; t_index := t_index st;
                   t_iskey := t_iskey st; t_iskey_next := t_iskey_next st; t_json := slice_from j 1; t_stack := t_stack st; t_kind := t_kind st |}, 0) in
      match step with
      | None => None
      | Some (s1, kind) =>
          let depth := stack_depth (t_stack s1) in
          let index := stack_index (t_stack s1) in
          let upd (delim : Z) (iskey iskn : bool) (stack : list (Z * Z)) (err : bool) (depth index : Z) : tstate :=
            {| t_delim := delim; t_value := t_value s1; t_err := err; t_depth := depth; t_index := index; t_iskey := iskey;
               t_iskey_next := iskn; t_json := t_json s1; t_stack := stack; t_kind := kind |} in
          let s2 : tstate * bool (* early false *) :=
            if t_delim s1 =? 0 then (upd 0 (t_iskey_next s1) (t_iskey_next s1) (t_stack s1) (t_err s1) depth index, false)
            else
              let dl := t_delim s1 in
              if dl =? 123 then (upd dl false true (t_stack s1 ++ [(1, 1)]) (t_err s1) depth index, false)
              else if dl =? 91 then (upd dl false (t_iskey_next s1) (t_stack s1 ++ [(0, 1)]) (t_err s1) depth index, false)
              else if dl =? 125 then
                match stack_pop (t_stack s1) 1 with
                | Some stk => (upd dl false false stk false (depth - 1) (stack_index stk), false)
                | None => (upd dl false false (t_stack s1) true (depth - 1) (stack_index (t_stack s1)), false)
                end
              else if dl =? 93 then
                match stack_pop (t_stack s1) 0 with
                | Some stk => (upd dl false (t_iskey_next s1) stk false (depth - 1) (stack_index stk), false)
                | None => (upd dl false (t_iskey_next s1) (t_stack s1) true (depth - 1) (stack_index (t_stack s1)), false)
                end
              else if dl =? 58 then (upd dl false false (t_stack s1) (t_err s1) depth index, false)
              else (* ',' *)
                if len (t_stack s1) =? 0 then (upd dl false (t_iskey_next s1) (t_stack s1) true depth index, true)
                else (upd dl false (if stack_top_is (t_stack s1) 1 then true else t_iskey_next s1) (stack_incr (t_stack s1)) (t_err s1) depth index, false) in
          let '(s3, early) := s2 in
          if early then Some (false, s3)
          else Some ((negb (t_delim s3 =? 0) || negb (len (t_value s3) =? 0)) && negb (t_err s3), s3)
      end
  end.

(* a token as the caller sees it *)
Record token := { k_value : bytes; k_delim : Z; k_depth : Z; k_index : Z; k_iskey : bool; k_kind : Z; k_remaining : Z }.
Fixpoint t_run (fuel pfuel : nat) (d : Z) (st : tstate) (acc : list token) : option (list token * tstate) :=
  match fuel with
  | O => None
  | S f =>
      match t_next pfuel d st with
      | None => None
      | Some (false, st') => Some (rev acc, st')
      | Some (true, st') =>
          t_run f pfuel d st'
            ({| k_value := t_value st'; k_delim := t_delim st'; k_depth := t_depth st'; k_index := t_index st';
                k_iskey := t_iskey st'; k_kind := t_kind st'; k_remaining := len (t_json st') |} :: acc)
      end
  end.
Definition tokenize (b : bytes) : option (list token * tstate) :=
  let pfuel := (2 * length b + 8)%nat in
  match json_internalParseFlags pfuel b with
  | None => None
  | Some d => t_run (S (length b)) pfuel d (t_init b) []
  end.
