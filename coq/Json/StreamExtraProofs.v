(* Proofs of Json/StreamExtraSpec.v (C11: InputOffset range, Buffered, the remainder of Parse).
   Structure:
     A. white space: the exact count of skipSpacesN;
     B. accounting of one refill, one successful attempt, one readValue: the stream before is
        white space ++ value ++ white space ++ the stream after, and the offset advances by exactly those lengths;
     C. the grammar-level rests (frame_rests) against frame, their positions;
     D. Decode to the end with the states kept: offsets in range, Buffered;
     E. Parse. *)
From Verif Require Import Base.GoInt Generated.AsmAsciiGen Ascii.AsmTotal Generated.AsciiGen Json.Ext Generated.JsonParseGen Json.Grammar Json.Spec Json.ValidProofs Json.StreamModel Json.StateSpec Json.StreamProofs Json.StreamExtraSpec.
From Coq Require Import ZifyBool.
Open Scope Z_scope.

(* ================= A. white space ================= *)
Lemma ssn_loop_snd b : forall rest i, 0 <= i <= len b -> slice_from b i = rest ->
  snd (ssn_loop b rest i) = len b - len (skip_ws rest).
Proof.
  induction rest as [|c r IH]; intros i Hi E.
  - cbn [ssn_loop skip_ws snd]. rewrite len_nil. lia.
  - cbn [ssn_loop skip_ws]. pose proof (sf_cons' _ _ _ _ E ltac:(lia)) as (E1 & E2 & E3). rewrite E2.
    destruct (is_ws c).
    + apply IH; [lia|assumption].
    + cbn [snd]. pose proof (sf_len' b i _ ltac:(lia) E). lia.
Qed.
(* skipSpacesN returns the input without its leading white space and the number of bytes skipped *)
Lemma ssn_exact b : json_skipSpacesN b = (skip_ws b, len b - len (skip_ws b)).
Proof.
  pose proof (ssn_fst b) as F. pose proof (ssn_loop_snd b b 0 ltac:(pose proof (len_nonneg b); lia) (sf_0 b)) as S.
  rewrite skipSpacesN_eq in *. destruct (ssn_loop b b 0) as [x n]. cbn [fst snd] in *. subst. reflexivity.
Qed.
Lemma skip_ws_split b : exists w, b = w ++ skip_ws b /\ forallb is_ws w = true /\ len b - len (skip_ws b) = len w.
Proof.
  destruct (skip_ws_suffix b) as (w & E & W). exists w. split; [assumption|]. split; [assumption|].
  rewrite E at 1. rewrite len_app. lia.
Qed.
Lemma skip_ws_ws_app w x : forallb is_ws w = true -> skip_ws (w ++ x) = skip_ws x.
Proof.
  induction w as [|c w IH]; intros H; [reflexivity|]. cbn [forallb] in H. apply andb_true_iff in H. destruct H as [H1 H2].
  cbn [app skip_ws]. rewrite H1. apply IH. assumption.
Qed.
Lemma ws_app a b : forallb is_ws a = true -> forallb is_ws b = true -> forallb is_ws (a ++ b) = true.
Proof. intros H1 H2. rewrite forallb_app, H1, H2. reflexivity. Qed.

(* ================= B. accounting ================= *)
(* one refill: only white space leaves the stream, and the offset counts it *)
Lemma rf_acct st : Inv st -> d_err st = None ->
  exists w, stream st = w ++ stream (rf_state st) /\ forallb is_ws w = true /\
            d_offset (rf_state st) = d_offset st + len w.
Proof.
  intros I DE. pose proof (rf_buf_inv st I) as B. pose proof (rf_cap_inv st I) as [CP CP0].
  pose proof I as (I1 & _).
  destruct (read_full_spec (d_term st) (d_reader st) (S (length (d_reader st))) (rf_cap st - len (d_remain st)) []
              I1 ltac:(lia) ltac:(lia)) as (data & e & s' & R & SD & _).
  cbn [app] in R.
  assert (RR : rf_read st = (data, e, s')) by (unfold rf_read; rewrite B; exact R).
  unfold rf_state. rewrite RR, B. cbn [fst snd]. rewrite ssn_exact. cbn [fst snd].
  unfold stream, unread. cbn [d_remain d_reader d_offset]. rewrite SD.
  destruct (skip_ws_split (d_remain st ++ data)) as (w & W1 & W2 & W3).
  exists w. split; [|split; [assumption|lia]].
  rewrite app_assoc. rewrite W1 at 1. rewrite <- app_assoc. reflexivity.
Qed.

(* a successful attempt: the value, then white space, leave the stream; the offset counts both *)
Lemma attempt_acct pfuel dflags st v st' : Inv st -> flags_sound dflags (d_remain st) -> len (stream st) < 2 ^ 62 ->
  (2 * length (stream st) + 8 <= pfuel)%nat -> rv_attempt pfuel dflags st = Some (DValue v, st') ->
  exists w, stream st = v ++ w ++ stream st' /\ forallb is_ws w = true /\ d_offset st' = d_offset st + len v + len w.
Proof.
  intros I FS LS PF. pose proof I as (I1 & I2 & I3 & I4 & I5 & I6).
  unfold rv_attempt.
  destruct (d_remain st) as [|c0 w0] eqn:EW; [cbn; discriminate|]. rewrite len_cons_nz.
  set (w := c0 :: w0) in *.
  assert (STR : stream st = w ++ unread st) by (unfold stream; rewrite EW; reflexivity).
  rewrite STR in I4. apply wfb_app_iff in I4. destruct I4 as [Ww Wm].
  assert (Lw : (length w <= length (stream st))%nat) by (rewrite STR, app_length; lia).
  destruct (pv_all dflags pfuel w (S (length w)) Ww ltac:(unfold len in *; lia) FS ltac:(lia) ltac:(lia))
    as (v1 & r & k & e & E & Hok & Herr).
  rewrite E. destruct e as [e|].
  - destruct (negb (len r =? 0)); intros H; [injection H as H _; discriminate H|discriminate H].
  - destruct (Hok eq_refl) as (G & j & J1 & J2 & J3).
    assert (WV : w = v1 ++ r) by (rewrite J2, J3; symmetry; apply st_sf).
    clear J2 J3 Hok Herr.
    match goal with |- (if ?c then _ else _) = _ -> _ => destruct c end; [|discriminate].
    rewrite ssn_exact. intros H. injection H as H1 H2. subst v1 st'.
    destruct (skip_ws_split r) as (x & X1 & X2 & X3). exists x.
    rewrite STR. unfold stream, unread. cbn [d_remain d_reader d_offset].
    split; [|split; [assumption|lia]].
    rewrite WV. rewrite X1 at 1. rewrite <- !app_assoc. reflexivity.
Qed.

Lemma rf_flags_sound N pfuel st : Z.of_nat N < 2 ^ 62 -> (2 * N + 8 <= pfuel)%nat ->
  Inv (rf_state st) -> (length (stream (rf_state st)) <= N)%nat ->
  flags_sound (rf_flags pfuel 0 st) (d_remain (rf_state st)).
Proof.
  intros HN PF I' L'. unfold rf_flags. destruct I' as (_ & J2 & _ & J4 & _).
  destruct (json_internalParseFlags pfuel (d_remain (rf_state st))) as [d|] eqn:IPF; [|apply flags_sound_0].
  rewrite Z.lor_0_l. apply wfb_app_iff in J4. destruct J4 as [J4 _].
  assert (LL : (length (d_remain (rf_state st)) <= length (stream (rf_state st)))%nat).
  { unfold stream. rewrite app_length. lia. }
  destruct (internal_flags_sound (d_remain (rf_state st)) pfuel d J4 ltac:(unfold len; lia) ltac:(lia) J2 IPF) as [X _].
  exact X.
Qed.

(* one readValue that returns a value *)
Lemma read_value_acct N pfuel : Z.of_nat N < 2 ^ 62 -> (2 * N + 8 <= pfuel)%nat ->
  forall fuel st dflags, Inv st -> flags_sound dflags (d_remain st) -> (length (stream st) <= N)%nat -> (mu st <= fuel)%nat ->
    forall v st', read_value fuel pfuel 0 dflags st = (DValue v, st') ->
      exists w0 w, stream st = w0 ++ v ++ w ++ stream st' /\ forallb is_ws w0 = true /\ forallb is_ws w = true /\
                   d_offset st' = d_offset st + len w0 + len v + len w.
Proof.
  intros HN PF. induction fuel as [|f IH]; intros st dflags I FS LN MU v st' R.
  { rewrite read_value_0 in R. discriminate R. }
  rewrite read_value_eq in R.
  destruct (rv_attempt pfuel dflags st) as [[res0 st0]|] eqn:A.
  - injection R as R1 R2. subst res0 st0.
    destruct (attempt_acct pfuel dflags st v st' I FS ltac:(unfold len; lia) ltac:(lia) A) as (w & A1 & A2 & A3).
    exists [], w. cbn [app forallb]. rewrite len_nil. repeat split; try assumption. lia.
  - destruct (d_err st) as [e|] eqn:DE.
    + injection R as R1 _. unfold rv_final in R1. destruct e; try discriminate R1.
      destruct (negb (len (d_remain st) =? 0)); discriminate R1.
    + destruct (rf_spec st I DE) as (I' & S' & M' & T' & L').
      destruct (rf_acct st I DE) as (w1 & A1 & A2 & A3).
      pose proof (rf_flags_sound N pfuel st HN PF I' ltac:(lia)) as FS'.
      destruct (IH (rf_state st) (rf_flags pfuel 0 st) I' FS' ltac:(lia) ltac:(lia) v st' R) as (w0 & w & B1 & B2 & B3 & B4).
      exists (w1 ++ w0), w. rewrite A1, B1. rewrite <- app_assoc. split; [reflexivity|].
      split; [apply ws_app; assumption|]. split; [assumption|]. rewrite len_app. lia.
Qed.

(* the same with the grammar: the rest r the grammar leaves after the value is white space ++ the stream after *)
Lemma read_value_full N pfuel : Z.of_nat N < 2 ^ 62 -> (2 * N + 8 <= pfuel)%nat ->
  forall fuel st dflags, Inv st -> flags_sound dflags (d_remain st) -> (length (stream st) <= N)%nat -> (mu st <= fuel)%nat ->
    forall v st', read_value fuel pfuel 0 dflags st = (DValue v, st') ->
      exists w0 w r, stream st = w0 ++ v ++ r /\ r = w ++ stream st' /\
        forallb is_ws w0 = true /\ forallb is_ws w = true /\ v <> [] /\
        skip_ws (stream st) = v ++ r /\
        g_value (S (length (skip_ws (stream st)))) (skip_ws (stream st)) = Some r /\
        skip_ws (stream st') = skip_ws r /\
        Inv st' /\ d_term st' = d_term st /\
        d_offset st' = d_offset st + len w0 + len v + len w.
Proof.
  intros HN PF fuel st dflags I FS LN MU v st' R.
  pose proof (read_value_spec N pfuel HN PF fuel st dflags I FS LN MU) as P.
  destruct (read_value_acct N pfuel HN PF fuel st dflags I FS LN MU v st' R) as (w0 & w & B1 & B2 & B3 & B4).
  rewrite R in P. cbn [fst snd] in P. unfold rv_post in P. cbv zeta in P.
  destruct P as (r & H1 & H2 & H3 & H4 & H5 & H6 & H7).
  assert (HD : skip_ws (v ++ r) = v ++ r) by (rewrite <- H1; apply skip_ws_idem).
  assert (SV : skip_ws (stream st) = v ++ w ++ stream st').
  { rewrite B1. rewrite skip_ws_ws_app by assumption.
    destruct v as [|c v0]; [congruence|]. cbn [app] in HD |- *. cbn [skip_ws] in HD |- *.
    destruct (is_ws c) eqn:W; [|reflexivity].
    exfalso. pose proof (skip_ws_length (v0 ++ r)) as SL. rewrite HD in SL. cbn [length] in SL. lia. }
  assert (RR : r = w ++ stream st').
  { rewrite H1 in SV. apply app_inv_head in SV. exact SV. }
  exists w0, w, r. rewrite <- RR in B1. do 10 (split; [assumption|]). assumption.
Qed.

(* ================= C. the rests of the grammar-level framing ================= *)
Lemma frame_rests_values : frame_rests_values_statement.
Proof.
  intros fuel. induction fuel as [|f IH]; intros b; [reflexivity|].
  cbn [frame frame_rests]. destruct (skip_ws b) as [|c t] eqn:E; [reflexivity|].
  destruct (g_value (S (length (c :: t))) (c :: t)) as [r|]; [|reflexivity].
  specialize (IH r). destruct (frame f r) as [vs ok]. cbn [fst] in *. cbn [values_between]. rewrite E, IH. reflexivity.
Qed.
Lemma frame_rests_skip f b : frame_rests f b = frame_rests f (skip_ws b).
Proof. destruct f; [reflexivity|]. cbn [frame_rests]. rewrite skip_ws_idem. reflexivity. Qed.
Lemma frame_rests_S f b r : skip_ws b <> [] -> g_value (S (length (skip_ws b))) (skip_ws b) = Some r ->
  frame_rests (S f) b = r :: frame_rests f r.
Proof.
  intros N G. cbn [frame_rests]. destruct (skip_ws b) as [|c t]; [congruence|]. rewrite G. reflexivity.
Qed.

(* an accepted value is a non-empty prefix: through the parser theorem (flags 0) *)
Lemma g_value_split b r : wfb b = true -> len b < 2 ^ 62 -> g_value (S (length b)) b = Some r ->
  exists v, b = v ++ r /\ v <> [].
Proof.
  intros W L G.
  destruct (pv_all 0 (2 * length b + 4) b (S (length b)) W L (flags_sound_0 b) ltac:(lia) ltac:(lia))
    as (v & r' & k & e & E & Hok & Herr).
  destruct e as [e|]; [rewrite Herr in G by discriminate; discriminate G|].
  destruct (Hok eq_refl) as (G' & j & J1 & J2 & J3). rewrite G in G'. injection G' as ->.
  exists v. split; [subst v r'; symmetry; apply st_sf|].
  intros X. pose proof (len_slice_to b j ltac:(lia)) as LV. rewrite <- J2, X in LV. cbn in LV. lia.
Qed.

Lemma frame_rests_suffix data : wfb data = true -> len data < 2 ^ 62 ->
  forall fuel b p r, data = p ++ b -> In r (frame_rests fuel b) -> exists q, data = q ++ r.
Proof.
  intros W L. induction fuel as [|f IH]; intros b p r E H; [destruct H|].
  cbn [frame_rests] in H. destruct (skip_ws_suffix b) as (pre & P1 & _).
  destruct (skip_ws b) as [|c t] eqn:SB; [destruct H|].
  destruct (g_value (S (length (c :: t))) (c :: t)) as [r1|] eqn:G; [|destruct H].
  assert (Wb : wfb (c :: t) = true).
  { rewrite E, P1 in W. apply wfb_app_iff in W. destruct W as [_ W]. apply wfb_app_iff in W. tauto. }
  assert (Lb : len (c :: t) < 2 ^ 62).
  { rewrite E, P1, !len_app in L. pose proof (len_nonneg p). pose proof (len_nonneg pre). lia. }
  destruct (g_value_split _ _ Wb Lb G) as (v & V1 & _).
  assert (E1 : data = (p ++ pre ++ v) ++ r1).
  { rewrite E, P1, V1. rewrite <- !app_assoc. reflexivity. }
  destruct H as [H|H].
  - subst r1. eexists. exact E1.
  - apply (IH r1 _ r E1 H).
Qed.

Lemma slice_app_mid {A} (q w x : list A) : slice (q ++ w ++ x) (len q) (len q + len w) = w.
Proof.
  unfold slice, len. rewrite Nat2Z.id. replace (Z.to_nat (Z.of_nat (length q) + Z.of_nat (length w) - Z.of_nat (length q))) with (length w) by lia.
  rewrite skipn_app, skipn_all, Nat.sub_diag. cbn [skipn app].
  rewrite firstn_app, firstn_all, Nat.sub_diag. cbn [firstn]. apply app_nil_r.
Qed.

Lemma frame_rests_positions : frame_rests_positions_statement.
Proof.
  intros data r W L H.
  destruct (frame_rests_suffix data W L _ data [] r eq_refl H) as (q & Q).
  destruct (skip_ws_split r) as (w & W1 & W2 & W3).
  unfold value_end, next_start.
  assert (LQ : len data - len r = len q) by (rewrite Q, len_app; lia).
  assert (LN : len data - len (skip_ws r) = len q + len w) by (rewrite Q, len_app; lia).
  rewrite LQ, LN. pose proof (len_nonneg q). pose proof (len_nonneg w). pose proof (len_nonneg (skip_ws r)).
  split; [rewrite Q; symmetry; apply sf_app|].
  split.
  { rewrite Q. rewrite W1 at 2. rewrite app_assoc, <- len_app. symmetry. apply sf_app. }
  split; [lia|]. split; [lia|].
  rewrite Q. rewrite W1 at 1. rewrite slice_app_mid. assumption.
Qed.

(* ================= D. Decode to the end, the states kept ================= *)
Definition Acct (data : bytes) (st : dstate) : Prop := exists p, data = p ++ stream st /\ len p = d_offset st.

Lemma decode_all_states : forall steps fuel pfuel st acc offs sacc,
  offs = map d_offset sacc -> length acc = length sacc ->
  snd (decode_all steps fuel pfuel st acc offs) = map d_offset (decode_states steps fuel pfuel st sacc) /\
  length (snd (decode_all steps fuel pfuel st acc offs)) = length (fst (fst (decode_all steps fuel pfuel st acc offs))).
Proof.
  induction steps as [|k IH]; intros fuel pfuel st acc offs sacc E L.
  - cbn [decode_all decode_states fst snd]. subst offs. rewrite map_rev, !rev_length, map_length. auto.
  - cbn [decode_all decode_states]. destruct (read_value fuel pfuel 0 0 st) as [res st'].
    destruct res; try (cbn [fst snd]; subst offs; rewrite map_rev, !rev_length, map_length; auto).
    apply IH; [subst offs; reflexivity|cbn [length]; lia].
Qed.

Lemma decode_states_spec data N pfuel fuel : Z.of_nat N < 2 ^ 62 -> (2 * N + 8 <= pfuel)%nat -> (N + 3 <= fuel)%nat ->
  forall steps F st sacc, Inv st -> (length (stream st) <= N)%nat -> Acct data st ->
    (length (skip_ws (stream st)) < F)%nat ->
    exists sts, decode_states steps fuel pfuel st sacc = rev sacc ++ sts /\ Forall (Acct data) sts /\
                buffered_after_rests sts (frame_rests F (stream st)).
Proof.
  intros HN PF FU. induction steps as [|k IH]; intros F st sacc I LN AC LF.
  { exists []. cbn [decode_states]. rewrite app_nil_r. repeat split; constructor. }
  cbn [decode_states].
  destruct (read_value fuel pfuel 0 0 st) as [res st'] eqn:R.
  destruct res as [v|e| |]; try (exists []; rewrite app_nil_r; repeat split; constructor).
  destruct (read_value_full N pfuel HN PF fuel st 0 I (flags_sound_0 _) LN ltac:(pose proof (mu_le st); lia) v st' R)
    as (w0 & w & r & B1 & B2 & B3 & B4 & B5 & B6 & B7 & B8 & B9 & B10 & B11).
  destruct F as [|F']; [lia|].
  assert (SN : skip_ws (stream st) <> []).
  { rewrite B6. destruct v; [congruence|discriminate]. }
  rewrite (frame_rests_S F' _ r SN B7).
  assert (LR : (length (skip_ws r) < length (skip_ws (stream st)))%nat).
  { rewrite B6, app_length. pose proof (skip_ws_length r). destruct v; [congruence|cbn [length]; lia]. }
  assert (LS : (length (stream st') <= length (stream st))%nat).
  { rewrite B1, B2, !app_length. lia. }
  assert (AC' : Acct data st').
  { destruct AC as (p & P1 & P2). exists (p ++ w0 ++ v ++ w). split.
    - rewrite P1, B1, B2. rewrite <- !app_assoc. reflexivity.
    - rewrite !len_app. lia. }
  destruct (IH F' st' (st' :: sacc) B9 ltac:(lia) AC' ltac:(rewrite B8; lia)) as (sts & S1 & S2 & S3).
  exists (st' :: sts). split; [rewrite S1; cbn [rev]; rewrite <- app_assoc; reflexivity|].
  split; [constructor; assumption|].
  cbn [buffered_after_rests]. unfold buffered, undelivered. fold (unread st'). fold (stream st').
  split; [assumption|]. split; [exists w; auto|].
  rewrite (frame_rests_skip F' r), <- B8, <- frame_rests_skip. exact S3.
Qed.

Lemma acct_init s term : Acct (script_data s) (d_init s term).
Proof. exists []. split; reflexivity. Qed.

Lemma all_states_spec s term : wfb (script_data s) = true -> len (script_data s) < 2 ^ 30 -> script_clean s ->
  Forall (Acct (script_data s)) (all_states s term) /\
  buffered_after_rests (all_states s term) (frame_rests (S (length (script_data s))) (script_data s)).
Proof.
  intros W L C. unfold all_states. cbv zeta. set (n := length (script_data s)).
  assert (SK : (length (skip_ws (script_data s)) < S (length (script_data s)))%nat).
  { pose proof (skip_ws_length (script_data s)). lia. }
  destruct (decode_states_spec (script_data s) n (2 * n + 8) (n + length s + 40)
              ltac:(unfold len in L; fold n in L; lia) ltac:(lia) ltac:(lia)
              (n + 2)%nat (S n) (d_init s term) [] (inv_init s term C W)
              ltac:(change (stream (d_init s term)) with (script_data s); unfold n; lia)
              (acct_init s term)
              ltac:(change (stream (d_init s term)) with (script_data s); unfold n; exact SK))
    as (sts & S1 & S2 & S3).
  cbn [rev app] in S1. rewrite S1. split; assumption.
Qed.

Lemma all_states_offsets : all_states_offsets_statement.
Proof.
  intros s term. unfold all_states, all_values. cbv zeta. symmetry.
  apply (decode_all_states _ _ _ _ [] [] []); reflexivity.
Qed.

(* (2) Buffered *)
Lemma buffered_stmt : buffered_statement.
Proof.
  intros s term W L C. destruct (all_states_spec s term W L C) as [A _].
  eapply Forall_impl; [|exact A]. intros st (p & P1 & P2). cbv beta.
  unfold buffered, undelivered. fold (unread st). fold (stream st).
  rewrite <- P2. pose proof (len_nonneg p). pose proof (len_nonneg (stream st)).
  assert (LD : len (script_data s) = len p + len (stream st)) by (rewrite P1 at 1; apply len_app).
  split; [lia|]. rewrite P1. symmetry. apply sf_app.
Qed.
Lemma buffered_rest : buffered_rest_statement.
Proof. intros s term W L C. exact (proj2 (all_states_spec s term W L C)). Qed.

(* (1) the offsets *)
Lemma offsets_from_states data : forall sts rests, Forall (Acct data) sts -> buffered_after_rests sts rests ->
  offsets_in_range data (map d_offset sts) rests = true.
Proof.
  induction sts as [|st sts IH]; intros rests A B; [reflexivity|].
  destruct rests as [|r rs]; [destruct B|].
  cbn [buffered_after_rests] in B. destruct B as (B1 & (w & B2 & B3) & B4).
  pose proof (Forall_inv A) as (p & P1 & P2). pose proof (Forall_inv_tail A) as A'.
  cbn [map offsets_in_range]. rewrite (IH rs A' B4), andb_true_r.
  unfold buffered, undelivered in *. fold (unread st) in *. fold (stream st) in *.
  unfold value_end, next_start. rewrite <- B1.
  pose proof (skip_ws_len (stream st)) as SL. pose proof (len_nonneg w) as LW.
  assert (LD : len data = len p + len (stream st)) by (rewrite P1 at 1; apply len_app).
  assert (LR : len r = len w + len (stream st)) by (rewrite B2 at 1; apply len_app).
  clear - SL LW LD LR P2. lia.
Qed.

Lemma offset_range : offset_range_statement.
Proof.
  intros s term W L C. cbv zeta.
  destruct (all_states_spec s term W L C) as [A B].
  pose proof (all_states_offsets s term) as O.
  pose proof (offsets_from_states _ _ _ A B) as R. rewrite O in R.
  pose proof (proj2 (decode_all_states (length (script_data s) + 2) (length (script_data s) + length s + 40)
                      (2 * length (script_data s) + 8) (d_init s term) [] [] [] eq_refl eq_refl)) as LL.
  fold (all_values s term) in LL.
  destruct (all_values s term) as [[vals fin] offs]. cbn [fst snd] in *. split; assumption.
Qed.

(* ================= E. Parse ================= *)
Lemma ipf_skip fuel b : json_internalParseFlags fuel b = json_internalParseFlags fuel (skip_ws b).
Proof. unfold json_internalParseFlags. cbv zeta. rewrite !skipSpaces_spec, skip_ws_idem. reflexivity. Qed.

Lemma has_or a b f : json_ParseFlags_has (or32 a b) f = json_ParseFlags_has a f || json_ParseFlags_has b f.
Proof.
  unfold json_ParseFlags_has, or32, and32. rewrite Z.land_lor_distr_l.
  destruct (Z.eqb_spec (Z.land a f) 0) as [A|A], (Z.eqb_spec (Z.land b f) 0) as [B|B]; cbn [negb orb];
    destruct (Z.eqb_spec (Z.lor (Z.land a f) (Z.land b f)) 0) as [X|X]; try reflexivity; exfalso.
  - apply X. rewrite A, B. reflexivity.
  - apply Z.lor_eq_0_iff in X. tauto.
  - apply Z.lor_eq_0_iff in X. tauto.
  - apply Z.lor_eq_0_iff in X. tauto.
Qed.
Lemma flags_sound_user flags d b : user_flags flags -> flags_sound d b -> flags_sound (or32 flags d) b.
Proof.
  intros [U1 U2] [F1 F2]. split; intros H; rewrite has_or in H.
  - rewrite U1 in H. apply F1. exact H.
  - rewrite U2 in H. apply F2. exact H.
Qed.

(* what the framing of Parse computes, in one place *)
Lemma parse_frame_spec b flags pfuel : wfb b = true -> len b < 2 ^ 62 -> (2 * length b + 8 <= pfuel)%nat -> user_flags flags ->
  forall gf, (length (skip_ws b) < gf)%nat ->
  exists v r e, parse_frame pfuel flags b = Some (skip_ws r, e) /\
    (e = None -> g_value gf (skip_ws b) = Some r /\ skip_ws b = v ++ r /\ v <> []) /\
    (e <> None -> g_value gf (skip_ws b) = None).
Proof.
  intros W L PF U gf GF. unfold parse_frame. rewrite ipf_skip, !skipSpaces_spec.
  pose proof (skip_ws_length b) as SL.
  destruct (skip_ws_suffix b) as (pre & Epre & _).
  assert (W1 : wfb (skip_ws b) = true) by (rewrite Epre in W; apply wfb_app_iff in W; tauto).
  assert (L1 : len (skip_ws b) < 2 ^ 62) by (unfold len in *; lia).
  destruct (ipf_spec pfuel (skip_ws b) W1 L1 ltac:(lia) (skip_ws_idem b)) as (d & E & FS).
  rewrite E. cbv zeta.
  pose proof (flags_sound_user flags d _ U FS) as FS'.
  destruct (pv_all (or32 flags d) pfuel (skip_ws b) gf W1 L1 FS' ltac:(lia) GF) as (v & r & k & e & Ev & Hok & Herr).
  rewrite Ev, skipSpaces_spec. exists v, r, e. split; [reflexivity|]. split; [|exact Herr].
  intros He. destruct (Hok He) as (G & j & J1 & J2 & J3). split; [assumption|].
  split; [subst v r; symmetry; apply st_sf|].
  intros X. pose proof (len_slice_to (skip_ws b) j ltac:(lia)) as LV. rewrite <- J2, X in LV. cbn in LV. lia.
Qed.

Lemma parse_remainder : parse_remainder_statement.
Proof.
  intros b flags pfuel W L PF U.
  destruct (parse_frame_spec b flags pfuel W L PF U (S (length (skip_ws b))) ltac:(lia)) as (v & r & e & E & Hok & Herr).
  destruct e as [e|].
  - rewrite (Herr ltac:(discriminate)). exists (skip_ws r), e. exact E.
  - destruct (Hok eq_refl) as (G & SV & VN). rewrite G. split; [exact E|].
    destruct (skip_ws_suffix b) as (ws & E1 & W1). destruct (skip_ws_suffix r) as (ws' & E2 & W2).
    exists ws, v, ws'. split; [|auto].
    rewrite E1 at 1. rewrite SV. rewrite E2 at 1. reflexivity.
Qed.

Lemma parse_unmarshal : parse_unmarshal_statement.
Proof.
  intros b flags pfuel W L PF U. pose proof (skip_ws_length b) as SL.
  destruct (parse_frame_spec b flags pfuel W L PF U (S (length b)) ltac:(lia)) as (v & r & e & E & Hok & Herr).
  unfold g_valid. rewrite E. destruct e as [e|].
  - rewrite (Herr ltac:(discriminate)). split; intros H; discriminate H.
  - destruct (Hok eq_refl) as (G & _). rewrite G. destruct (skip_ws r) as [|c t].
    + split; reflexivity.
    + split; intros H; discriminate H.
Qed.
