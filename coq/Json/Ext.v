(* Standard-library and helper functions called by the translated json parsing code. *)
From Verif Require Import Base.GoInt Base.Lanes.
Open Scope Z_scope.

(* error classes: the properties never look further than this *)
Inductive json_err : Set := JErrSyntax | JErrUnexpectedEOF | JErrType | JErrOverflow | JErrOther.

(* bytes.IndexByte *)
Fixpoint index_byte_from (i : Z) (b : bytes) (c : Z) : Z :=
  match b with
  | [] => -1
  | x :: r => if x =? c then i else index_byte_from (i + 1) r c
  end.
Definition index_byte (b : bytes) (c : Z) : Z := index_byte_from 0 b c.

(* math/bits.TrailingZeros64 *)
Definition ctz64 (x : Z) : Z := ctz 64 x.

(* json/string.go stringToUint64: the string reinterpreted as len/8 little-endian words *)
Fixpoint chunks64_fuel (fuel : nat) (s : bytes) : list Z :=
  match fuel with
  | O => []
  | S f => if 8 <=? len s then le64 s :: chunks64_fuel f (skipn 8 s) else []
  end.
Definition chunks64 (s : bytes) : list Z := chunks64_fuel (length s) s.
