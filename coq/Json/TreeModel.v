(* C01/C02 structural part: an executable model of json.Marshal / json.Unmarshal over a typed value tree.

   Type universe [jty]: bool, the eight sized integer types, string, pointer, slice, fixed-size array,
   map with string keys, struct with tagged fields (name, omitempty). Values [jval] are the Go values of those
   types (nil pointer / nil slice / nil map are [VNil]; a map is its key-sorted association list).

   [jenc] is what json.Marshal writes (compact, HTML escaping on, map keys sorted, omitempty), given as a list of
   tokens [jtoks] so that white space can be inserted between tokens ([jenc_ws]).
   [jdec] is json.Unmarshal into a fresh zero value, following json/decode.go function by function
   (decodeBool, decodeInt*, decodeString, decodePointer, decodeSlice, decodeArray, decodeMap, decodeStruct,
   json.go Parse/Unmarshal): the decoder threads the CURRENT value of the target, as the Go code does
   (null leaves a bool / integer / string / struct / array alone, a duplicate key decodes into the field again).

   Strings use the specification functions of Json/StrSpec.v ([std_escape], [uq_lit]) which are proved equal to the
   machine-translated encodeString / parseStringUnquote for every input (Properties/C01.v, C02.v);
   integers are written with [z_to_dec] of Json/NumSpec.v (proved equal to formatInteger) and read by a plain
   digit reader. Skipped values (unknown keys, surplus array elements) are recognised by the grammar of
   Json/Grammar.v (proved equal to the translated parser in C05).

   Outcomes of the decoder: [DOk], [DErr] (Unmarshal returns an error), [DOut] (the model says nothing:
   a key that is not the exact name of a field and holds U+212A or U+017F (Unicode case folding is not modelled;
   ASCII case-insensitive matching is), a duplicate key whose field type contains a slice outside map values and already
   holds a non-zero value, fuel exhausted).
   Not modelled: the nesting depth limit of encoding/json (10000) for skipped values.

   Tied to /repo and to encoding/json by the cases j.tree.enc / j.tree.dec of harness/c01tree.go.
   No proofs in this file. *)
From Verif Require Import Base.GoInt Json.Grammar Json.FlagsModel Json.StrSpec Json.NumSpec.
Open Scope Z_scope.

(* ------------------------------------------------ types and values ------------------------------------------------ *)
Inductive jty : Type :=
| JBool
| JInt (signed : bool) (bits : Z)
| JStr
| JPtr (t : jty)
| JSlice (t : jty)
| JArr (n : nat) (t : jty)
| JMap (t : jty)
| JStruct (fs : jfields)
with jfields : Type :=
| FNil
| FCons (name : bytes) (omit : bool) (t : jty) (rest : jfields).

Inductive jval : Type :=
| VBool (b : bool)
| VInt (z : Z)
| VStr (s : bytes)
| VNil
| VPtr (v : jval)
| VList (l : list jval)
| VMap (m : list (bytes * jval))
| VStruct (l : list jval).

Fixpoint jnames (fs : jfields) : list bytes :=
  match fs with FNil => [] | FCons name _ _ r => name :: jnames r end.

(* the zero value of a type *)
Fixpoint jzero (t : jty) : jval :=
  match t with
  | JBool => VBool false
  | JInt _ _ => VInt 0
  | JStr => VStr []
  | JPtr _ | JSlice _ | JMap _ => VNil
  | JArr n t' => VList (repeat (jzero t') n)
  | JStruct fs => VStruct (jzeros fs)
  end
with jzeros (fs : jfields) : list jval :=
  match fs with FNil => [] | FCons _ _ t r => jzero t :: jzeros r end.

(* ------------------------------------------------ well-formedness ------------------------------------------------ *)
Definition is_alnum (c : Z) : bool :=
  ((48 <=? c) && (c <=? 57)) || ((65 <=? c) && (c <=? 90)) || ((97 <=? c) && (c <=? 122)).
Definition name_ok (n : bytes) : bool := negb (len n =? 0) && forallb is_alnum n.
Fixpoint distinct (ks : list bytes) : bool :=
  match ks with [] => true | k :: r => negb (existsb (bytes_eqb k) r) && distinct r end.
Definition bits_ok (w : Z) : bool := (w =? 8) || (w =? 16) || (w =? 32) || (w =? 64).

(* the types of the universe: integer widths 8/16/32/64, field names non-empty ASCII letters and digits and
   pairwise distinct; []uint8 is excluded (encoding/json writes it in base64) *)
Fixpoint ty_ok (t : jty) : bool :=
  match t with
  | JBool | JStr => true
  | JInt _ w => bits_ok w
  | JPtr t' | JArr _ t' | JMap t' => ty_ok t'
  | JSlice t' => ty_ok t' && negb (match t' with JInt false 8 => true | _ => false end)
  | JStruct fs => fields_ok fs && distinct (jnames fs)
  end
with fields_ok (fs : jfields) : bool :=
  match fs with FNil => true | FCons name _ t r => name_ok name && ty_ok t && fields_ok r end.

Definition int_in (signed : bool) (w : Z) (z : Z) : bool :=
  if signed then (- 2 ^ (w - 1) <=? z) && (z <=? 2 ^ (w - 1) - 1) else (0 <=? z) && (z <=? 2 ^ w - 1).

(* Go string comparison *)
Fixpoint bytes_ltb (a b : bytes) : bool :=
  match a, b with
  | _, [] => false
  | [], _ :: _ => true
  | x :: a', y :: b' => if x <? y then true else if x =? y then bytes_ltb a' b' else false
  end.
Fixpoint keys_sorted (ks : list bytes) : bool :=
  match ks with [] => true | k :: r => forallb (bytes_ltb k) r && keys_sorted r end.
(* a map key of the universe: bytes, well-formed UTF-8 (unchanged by string([]rune(k))) *)
Definition key_ok (k : bytes) : bool := wfb k && bytes_eqb (sanitize k) k.

(* the values of a type: integers in range, strings made of bytes, arrays of the declared length,
   maps as association lists strictly increasing in the key *)
Fixpoint jwf (t : jty) (v : jval) : bool :=
  match t, v with
  | JBool, VBool _ => true
  | JInt s w, VInt z => int_in s w z
  | JStr, VStr s => wfb s
  | JPtr _, VNil => true
  | JPtr t', VPtr v' => jwf t' v'
  | JSlice _, VNil => true
  | JSlice t', VList l => forallb (jwf t') l
  | JArr n t', VList l => Nat.eqb (length l) n && forallb (jwf t') l
  | JMap _, VNil => true
  | JMap t', VMap m =>
      forallb key_ok (map fst m) && keys_sorted (map fst m) && forallb (fun kv => jwf t' (snd kv)) m
  | JStruct fs, VStruct l => jwfs fs l
  | _, _ => false
  end
with jwfs (fs : jfields) (l : list jval) : bool :=
  match fs, l with
  | FNil, [] => true
  | FCons _ _ t r, v :: l' => jwf t v && jwfs r l'
  | _, _ => false
  end.

(* ------------------------------------------------ encoder ------------------------------------------------ *)
(* the omitempty test: false, 0, empty string, nil pointer, nil or empty slice and map, array of length 0 *)
Definition jempty (v : jval) : bool :=
  match v with
  | VBool b => negb b
  | VInt z => z =? 0
  | VStr [] => true
  | VNil => true
  | VList [] => true
  | VMap [] => true
  | _ => false
  end.

(* insertion into a key-sorted association list, replacing an equal key *)
Fixpoint map_put (k : bytes) (v : jval) (m : list (bytes * jval)) : list (bytes * jval) :=
  match m with
  | [] => [(k, v)]
  | (k', v') :: r =>
      if bytes_ltb k k' then (k, v) :: m
      else if bytes_eqb k k' then (k, v) :: r
      else (k', v') :: map_put k v r
  end.
Definition sort_kv (m : list (bytes * jval)) : list (bytes * jval) :=
  fold_right (fun kv acc => map_put (fst kv) (snd kv) acc) [] m.

(* members / elements separated by commas *)
Fixpoint sep_toks (ms : list (list bytes)) : list bytes :=
  match ms with
  | [] => []
  | [m] => m
  | m :: r => m ++ [[44]] ++ sep_toks r
  end.

Definition tok_null : bytes := [110; 117; 108; 108].
Definition tok_true : bytes := [116; 114; 117; 101].
Definition tok_false : bytes := [102; 97; 108; 115; 101].
Definition quote (n : bytes) : bytes := [34] ++ n ++ [34].

(* the tokens json.Marshal writes *)
Fixpoint jtoks (t : jty) (v : jval) : list bytes :=
  match t, v with
  | JBool, VBool b => [if b then tok_true else tok_false]
  | JInt _ _, VInt z => [z_to_dec z]
  | JStr, VStr s => [std_escape true s]
  | JPtr t', VPtr v' => jtoks t' v'
  | JSlice t', VList l => [[91]] ++ sep_toks (map (jtoks t') l) ++ [[93]]
  | JArr _ t', VList l => [[91]] ++ sep_toks (map (jtoks t') l) ++ [[93]]
  | JMap t', VMap m =>
      [[123]] ++ sep_toks (map (fun kv => [std_escape true (fst kv); [58]] ++ jtoks t' (snd kv)) (sort_kv m)) ++ [[125]]
  | JStruct fs, VStruct l => [[123]] ++ sep_toks (jmembers fs l) ++ [[125]]
  | _, _ => [tok_null]
  end
with jmembers (fs : jfields) (l : list jval) : list (list bytes) :=
  match fs, l with
  | FCons name omit t r, v :: l' =>
      (if omit && jempty v then [] else [[quote name; [58]] ++ jtoks t v]) ++ jmembers r l'
  | _, _ => []
  end.

Definition jenc (t : jty) (v : jval) : bytes := concat (jtoks t v).

(* the same tokens with the white space ws k written before token k and ws n after the last token *)
Fixpoint render (ws : nat -> bytes) (k : nat) (toks : list bytes) : bytes :=
  match toks with
  | [] => ws k
  | tok :: r => ws k ++ tok ++ render ws (S k) r
  end.
Definition jenc_ws (ws : nat -> bytes) (t : jty) (v : jval) : bytes := render ws 0%nat (jtoks t v).

(* ------------------------------------------------ decoder ------------------------------------------------ *)
Inductive dres (A : Type) : Type := DOk (a : A) | DErr | DOut.
Arguments DOk {A} _.
Arguments DErr {A}.
Arguments DOut {A}.
Definition dbind {A B} (x : dres A) (f : A -> dres B) : dres B :=
  match x with DOk a => f a | DErr => DErr | DOut => DOut end.

(* the input starts with byte c: what follows it *)
Definition starts_with (c : Z) (b : bytes) : option bytes :=
  match b with x :: r => if x =? c then Some r else None | [] => None end.

Definition nullp (b : bytes) : option bytes :=
  match b with 110 :: 117 :: 108 :: 108 :: r => Some r | _ => None end.

(* decodeBool *)
Definition dec_bool (b : bytes) : dres (jval * bytes) :=
  match b with
  | 116 :: 114 :: 117 :: 101 :: r => DOk (VBool true, r)
  | 102 :: 97 :: 108 :: 115 :: 101 :: r => DOk (VBool false, r)
  | _ => DErr
  end.

(* decodeInt8 .. decodeUint64 (parseInt / parseUint and the range test): an optional minus sign (an error for the
   unsigned types), digits without a superfluous leading zero, not followed by a fraction or an exponent *)
Definition dec_int (signed : bool) (w : Z) (b : bytes) : dres (jval * bytes) :=
  let '(neg, body) := match starts_with 45 b with Some r => (true, r) | None => (false, b) end in
  let ds := take_digits body in
  let rest := skip_digits body in
  let v := if neg then - digits_value ds else digits_value ds in
  if neg && negb signed then DErr
  else if negb (no_leading_zero_b ds) then DErr
  else if match rest with c :: _ => (c =? 46) || (c =? 101) || (c =? 69) | [] => false end then DErr
  else if int_in signed w v then DOk (VInt v, rest) else DErr.

(* decodeString *)
Definition dec_str (b : bytes) : dres (jval * bytes) :=
  match uq_lit b with Some (s, r) => DOk (VStr s, r) | None => DErr end.

(* decodeSlice: the loop after the opening bracket *)
Fixpoint dec_slice_loop (dec1 : bytes -> dres (jval * bytes)) (fuel : nat) (first : bool) (b : bytes)
  : dres (list jval * bytes) :=
  match fuel with
  | O => DOut
  | S f =>
    let b0 := skip_ws b in
    match starts_with 93 b0 with
    | Some r => DOk ([], r)
    | None =>
      dbind (if first then DOk b0 else match starts_with 44 b0 with Some r => DOk (skip_ws r) | None => DErr end) (fun b1 =>
      dbind (dec1 b1) (fun vr =>
      dbind (dec_slice_loop dec1 f false (snd vr)) (fun lr => DOk (fst vr :: fst lr, snd lr))))
    end
  end.

(* decodeArray, second loop: the elements beyond the length of the array are skipped *)
Fixpoint dec_surplus (gf fuel : nat) (first : bool) (b : bytes) : dres bytes :=
  match fuel with
  | O => DOut
  | S f =>
    match skip_ws b with
    | [] => DErr
    | 93 :: r => DOk r
    | c :: r =>
      dbind (if first then DOk (c :: r) else if c =? 44 then DOk (skip_ws r) else DErr) (fun b1 =>
      match g_value gf b1 with
      | None => DErr
      | Some r' => dec_surplus gf f false r'
      end)
    end
  end.

(* decodeArray, first loop: one iteration per element of the array; [curs] are the current elements;
   the elements missing in the input are set to zero *)
Fixpoint dec_arr_loop (dec1 : jval -> bytes -> dres (jval * bytes)) (zero : jval) (gf : nat)
    (first : bool) (curs : list jval) (b : bytes) : dres (list jval * bytes) :=
  match curs with
  | [] => dbind (dec_surplus gf gf first b) (fun r => DOk ([], r))
  | c :: curs' =>
    let step (b1 : bytes) :=
      dbind (dec1 c b1) (fun vr =>
      dbind (dec_arr_loop dec1 zero gf false curs' (snd vr)) (fun lr => DOk (fst vr :: fst lr, snd lr))) in
    let zeros := map (fun _ => zero) curs in
    let b0 := skip_ws b in
    match starts_with 93 b0 with
    | Some r => DOk (zeros, r)
    | None =>
      if first then step b0
      else match starts_with 44 b0 with
           | Some r => step (skip_ws r)
           | None => DErr
           end
    end
  end.

(* decodeMap: the loop after the opening brace; [m] is the map so far *)
Fixpoint dec_map_loop (dec1 : bytes -> dres (jval * bytes)) (fuel : nat) (first : bool)
    (m : list (bytes * jval)) (b : bytes) : dres (list (bytes * jval) * bytes) :=
  match fuel with
  | O => DOut
  | S f =>
    let b0 := skip_ws b in
    match starts_with 125 b0 with
    | Some r => DOk (m, r)
    | None =>
      dbind (if first then DOk b0 else match starts_with 44 b0 with Some r => DOk (skip_ws r) | None => DErr end) (fun b1 =>
      match uq_lit b1 with
      | None => DErr
      | Some (k, r1) =>
        match starts_with 58 (skip_ws r1) with
        | Some r2 =>
          dbind (dec1 (skip_ws r2)) (fun vr => dec_map_loop dec1 f false (map_put k (fst vr) m) (snd vr))
        | None => DErr
        end
      end)
    end
  end.

(* the field a key selects (decodeStruct: keyset / fieldsIndex, then appendToLower + ficaseIndex): the field of
   exactly that name, otherwise the FIRST field whose name equals the key up to the case of ASCII letters;
   a key holding a non-ASCII byte that is not an exact name selects no field (the names are ASCII) unless it holds
   one of the two non-ASCII runes that fold onto an ASCII letter: then it is outside the model (Unicode case folding).
   [resolve_key] returns the name of the selected field, or the key itself when it selects none. *)
Definition lower (c : Z) : Z := if (65 <=? c) && (c <=? 90) then c + 32 else c.
Definition fold_hit (names : list bytes) (k : bytes) : bool :=
  existsb (fun c => 128 <=? c) k || existsb (fun n => bytes_eqb (map lower n) (map lower k)) names.
(* the two non-ASCII runes whose simple case folding is an ASCII letter: U+212A KELVIN SIGN (e2 84 aa) and
   U+017F LATIN SMALL LETTER LONG S (c5 bf) *)
Fixpoint has_fold_rune (k : bytes) : bool :=
  match k with
  | 226 :: 132 :: 170 :: _ => true
  | 197 :: 191 :: _ => true
  | _ :: r => has_fold_rune r
  | [] => false
  end.
Definition resolve_key (names : list bytes) (k : bytes) : option bytes :=
  if existsb (bytes_eqb k) names then Some k
  else if existsb (fun c => 128 <=? c) k then (if has_fold_rune k then None else Some k)
  else Some (match find (fun n => bytes_eqb (map lower n) (map lower k)) names with Some n => n | None => k end).

(* decodeStruct: the loop after the opening brace; [decf k curs b] decodes the value at b into the field named k
   (None when there is no such field); [curs] are the current field values *)
Fixpoint dec_struct_loop (decf : bytes -> list jval -> bytes -> dres (option (list jval * bytes)))
    (names : list bytes) (gf fuel : nat) (first : bool) (curs : list jval) (b : bytes)
  : dres (list jval * bytes) :=
  match fuel with
  | O => DOut
  | S f =>
    let b0 := skip_ws b in
    match starts_with 125 b0 with
    | Some r => DOk (curs, r)
    | None =>
      dbind (if first then DOk b0 else match starts_with 44 b0 with Some r => DOk (skip_ws r) | None => DErr end) (fun b1 =>
      match uq_lit b1 with
      | None => DErr
      | Some (k, r1) =>
        match starts_with 58 (skip_ws r1) with
        | Some r2 =>
          let b2 := skip_ws r2 in
          match resolve_key names k with
          | None => DOut
          | Some k' =>
            dbind (decf k' curs b2) (fun o =>
            match o with
            | Some (curs', r3) => dec_struct_loop decf names gf f false curs' r3
            | None =>
              match g_value gf b2 with
              | None => DErr
              | Some r3 => dec_struct_loop decf names gf f false curs r3
              end
            end)
          end
        | None => DErr
        end
      end)
    end
  end.

(* types for which decoding into a target that already holds a value (a duplicate key) is modelled: everything
   reached without passing through a slice. Pointers, arrays and structs are decoded in place, maps are merged and
   their values decoded into fresh zero values; a slice is decoded over its old backing array, whose elements beyond
   the current length the value tree does not keep, so a second decode into a non-empty slice is outside the model *)
Fixpoint jmergeable (t : jty) : bool :=
  match t with
  | JBool | JInt _ _ | JStr => true
  | JPtr t' => jmergeable t'
  | JArr _ t' => jmergeable t'
  | JMap _ => true
  | JStruct fs => jmergeables fs
  | JSlice _ => false
  end
with jmergeables (fs : jfields) : bool :=
  match fs with FNil => true | FCons _ _ t r => jmergeable t && jmergeables r end.
Fixpoint jis_zero (t : jty) (v : jval) : bool :=
  match t, v with
  | JBool, VBool b => negb b
  | JInt _ _, VInt z => z =? 0
  | JStr, VStr [] => true
  | JPtr _, VNil | JSlice _, VNil | JMap _, VNil => true
  | JArr _ t', VList l => forallb (jis_zero t') l
  | JStruct fs, VStruct l => jare_zero fs l
  | _, _ => false
  end
with jare_zero (fs : jfields) (l : list jval) : bool :=
  match fs, l with
  | FNil, [] => true
  | FCons _ _ t r, v :: l' => jis_zero t v && jare_zero r l'
  | _, _ => false
  end.

Definition wrap_ptr (x : dres (jval * bytes)) : dres (jval * bytes) :=
  dbind x (fun vr => DOk (VPtr (fst vr), snd vr)).

(* the decode function of a type: [cur] is the current value of the target, [b] starts at the value;
   returns the new value and the rest of the input. [fuel] bounds every loop and the skipper. *)
Fixpoint dec (t : jty) (fuel : nat) (cur : jval) (b : bytes) {struct t} : dres (jval * bytes) :=
  match t with
  | JBool => match nullp b with Some r => DOk (cur, r) | None => dec_bool b end
  | JInt s w => match nullp b with Some r => DOk (cur, r) | None => dec_int s w b end
  | JStr => match nullp b with Some r => DOk (cur, r) | None => dec_str b end
  | JPtr t' =>
    match nullp b with
    | Some r =>
      (* decodePointer: null into a non-nil pointer to a pointer is handed to the inner pointer *)
      match cur, t' with
      | VPtr c, JPtr _ => wrap_ptr (dec t' fuel c b)
      | _, _ => DOk (VNil, r)
      end
    | None => wrap_ptr (dec t' fuel (match cur with VPtr c => c | _ => jzero t' end) b)
    end
  | JSlice t' =>
    match nullp b with
    | Some r => DOk (VNil, r)
    | None =>
      match starts_with 91 b with
      | Some r => dbind (dec_slice_loop (dec t' fuel (jzero t')) fuel true r) (fun lr => DOk (VList (fst lr), snd lr))
      | None => DErr
      end
    end
  | JArr n t' =>
    match nullp b with
    | Some r => DOk (cur, r)
    | None =>
      match starts_with 91 b with
      | Some r =>
        let curs := match cur with VList l => l | _ => repeat (jzero t') n end in
        dbind (dec_arr_loop (dec t' fuel) (jzero t') fuel true curs r) (fun lr => DOk (VList (fst lr), snd lr))
      | None => DErr
      end
    end
  | JMap t' =>
    match nullp b with
    | Some r => DOk (VNil, r)
    | None =>
      match starts_with 123 b with
      | Some r =>
        let m := match cur with VMap m => m | _ => [] end in
        dbind (dec_map_loop (dec t' fuel (jzero t')) fuel true m r) (fun mr => DOk (VMap (fst mr), snd mr))
      | None => DErr
      end
    end
  | JStruct fs =>
    match nullp b with
    | Some r => DOk (cur, r)
    | None =>
      match starts_with 123 b with
      | Some r =>
        let curs := match cur with VStruct l => l | _ => jzeros fs end in
        dbind (dec_struct_loop (dec_field fs fuel) (jnames fs) fuel fuel true curs r)
              (fun lr => DOk (VStruct (fst lr), snd lr))
      | None => DErr
      end
    end
  end
with dec_field (fs : jfields) (fuel : nat) (k : bytes) (curs : list jval) (b : bytes) {struct fs}
  : dres (option (list jval * bytes)) :=
  match fs, curs with
  | FCons name _ t r, c :: curs' =>
    if bytes_eqb k name then
      if negb (jmergeable t) && negb (jis_zero t c) then DOut
      else dbind (dec t fuel c b) (fun vr => DOk (Some (fst vr :: curs', snd vr)))
    else
      dbind (dec_field r fuel k curs' b) (fun o =>
      match o with
      | Some (l, rest) => DOk (Some (c :: l, rest))
      | None => DOk None
      end)
  | _, _ => DOk None
  end.

(* json.Unmarshal(b, &x), x a fresh zero value of type t (json.go Parse: white space, the value, white space,
   nothing else) *)
Definition jdec (fuel : nat) (t : jty) (b : bytes) : dres jval :=
  match dec t fuel (jzero t) (skip_ws b) with
  | DOk (v, r) => match skip_ws r with [] => DOk v | _ => DErr end
  | DErr => DErr
  | DOut => DOut
  end.
Definition jdec_fuel (b : bytes) : nat := S (length b).

(* ------------------------------------------------ the normalisation of the round trip ------------------------------------------------ *)
(* what Unmarshal (Marshal v) gives back: strings with every ill-formed UTF-8 byte replaced by U+FFFD,
   omitted fields at their zero value (an EMPTY non-nil slice or map under omitempty comes back nil),
   a non-nil pointer to a nil pointer / slice / map (written as null) comes back as a nil pointer *)
(* values written as null: nil, and a pointer to such a value *)
Fixpoint jnullish (t : jty) (v : jval) : bool :=
  match t, v with
  | _, VNil => true
  | JPtr t', VPtr v' => jnullish t' v'
  | _, _ => false
  end.
Fixpoint jnorm (t : jty) (v : jval) : jval :=
  match t, v with
  | JStr, VStr s => VStr (sanitize s)
  | JPtr t', VPtr v' => if jnullish t' v' then VNil else VPtr (jnorm t' v')
  | JSlice t', VList l => VList (map (jnorm t') l)
  | JArr _ t', VList l => VList (map (jnorm t') l)
  | JMap t', VMap m => VMap (map (fun kv => (fst kv, jnorm t' (snd kv))) m)
  | JStruct fs, VStruct l => VStruct (jnorms fs l)
  | _, _ => v
  end
with jnorms (fs : jfields) (l : list jval) : list jval :=
  match fs, l with
  | FCons _ omit t r, v :: l' => (if omit && jempty v then jzero t else jnorm t v) :: jnorms r l'
  | _, _ => l
  end.
