(* Refined model of json.Tokenizer (json/token.go) for the Reset / pooled-stack-reuse half of C17.
   Json/StreamModel.v represents the scope stack as the list of its LIVE frames, so whatever an earlier use left in
   the backing array cannot be expressed there. Here the stack is the Go slice itself: the whole backing array (all
   cap slots, including the stale ones beyond the current length) plus the current length; the tokenizer holds a
   nilable pointer to it; the global sync.Pool stackPool is part of the state. Every definition names the lines of
   /repo/json/token.go it transcribes. Definitions only.

   What is NOT refined (same choices as Json/StreamModel.v, so that the two models can be compared field by field):
     - t.Err is a boolean (set / nil), the message is not modelled;
     - the decoder flags word is kept as two fields: c_flags (the parse flags computed by internalParseFlags) and
       c_kind (the byte stored by withKind, json/json.go:92); the scanners read only the parse-flag bits;
     - the per-level counter state.len is an unbounded Z (it cannot reach 2^63 for an input shorter than 2^62 bytes).
   Memory ownership: a stack taken from the pool is owned by one tokenizer until Reset puts it back, and Reset clears the
   pointer in the same call (lines 84-86 and 100), so no frame is shared between two tokenizers; the functional model
   relies on this. *)
From Verif Require Import Base.GoInt Generated.AsmAsciiGen Ascii.AsmTotal Generated.AsciiGen Json.Ext Generated.JsonParseGen Json.StreamModel.
Open Scope Z_scope.

(* ================= type state / type stack (token.go 365-379) ================= *)
(* state{typ scope; len int}: inArray = 0, inObject = 1 (iota, lines 367-370) *)
Definition frame := (Z * Z)%type.
Definition zero_frame : frame := (0, 0).                  (* the zero value of state: what make / growslice leave in a new slot *)
(* stack{state []state}: cs_arr = the backing array, ALL cap(s.state) slots; cs_len = len(s.state).
   Slots at index >= cs_len are not visible through the slice but keep whatever was written there before. *)
Record cstack := { cs_arr : list frame; cs_len : nat }.
Definition cs_cap (s : cstack) : nat := length (cs_arr s).

(* a[i] = x on the backing array *)
Fixpoint set_nth {A} (l : list A) (n : nat) (x : A) : list A :=
  match l, n with
  | [], _ => []
  | _ :: r, O => x :: r
  | y :: r, S n' => y :: set_nth r n' x
  end.

(* What the Go runtime decides and the program does not: which object sync.Pool.Get hands out, and how much spare capacity
   append allocates when it has to grow. Theorems quantify over EVERY such runtime.
     rt_get step pool = (what Get returns -- None is a nil interface, the pool was empty or was cleared by the GC --,
                         the pool afterwards). [step] identifies the call, so that the answer may differ from call to
                         call; the function is arbitrary: it may return a stack that is not in [pool] at all and an
                         unrelated new pool, which also covers other goroutines putting and getting stacks meanwhile.
     rt_grow cap = number of additional zeroed slots after the appended element when append reallocates a full array. *)
Record runtime := { rt_get : nat -> list cstack -> option cstack * list cstack; rt_grow : nat -> nat }.

(* (s *stack).push, lines 381-383:  s.state = append(s.state, state{typ: typ, len: 1})
   append with len < cap writes slot [len] of the SAME array and extends the length: the stale frame there is overwritten;
   append with len == cap copies the len live frames to a new, zeroed, larger array and writes slot [len]. *)
Definition cs_push (rt : runtime) (s : cstack) (typ : Z) : cstack :=
  let fr : frame := (typ, 1) in
  if (cs_len s <? cs_cap s)%nat
  then {| cs_arr := set_nth (cs_arr s) (cs_len s) fr; cs_len := S (cs_len s) |}
  else {| cs_arr := firstn (cs_len s) (cs_arr s) ++ [fr] ++ repeat zero_frame (rt_grow rt (cs_cap s)); cs_len := S (cs_len s) |}.

(* (s *stack).pop, lines 385-398: i := len-1; i < 0 -> false; s.state[i].typ != expect -> false; s.state = s.state[:i]
   (the popped frame STAYS in the array, beyond the new length) *)
Definition cs_pop (s : cstack) (expect : Z) : bool * cstack :=
  match cs_len s with
  | O => (false, s)
  | S i =>
      let found := nth i (cs_arr s) zero_frame in
      if negb (expect =? fst found) then (false, s)
      else (true, {| cs_arr := cs_arr s; cs_len := i |})
  end.

(* (s *stack).is, lines 400-402 *)
Definition cs_is (s : cstack) (typ : Z) : bool :=
  match cs_len s with
  | O => false
  | S i => fst (nth i (cs_arr s) zero_frame) =? typ
  end.
(* (s *stack).depth, lines 404-406 *)
Definition cs_depth (s : cstack) : Z := Z.of_nat (cs_len s).
(* (s *stack).index, lines 408-413 *)
Definition cs_index (s : cstack) : Z :=
  match cs_len s with
  | O => 0
  | S i => snd (nth i (cs_arr s) zero_frame) - 1
  end.
(* t.stack.state[len(t.stack.state)-1].len++, line 203 (only reached with len != 0) *)
Definition cs_incr (s : cstack) : cstack :=
  match cs_len s with
  | O => s
  | S i => let fr := nth i (cs_arr s) zero_frame in
           {| cs_arr := set_nth (cs_arr s) i (fst fr, snd fr + 1); cs_len := cs_len s |}
  end.

(* acquireStack, lines 415-423: Get; nil -> &stack{state: make([]state, 0, 4)}; otherwise s.state = s.state[:0]
   -- the length is cut to 0 HERE (not at release), the array and its contents are kept *)
Definition acquire_stack (rt : runtime) (step : nat) (pool : list cstack) : cstack * list cstack :=
  match rt_get rt step pool with
  | (None, pool') => ({| cs_arr := repeat zero_frame 4; cs_len := 0 |}, pool')
  | (Some s, pool') => ({| cs_arr := cs_arr s; cs_len := 0 |}, pool')
  end.
(* releaseStack, lines 425-427: stackPool.Put(s) -- the stack goes back AS IT IS: contents and length untouched *)
Definition release_stack (s : cstack) (pool : list cstack) : list cstack := s :: pool.

(* ================= type Tokenizer (lines 34-72) plus the package-level stackPool (line 429) ================= *)
Record cstate := {
  c_delim : Z;                    (* Delim *)
  c_value : bytes;                (* Value *)
  c_err : bool;                   (* Err != nil *)
  c_depth : Z;                    (* Depth *)
  c_index : Z;                    (* Index *)
  c_iskey : bool;                 (* IsKey *)
  c_iskey_next : bool;            (* isKey *)
  c_json : bytes;                 (* json *)
  c_stack : option cstack;        (* stack *stack: None = nil *)
  c_flags : Z;                    (* decoder.flags without the kind byte *)
  c_kind : Z;                     (* decoder.flags.kind() *)
  c_pool : list cstack            (* stackPool *)
}.

(* NewTokenizer, lines 75-80: &Tokenizer{json: b, decoder: decoder{flags: internalParseFlags(b)}}, all other fields zero.
   [None] only when the translated internalParseFlags runs out of fuel. *)
Definition new_c (pfuel : nat) (b : bytes) (pool : list cstack) : option cstate :=
  match json_internalParseFlags pfuel b with
  | None => None
  | Some d =>
      Some {| c_delim := 0; c_value := []; c_err := false; c_depth := 0; c_index := 0; c_iskey := false;
              c_iskey_next := false; c_json := b; c_stack := None; c_flags := d; c_kind := 0; c_pool := pool |}
  end.

(* (t *Tokenizer).Reset, lines 83-102, statement by statement *)
Definition reset_c (pfuel : nat) (b : bytes) (st : cstate) : option cstate :=
  let pool := match c_stack st with
              | Some s => release_stack s (c_pool st)          (* 84-86: if t.stack != nil { releaseStack(t.stack) } *)
              | None => c_pool st
              end in
  match json_internalParseFlags pfuel b with
  | None => None
  | Some d =>
      Some {| c_delim := 0;                  (* 92  t.Delim = 0 *)
              c_value := [];                 (* 93  t.Value = nil *)
              c_err := false;                (* 94  t.Err = nil *)
              c_depth := 0;                  (* 95  t.Depth = 0 *)
              c_index := 0;                  (* 96  t.Index = 0 *)
              c_iskey := false;              (* 97  t.IsKey = false *)
              c_iskey_next := false;         (* 98  t.isKey = false *)
              c_json := b;                   (* 99  t.json = b *)
              c_stack := None;               (* 100 t.stack = nil *)
              c_flags := d;                  (* 101 t.decoder = decoder{flags: internalParseFlags(b)} ... *)
              c_kind := 0;                   (*     ... whose kind byte is 0 *)
              c_pool := pool |}
  end.

(* (t *Tokenizer).depth / index, lines 210-222 *)
Definition tk_depth (s : option cstack) : Z := match s with None => 0 | Some s => cs_depth s end.
Definition tk_index (s : option cstack) : Z := match s with None => 0 | Some s => cs_index s end.
(* (t *Tokenizer).push, lines 224-229: a nil stack is acquired from the pool first *)
Definition tk_push (rt : runtime) (step : nat) (s : option cstack) (pool : list cstack) (typ : Z) : option cstack * list cstack :=
  let '(s0, pool') := match s with
                      | None => acquire_stack rt step pool
                      | Some s0 => (s0, pool)
                      end in
  (Some (cs_push rt s0 typ), pool').
(* (t *Tokenizer).pop, lines 231-236: (error?, stack afterwards) *)
Definition tk_pop (s : option cstack) (expect : Z) : bool * option cstack :=
  match s with
  | None => (true, None)
  | Some s0 => let '(ok, s1) := cs_pop s0 expect in (negb ok, Some s1)
  end.

(* ---- Next, first half (lines 137-165): one lexeme; everything but Delim, Value, json, Err is left alone ---- *)
Definition c_lex (st : cstate) (delim : Z) (v : bytes) (err : bool) (rest : bytes) : cstate :=
  {| c_delim := delim; c_value := v; c_err := err; c_depth := c_depth st; c_index := c_index st; c_iskey := c_iskey st;
     c_iskey_next := c_iskey_next st; c_json := rest; c_stack := c_stack st; c_flags := c_flags st; c_kind := c_kind st;
     c_pool := c_pool st |}.
Definition c_scalar (st : cstate) (r : option (bytes * bytes * Z * option json_err)) : option (cstate * Z) :=
  match r with
  | None => None
  | Some (v, rest, k, e) => Some (c_lex st 0 v (negb (isnil e)) rest, k)     (* t.Delim = 0; t.Value, t.json, kind, t.Err = ... *)
  end.
Definition c_scan (pfuel : nat) (st : cstate) (c : Z) (j : bytes) : option (cstate * Z) :=
  let d := c_flags st in
  if c =? 34 then c_scalar st (json_decoder_parseString pfuel d j)                         (* 139-141 *)
  else if c =? 110 then c_scalar st (Some (json_decoder_parseNull d j))                    (* 142-144 *)
  else if c =? 116 then c_scalar st (Some (json_decoder_parseTrue d j))                    (* 145-147 *)
  else if c =? 102 then c_scalar st (Some (json_decoder_parseFalse d j))                   (* 148-150 *)
  else if (c =? 45) || ((48 <=? c) && (c <=? 57)) then c_scalar st (json_decoder_parseNumber pfuel d j)   (* 151-153 *)
  else if (c =? 123) || (c =? 125) || (c =? 91) || (c =? 93) || (c =? 58) || (c =? 44) then             (* 154-161 *)
    Some (c_lex st c [c] (c_err st) (slice_from j 1), if c =? 123 then json_Object else if c =? 91 then json_Array else 0)
  else Some (c_lex st 0 [c] true (slice_from j 1), 0).                                     (* 162-164 *)

(* ---- Next, second half (lines 167-207): Depth/Index/kind, then the delimiter state machine on the stack ---- *)
Definition c_mach (rt : runtime) (step : nat) (s1 : cstate) (kind : Z) : bool * cstate :=
  let depth := tk_depth (c_stack s1) in                   (* 167 t.Depth = t.depth() *)
  let index := tk_index (c_stack s1) in                   (* 168 t.Index = t.index() *)
  (* 169 t.flags = t.flags.withKind(kind): c_kind := kind in every result below *)
  let upd (iskey iskn : bool) (stack : option cstack) (pool : list cstack) (err : bool) (depth index : Z) : cstate :=
    {| c_delim := c_delim s1; c_value := c_value s1; c_err := err; c_depth := depth; c_index := index; c_iskey := iskey;
       c_iskey_next := iskn; c_json := c_json s1; c_stack := stack; c_flags := c_flags s1; c_kind := kind; c_pool := pool |} in
  let ret (s : cstate) : bool * cstate :=                 (* 207 *)
    ((negb (c_delim s =? 0) || negb (len (c_value s) =? 0)) && negb (c_err s), s) in
  let dl := c_delim s1 in
  if dl =? 0 then                                         (* 171-172 t.IsKey = t.isKey *)
    ret (upd (c_iskey_next s1) (c_iskey_next s1) (c_stack s1) (c_pool s1) (c_err s1) depth index)
  else                                                    (* 174 t.IsKey = false *)
    if dl =? 123 then                                     (* 177-179 t.isKey = true; t.push(inObject) *)
      let '(stk, pool) := tk_push rt step (c_stack s1) (c_pool s1) 1 in
      ret (upd false true stk pool (c_err s1) depth index)
    else if dl =? 91 then                                 (* 180-181 t.push(inArray) *)
      let '(stk, pool) := tk_push rt step (c_stack s1) (c_pool s1) 0 in
      ret (upd false (c_iskey_next s1) stk pool (c_err s1) depth index)
    else if dl =? 125 then                                (* 182-188 t.Err = t.pop(inObject); t.Depth--; t.Index = t.index(); t.isKey = false *)
      let '(err, stk) := tk_pop (c_stack s1) 1 in
      ret (upd false false stk (c_pool s1) err (depth - 1) (tk_index stk))
    else if dl =? 93 then                                 (* 189-192 t.Err = t.pop(inArray); t.Depth--; t.Index = t.index() *)
      let '(err, stk) := tk_pop (c_stack s1) 0 in
      ret (upd false (c_iskey_next s1) stk (c_pool s1) err (depth - 1) (tk_index stk))
    else if dl =? 58 then                                 (* 193-194 t.isKey = false *)
      ret (upd false false (c_stack s1) (c_pool s1) (c_err s1) depth index)
    else                                                  (* 195-204 the comma *)
      match c_stack s1 with
      | None => (false, upd false (c_iskey_next s1) None (c_pool s1) true depth index)             (* 196-199 t.stack == nil *)
      | Some s =>
          if (cs_len s =? 0)%nat
          then (false, upd false (c_iskey_next s1) (Some s) (c_pool s1) true depth index)          (* 196-199 len == 0 *)
          else ret (upd false (if cs_is s 1 then true else c_iskey_next s1)                        (* 200-202 *)
                        (Some (cs_incr s)) (c_pool s1) (c_err s1) depth index)                     (* 203 *)
      end.

(* (t *Tokenizer).Next, lines 111-208 *)
Definition c_next (rt : runtime) (step : nat) (pfuel : nat) (st : cstate) : option (bool * cstate) :=
  if c_err st then Some (false, st) else                  (* 112-114 *)
  let j := json_skipSpaces (c_json st) in                 (* 116-130 the inlined skipSpaces; t.json = t.json[i:] *)
  match j with
  | [] =>                                                 (* 132-135 t.Reset(nil); return false *)
      match reset_c pfuel [] st with
      | None => None
      | Some st' => Some (false, st')
      end
  | c :: _ =>
      match c_scan pfuel st c j with
      | None => None
      | Some (s1, kind) => Some (c_mach rt step s1 kind)
      end
  end.

(* ================= a client: for t.Next() { observe } ================= *)
Definition tok_of_c (st : cstate) : token :=
  {| k_value := c_value st; k_delim := c_delim st; k_depth := c_depth st; k_index := c_index st;
     k_iskey := c_iskey st; k_kind := c_kind st; k_remaining := len (c_json st) |}.
Fixpoint c_run (rt : runtime) (fuel pfuel : nat) (st : cstate) (acc : list token) : option (list token * cstate) :=
  match fuel with
  | O => None
  | S f =>
      match c_next rt fuel pfuel st with
      | None => None
      | Some (false, st') => Some (rev acc, st')
      | Some (true, st') => c_run rt f pfuel st' (tok_of_c st' :: acc)
      end
  end.
(* t := NewTokenizer(b) with the pool in any condition, then iterate *)
Definition tokenize_new (rt : runtime) (pool : list cstack) (b : bytes) : option (list token * cstate) :=
  let pfuel := (2 * length b + 8)%nat in
  match new_c pfuel b pool with
  | None => None
  | Some st => c_run rt (S (length b)) pfuel st []
  end.
(* t.Reset(b) on a tokenizer in any condition, then iterate *)
Definition tokenize_reset (rt : runtime) (st : cstate) (b : bytes) : option (list token * cstate) :=
  let pfuel := (2 * length b + 8)%nat in
  match reset_c pfuel b st with
  | None => None
  | Some st' => c_run rt (S (length b)) pfuel st' []
  end.

(* a history of uses of ONE tokenizer value: each entry = Reset(b) followed by n calls of Next whose results are ignored
   (the caller may stop in the middle of a document, after an error, or go on calling Next after the end) *)
Fixpoint c_steps (rt : runtime) (n : nat) (pfuel : nat) (st : cstate) : option cstate :=
  match n with
  | O => Some st
  | S k => match c_next rt n pfuel st with
           | None => None
           | Some (_, st') => c_steps rt k pfuel st'
           end
  end.
Fixpoint c_history (rt : runtime) (h : list (bytes * nat)) (st : cstate) : option cstate :=
  match h with
  | [] => Some st
  | (b, n) :: r =>
      let pfuel := (2 * length b + 8)%nat in
      match reset_c pfuel b st with
      | None => None
      | Some st1 => match c_steps rt n pfuel st1 with
                    | None => None
                    | Some st2 => c_history rt r st2
                    end
      end
  end.
