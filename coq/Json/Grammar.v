(* RFC 8259 JSON as a plainly written recogniser. This is the single syntax oracle of the json
   properties (C05, C11, C17, ...). It shares nothing with the repository's parser:
   no word tricks, no flags, no look-ahead beyond one byte. Definitions only. *)
From Verif Require Import Base.GoInt.
Open Scope Z_scope.

Definition is_ws (c : Z) : bool := (c =? 32) || (c =? 9) || (c =? 10) || (c =? 13).
Fixpoint skip_ws (b : bytes) : bytes :=
  match b with
  | c :: r => if is_ws c then skip_ws r else b
  | [] => []
  end.
Definition is_digit (c : Z) : bool := (48 <=? c) && (c <=? 57).
Definition is_hex (c : Z) : bool :=
  is_digit c || ((65 <=? c) && (c <=? 70)) || ((97 <=? c) && (c <=? 102)).
Definition is_escape_letter (c : Z) : bool :=          (* quote, backslash, slash, b f n r t *)
  (c =? 34) || (c =? 92) || (c =? 47) || (c =? 98) || (c =? 102) || (c =? 110) || (c =? 114) || (c =? 116).

(* string = quotation-mark *char quotation-mark; [g_string] is applied after the opening quote and
   returns what follows the closing quote. Any byte >= 0x20 other than the quote and the backslash is a character
   (like encoding/json.Valid, no UTF-8 validation). *)
Fixpoint g_string (b : bytes) : option bytes :=
  match b with
  | [] => None
  | 34 :: r => Some r
  | 92 :: e :: r =>
      if is_escape_letter e then g_string r
      else if e =? 117 then                              (* \uXXXX *)
        match r with
        | h1 :: h2 :: h3 :: h4 :: r' => if is_hex h1 && is_hex h2 && is_hex h3 && is_hex h4 then g_string r' else None
        | _ => None
        end
      else None
  | 92 :: [] => None
  | c :: r => if c <? 32 then None else g_string r
  end.

(* number = [ minus ] int [ frac ] [ exp ] *)
Fixpoint skip_digits (b : bytes) : bytes :=
  match b with
  | c :: r => if is_digit c then skip_digits r else b
  | [] => []
  end.
Definition g_frac (b : bytes) : option bytes :=
  match b with
  | 46 :: d :: r => if is_digit d then Some (skip_digits r) else None
  | 46 :: [] => None
  | _ => Some b
  end.
Definition g_exp (b : bytes) : option bytes :=
  match b with
  | e :: r =>
      if (e =? 101) || (e =? 69) then
        let r := match r with s :: r' => if (s =? 43) || (s =? 45) then r' else r | [] => r end in
        match r with
        | d :: r' => if is_digit d then Some (skip_digits r') else None
        | [] => None
        end
      else Some b
  | [] => Some b
  end.
Definition g_number (b : bytes) : option bytes :=
  let b := match b with 45 :: r => r | _ => b end in
  match b with
  | 48 :: r => match g_frac r with Some r => g_exp r | None => None end
  | c :: r => if is_digit c then match g_frac (skip_digits r) with Some r => g_exp r | None => None end else None
  | [] => None
  end.

(* value, on an input without leading white space; returns what follows the value.
   [depth] is the number of containers the value may still open. *)
Fixpoint g_value (fuel : nat) (b : bytes) {struct fuel} : option bytes :=
  match fuel with
  | O => None
  | S f =>
      match b with
      | 110 :: 117 :: 108 :: 108 :: r => Some r
      | 116 :: 114 :: 117 :: 101 :: r => Some r
      | 102 :: 97 :: 108 :: 115 :: 101 :: r => Some r
      | 34 :: r => g_string r
      | 91 :: r =>                                         (* [ *)
          match skip_ws r with
          | 93 :: r' => Some r'
          | r1 =>
              (fix elems (n : nat) (b : bytes) {struct n} : option bytes :=
                 match n with
                 | O => None
                 | S n' =>
                     match g_value f b with
                     | None => None
                     | Some r =>
                         match skip_ws r with
                         | 44 :: r' => elems n' (skip_ws r')
                         | 93 :: r' => Some r'
                         | _ => None
                         end
                     end
                 end) f r1
          end
      | 123 :: r =>                                        (* { *)
          match skip_ws r with
          | 125 :: r' => Some r'
          | r1 =>
              (fix members (n : nat) (b : bytes) {struct n} : option bytes :=
                 match n with
                 | O => None
                 | S n' =>
                     match b with
                     | 34 :: k =>
                         match g_string k with
                         | None => None
                         | Some r =>
                             match skip_ws r with
                             | 58 :: r' =>
                                 match g_value f (skip_ws r') with
                                 | None => None
                                 | Some r =>
                                     match skip_ws r with
                                     | 44 :: r' => members n' (skip_ws r')
                                     | 125 :: r' => Some r'
                                     | _ => None
                                     end
                                 end
                             | _ => None
                             end
                         end
                     | _ => None
                     end
                 end) f r1
          end
      | _ => g_number b
      end
  end.

(* JSON-text = ws value ws *)
Definition g_valid (b : bytes) : bool :=
  match g_value (S (length b)) (skip_ws b) with
  | Some r => match skip_ws r with [] => true | _ => false end
  | None => false
  end.

(* nesting depth of brackets outside strings, as encoding/json's scanner counts it (for the 10000 limit) *)
Fixpoint max_depth_from (cur mx : Z) (instr esc : bool) (b : bytes) : Z :=
  match b with
  | [] => mx
  | c :: r =>
      if instr then
        if esc then max_depth_from cur mx true false r
        else if c =? 92 then max_depth_from cur mx true true r
        else if c =? 34 then max_depth_from cur mx false false r
        else max_depth_from cur mx true false r
      else if c =? 34 then max_depth_from cur mx true false r
      else if (c =? 91) || (c =? 123) then max_depth_from (cur + 1) (Z.max mx (cur + 1)) false false r
      else if (c =? 93) || (c =? 125) then max_depth_from (cur - 1) mx false false r
      else max_depth_from cur mx false false r
  end.
Definition max_depth (b : bytes) : Z := max_depth_from 0 0 false false b.
(* encoding/json.Valid: the grammar, with at most 10000 open containers *)
Definition std_valid (b : bytes) : bool := g_valid b && (max_depth b <=? 10000).
