(* C10 -- statements about the memory model (Json/MemModel.v).

   Reading of the property for a Decoder: the doc comments of Decoder.DontCopyString / DontCopyNumber /
   DontCopyRawMessage / ZeroCopy in /repo/json/json.go promise only that values are not copied out of the json
   payload, and the ZeroCopy flag is documented as meant for code where none of the values are retained after the
   handler returns. The input buffer of a Decoder is its internal read buffer (Decode calls Parse on a slice of
   it): with a zero-copy flag a decoded leaf may share memory with that buffer -- which later reads overwrite --
   and with nothing else; without the flag nothing may be shared with it. This is what the statements say:
   region RDecBuf is never owned by the caller, and is only ever given out with the matching flag set. *)
From Coq Require Import ZArith List Bool.
From Verif Require Import Base.GoInt Json.Ext Generated.JsonParseGen Json.MemModel.
Import ListNotations.
Open Scope Z_scope.

(* (a) aliasing is opt-in, leaf by leaf: a leaf lives in the source buffer only if the zero-copy flag of its kind is set *)
Definition leaf_ok (flags : Z) (kp : lkind * prov) : Prop :=
  snd kp = PSrc -> alias_flag (fst kp) flags = true.

Definition leaves_allowed_statement : Prop :=
  forall flags d, Forall (leaf_ok flags) (leaves flags d).

(* without any of the three bits -- in particular for Unmarshal, which passes the flag word 0 -- every leaf is
   fresh or empty *)
Definition no_flag_no_alias_statement : Prop :=
  forall flags d,
    has flags json_DontCopyString = false -> has flags json_DontCopyNumber = false ->
    has flags json_DontCopyRawMessage = false ->
    Forall (fun kp => snd kp <> PSrc) (leaves flags d).

Definition unmarshal_no_alias_statement : Prop :=
  forall d, Forall (fun kp => snd kp <> PSrc) (leaves 0 d).

(* []byte results never share anything, whatever the flags *)
Definition bytes_never_alias_statement : Prop :=
  forall flags d kp, In kp (leaves flags d) -> fst kp = KBytes -> snd kp <> PSrc.

(* (b) histories. The trace is newest first: the tail of a cell is its past. *)

(* every library write goes to a region that was never given to the caller as its own, and never to a lent input *)
Fixpoint safe (tr : list event) : Prop :=
  match tr with
  | [] => True
  | EvWrite t r :: past =>
      (forall k fl, ~ In (EvGive k fl r true) past) /\ (forall i, r <> RInput i) /\ safe past
  | _ :: past => safe past
  end.

Definition history_safe_statement : Prop :=
  forall ops, safe (snd (run init [] ops)).

(* what is given to the caller: a fresh region is given as owned; the caller's input or a Decoder read buffer is
   given only as shared and only with the flag of the leaf's kind set; a pooled buffer is never given *)
Definition give_ok (e : event) : Prop :=
  match e with
  | EvGive k fl (RFresh _) o => o = true
  | EvGive k fl (RInput _) o => o = false /\ alias_flag k fl = true
  | EvGive k fl (RDecBuf _ _) o => o = false /\ alias_flag k fl = true
  | EvGive _ _ (RPool _) _ => False
  | _ => True
  end.

Definition gives_statement : Prop :=
  forall ops, Forall give_ok (snd (run init [] ops)).

(* pooled buffers: at every point of every history a buffer is either in the pool or held by exactly one goroutine,
   and a goroutine holds at most one *)
Definition holds (s : mstate) (t b : nat) : Prop := exists ph, In (t, (b, ph)) (held s).

Definition pool_exclusive_statement : Prop :=
  forall ops, let s := fst (run init [] ops) in
    (forall t t' b, holds s t b -> holds s t' b -> t = t') /\
    (forall t b b', holds s t b -> holds s t b' -> b = b') /\
    (forall t b, holds s t b -> ~ In b (pool s)) /\
    NoDup (pool s).

(* a goroutine writes into a pooled buffer only while it holds it (before or after the step: a growing append moves
   the goroutine to the new array it writes) *)
Definition pool_writer_statement : Prop :=
  forall s o t b, In (EvWrite t (RPool b)) (snd (step s o)) -> holds s t b \/ holds (fst (step s o)) t b.

(* the only events that write are the library's EvWrite and the caller's own EvUserWrite; lending a pooled buffer
   to a Writer is the only other use of a region *)
Definition lend_only_pool_statement : Prop :=
  forall ops t r, In (EvLend t r) (snd (run init [] ops)) -> exists b, r = RPool b.
