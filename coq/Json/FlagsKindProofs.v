(* C14: the kind reported by the machine translation of parseNumber on a valid number literal.
   ValidProofs.parseNumber_spec gives the consumed text and the absence of an error; here the chain of
   continuations pn_k6 .. pn_k17 is walked once more, tracking only the kind. *)
From Coq Require Import ZArith List Bool Lia.
From Verif Require Import Base.GoInt Json.Ext Json.Grammar Generated.JsonParseGen Json.ValidProofs Json.FlagsModel Json.FlagsSpec.
Import ListNotations.
Open Scope Z_scope.

Local Notation PR := (option (bytes * bytes * Z * option json_err)).

(* the bytes that make a literal a float *)
Definition fe (c : Z) : bool := (c =? 46) || (c =? 101) || (c =? 69).
Definition has_fe (b : bytes) : bool := existsb fe b.
(* the kind after reading [rest] to its end, entered with [kind] *)
Definition kind_after (kind : Z) (rest : bytes) : Z := if has_fe rest then json_Float else kind.

(* whenever the result consumed everything without error its kind is K *)
Definition kres (K : Z) (res : PR) : Prop := forall v k, res = Some (v, [], k, None) -> k = K.

Lemma kres_none K : kres K None.
Proof. intros v k H. discriminate H. Qed.
Lemma kres_err K v r k e : kres K (Some (v, r, k, Some e)).
Proof. intros v' k' H. discriminate H. Qed.
Lemma kres_same K v r e : kres K (Some (v, r, K, e)).
Proof. intros v' k' H. injection H as _ _ H _. auto. Qed.
Lemma kres_nonempty K v c r k e : kres K (Some (v, c :: r, k, e)).
Proof. intros v' k' H. discriminate H. Qed.

Lemma is_digit_not_fe c : is_digit c = true -> fe c = false.
Proof.
  unfold is_digit, fe. intros H. apply andb_true_iff in H. destruct H as [H1 H2].
  apply Z.leb_le in H1. apply Z.leb_le in H2.
  destruct (Z.eqb_spec c 46); [lia|]. destruct (Z.eqb_spec c 101); [lia|]. destruct (Z.eqb_spec c 69); [lia|].
  reflexivity.
Qed.
Lemma has_fe_skip_digits b : has_fe (skip_digits b) = has_fe b.
Proof.
  induction b as [|c r IH]; [reflexivity|]. cbn [skip_digits]. destruct (is_digit c) eqn:D; [|reflexivity].
  unfold has_fe in *. cbn [existsb]. rewrite (is_digit_not_fe c D). exact IH.
Qed.
Lemma kind_after_skip_digits kind b : kind_after kind (skip_digits b) = kind_after kind b.
Proof. unfold kind_after. rewrite has_fe_skip_digits. reflexivity. Qed.

(* ---- the scanning loops only select one of their exits ---- *)
Lemma pn_scan_kres K b start E k : (forall j, kres K (E j)) -> (forall j, kres K (k j)) ->
  forall fuel i, kres K (pn_scan b start E k fuel i).
Proof.
  intros HE Hk. induction fuel as [|f IH]; intros i; [apply kres_none|]. cbn [pn_scan].
  destruct (i <? len b); [|apply Hk]. destruct (negb (is_digit (at_ b i))); [|apply IH].
  destruct (i =? start); [apply HE|apply Hk].
Qed.

Lemma pn_k6_kres b v r kind err fuel i : kres kind (pn_k6 b v r kind err fuel i).
Proof.
  unfold pn_k6. destruct (i =? len b); [apply kres_err|]. cbv zeta. rewrite pn_loop3_scan.
  apply pn_scan_kres; intros j; [apply kres_err|]. unfold pn_k1. apply kres_same.
Qed.

(* once the kind is Float it stays Float *)
Lemma pn_k7_float b v fuel r err i : kres json_Float (pn_k7 b v fuel r json_Float err i).
Proof.
  unfold pn_k7. destruct ((i <? len b) && ((at_ b i =? 101) || (at_ b i =? 69))).
  - cbv zeta. destruct (addi64 i 1 <? len b); [|apply pn_k6_kres].
    destruct ((at_ b (addi64 i 1) =? 43) || (at_ b (addi64 i 1) =? 45)); apply pn_k6_kres.
  - unfold pn_k1. apply kres_same.
Qed.

Lemma pn_k7_kind b v fuel r kind err i rest : 0 <= i -> slice_from b i = rest ->
  kres (kind_after kind rest) (pn_k7 b v fuel r kind err i).
Proof.
  intros Hi E. unfold pn_k7. destruct rest as [|e t].
  - pose proof (sf_nil' _ _ E Hi). destruct (Z.ltb_spec i (len b)); [lia|]. cbn [andb].
    unfold pn_k1. apply kres_same.
  - pose proof (sf_cons' _ _ _ _ E Hi) as (E1 & E2 & E3).
    destruct (Z.ltb_spec i (len b)); [|lia]. rewrite E2. cbn [andb].
    destruct ((e =? 101) || (e =? 69)) eqn:X.
    + assert (KA : kind_after kind (e :: t) = json_Float).
      { assert (F : fe e = true) by (unfold fe; destruct (e =? 46); [reflexivity|exact X]).
        unfold kind_after, has_fe. cbn [existsb]. rewrite F. reflexivity. }
      rewrite KA. cbv zeta. destruct (addi64 i 1 <? len b); [|apply pn_k6_kres].
      destruct ((at_ b (addi64 i 1) =? 43) || (at_ b (addi64 i 1) =? 45)); apply pn_k6_kres.
    + unfold pn_k1. rewrite E. apply kres_nonempty.
Qed.

Lemma pn_k12_kind b v r err fuel kind i rest : 0 <= i -> slice_from b i = rest ->
  kres (kind_after kind rest) (pn_k12 b v r err fuel kind i).
Proof.
  intros Hi E. unfold pn_k12. destruct rest as [|c t].
  - pose proof (sf_nil' _ _ E Hi). destruct (Z.ltb_spec i (len b)); [lia|]. cbn [andb].
    apply pn_k7_kind; assumption.
  - pose proof (sf_cons' _ _ _ _ E Hi) as (E1 & E2 & E3).
    destruct (Z.ltb_spec i (len b)); [|lia]. rewrite E2. cbn [andb].
    destruct (c =? 46) eqn:X; [|apply pn_k7_kind; assumption].
    assert (KA : kind_after kind (c :: t) = json_Float).
    { unfold kind_after, has_fe. cbn [existsb]. unfold fe. rewrite X. reflexivity. }
    rewrite KA. cbv zeta. rewrite pn_loop9_scan. apply pn_scan_kres; intros j; [apply kres_err|].
    destruct (j =? addi64 i 1); [apply kres_err|apply pn_k7_float].
Qed.

Lemma pn_k16_kind b fuel kind v r err i rest : len b < 2 ^ 62 -> (length b < fuel)%nat ->
  0 <= i <= len b -> slice_from b i = rest ->
  kres (kind_after kind rest) (pn_k16 b fuel kind v r err i).
Proof.
  intros Hb Hf Hi E. unfold pn_k16.
  assert (Lr : (length rest <= length b)%nat).
  { subst rest. unfold slice_from. rewrite skipn_length. lia. }
  destruct (pn_loop13_spec b (pn_k12 b v r err fuel kind) Hb rest i fuel) as (j & J1 & J2 & J3 & J4);
    [lia|assumption|lia|].
  rewrite J4, <- kind_after_skip_digits. apply pn_k12_kind; [lia|assumption].
Qed.

Lemma kind_after_nonfe kind c t : fe c = false -> kind_after kind (c :: t) = kind_after kind t.
Proof. intros H. unfold kind_after, has_fe. cbn [existsb]. rewrite H. reflexivity. Qed.

Lemma pn_k17_kind b fuel v r err kind i rest : len b < 2 ^ 62 -> (length b < fuel)%nat ->
  0 <= i <= len b -> slice_from b i = rest ->
  kres (kind_after kind rest) (pn_k17 b fuel v r err kind i).
Proof.
  intros Hb Hf Hi E. unfold pn_k17. destruct (i =? len b); [apply kres_err|].
  destruct ((at_ b i <? 48) || (at_ b i >? 57)); [apply kres_err|].
  destruct (Z.eqb_spec (at_ b i) 48) as [C0|C0]; [|apply pn_k16_kind; assumption].
  cbv zeta. destruct rest as [|c t].
  { pose proof (sf_nil' _ _ E ltac:(lia)). unfold at_ in C0. rewrite nth_overflow in C0 by (unfold len in *; lia). lia. }
  pose proof (sf_cons' _ _ _ _ E ltac:(lia)) as (E1 & E2 & E3). rewrite E2 in C0. subst c.
  rewrite addi64_small by lia. rewrite (kind_after_nonfe kind 48 t) by reflexivity.
  match goal with |- context [if ?c then _ else _] => destruct c end.
  - rewrite E3. destruct t as [|x t']; [|apply kres_nonempty]. unfold kind_after. cbn [has_fe existsb]. apply kres_same.
  - destruct ((48 <=? at_ b (i + 1)) && (at_ b (i + 1) <=? 57)); [apply kres_err|].
    apply pn_k16_kind; [assumption|assumption|lia|assumption].
Qed.

Lemma is_neg_literal_cons c r : is_neg_literal (c :: r) = (c =? 45).
Proof.
  destruct (Z.eqb_spec c 45) as [X|X]; [subst c; reflexivity|].
  unfold is_neg_literal.
  destruct c as [|p|p]; try reflexivity.
  do 6 (destruct p as [p|p|]; try reflexivity). exfalso. apply X. reflexivity.
Qed.

Lemma parseNumber_kres fuel d b : len b < 2 ^ 62 -> (length b < fuel)%nat ->
  kres (lit_kind b) (json_decoder_parseNumber fuel d b).
Proof.
  intros Hb Hf. rewrite parseNumber_eq. destruct b as [|c r]; [cbn; apply kres_err|].
  rewrite len_cons, at_0. pose proof (len_nonneg r). destruct (Z.eqb_spec (len r + 1) 0); [lia|].
  unfold lit_kind, is_int_literal. rewrite is_neg_literal_cons.
  change (existsb (fun c0 : Z => (c0 =? 46) || (c0 =? 101) || (c0 =? 69)) (c :: r)) with (has_fe (c :: r)).
  destruct (Z.eqb_spec c 45) as [X|X].
  - subst c. rewrite addi64_small by (cbn; lia).
    assert (KA : (if negb (has_fe (45 :: r)) then json_Int else json_Float) = kind_after json_Int r).
    { unfold kind_after, has_fe. cbn [existsb]. change (fe 45) with false. cbn [orb]. destruct (existsb fe r); reflexivity. }
    rewrite KA. apply pn_k17_kind; [assumption|assumption|rewrite len_cons; lia|reflexivity].
  - assert (KA : (if negb (has_fe (c :: r)) then json_Uint else json_Float) = kind_after json_Uint (c :: r)).
    { unfold kind_after. destruct (has_fe (c :: r)); reflexivity. }
    rewrite KA. apply pn_k17_kind; [assumption|assumption|rewrite len_cons; lia|reflexivity].
Qed.

(* parseNumber_spec gives the consumed text and the absent error, parseNumber_kres the kind *)
Lemma parse_number_kind : parse_number_kind_statement.
Proof.
  intros fuel d b V Hb Hf. unfold valid_number in V.
  pose proof (parseNumber_spec fuel d b Hb Hf) as (v & r & k & e & R & Hok & Herr).
  pose proof (parseNumber_kres fuel d b Hb Hf) as HK.
  rewrite R in *. destruct e as [e|].
  - rewrite V in Herr. discriminate Herr. discriminate.
  - destruct (Hok eq_refl) as (G & j & J1 & J2 & J3). rewrite V in G. injection G as G. subst r.
    symmetry in J3. pose proof (sf_nil' _ _ J3 ltac:(lia)). assert (j = len b) by lia. subst j.
    assert (Hv : v = b).
    { pose proof (st_sf b (len b)) as S. rewrite sf_all, app_nil_r in S. congruence. }
    rewrite (HK v k eq_refl), Hv. reflexivity.
Qed.
