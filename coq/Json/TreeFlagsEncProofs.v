(* C14 structural part: the encoder under any AppendFlags of the model (statements of Json/TreeFlagsSpec.v):
     A. the default flags give the encoder of Json/TreeModel.v; struct key fragments;
     B. the encoding is a JSON text of the grammar (on the lemmas of Json/TreeEncProofs.v);
     C. EscapeHTML changes string tokens only, and there only the three bytes;
     D. SortMapKeys clear: the members are permuted; nothing changes when no map has two entries. *)
From Coq Require Import Lia ZifyBool ZifyNat Permutation.
From Verif Require Import Base.GoInt Json.Grammar Json.FlagsModel Json.FlagsSpec Json.StrModel Json.StrSpec Json.NumSpec
  Json.TreeModel Json.TreeSpec Json.TreeFlagsModel Json.TreeFlagsSpec.
From Verif Require Import Json.ValidProofs Json.StrUtf8Proofs Json.StrSpecProofs Json.NumProofs Json.TreeEncProofs.
Open Scope Z_scope.

(* ================= A. the default flags, key fragments ================= *)
Lemma flags_default_toks : flags_default_toks_statement.
Proof.
  unfold flags_default_toks_statement.
  apply (jty_mind (fun t => forall v, jtoks_f true sorted_ord t v = jtoks t v)
                  (fun fs => forall l, jmembers_f true sorted_ord fs l = jmembers fs l)).
  - intros v. destruct v; reflexivity.
  - intros s w v. destruct v; reflexivity.
  - intros v. destruct v; reflexivity.
  - intros t IH v. destruct v; try reflexivity. cbn [jtoks_f jtoks]. apply IH.
  - intros t IH v. destruct v; try reflexivity. cbn [jtoks_f jtoks]. do 3 f_equal. apply map_ext. exact IH.
  - intros n t IH v. destruct v; try reflexivity. cbn [jtoks_f jtoks]. do 3 f_equal. apply map_ext. exact IH.
  - intros t IH v. destruct v; try reflexivity. cbn [jtoks_f jtoks]. unfold sorted_ord. do 3 f_equal.
    apply map_ext. intros kv. rewrite IH. reflexivity.
  - intros fs IH v. destruct v; try reflexivity. cbn [jtoks_f jtoks]. rewrite IH. reflexivity.
  - intros l. reflexivity.
  - intros name o t IHt r IHr l. destruct l as [|v l]; [reflexivity|].
    cbn [jmembers_f jmembers]. rewrite IHt, IHr. reflexivity.
Qed.

Lemma flags_default : flags_default_statement.
Proof. intros t v. unfold jenc_f, jenc. rewrite flags_default_toks. reflexivity. Qed.

Lemma alnum_safe html c : is_alnum c = true -> c < 128 /\ std_safe html c = true /\ is_html c = false.
Proof. unfold is_alnum, std_safe, is_html. intros H. destruct html; lia. Qed.

Lemma escape_body_alnum html name : forallb is_alnum name = true -> std_escape_body html 0 name = name.
Proof.
  induction name as [|c name IH]; intros H; [reflexivity|].
  cbn [forallb] in H. apply andb_true_iff in H. destruct H as [H1 H2].
  destruct (alnum_safe html c H1) as [A [B _]].
  rewrite escape_ascii by exact A. rewrite B, (IH H2). reflexivity.
Qed.

Lemma key_fragment : key_fragment_statement.
Proof.
  intros html name H. unfold name_ok in H. apply andb_true_iff in H. destruct H as [_ H].
  unfold std_escape, quote. rewrite (escape_body_alnum html name H). reflexivity.
Qed.

(* ================= B. validity ================= *)
Lemma kstr_escape_f html s : wfb s = true -> kstr (std_escape html s).
Proof.
  intros W. exists (std_escape_body html 0 s). split; [reflexivity|]. intros T.
  apply (proj1 (escape_body_ok html s W T)).
Qed.

Section Valid.
Variables (html : bool) (ord : ord_t).
Hypothesis Hord : ord_ok ord.

Definition Ptf (t : jty) : Prop :=
  ty_ok t = true -> forall v, jwf t v = true -> forall f, val_ok f (jtoks_f html ord t v).
Definition Pff (fs : jfields) : Prop :=
  fields_ok fs = true -> forall l, jwfs fs l = true -> forall f, Forall (memb_ok f) (jmembers_f html ord fs l).

Lemma list_vals_f t : Ptf t -> ty_ok t = true -> forall l, forallb (jwf t) l = true ->
  forall f, Forall (val_ok f) (map (jtoks_f html ord t) l).
Proof.
  intros IH T l W f. induction l as [|v l IHl]; cbn [map]; constructor;
    cbn [forallb] in W; apply andb_true_iff in W; destruct W as [W1 W2].
  - apply IH; assumption.
  - apply IHl. assumption.
Qed.

Lemma tree_val_ok_f : forall t, Ptf t.
Proof.
  apply (jty_mind Ptf Pff); unfold Ptf, Pff.
  - intros _ v W f. destruct v; cbn [jwf] in W; try discriminate W. cbn [jtoks_f].
    destruct b; [apply val_ok_true|apply val_ok_false].
  - intros s w T v W f. destruct v; cbn [jwf] in W; try discriminate W. cbn [jtoks_f]. cbn [ty_ok] in T.
    apply val_ok_dec. apply (int_range s w); assumption.
  - intros _ v W f. destruct v; cbn [jwf] in W; try discriminate W. cbn [jtoks_f].
    apply val_ok_str, kstr_escape_f. assumption.
  - intros t IH T v W f. cbn [ty_ok] in T. destruct v; cbn [jwf] in W; try discriminate W; cbn [jtoks_f].
    + apply val_ok_null.
    + apply IH; assumption.
  - intros t IH T v W f. cbn [ty_ok] in T. apply andb_true_iff in T. destruct T as [T _].
    destruct v; cbn [jwf] in W; try discriminate W; cbn [jtoks_f].
    + apply val_ok_null.
    + apply arr_ok_all. intros f0. apply list_vals_f; assumption.
  - intros n t IH T v W f. cbn [ty_ok] in T.
    destruct v; cbn [jwf] in W; try discriminate W; cbn [jtoks_f].
    apply andb_true_iff in W. destruct W as [_ W].
    apply arr_ok_all. intros f0. apply list_vals_f; assumption.
  - intros t IH T v W f. cbn [ty_ok] in T.
    destruct v; cbn [jwf] in W; try discriminate W; cbn [jtoks_f].
    + apply val_ok_null.
    + apply andb_true_iff in W. destruct W as [W WV]. apply andb_true_iff in W. destruct W as [WK _].
      apply obj_ok_all. intros f0. apply Forall_forall. intros x Hx. apply in_map_iff in Hx.
      destruct Hx as (kv & Ex & Hkv).
      apply (Permutation_in kv (Hord (sort_kv m))) in Hkv. apply sort_kv_in in Hkv. subst x.
      exists (std_escape html (fst kv)), (jtoks_f html ord t (snd kv)). split; [reflexivity|]. split.
      * apply kstr_escape_f. rewrite forallb_forall in WK. specialize (WK (fst kv) (in_map fst m kv Hkv)).
        unfold key_ok in WK. apply andb_true_iff in WK. apply WK.
      * rewrite forallb_forall in WV. apply IH; [assumption|]. apply (WV kv Hkv).
  - intros fs IH T v W f. cbn [ty_ok] in T. apply andb_true_iff in T. destruct T as [T _].
    destruct v; cbn [jwf] in W; try discriminate W; cbn [jtoks_f].
    apply obj_ok_all. intros f0. apply IH; assumption.
  - intros _ l W f. cbn [jmembers_f]. constructor.
  - intros name omit t IHt r IHr T l W f. cbn [fields_ok] in T. apply andb_true_iff in T. destruct T as [T Tr].
    apply andb_true_iff in T. destruct T as [Tn Tt].
    destruct l as [|v l]; cbn [jwfs] in W; [discriminate W|]. apply andb_true_iff in W. destruct W as [Wv Wl].
    cbn [jmembers_f]. apply Forall_app. split; [|apply IHr; assumption].
    destruct (omit && jempty v); constructor; [|constructor].
    exists (quote name), (jtoks_f html ord t v). split; [reflexivity|]. split; [apply kstr_name; assumption|].
    apply IHt; assumption.
Qed.
End Valid.

Lemma append_flags_valid : append_flags_valid_statement.
Proof.
  intros html ord t v Hord T W. unfold g_valid, jenc_f.
  rewrite <- (render_no_ws (jtoks_f html ord t v) 0%nat).
  pose proof (render_inter no_ws ws_ok_no_ws (jtoks_f html ord t v) 0%nat) as I.
  rewrite (tree_val_ok_f html ord Hord t T v W (S (length (render no_ws 0 (jtoks_f html ord t v)))) _ _ I
             (stop_ws _ (ws_ok_no_ws _)) (Nat.lt_succ_diag_r _)).
  reflexivity.
Qed.

(* ================= C. EscapeHTML ================= *)
Lemma html_expand_app a b : html_expand (a ++ b) = html_expand a ++ html_expand b.
Proof.
  induction a as [|c a IH]; [reflexivity|]. cbn [app html_expand]. rewrite IH, app_assoc. reflexivity.
Qed.
Lemma html_expand_id b : existsb is_html b = false -> html_expand b = b.
Proof.
  induction b as [|c b IH]; intros H; [reflexivity|].
  cbn [existsb] in H. apply orb_false_iff in H. destruct H as [H1 H2].
  cbn [html_expand]. rewrite H1, (IH H2). reflexivity.
Qed.
Lemma hexdigit_plain n : 0 <= n < 16 -> is_html (hexdigit n) = false.
Proof. intros H. unfold hexdigit, is_html. destruct (Z.ltb_spec n 10); lia. Qed.

Lemma escape_ascii_plain c : 0 <= c < 128 -> std_safe false c = false -> existsb is_html (std_escape_ascii c) = false.
Proof.
  intros R S. unfold std_escape_ascii.
  destruct ((c =? 92) || (c =? 34)) eqn:E1.
  { cbn [existsb]. unfold is_html. lia. }
  destruct (c =? 8); [reflexivity|]. destruct (c =? 12); [reflexivity|]. destruct (c =? 10); [reflexivity|].
  destruct (c =? 13); [reflexivity|]. destruct (c =? 9); [reflexivity|].
  cbn [existsb]. rewrite !hexdigit_plain; [reflexivity| |].
  - apply Z.mod_pos_bound. lia.
  - split; [apply Z.div_pos; lia|apply Z.div_lt_upper_bound; lia].
Qed.

Lemma hi_plain w : forallb hi_byte w = true -> existsb is_html w = false.
Proof.
  induction w as [|c w IH]; intros H; [reflexivity|].
  cbn [forallb] in H. apply andb_true_iff in H. destruct H as [H1 H2].
  cbn [existsb]. rewrite (IH H2). unfold hi_byte in H1. unfold is_html. lia.
Qed.
Lemma esc_seq_plain w : forallb hi_byte w = true -> existsb is_html (esc_seq w) = false.
Proof.
  intros H. unfold esc_seq. destruct w as [|c [|y [|x [|z w]]]]; try (apply hi_plain; exact H).
  destruct ((y =? 128) && ((c =? 226) && ((x =? 168) || (x =? 169)))) eqn:C; [|apply hi_plain; exact H].
  cbn [existsb]. unfold is_html. lia.
Qed.

Lemma escape_html_body : forall s, wfb s = true ->
  std_escape_body true 0 s = html_expand (std_escape_body false 0 s).
Proof.
  apply (rune_ind (fun s => wfb s = true -> std_escape_body true 0 s = html_expand (std_escape_body false 0 s))).
  - intros _. reflexivity.
  - intros c r A D IH W. apply wfb_cons in W. destruct W as [B W].
    rewrite !escape_ascii by assumption. rewrite html_expand_app, <- (IH W). f_equal.
    destruct (std_safe false c) eqn:S.
    + cbn [html_expand]. rewrite app_nil_r.
      destruct (is_html c) eqn:H.
      * assert (S' : std_safe true c = false) by (unfold std_safe, is_html in *; lia). rewrite S'.
        unfold std_escape_ascii. unfold is_html in H.
        destruct ((c =? 92) || (c =? 34)) eqn:E1; [lia|].
        destruct (c =? 8) eqn:E2; [lia|]. destruct (c =? 12) eqn:E3; [lia|]. destruct (c =? 10) eqn:E4; [lia|].
        destruct (c =? 13) eqn:E5; [lia|]. destruct (c =? 9) eqn:E6; [lia|]. reflexivity.
      * assert (S' : std_safe true c = true) by (unfold std_safe, is_html in *; lia). rewrite S'. reflexivity.
    + assert (S' : std_safe true c = false) by (unfold std_safe in *; lia). rewrite S'.
      symmetry. apply html_expand_id. apply escape_ascii_plain; [lia|exact S].
  - intros c r A D IH W. apply wfb_cons in W. destruct W as [B W].
    rewrite !escape_bad by assumption. rewrite html_expand_app, <- (IH W). reflexivity.
  - intros w r rune LW D HB EN RN IH W. apply wfb_app_r in W.
    rewrite !(escape_multi _ w r rune) by assumption. rewrite html_expand_app, <- (IH W).
    rewrite (html_expand_id _ (esc_seq_plain w HB)). reflexivity.
Qed.

Lemma escape_html_string : escape_html_string_statement.
Proof.
  intros s W. unfold std_escape. rewrite !html_expand_app. cbn [html_expand app]. change (is_html 34) with false.
  cbv iota. cbn [app]. rewrite <- (escape_html_body s W). reflexivity.
Qed.

Lemma tok_html_escape s : wfb s = true -> tok_html (std_escape false s) = std_escape true s.
Proof. intros W. rewrite (escape_html_string s W). reflexivity. Qed.

Lemma tok_html_quote name : name_ok name = true -> tok_html (quote name) = quote name.
Proof.
  intros H. unfold name_ok in H. apply andb_true_iff in H. destruct H as [_ H].
  unfold quote, tok_html. cbn [app]. apply html_expand_id. cbn [existsb]. change (is_html 34) with false. cbn [orb].
  rewrite existsb_app. cbn [existsb]. change (is_html 34) with false. rewrite !orb_false_r.
  induction name as [|c name IH]; [reflexivity|].
  cbn [forallb] in H. apply andb_true_iff in H. destruct H as [H1 H2].
  cbn [existsb]. destruct (alnum_safe true c H1) as [_ [_ A]]. rewrite A, (IH H2). reflexivity.
Qed.

Lemma tok_html_dec s w z : bits_ok w = true -> int_in s w z = true -> tok_html (z_to_dec z) = z_to_dec z.
Proof.
  intros B I. destruct (z_to_dec_canonical z (int_range s w z B I)) as (ds & E & D & NZ & _). rewrite E.
  destruct (z <? 0); [reflexivity|]. destruct ds as [|d ds]; [destruct NZ|]. cbn [app].
  unfold all_digits in D. cbn [forallb] in D. apply andb_true_iff in D. destruct D as [D1 _].
  unfold tok_html. destruct (Z.eqb_spec d 34) as [X|X]; [lia|].
  destruct d as [|p|p]; try reflexivity.
  do 6 (destruct p as [p|p|]; try reflexivity). congruence.
Qed.

Lemma sep_toks_map (g : bytes -> bytes) ms : g [44] = [44] ->
  map g (sep_toks ms) = sep_toks (map (map g) ms).
Proof.
  intros G. induction ms as [|m ms IH]; [reflexivity|].
  rewrite sep_toks_cons. cbn [map]. rewrite sep_toks_cons. rewrite map_app. f_equal.
  destruct ms as [|m2 ms]; [reflexivity|]. cbn [map] in IH |- *. cbn [app map]. rewrite G, IH. reflexivity.
Qed.

Section Html.
Variable ord : ord_t.
Hypothesis Hord : ord_ok ord.

Lemma escape_html_only_strings_all : forall t,
  ty_ok t = true -> forall v, jwf t v = true -> jtoks_f true ord t v = map tok_html (jtoks_f false ord t v).
Proof.
  apply (jty_mind (fun t => ty_ok t = true -> forall v, jwf t v = true ->
                     jtoks_f true ord t v = map tok_html (jtoks_f false ord t v))
                  (fun fs => fields_ok fs = true -> forall l, jwfs fs l = true ->
                     jmembers_f true ord fs l = map (map tok_html) (jmembers_f false ord fs l))).
  - intros _ v W. destruct v; cbn [jwf] in W; try discriminate W. destruct b; reflexivity.
  - intros s w T v W. destruct v; cbn [jwf] in W; try discriminate W. cbn [ty_ok] in T.
    cbn [jtoks_f map]. rewrite (tok_html_dec s w z T W). reflexivity.
  - intros _ v W. destruct v; cbn [jwf] in W; try discriminate W.
    cbn [jtoks_f map]. rewrite (tok_html_escape s W). reflexivity.
  - intros t IH T v W. cbn [ty_ok] in T. destruct v; cbn [jwf] in W; try discriminate W; [reflexivity|].
    cbn [jtoks_f]. apply IH; assumption.
  - intros t IH T v W. cbn [ty_ok] in T. apply andb_true_iff in T. destruct T as [T _].
    destruct v; cbn [jwf] in W; try discriminate W; [reflexivity|].
    cbn [jtoks_f]. rewrite !map_app, sep_toks_map by reflexivity. cbn [map]. do 3 f_equal.
    rewrite map_map. apply map_ext_in. intros x Hx. rewrite forallb_forall in W. apply IH; auto.
  - intros n t IH T v W. cbn [ty_ok] in T.
    destruct v; cbn [jwf] in W; try discriminate W.
    apply andb_true_iff in W. destruct W as [_ W].
    cbn [jtoks_f]. rewrite !map_app, sep_toks_map by reflexivity. cbn [map]. do 3 f_equal.
    rewrite map_map. apply map_ext_in. intros x Hx. rewrite forallb_forall in W. apply IH; auto.
  - intros t IH T v W. cbn [ty_ok] in T.
    destruct v; cbn [jwf] in W; try discriminate W; [reflexivity|].
    apply andb_true_iff in W. destruct W as [W WV]. apply andb_true_iff in W. destruct W as [WK WS].
    cbn [jtoks_f].
    rewrite !map_app, sep_toks_map by reflexivity. cbn [map]. do 3 f_equal.
    rewrite map_map. apply map_ext_in. intros kv Hkv.
    apply (Permutation_in kv (Hord (sort_kv m))) in Hkv. apply sort_kv_in in Hkv.
    cbn [map app]. f_equal; [|f_equal].
    + symmetry. apply tok_html_escape.
      rewrite forallb_forall in WK. specialize (WK (fst kv) (in_map fst m kv Hkv)).
      unfold key_ok in WK. apply andb_true_iff in WK. apply WK.
    + rewrite forallb_forall in WV. apply IH; [exact T|]. apply (WV kv Hkv).
  - intros fs IH T v W. cbn [ty_ok] in T. apply andb_true_iff in T. destruct T as [T _].
    destruct v; cbn [jwf] in W; try discriminate W.
    cbn [jtoks_f]. rewrite !map_app, sep_toks_map by reflexivity. cbn [map]. do 3 f_equal. apply IH; assumption.
  - intros _ l W. reflexivity.
  - intros name omit t IHt r IHr T l W. cbn [fields_ok] in T. apply andb_true_iff in T. destruct T as [T Tr].
    apply andb_true_iff in T. destruct T as [Tn Tt].
    destruct l as [|v l]; cbn [jwfs] in W; [discriminate W|]. apply andb_true_iff in W. destruct W as [Wv Wl].
    cbn [jmembers_f]. rewrite map_app, <- (IHr Tr l Wl). f_equal.
    destruct (omit && jempty v); [reflexivity|]. cbn [map app]. rewrite (tok_html_quote name Tn), <- (IHt Tt v Wv).
    reflexivity.
Qed.
End Html.

(* ================= D. SortMapKeys clear ================= *)
Lemma unsorted_is_permutation : unsorted_is_permutation_statement.
Proof.
  intros html ord t' m Hord. exists (map_members html ord t' (ord (sort_kv m))). split.
  - unfold map_members. apply Permutation_map, Hord.
  - reflexivity.
Qed.

Lemma ord_small ord (m : list (bytes * jval)) : ord_ok ord -> (length m <= 1)%nat -> ord m = m.
Proof.
  intros Hord L. pose proof (Hord m) as P. destruct m as [|x [|y m]].
  - apply Permutation_sym, Permutation_nil in P. exact P.
  - apply Permutation_sym, Permutation_length_1_inv in P. exact P.
  - cbn [length] in L. lia.
Qed.

Lemma sort_kv_small (m : list (bytes * jval)) : (length m <= 1)%nat -> sort_kv m = m.
Proof.
  destruct m as [|[k v] [|y m]]; intros L; [reflexivity|reflexivity|]. cbn [length] in L. lia.
Qed.

Lemma unsorted_small_toks html ord : ord_ok ord -> forall t v,
  small_maps t v = true -> jtoks_f html ord t v = jtoks_f html sorted_ord t v.
Proof.
  intros Hord.
  apply (jty_mind (fun t => forall v, small_maps t v = true -> jtoks_f html ord t v = jtoks_f html sorted_ord t v)
                  (fun fs => forall l, small_maps_fs fs l = true ->
                     jmembers_f html ord fs l = jmembers_f html sorted_ord fs l)).
  - intros v _. destruct v; reflexivity.
  - intros s w v _. destruct v; reflexivity.
  - intros v _. destruct v; reflexivity.
  - intros t IH v S. destruct v; try reflexivity. cbn [small_maps] in S. cbn [jtoks_f]. apply IH, S.
  - intros t IH v S. destruct v; try reflexivity. cbn [small_maps] in S. cbn [jtoks_f]. do 3 f_equal.
    apply map_ext_in. intros x Hx. rewrite forallb_forall in S. apply IH, S, Hx.
  - intros n t IH v S. destruct v; try reflexivity. cbn [small_maps] in S. cbn [jtoks_f]. do 3 f_equal.
    apply map_ext_in. intros x Hx. rewrite forallb_forall in S. apply IH, S, Hx.
  - intros t IH v S. destruct v; try reflexivity. cbn [small_maps] in S.
    apply andb_true_iff in S. destruct S as [L S]. apply Nat.leb_le in L.
    cbn [jtoks_f]. rewrite (sort_kv_small m L). rewrite (ord_small ord m Hord L). unfold sorted_ord. do 3 f_equal.
    apply map_ext_in. intros kv Hkv. rewrite forallb_forall in S. rewrite (IH (snd kv) (S kv Hkv)). reflexivity.
  - intros fs IH v S. destruct v; try reflexivity. cbn [small_maps] in S. cbn [jtoks_f]. rewrite (IH l S). reflexivity.
  - intros l _. reflexivity.
  - intros name o t IHt r IHr l S. destruct l as [|v l]; [reflexivity|].
    cbn [small_maps_fs] in S. apply andb_true_iff in S. destruct S as [S1 S2].
    cbn [jmembers_f]. rewrite (IHt v S1), (IHr l S2). reflexivity.
Qed.

Lemma unsorted_small_maps : unsorted_small_maps_statement.
Proof. intros html ord t v Hord S. unfold jenc_f. rewrite (unsorted_small_toks html ord Hord t v S). reflexivity. Qed.

Lemma ord_examples : ord_examples_statement.
Proof.
  split; [|split].
  - intros m. apply Permutation_refl.
  - intros m. apply Permutation_sym, Permutation_rev.
  - intros m. unfold rot_ord. destruct m as [|x r]; [constructor|]. apply Permutation_sym, Permutation_cons_append.
Qed.

(* ================= E. values without the three bytes ================= *)
Lemma escape_no_html : forall s, existsb is_html s = false -> std_escape_body true 0 s = std_escape_body false 0 s.
Proof.
  apply (rune_ind (fun s => existsb is_html s = false -> std_escape_body true 0 s = std_escape_body false 0 s)).
  - intros _. reflexivity.
  - intros c r A D IH H. cbn [existsb] in H. apply orb_false_iff in H. destruct H as [H1 H2].
    rewrite !escape_ascii by assumption. rewrite (IH H2).
    assert (S : std_safe true c = std_safe false c) by (unfold std_safe; unfold is_html in H1; lia).
    rewrite S. reflexivity.
  - intros c r A D IH H. cbn [existsb] in H. apply orb_false_iff in H. destruct H as [_ H2].
    rewrite !escape_bad by assumption. rewrite (IH H2). reflexivity.
  - intros w r rune LW D HB EN RN IH H. rewrite existsb_app in H. apply orb_false_iff in H. destruct H as [_ H2].
    rewrite !(escape_multi _ w r rune) by assumption. rewrite (IH H2). reflexivity.
Qed.
Lemma std_escape_no_html s : existsb is_html s = false -> std_escape true s = std_escape false s.
Proof. intros H. unfold std_escape. rewrite (escape_no_html s H). reflexivity. Qed.

Lemma no_html_same_toks ord : ord_ok ord -> forall t v,
  no_html t v = true -> jtoks_f false ord t v = jtoks_f true ord t v.
Proof.
  intros Hord.
  apply (jty_mind (fun t => forall v, no_html t v = true -> jtoks_f false ord t v = jtoks_f true ord t v)
                  (fun fs => forall l, no_html_fs fs l = true ->
                     jmembers_f false ord fs l = jmembers_f true ord fs l)).
  - intros v _. destruct v; reflexivity.
  - intros s w v _. destruct v; reflexivity.
  - intros v S. destruct v; try reflexivity. cbn [no_html] in S. apply negb_true_iff in S.
    cbn [jtoks_f]. rewrite (std_escape_no_html s S). reflexivity.
  - intros t IH v S. destruct v; try reflexivity. cbn [no_html] in S. cbn [jtoks_f]. apply IH, S.
  - intros t IH v S. destruct v; try reflexivity. cbn [no_html] in S. cbn [jtoks_f]. do 3 f_equal.
    apply map_ext_in. intros x Hx. rewrite forallb_forall in S. apply IH, S, Hx.
  - intros n t IH v S. destruct v; try reflexivity. cbn [no_html] in S. cbn [jtoks_f]. do 3 f_equal.
    apply map_ext_in. intros x Hx. rewrite forallb_forall in S. apply IH, S, Hx.
  - intros t IH v S. destruct v; try reflexivity. cbn [no_html] in S. cbn [jtoks_f]. do 3 f_equal.
    apply map_ext_in. intros kv Hkv.
    apply (Permutation_in kv (Hord (sort_kv m))) in Hkv. apply sort_kv_in in Hkv.
    rewrite forallb_forall in S. specialize (S kv Hkv). apply andb_true_iff in S. destruct S as [S1 S2].
    apply negb_true_iff in S1. cbv beta. rewrite (std_escape_no_html (fst kv) S1), (IH (snd kv) S2). reflexivity.
  - intros fs IH v S. destruct v; try reflexivity. cbn [no_html] in S. cbn [jtoks_f]. rewrite (IH l S). reflexivity.
  - intros l _. reflexivity.
  - intros name o t IHt r IHr l S. destruct l as [|v l]; [reflexivity|].
    cbn [no_html_fs] in S. apply andb_true_iff in S. destruct S as [S1 S2].
    cbn [jmembers_f]. rewrite (IHt v S1), (IHr l S2). reflexivity.
Qed.

Lemma no_html_same_bytes : no_html_same_bytes_statement.
Proof. intros ord t v Hord S. unfold jenc_f. rewrite (no_html_same_toks ord Hord t v S). reflexivity. Qed.

Print Assumptions flags_default.
Print Assumptions no_html_same_bytes.
Print Assumptions append_flags_valid.
Print Assumptions escape_html_only_strings_all.
Print Assumptions unsorted_small_maps.
