(* C01 float core: proofs of the statements of Json/FloatSpec.v.
   The glue that segmentio/encoding/json (Json/FloatModel.v) and encoding/json (Json/FloatSpec.v) put around
   strconv.AppendFloat is compared for EVERY function in the place of strconv.AppendFloat. *)
From Coq Require Import Lia ZArith List Bool.
From Verif Require Import Base.GoInt Json.FloatModel Json.FloatSpec.
Import ListNotations.
Open Scope Z_scope.

(* ---- lists ---- *)

Lemma flen_app {A} (a b : list A) : len (a ++ b) = len a + len b.
Proof. unfold len. rewrite app_length. lia. Qed.

Lemma flen_nonneg {A} (a : list A) : 0 <= len a.
Proof. unfold len. lia. Qed.

Lemma at_app_k (m l : bytes) (k : Z) : 0 <= k -> at_ (m ++ l) (len m + k) = at_ l k.
Proof.
  intros Hk. unfold at_, len.
  rewrite Z2Nat.inj_add by lia. rewrite Nat2Z.id.
  rewrite app_nth2_plus. reflexivity.
Qed.

Lemma upd_app_here (p : bytes) (x : Z) (r : bytes) (v : Z) : upd (p ++ x :: r) (len p) v = p ++ v :: r.
Proof.
  unfold upd, len. rewrite Nat2Z.id.
  rewrite firstn_app, Nat.sub_diag, firstn_all. cbn [firstn]. rewrite app_nil_r.
  rewrite skipn_app, Nat.sub_diag, skipn_all. cbn [skipn app]. reflexivity.
Qed.

Lemma slice_to_app_here (p r : bytes) : slice_to (p ++ r) (len p) = p.
Proof.
  unfold slice_to, len. rewrite Nat2Z.id.
  rewrite firstn_app, Nat.sub_diag, firstn_all. cbn [firstn]. apply app_nil_r.
Qed.

(* a list of at least four elements ends in four elements *)
Lemma last4 (l : bytes) : 4 <= len l -> exists m a b c d, l = m ++ [a; b; c; d].
Proof.
  intros H. unfold len in H.
  pose proof (firstn_skipn (length l - 4) l) as E.
  assert (L : length (skipn (length l - 4) l) = 4%nat) by (rewrite skipn_length; lia).
  destruct (skipn (length l - 4) l) as [|a [|b [|c [|d [|x t]]]]]; cbn in L; try discriminate.
  exists (firstn (length l - 4) l), a, b, c, d. symmetry. exact E.
Qed.

(* ---- the clean-up on a buffer whose last four bytes are named ---- *)

Lemma std_clean_last4 (m : bytes) (a b c d : Z) :
  std_clean_exp (m ++ [a; b; c; d]) =
  if (a =? ch_e) && (b =? ch_minus) && (c =? ch_0) then m ++ [a; b; d] else m ++ [a; b; c; d].
Proof.
  unfold std_clean_exp.
  assert (Hn : len (m ++ [a; b; c; d]) = len m + 4) by (rewrite flen_app; reflexivity).
  rewrite Hn.
  pose proof (flen_nonneg m) as Hm.
  assert (G : (len m + 4 >=? 4) = true) by (apply Z.geb_le; lia). rewrite G.
  replace (len m + 4 - 4) with (len m + 0) by lia.
  replace (len m + 4 - 3) with (len m + 1) by lia.
  replace (len m + 4 - 2) with (len m + 2) by lia.
  replace (len m + 4 - 1) with (len m + 3) by lia.
  rewrite !at_app_k by lia.
  change (at_ [a; b; c; d] 0) with a. change (at_ [a; b; c; d] 1) with b.
  change (at_ [a; b; c; d] 2) with c. change (at_ [a; b; c; d] 3) with d.
  destruct (a =? ch_e); [|reflexivity].
  destruct (b =? ch_minus); [|reflexivity].
  destruct (c =? ch_0); [|reflexivity].
  cbn [andb].
  replace (m ++ [a; b; c; d]) with ((m ++ [a; b]) ++ c :: [d]) by (rewrite <- app_assoc; reflexivity).
  replace (len m + 2) with (len (m ++ [a; b])) by (rewrite flen_app; reflexivity).
  rewrite upd_app_here.
  replace ((m ++ [a; b]) ++ [d; d]) with ((m ++ [a; b; d]) ++ [d]) by (rewrite <- !app_assoc; reflexivity).
  replace (len m + 3) with (len (m ++ [a; b; d])) by (rewrite flen_app; reflexivity).
  apply slice_to_app_here.
Qed.

Lemma clean_exp_same : clean_exp_same_statement.
Proof.
  intros b. unfold pkg_clean_exp, std_clean_exp.
  destruct (len b >=? 4); [|reflexivity].
  destruct (at_ b (len b - 4) =? ch_e); [|reflexivity].
  destruct (at_ b (len b - 3) =? ch_minus); [|reflexivity].
  destruct (at_ b (len b - 2) =? ch_0); reflexivity.
Qed.

Lemma std_clean_short (b : bytes) : len b < 4 -> std_clean_exp b = b.
Proof.
  intros H. unfold std_clean_exp.
  assert (G : (len b >=? 4) = false) by (rewrite Z.geb_leb; apply Z.leb_gt; lia).
  rewrite G. reflexivity.
Qed.

Lemma pkg_clean_ends (b : bytes) :
  pkg_clean_exp b = if ends_e_minus_0 b then slice_to (upd b (len b - 2) (at_ b (len b - 1))) (len b - 1) else b.
Proof. reflexivity. Qed.

Lemma ends_last4 (m : bytes) (a b c d : Z) :
  ends_e_minus_0 (m ++ [a; b; c; d]) = (a =? ch_e) && (b =? ch_minus) && (c =? ch_0).
Proof.
  unfold ends_e_minus_0.
  assert (Hn : len (m ++ [a; b; c; d]) = len m + 4) by (rewrite flen_app; reflexivity).
  rewrite Hn.
  pose proof (flen_nonneg m) as Hm.
  assert (G : (len m + 4 >=? 4) = true) by (apply Z.geb_le; lia). rewrite G.
  replace (len m + 4 - 4) with (len m + 0) by lia.
  replace (len m + 4 - 3) with (len m + 1) by lia.
  replace (len m + 4 - 2) with (len m + 2) by lia.
  rewrite !at_app_k by lia. reflexivity.
Qed.

Lemma clean_exp_cases : clean_exp_cases_statement.
Proof.
  unfold clean_exp_cases_statement. repeat split.
  - intros mant d. rewrite std_clean_last4. rewrite !Z.eqb_refl. reflexivity.
  - intros mant d1 d2 Hd. rewrite std_clean_last4.
    apply Z.eqb_neq in Hd. rewrite Hd, andb_false_r. reflexivity.
  - intros mant d1 d2. rewrite std_clean_last4. reflexivity.
  - intros mant s d1 d2 d3 Hs.
    replace (mant ++ [ch_e; s; d1; d2; d3]) with ((mant ++ [ch_e]) ++ [s; d1; d2; d3])
      by (rewrite <- app_assoc; reflexivity).
    rewrite std_clean_last4. apply Z.eqb_neq in Hs. rewrite Hs. reflexivity.
Qed.

(* the package cleans prefix and number together, encoding/json the number alone: equal when the number has at
   least four bytes *)
Lemma clean_prefix_long (dst out : bytes) :
  4 <= len out -> pkg_clean_exp (dst ++ out) = dst ++ std_clean_exp out.
Proof.
  intros H. destruct (last4 out H) as (m & a & b & c & d & ->).
  rewrite clean_exp_same, app_assoc, !std_clean_last4.
  destruct ((a =? ch_e) && (b =? ch_minus) && (c =? ch_0)); rewrite <- app_assoc; reflexivity.
Qed.

Lemma clean_exp_prefix_iff : clean_exp_prefix_iff_statement.
Proof.
  intros dst out. split.
  - intros E.
    destruct (Z_le_gt_dec 4 (len out)) as [L|L]; [left; exact L|right].
    destruct (ends_e_minus_0 (dst ++ out)) eqn:En; [exfalso|reflexivity].
    rewrite std_clean_short in E by lia.
    assert (N : 4 <= len (dst ++ out)).
    { unfold ends_e_minus_0 in En. destruct (len (dst ++ out) >=? 4) eqn:G; [|discriminate].
      apply Z.geb_le in G. exact G. }
    destruct (last4 _ N) as (m & a & b & c & d & Eq).
    rewrite Eq in E, En. rewrite ends_last4 in En.
    rewrite clean_exp_same, std_clean_last4, En in E.
    apply (f_equal (@len Z)) in E. rewrite !flen_app in E. cbn in E. lia.
  - intros [L|En].
    + apply clean_prefix_long. exact L.
    + destruct (Z_le_gt_dec 4 (len out)) as [L|L]; [apply clean_prefix_long; exact L|].
      rewrite pkg_clean_ends, En. rewrite std_clean_short by lia. reflexivity.
Qed.

Lemma exp_shaped_len : exp_shaped_len_statement.
Proof.
  intros out (mant & sgn & ds & -> & _ & L).
  rewrite flen_app. pose proof (flen_nonneg mant).
  change (ch_e :: sgn :: ds) with ([ch_e; sgn] ++ ds). rewrite flen_app.
  change (len [ch_e; sgn]) with 2. lia.
Qed.

(* ---- the glue ---- *)

(* the format byte is chosen by the same expression *)
Definition chosen_fmt (f : float_repr) (bits : Z) : Z :=
  if fr_nonzero f then
    if ((bits =? 64) && (fr_lt64 f || fr_ge64 f)) || ((bits =? 32) && (fr_lt32 f || fr_ge32 f)) then ch_e else ch_f
  else ch_f.

Lemma chosen_fmt_cases f bits : chosen_fmt f bits = ch_e \/ chosen_fmt f bits = ch_f.
Proof.
  unfold chosen_fmt. destruct (fr_nonzero f); [|right; reflexivity].
  destruct (_ || _); [left|right]; reflexivity.
Qed.

Lemma pkg_finite (af : af_type) dst f bits :
  fr_nan f = false -> fr_inf f = false ->
  pkg_encode_float af dst f bits =
  FOk (let b := af dst f (chosen_fmt f bits) bits in if chosen_fmt f bits =? ch_e then pkg_clean_exp b else b).
Proof. intros Hn Hi. unfold pkg_encode_float. rewrite Hn, Hi. reflexivity. Qed.

Lemma std_finite (af : af_type) ebuf f bits quoted :
  fr_nan f = false -> fr_inf f = false ->
  std_float_encode af ebuf f bits quoted =
  FOk (ebuf ++ may_append_quote
         (let b := af (may_append_quote [] quoted) f (chosen_fmt f bits) bits in
          if chosen_fmt f bits =? ch_e then std_clean_exp b else b) quoted).
Proof. intros Hn Hi. unfold std_float_encode. rewrite Hn, Hi. reflexivity. Qed.

(* the common core: equality as soon as the clean-up of prefix and number agrees, when it runs *)
Lemma glue_equal_core (af : af_type) dst f bits :
  af_appends af ->
  (chosen_fmt f bits = ch_e ->
   pkg_clean_exp (dst ++ af [] f ch_e bits) = dst ++ std_clean_exp (af [] f ch_e bits)) ->
  fres_obs (pkg_encode_float af dst f bits) = fres_obs (std_float_encode af dst f bits false).
Proof.
  intros Happ Hclean.
  destruct (fr_nan f) eqn:Hn.
  { unfold pkg_encode_float, std_float_encode. rewrite Hn, orb_true_r. reflexivity. }
  destruct (fr_inf f) eqn:Hi.
  { unfold pkg_encode_float, std_float_encode. rewrite Hn, Hi. reflexivity. }
  rewrite pkg_finite, std_finite by assumption.
  cbn [fres_obs may_append_quote]. f_equal.
  destruct (chosen_fmt_cases f bits) as [E|E]; rewrite E in *.
  - change (ch_e =? ch_e) with true. cbv beta iota zeta.
    rewrite (Happ dst). apply Hclean. reflexivity.
  - change (ch_f =? ch_e) with false. cbv beta iota zeta. apply Happ.
Qed.

Theorem float_glue_equal : float_glue_equal_statement.
Proof.
  intros af dst f bits Happ L. apply glue_equal_core; [exact Happ|].
  intros _. apply clean_prefix_long. exact L.
Qed.

Theorem float_glue_equal_shaped : float_glue_equal_shaped_statement.
Proof.
  intros af dst f bits Happ S. apply float_glue_equal; [exact Happ|].
  apply exp_shaped_len. exact S.
Qed.

Theorem float_glue_equal_nil : float_glue_equal_nil_statement.
Proof.
  intros af f bits.
  destruct (fr_nan f) eqn:Hn.
  { unfold pkg_encode_float, std_float_encode. rewrite Hn, orb_true_r. reflexivity. }
  destruct (fr_inf f) eqn:Hi.
  { unfold pkg_encode_float, std_float_encode. rewrite Hn, Hi. reflexivity. }
  rewrite pkg_finite, std_finite by assumption.
  cbn [fres_obs may_append_quote app]. f_equal.
  destruct (chosen_fmt f bits =? ch_e); cbv beta iota zeta; [apply clean_exp_same|reflexivity].
Qed.

Theorem float_glue_equal_f : float_glue_equal_f_statement.
Proof.
  intros af dst f bits Happ H. apply glue_equal_core; [exact Happ|].
  intros E. exfalso. unfold chosen_fmt in E.
  destruct H as [H|H]; rewrite H in E; [discriminate|].
  destruct (fr_nonzero f); discriminate.
Qed.

Theorem float_glue_unrestricted_refuted : float_glue_unrestricted_refuted_statement.
Proof.
  intros H.
  specialize (H (fun d _ _ _ => d ++ [48; 55]) [101; 45]
                (mk_float_repr false false true true false true false 0) 64).
  assert (A : af_appends (fun d _ _ _ => d ++ [48; 55])) by (intros d f fmt bits; reflexivity).
  specialize (H A). vm_compute in H. discriminate.
Qed.

Theorem float_error_str : float_error_str_statement.
Proof.
  intros af dst f bits Hn Hi. unfold pkg_encode_float, std_float_encode. rewrite Hn, Hi. split; reflexivity.
Qed.

(* a quote in front of the number never completes the tested pattern *)
Lemma std_clean_quote (out : bytes) : std_clean_exp (ch_quote :: out) = ch_quote :: std_clean_exp out.
Proof.
  destruct (Z_le_gt_dec 4 (len out)) as [L|L].
  - destruct (last4 out L) as (m & a & b & c & d & ->).
    change (ch_quote :: m ++ [a; b; c; d]) with ((ch_quote :: m) ++ [a; b; c; d]).
    rewrite !std_clean_last4. destruct (_ && _); reflexivity.
  - rewrite (std_clean_short out) by lia.
    destruct out as [|a [|b [|c [|d t]]]]; try reflexivity.
    exfalso. unfold len in L. cbn [length] in L. lia.
Qed.

Theorem std_quoted : std_quoted_statement.
Proof.
  intros af ebuf f bits Happ Hn Hi.
  rewrite !std_finite by assumption. cbn [may_append_quote app].
  eexists. split; [reflexivity|].
  f_equal. f_equal.
  destruct (chosen_fmt f bits =? ch_e); cbv beta iota zeta.
  - rewrite (Happ [ch_quote]). cbn [app]. rewrite std_clean_quote. reflexivity.
  - rewrite (Happ [ch_quote]). reflexivity.
Qed.

Theorem thresholds_nearest : thresholds_nearest_statement.
Proof. vm_compute. repeat split. Qed.
