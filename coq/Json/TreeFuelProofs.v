(* C02 structural part: the fuel of the value-tree decoder is immaterial once it exceeds the length of the document
   (statements of Json/TreeFuelSpec.v).
   Structure:
     A. the skipper g_value; a successful decode of a field consumes at least one byte;
     B. the loops of the decoder, for two element decoders that agree on the inputs no longer than a bound L
        and consume at least one byte on success: two counters above the length of the input give the same result;
     C. the main lemma by mutual induction on the type; jdec; the statements. *)
From Verif Require Import Base.GoInt Json.Grammar Json.FlagsModel Json.StrSpec Json.NumSpec Json.TreeModel.
From Verif Require Import Json.TreeDecSpec Json.TreeFuelSpec Json.ValidProofs Json.TreeDecProofs.
From Coq Require Import Lia ZifyBool ZifyNat.
Open Scope Z_scope.

(* ================= A. the skipper, consumption ================= *)
Lemma g_value_fuel : g_value_fuel_statement.
Proof.
  intros f1 f2 b L1 L2. destruct (g_value f1 b) as [r|] eqn:G1.
  - destruct (g_value_sufficient f1 b r G1) as [_ G]. symmetry. apply G. assumption.
  - destruct (g_value f2 b) as [r|] eqn:G2; [|reflexivity].
    destruct (g_value_sufficient f2 b r G2) as [_ G]. rewrite (G f1 L1) in G1. discriminate G1.
Qed.
Lemma g_value_consumes f b r : g_value f b = Some r -> (length r < length b)%nat.
Proof. intros G. destruct (g_value_sufficient f b r G) as [L _]. exact L. Qed.
Lemma dec_consumes t fuel cur b v r : dec t fuel cur b = DOk (v, r) -> (length r < length b)%nat.
Proof. intros H. destruct (tree_dec_value t fuel cur b v r H) as [L _]. exact L. Qed.
Lemma dec_field_consumes fs : forall fuel k curs b curs' r,
  dec_field fs fuel k curs b = DOk (Some (curs', r)) -> (length r < length b)%nat.
Proof.
  induction fs as [|name omit t rest IH]; intros fuel k curs b curs' r H; cbn [dec_field] in H; [discriminate H|].
  destruct curs as [|c curs0]; [discriminate H|].
  destruct (bytes_eqb k name).
  - destruct (negb (jmergeable t) && negb (jis_zero t c)); [discriminate H|].
    destruct (dec t fuel c b) as [[v1 r1]| |] eqn:D; cbn [dbind fst snd] in H; try discriminate H.
    injection H as _ H. subst r1. apply (dec_consumes t fuel c b v1 r D).
  - destruct (dec_field rest fuel k curs0 b) as [[[l r1]|]| |] eqn:DF; cbn [dbind] in H; try discriminate H.
    injection H as _ H. subst r1. apply (IH fuel k curs0 b l r DF).
Qed.

(* the separator of a loop gives a suffix *)
Lemma sep_len (first : bool) b b1 :
  (if first then DOk (skip_ws b) else match starts_with 44 (skip_ws b) with Some x => DOk (skip_ws x) | None => DErr end) = DOk b1 ->
  (length b1 <= length b)%nat.
Proof.
  pose proof (skip_ws_length b) as SL. destruct first; intros S.
  - injection S as S. subst b1. exact SL.
  - destruct (starts_with 44 (skip_ws b)) as [x|] eqn:S44; [|discriminate]. injection S as S. subst b1.
    apply starts_with_inv in S44. rewrite S44 in SL. cbn [length] in SL. pose proof (skip_ws_length x). lia.
Qed.

(* ================= B. the loops ================= *)
Lemma slice_loop_fuel d1 d2 L : (forall x, (length x <= L)%nat -> d1 x = d2 x) ->
  (forall x v r, d1 x = DOk (v, r) -> (length r < length x)%nat) ->
  forall n1 n2 first b, (length b <= L)%nat -> (length b < n1)%nat -> (length b < n2)%nat ->
    dec_slice_loop d1 n1 first b = dec_slice_loop d2 n2 first b.
Proof.
  intros HE HC. induction n1 as [|n1 IH]; intros n2 first b HL L1 L2; [lia|]. destruct n2 as [|n2]; [lia|].
  cbn [dec_slice_loop]. cbv zeta. destruct (starts_with 93 (skip_ws b)); [reflexivity|].
  destruct (if first then DOk (skip_ws b) else match starts_with 44 (skip_ws b) with Some x => DOk (skip_ws x) | None => DErr end)
    as [b1| |] eqn:SEP; cbn [dbind]; try reflexivity.
  apply sep_len in SEP. rewrite <- (HE b1) by lia.
  destruct (d1 b1) as [[v r]| |] eqn:D; cbn [dbind fst snd]; try reflexivity.
  apply HC in D. rewrite (IH n2 false r) by lia. reflexivity.
Qed.

Lemma surplus_fuel g1 g2 L : (L <= g1)%nat -> (L <= g2)%nat ->
  forall n1 n2 first b, (length b <= L)%nat -> (length b < n1)%nat -> (length b < n2)%nat ->
    dec_surplus g1 n1 first b = dec_surplus g2 n2 first b.
Proof.
  intros G1 G2. induction n1 as [|n1 IH]; intros n2 first b HL L1 L2; [lia|]. destruct n2 as [|n2]; [lia|].
  rewrite !dec_surplus_eq. pose proof (skip_ws_length b) as SL.
  destruct (skip_ws b) as [|c t] eqn:E; [reflexivity|]. cbn [length] in SL.
  destruct (c =? 93); [reflexivity|].
  assert (K : forall b1, (length b1 <= length b)%nat ->
    match g_value g1 b1 with None => DErr | Some r' => dec_surplus g1 n1 false r' end =
    match g_value g2 b1 with None => DErr | Some r' => dec_surplus g2 n2 false r' end).
  { intros b1 Lb. rewrite (g_value_fuel g1 g2 b1) by lia.
    destruct (g_value g2 b1) as [r'|] eqn:G; [|reflexivity]. apply g_value_consumes in G. apply IH; lia. }
  destruct first; cbn [dbind].
  - apply K. cbn [length]. lia.
  - destruct (c =? 44); cbn [dbind]; [|reflexivity]. apply K. pose proof (skip_ws_length t). lia.
Qed.

Lemma arr_loop_fuel d1 d2 zero g1 g2 L : (forall c x, (length x <= L)%nat -> d1 c x = d2 c x) ->
  (forall c x v r, d1 c x = DOk (v, r) -> (length r < length x)%nat) -> (L < g1)%nat -> (L < g2)%nat ->
  forall curs first b, (length b <= L)%nat ->
    dec_arr_loop d1 zero g1 first curs b = dec_arr_loop d2 zero g2 first curs b.
Proof.
  intros HE HC G1 G2. induction curs as [|c curs IH]; intros first b HL.
  { cbn [dec_arr_loop]. rewrite (surplus_fuel g1 g2 L ltac:(lia) ltac:(lia) g1 g2 first b) by lia. reflexivity. }
  cbn [dec_arr_loop]. cbv zeta. pose proof (skip_ws_length b) as SL.
  destruct (starts_with 93 (skip_ws b)); [reflexivity|].
  assert (K : forall b1, (length b1 <= length b)%nat ->
    dbind (d1 c b1) (fun vr => dbind (dec_arr_loop d1 zero g1 false curs (snd vr)) (fun lr => DOk (fst vr :: fst lr, snd lr))) =
    dbind (d2 c b1) (fun vr => dbind (dec_arr_loop d2 zero g2 false curs (snd vr)) (fun lr => DOk (fst vr :: fst lr, snd lr)))).
  { intros b1 Lb. rewrite <- (HE c b1) by lia.
    destruct (d1 c b1) as [[v r]| |] eqn:D; cbn [dbind fst snd]; try reflexivity.
    apply HC in D. rewrite (IH false r) by lia. reflexivity. }
  destruct first; [apply K; lia|].
  destruct (starts_with 44 (skip_ws b)) as [x|] eqn:S44; [|reflexivity].
  apply starts_with_inv in S44. rewrite S44 in SL. cbn [length] in SL. apply K. pose proof (skip_ws_length x). lia.
Qed.

Lemma uq_lit_len b k r : uq_lit b = Some (k, r) -> (length r < length b)%nat.
Proof.
  intros U. apply uq_lit_g in U. destruct U as (k0 & E & G). subst b. apply g_string_lt in G. cbn [length]. lia.
Qed.

Lemma map_loop_fuel d1 d2 L : (forall x, (length x <= L)%nat -> d1 x = d2 x) ->
  (forall x v r, d1 x = DOk (v, r) -> (length r < length x)%nat) ->
  forall n1 n2 first m b, (length b <= L)%nat -> (length b < n1)%nat -> (length b < n2)%nat ->
    dec_map_loop d1 n1 first m b = dec_map_loop d2 n2 first m b.
Proof.
  intros HE HC. induction n1 as [|n1 IH]; intros n2 first m b HL L1 L2; [lia|]. destruct n2 as [|n2]; [lia|].
  cbn [dec_map_loop]. cbv zeta. destruct (starts_with 125 (skip_ws b)); [reflexivity|].
  destruct (if first then DOk (skip_ws b) else match starts_with 44 (skip_ws b) with Some x => DOk (skip_ws x) | None => DErr end)
    as [b1| |] eqn:SEP; cbn [dbind]; try reflexivity.
  apply sep_len in SEP.
  destruct (uq_lit b1) as [[k r1]|] eqn:U; [|reflexivity]. apply uq_lit_len in U.
  pose proof (skip_ws_length r1) as SL1.
  destruct (starts_with 58 (skip_ws r1)) as [r2|] eqn:S58; [|reflexivity].
  apply starts_with_inv in S58. rewrite S58 in SL1. cbn [length] in SL1. pose proof (skip_ws_length r2) as SL2.
  rewrite <- (HE (skip_ws r2)) by lia.
  destruct (d1 (skip_ws r2)) as [[v r]| |] eqn:D; cbn [dbind fst snd]; try reflexivity.
  apply HC in D. apply IH; lia.
Qed.

Lemma struct_loop_fuel d1 d2 names g1 g2 L :
  (forall k curs x, (length x <= L)%nat -> d1 k curs x = d2 k curs x) ->
  (forall k curs x curs' r, d1 k curs x = DOk (Some (curs', r)) -> (length r < length x)%nat) ->
  (L <= g1)%nat -> (L <= g2)%nat ->
  forall n1 n2 first curs b, (length b <= L)%nat -> (length b < n1)%nat -> (length b < n2)%nat ->
    dec_struct_loop d1 names g1 n1 first curs b = dec_struct_loop d2 names g2 n2 first curs b.
Proof.
  intros HE HC G1 G2. induction n1 as [|n1 IH]; intros n2 first curs b HL L1 L2; [lia|]. destruct n2 as [|n2]; [lia|].
  cbn [dec_struct_loop]. cbv zeta. destruct (starts_with 125 (skip_ws b)); [reflexivity|].
  destruct (if first then DOk (skip_ws b) else match starts_with 44 (skip_ws b) with Some x => DOk (skip_ws x) | None => DErr end)
    as [b1| |] eqn:SEP; cbn [dbind]; try reflexivity.
  apply sep_len in SEP.
  destruct (uq_lit b1) as [[k r1]|] eqn:U; [|reflexivity]. apply uq_lit_len in U.
  pose proof (skip_ws_length r1) as SL1.
  destruct (starts_with 58 (skip_ws r1)) as [r2|] eqn:S58; [|reflexivity].
  apply starts_with_inv in S58. rewrite S58 in SL1. cbn [length] in SL1. pose proof (skip_ws_length r2) as SL2.
  destruct (resolve_key names k) as [k'|]; [|reflexivity].
  rewrite <- (HE k' curs (skip_ws r2)) by lia.
  destruct (d1 k' curs (skip_ws r2)) as [[[curs' r3]|]| |] eqn:D; cbn [dbind]; try reflexivity.
  - apply HC in D. apply IH; lia.
  - rewrite (g_value_fuel g1 g2 (skip_ws r2)) by lia.
    destruct (g_value g2 (skip_ws r2)) as [r3|] eqn:G; [|reflexivity]. apply g_value_consumes in G. apply IH; lia.
Qed.

(* ================= C. the main lemma ================= *)
Definition Pu (t : jty) : Prop :=
  forall f1 f2 cur b, (length b < f1)%nat -> (length b < f2)%nat -> dec t f1 cur b = dec t f2 cur b.
Definition Puf (fs : jfields) : Prop :=
  forall f1 f2 k curs b, (length b < f1)%nat -> (length b < f2)%nat -> dec_field fs f1 k curs b = dec_field fs f2 k curs b.

Lemma dec_all_fuel : forall t, Pu t.
Proof.
  apply (jty_dmut Pu Puf); unfold Pu, Puf.
  - intros; reflexivity.
  - intros; reflexivity.
  - intros; reflexivity.
  - (* pointer *)
    intros t IH f1 f2 cur b L1 L2. cbn [dec]. destruct (nullp b) as [x|].
    + destruct cur; try reflexivity. destruct t; try reflexivity. f_equal. apply IH; assumption.
    + f_equal. apply IH; assumption.
  - (* slice *)
    intros t IH f1 f2 cur b L1 L2. cbn [dec]. destruct (nullp b) as [x|]; [reflexivity|].
    destruct (starts_with 91 b) as [r0|] eqn:S; [|reflexivity]. apply starts_with_inv in S. subst b. cbn [length] in *.
    assert (HE : forall x, (length x <= length r0)%nat -> dec t f1 (jzero t) x = dec t f2 (jzero t) x)
      by (intros x Lx; apply IH; lia).
    assert (HC : forall x v r, dec t f1 (jzero t) x = DOk (v, r) -> (length r < length x)%nat)
      by (intros x v r; apply dec_consumes).
    rewrite (slice_loop_fuel _ _ (length r0) HE HC f1 f2 true r0) by lia. reflexivity.
  - (* array *)
    intros n t IH f1 f2 cur b L1 L2. cbn [dec]. destruct (nullp b) as [x|]; [reflexivity|].
    destruct (starts_with 91 b) as [r0|] eqn:S; [|reflexivity]. apply starts_with_inv in S. subst b. cbn [length] in *.
    cbv zeta.
    assert (HE : forall c x, (length x <= length r0)%nat -> dec t f1 c x = dec t f2 c x)
      by (intros c x Lx; apply IH; lia).
    assert (HC : forall c x v r, dec t f1 c x = DOk (v, r) -> (length r < length x)%nat)
      by (intros c x v r; apply dec_consumes).
    rewrite (arr_loop_fuel _ _ (jzero t) f1 f2 (length r0) HE HC ltac:(lia) ltac:(lia) _ true r0) by lia. reflexivity.
  - (* map *)
    intros t IH f1 f2 cur b L1 L2. cbn [dec]. destruct (nullp b) as [x|]; [reflexivity|].
    destruct (starts_with 123 b) as [r0|] eqn:S; [|reflexivity]. apply starts_with_inv in S. subst b. cbn [length] in *.
    cbv zeta.
    assert (HE : forall x, (length x <= length r0)%nat -> dec t f1 (jzero t) x = dec t f2 (jzero t) x)
      by (intros x Lx; apply IH; lia).
    assert (HC : forall x v r, dec t f1 (jzero t) x = DOk (v, r) -> (length r < length x)%nat)
      by (intros x v r; apply dec_consumes).
    rewrite (map_loop_fuel _ _ (length r0) HE HC f1 f2 true _ r0) by lia. reflexivity.
  - (* struct *)
    intros fs IH f1 f2 cur b L1 L2. cbn [dec]. destruct (nullp b) as [x|]; [reflexivity|].
    destruct (starts_with 123 b) as [r0|] eqn:S; [|reflexivity]. apply starts_with_inv in S. subst b. cbn [length] in *.
    cbv zeta.
    assert (HE : forall k curs x, (length x <= length r0)%nat -> dec_field fs f1 k curs x = dec_field fs f2 k curs x)
      by (intros k curs x Lx; apply IH; lia).
    assert (HC : forall k curs x curs' r, dec_field fs f1 k curs x = DOk (Some (curs', r)) -> (length r < length x)%nat)
      by (intros k curs x curs' r; apply dec_field_consumes).
    rewrite (struct_loop_fuel _ _ (jnames fs) f1 f2 (length r0) HE HC ltac:(lia) ltac:(lia) f1 f2 true _ r0) by lia.
    reflexivity.
  - (* no field *)
    intros; reflexivity.
  - (* a field *)
    intros name omit t IHt rest IHr f1 f2 k curs b L1 L2. cbn [dec_field].
    destruct curs as [|c curs0]; [reflexivity|].
    destruct (bytes_eqb k name).
    + rewrite (IHt f1 f2 c b L1 L2). reflexivity.
    + rewrite (IHr f1 f2 k curs0 b L1 L2). reflexivity.
Qed.

Lemma tree_dec_fuel_value : tree_dec_fuel_value_statement.
Proof. intros t f1 f2 cur b L1 L2. apply (dec_all_fuel t f1 f2 cur b L1 L2). Qed.

Lemma tree_dec_fuel : tree_dec_fuel_statement.
Proof.
  intros t f1 f2 b L1 L2. unfold jdec. pose proof (skip_ws_length b) as SL.
  rewrite (tree_dec_fuel_value t f1 f2 (jzero t) (skip_ws b)) by lia. reflexivity.
Qed.

Lemma tree_dec_fuel_canonical : tree_dec_fuel_canonical_statement.
Proof. intros t f b L. apply tree_dec_fuel; [assumption|]. unfold jdec_fuel. lia. Qed.

Print Assumptions g_value_fuel.
Print Assumptions tree_dec_fuel_value.
Print Assumptions tree_dec_fuel.
Print Assumptions tree_dec_fuel_canonical.
