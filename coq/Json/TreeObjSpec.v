(* C02 structural part: a struct is decoded from a JSON object whose members come IN ANY ORDER, with UNKNOWN
   members anywhere; the fields that do not occur keep their zero value (statement about the value-tree model of
   Json/TreeModel.v, proved in Json/TreeObjProofs.v). Definitions, the statement and examples only. *)
From Verif Require Import Base.GoInt Json.Grammar Json.FlagsModel Json.StrSpec Json.NumSpec Json.TreeModel Json.TreeSpec.
Open Scope Z_scope.

(* the i-th field of a struct type: name, omitempty, type *)
Fixpoint fnth (fs : jfields) (i : nat) : option (bytes * bool * jty) :=
  match fs with
  | FNil => None
  | FCons name o t r => match i with O => Some (name, o, t) | S j => fnth r j end
  end.
Fixpoint fcount (fs : jfields) : nat := match fs with FNil => O | FCons _ _ _ r => S (fcount r) end.

(* a member of the object: the field number i under its own name with the encoding of the value v of its type;
   the field number i under a key k that differs from its name in the case of ASCII letters only; or a key that
   names no field with the encoding of ANY value v of ANY type t of the universe *)
Inductive member : Type :=
| MField (i : nat) (v : jval)
| MFold (i : nat) (k : bytes) (v : jval)
| MUnknown (k : bytes) (t : jty) (v : jval).

(* the first name that equals the key up to the case of ASCII letters *)
Definition fold_find (names : list bytes) (k : bytes) : option bytes :=
  find (fun n => bytes_eqb (map lower n) (map lower k)) names.

Definition member_toks (fs : jfields) (m : member) : list bytes :=
  match m with
  | MField i v =>
      match fnth fs i with
      | Some (name, _, t) => [quote name; [58]] ++ jtoks t v
      | None => []
      end
  | MFold i k v =>
      match fnth fs i with
      | Some (_, _, t) => [quote k; [58]] ++ jtoks t v
      | None => []
      end
  | MUnknown k t v => [std_escape true k; [58]] ++ jtoks t v
  end.

(* the tokens of the object: brace, the members separated by commas, brace *)
Definition obj_toks (fs : jfields) (ms : list member) : list bytes :=
  [[123]] ++ sep_toks (map (member_toks fs) ms) ++ [[125]].

(* a field member: the field exists and the value is a value of its type; a field member under a folded key: the
   key is made of ASCII letters and digits, it is the exact name of NO field, and field i is the FIRST field whose
   name equals the key up to the case of ASCII letters; an unknown member: the key is made of
   bytes, its decoded form (sanitize k) is the name of no field and does not fold onto one (no byte >= 128, no
   case-insensitive match: there the model is silent), the value is a value of a type of the universe *)
Definition member_ok (fs : jfields) (m : member) : bool :=
  match m with
  | MField i v => match fnth fs i with Some (_, _, t) => jwf t v | None => false end
  | MFold i k v =>
      match fnth fs i with
      | Some (name, _, t) =>
          name_ok k && jwf t v && negb (existsb (bytes_eqb k) (jnames fs))
          && match fold_find (jnames fs) k with Some n => bytes_eqb n name | None => false end
      | None => false
      end
  | MUnknown k t v =>
      wfb k && ty_ok t && jwf t v
      && negb (existsb (bytes_eqb (sanitize k)) (jnames fs))
      && negb (fold_hit (jnames fs) (sanitize k))
  end.

(* the field numbers of the field members, in the order of the members *)
Fixpoint field_ids (ms : list member) : list nat :=
  match ms with
  | [] => []
  | MField i _ :: r => i :: field_ids r
  | MFold i _ _ :: r => i :: field_ids r
  | MUnknown _ _ _ :: r => field_ids r
  end.

(* list update *)
Fixpoint upd (i : nat) (x : jval) (l : list jval) {struct l} : list jval :=
  match l with
  | [] => []
  | y :: r => match i with O => x :: r | S j => y :: upd j x r end
  end.

(* what one member does to the field values *)
Definition apply_member (fs : jfields) (curs : list jval) (m : member) : list jval :=
  match m with
  | MField i v | MFold i _ v => match fnth fs i with Some (_, _, t) => upd i (jnorm t v) curs | None => curs end
  | MUnknown _ _ _ => curs
  end.
(* the result: start from the zero values, apply the members in order *)
Definition apply_members (fs : jfields) (ms : list member) : list jval :=
  fold_left (apply_member fs) ms (jzeros fs).

(* ========================================= statements ========================================= *)

(* Unmarshal of an object whose members are fields of the struct type in any order (each at most once, under its
   name or under a key that selects it case-insensitively) and unknown members anywhere, with any white space between the tokens: every field that occurs holds the normalised value of
   its member, every other field holds its zero value *)
Definition tree_obj_any_order_statement : Prop :=
  forall (ws : nat -> bytes) (fs : jfields) (ms : list member) (fuel : nat),
    ws_ok ws -> ty_ok (JStruct fs) = true ->
    forallb (member_ok fs) ms = true -> NoDup (field_ids ms) ->
    (length (render ws 0%nat (obj_toks fs ms)) < fuel)%nat ->
    jdec fuel (JStruct fs) (render ws 0%nat (obj_toks fs ms)) = DOk (VStruct (apply_members fs ms)).

(* what apply_members is, position by position: as long as the list of the struct, the value of the member of field
   i when there is one, the zero value otherwise *)
Definition apply_members_spec_statement : Prop :=
  forall (fs : jfields) (ms : list member),
    NoDup (field_ids ms) ->
    length (apply_members fs ms) = fcount fs /\
    forall (i : nat) (name : bytes) (o : bool) (t : jty), fnth fs i = Some (name, o, t) ->
      (forall v, In (MField i v) ms -> nth i (apply_members fs ms) VNil = jnorm t v) /\
      (forall k v, In (MFold i k v) ms -> nth i (apply_members fs ms) VNil = jnorm t v) /\
      (~ In i (field_ids ms) -> nth i (apply_members fs ms) VNil = jzero t).

(* the same members in another order give the same struct *)
Definition tree_obj_permutation_statement : Prop :=
  forall (ws1 ws2 : nat -> bytes) (fs : jfields) (ms1 ms2 : list member) (fuel : nat),
    ws_ok ws1 -> ws_ok ws2 -> ty_ok (JStruct fs) = true ->
    forallb (member_ok fs) ms1 = true -> NoDup (field_ids ms1) ->
    (forall m, In m ms1 <-> In m ms2) -> NoDup (field_ids ms2) ->
    (length (render ws1 0%nat (obj_toks fs ms1)) < fuel)%nat ->
    (length (render ws2 0%nat (obj_toks fs ms2)) < fuel)%nat ->
    jdec fuel (JStruct fs) (render ws1 0%nat (obj_toks fs ms1)) = jdec fuel (JStruct fs) (render ws2 0%nat (obj_toks fs ms2)).

(* ========================================= examples ========================================= *)
(* struct { a int8; b []string omitempty; c struct { x bool; y *uint16 }; d map[string]int32 } *)
Definition exo_fs : jfields :=
  FCons [97] false (JInt true 8)
  (FCons [98] true (JSlice JStr)
  (FCons [99] false (JStruct (FCons [120] false JBool (FCons [121] false (JPtr (JInt false 16)) FNil)))
  (FCons [100] false (JMap (JInt true 32)) FNil))).
(* the unknown member zz : [{q: [1, 2], r: null}, {}] as a value of type []map[string]*[2]uint8 *)
Definition exo_ut : jty := JSlice (JMap (JPtr (JArr 2 (JInt false 8)))).
Definition exo_uv : jval := VList [VMap [([113], VPtr (VList [VInt 1; VInt 2])); ([114], VNil)]; VMap []].
(* members: d, c, the unknown zz, a; b does not occur *)
Definition exo_ms : list member :=
  [MField 3 (VMap [([107], VInt (-7)); ([108], VInt 9)]);
   MField 2 (VStruct [VBool true; VPtr (VInt 65535)]);
   MUnknown [122; 122] exo_ut exo_uv;
   MField 0 (VInt (-128))].
(* every member first: an unknown member with a key that needs escaping, then b with an empty list *)
Definition exo_ms2 : list member :=
  [MUnknown [60; 34; 195; 169] JStr (VStr [104; 105]); MField 1 (VList []); MUnknown [] JBool (VBool false)].

Example exo_hyps : ty_ok (JStruct exo_fs) = true /\ forallb (member_ok exo_fs) exo_ms = true
  /\ field_ids exo_ms = [3; 2; 0]%nat.
Proof. vm_compute. auto. Qed.
(* the second list is NOT in the scope of the statement: the key of its first member holds bytes >= 128
   (the model is silent there) *)
Example exo_hyps2 : forallb (member_ok exo_fs) exo_ms2 = false
  /\ forallb (member_ok exo_fs) (tl exo_ms2) = true.
Proof. vm_compute. auto. Qed.
(* the document without white space *)
Example exo_doc : render no_ws 0%nat (obj_toks exo_fs exo_ms) =
  [123; 34; 100; 34; 58; 123; 34; 107; 34; 58; 45; 55; 44; 34; 108; 34; 58; 57; 125; 44;
   34; 99; 34; 58; 123; 34; 120; 34; 58; 116; 114; 117; 101; 44; 34; 121; 34; 58; 54; 53; 53; 51; 53; 125; 44;
   34; 122; 122; 34; 58; 91; 123; 34; 113; 34; 58; 91; 49; 44; 50; 93; 44; 34; 114; 34; 58; 110; 117; 108; 108; 125; 44; 123; 125; 93; 44;
   34; 97; 34; 58; 45; 49; 50; 56; 125].
Proof. vm_compute. reflexivity. Qed.
Example exo_apply : apply_members exo_fs exo_ms =
  [VInt (-128); VNil; VStruct [VBool true; VPtr (VInt 65535)]; VMap [([107], VInt (-7)); ([108], VInt 9)]].
Proof. vm_compute. reflexivity. Qed.
(* the statement on the example, without and with white space *)
Example exo_dec : jdec (jdec_fuel (render no_ws 0%nat (obj_toks exo_fs exo_ms))) (JStruct exo_fs)
    (render no_ws 0%nat (obj_toks exo_fs exo_ms)) = DOk (VStruct (apply_members exo_fs exo_ms)).
Proof. vm_compute. reflexivity. Qed.
Example exo_dec_ws : jdec (jdec_fuel (render ex_ws 0%nat (obj_toks exo_fs exo_ms))) (JStruct exo_fs)
    (render ex_ws 0%nat (obj_toks exo_fs exo_ms)) = DOk (VStruct (apply_members exo_fs exo_ms)).
Proof. vm_compute. reflexivity. Qed.
Example exo_dec2 : jdec (jdec_fuel (render ex_ws 0%nat (obj_toks exo_fs (tl exo_ms2)))) (JStruct exo_fs)
    (render ex_ws 0%nat (obj_toks exo_fs (tl exo_ms2)))
  = DOk (VStruct [VInt 0; VList []; VStruct [VBool false; VNil]; VNil])
  /\ apply_members exo_fs (tl exo_ms2) = [VInt 0; VList []; VStruct [VBool false; VNil]; VNil].
Proof. vm_compute. auto. Qed.
(* the empty object: every field zero *)
Example exo_dec_empty : jdec 10 (JStruct exo_fs) (render ex_ws 0%nat (obj_toks exo_fs [])) = DOk (jzero (JStruct exo_fs))
  /\ apply_members exo_fs [] = jzeros exo_fs.
Proof. vm_compute. auto. Qed.
(* a field twice is outside the statement (NoDup): a second decode into a non-empty slice makes the model silent
   (other kinds of fields are decoded in place: the second value is merged into the first, not substituted) *)
Example exo_dup : jdec 100 (JStruct exo_fs) (render no_ws 0%nat (obj_toks exo_fs [MField 1 (VList [VStr [120]]); MField 1 (VList [])])) = DOut.
Proof. vm_compute. reflexivity. Qed.

(* keys that differ from a field name in the case of ASCII letters: struct { Ab int8; aB int8; c bool };
   the key AB selects Ab (the first), the key ab too when it comes alone, the exact key aB selects aB; C selects c *)
Definition exf_fs : jfields :=
  FCons [65; 98] false (JInt true 8) (FCons [97; 66] false (JInt true 8) (FCons [99] false JBool FNil)).
Definition exf_ms : list member := [MFold 2 [67] (VBool true); MField 1 (VInt 2); MFold 0 [65; 66] (VInt 1)].
Example exf_hyps : ty_ok (JStruct exf_fs) = true /\ forallb (member_ok exf_fs) exf_ms = true
  /\ field_ids exf_ms = [2; 1; 0]%nat
  /\ member_ok exf_fs (MFold 0 [97; 98] (VInt 1)) = true
  /\ member_ok exf_fs (MFold 1 [65; 66] (VInt 1)) = false      (* aB is not the first *)
  /\ member_ok exf_fs (MFold 1 [97; 66] (VInt 1)) = false.     (* an exact name is not a folded key *)
Proof. vm_compute. auto 10. Qed.
Example exf_doc : render no_ws 0%nat (obj_toks exf_fs exf_ms) =
  [123; 34; 67; 34; 58; 116; 114; 117; 101; 44; 34; 97; 66; 34; 58; 50; 44; 34; 65; 66; 34; 58; 49; 125].
Proof. vm_compute. reflexivity. Qed.
Example exf_dec : jdec 100 (JStruct exf_fs) (render ex_ws 0%nat (obj_toks exf_fs exf_ms))
  = DOk (VStruct (apply_members exf_fs exf_ms))
  /\ apply_members exf_fs exf_ms = [VInt 1; VInt 2; VBool true].
Proof. vm_compute. auto. Qed.
